#!/usr/bin/env python3
"""register a property: bin/register.py Cxx '<claim text>' '<level note>' '<trusted;base;items>' '<assumptions;...>' [design_ref]"""
import json, sys
prop, text, note, tb, assum = sys.argv[1:6]
m = json.load(open('/verif/MANIFEST.json'))
m['checks'] = [c for c in m['checks'] if c['property_id'] != prop]
m['checks'].append({"property_id": prop, "quick_cmd": "bin/check %s quick" % prop, "thorough_cmd": "bin/check %s thorough" % prop,
  "evidence_file": "evidence/%s.json" % prop, "replay_cmd_template": "bin/check replay {path}", "engine": "lean",
  "level_claimed": {"category": "proof", "text": text, "design_ref": "DESIGN.md section 5 " + prop}, "level_note": note,
  "technique": "Lean 4 proof over hand-written model + regenerated facts + differential correspondence"})
m['checks'].sort(key=lambda c: c['property_id'])
m['not_applicable'] = [x for x in m['not_applicable'] if x['property_id'] != prop]
for e in m['engines']:
    e['serves_properties'] = sorted(set(e['serves_properties'] + [prop]))
json.dump(m, open('/verif/MANIFEST.json', 'w'), indent=1)
d = json.load(open('/verif/bin/levels.json'))
d[prop] = {"level": "proof", "trusted_base": [x for x in tb.split(';') if x], "assumptions": [x for x in assum.split(';') if x], "explanation": text}
json.dump(d, open('/verif/bin/levels.json', 'w'), indent=1)
