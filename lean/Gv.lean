import Gv.Sexp
import Gv.Model.Str
import Gv.Model.Facts
import Gv.Model.Comments
