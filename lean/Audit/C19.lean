import Gv.Props.C19
open Gv.Props.C19
#print axioms tie_prefix
#print axioms tie_markers
#print axioms tie_noScanLimit
#print axioms tie_shape
#print axioms C19_setting_iff
#print axioms C19_setting_mem
#print axioms settingOf_some
#print axioms C19_command
#print axioms C19_no_marker_no_converter
#print axioms C19_variables_wrong_kind
#print axioms C19_converter_wrong_kind
#print axioms C19_converter_not_interface
#print axioms C19_converter_multiple
#print axioms C19_marked_interface
#print axioms C19_funcs_ignored
#print axioms C19_D13_witness
#print axioms C19_marker_error_partial
