import Gv.Sexp
import Gv.Driver.Comments
import Gv.Driver.Settings
import Gv.Driver.Signature
import Gv.Driver.Layout
import Gv.Driver.Gen
import Gv.Driver.Eval
import Gv.Driver.Namer

open Gv Gv.Sexp Gv.Driver

def dispatch (req : Sexp) : Sexp :=
  match head? req with
  | some "layout" => handleLayout req
  | some "c2s" => handleC2S req
  | some "slines" => handleSLines req
  | some "command" => handleCommand req
  | some "localctx" => handleLocalCtx req
  | some "resolve" => handleResolve req
  | some "path" => handlePath req
  | some "sig" => handleSig req
  | some "consumer" => handleConsumer req
  | some "extsel" => handleExtSel req
  | some "extlist" => handleExtList req
  | some "place" => handlePlace req
  | some "cli" => handleCli req
  | some "misc" => handleMisc req
  | some "gen" => handleGen req
  | some "eval" => handleEval req
  | some "namer" => handleNamer req
  | _ => mkList "err" [.atom "unknown-request"]

partial def loop (hin hout : IO.FS.Stream) : IO Unit := do
  let line ← hin.getLine
  if line.isEmpty then return ()
  let out :=
    match Sexp.parse line with
    | some req =>
      let id := (args req).headD (.atom "?")
      mkList "r" [id, dispatch req]
    | none => mkList "r" [.atom "?", mkList "err" [.atom "parse"]]
  hout.putStrLn (Sexp.toString out)
  hout.flush
  loop hin hout

def main : IO Unit := do
  loop (← IO.getStdin) (← IO.getStdout)
