/-
A decidable check that custom functions and declared methods are used at EVERY position of their pair (C06): the walk
goes through every method body with the (source, target) types of each position — pointer, list, map, struct-field,
source-pointer / target-pointer, underlying-type and constructor positions, exactly as `Gen.noLookup` / `structFields`
descend — and requires, at every position below the root of a body:

* if `Gen.indexGet (Gen.extendIndex p.conv) s t gm.contexts` is a hit `i`: the node IS `.call (.custom i) args …`, with
  `args` the roles of the function's declared arguments in declared order (converter → `self`, context of type T →
  `ctx T`, source → `source`);
* else if the index of the DECLARED (explicit, non-update) methods has a hit `m`: the node IS `.call (.method m) args …`
  whose context slots are the callee's context argument types in declared order;
* an `unsatisfied` lookup (a function for the pair whose contexts are not available) is rejected (`Gen` fails there);
* otherwise the node is whatever rule applied, and the walk descends.

`available` is `gm.contexts`: in the final method table every method was last built with its own contexts available
(`Gen.buildDirty`), and a method built inside its creator was rebuilt if it needed any (`Gen.addContext` marks it dirty).

The ROOT of a body is not looked up by `Gen.buildMethod`: a method does not call itself for its own pair; if an extend
function exists for the method's own pair the body must be the delegation to it (`Body.delegate`).

Positions that are skipped, explicitly:
* the constructor call of `default FUNC` (`withCtor` / `ctorUpdate`, first component): not a conversion position;
* a target field with `map … | FUNC`: the node must be the call of exactly that function (its own field settings win);
* the call of a source-struct method (`viaMethod`): not a conversion position; the conversion of its result IS checked;
* generated (non-explicit) methods are not required at their pair: whether a position calls a generated method depends
  on the build order (`shouldCreateSubMethod`), and the property speaks about extend functions and declared methods.
Positions whose types the walk cannot determine (a node that does not fit the types, a field path that does not resolve)
are REJECTED.
-/
import Gv.Model.Eval

namespace Gv.CustomCheck
open Gv Gv.Str Gv.Eval

inductive Look
  | none
  | custom (i : Nat)
  | method (m : Nat)
  | unsat
  deriving Repr, DecidableEq, Inhabited

/-- the lookup index restricted to the declared methods -/
def declIndex (ms : List GenMethod) : List (Nat × Ty × Ty × List Ty) :=
  (ms.zipIdx.filter (fun (m, _) => !m.updateTarget && m.explicit)).map (fun (m, i) => (i, m.source, m.target, m.contexts))

/-- `Gen.callExisting`: the extend index first, then the methods -/
def look (p : Program) (avail : List Ty) (s t : Ty) : Look :=
  match Gen.indexGet (Gen.extendIndex p.conv) s t avail with
  | .hit i => .custom i
  | .unsatisfied => .unsat
  | .none =>
    match Gen.indexGet (declIndex p.methods) s t avail with
    | .hit m => .method m
    | .unsatisfied => .unsat
    | .none => .none

/-- the call arguments are the roles of the declared arguments, in declared order -/
def argsMatch : List Arg → List CallArg → Bool
  | [], [] => true
  | a :: as, x :: xs =>
    (match a.use, x with
     | .iface, .self => true
     | .context, .ctx ty => ty == a.ty
     | .source, .source => true
     | _, _ => false) && argsMatch as xs
  | _, _ => false

/-- the node at a position is what the lookup of that position demands -/
def headOK (p : Program) (r : Look) (c : Conv) : Bool :=
  match r, c with
  | .none, _ => true
  | .custom i, .call (.custom j) args _ _ =>
    i == j && (match p.conv.customs[i]? with | some d => argsMatch d.args args | none => false)
  | .method m, .call (.method j) args _ _ =>
    m == j && (match p.methods[m]? with | some gm => argsMatch gm.args args | none => false)
  | _, _ => false

/-- `buildMethod`: the struct type whose field settings the method's configuration addresses -/
def fieldsTarget (p : Program) (gm : GenMethod) : Ty :=
  match isPtr p.conv.env gm.target with
  | some e => if (isStruct p.conv.env e).isSome then e else gm.target
  | none => gm.target

/-- `fieldCfgOf … .function`: the function of `map … | FUNC` for this target field, if any -/
def fieldFn (p : Program) (gm : GenMethod) (t : Ty) (name : S) : Option Nat :=
  if fieldsTarget p gm == t then ((gm.cfg.fields.lookup name).getD {}).function else none

/-- the type handed to the conversion of a mapped field (`mapField`: the leaf of the source path, as a pointer when a
guarded non-pointer leaf is passed on) -/
def fieldSrc (p : Program) (path : List S) (s : Ty) : Option Ty :=
  match Gen.walkPath p.conv path s [] false with
  | .ok (leaf, _, guarded, none) =>
    some (if guarded && !(isPtr p.conv.env leaf).isSome then .ptr leaf else leaf)
  | _ => none

/-- the same for a field fed from a method `name` of the struct reached by `path`: the method's result -/
def fieldSrcVia (p : Program) (path : List S) (name : S) (s : Ty) : Option Ty :=
  match Gen.walkPath p.conv (path ++ [name]) s [] false with
  | .ok (_, _, guarded, some (_, md, _)) =>
    match md.sig.results with
    | r :: _ => some (if guarded && !(isPtr p.conv.env r).isSome then .ptr r else r)
    | [] => none
  | _ => none

def isCustomCall (c : Conv) (fi : Nat) : Bool :=
  match c with
  | .call (.custom j) _ _ _ => j == fi
  | _ => false

def structMethodName : Conv → Option S
  | .call (.structMethod n) _ _ _ => some n
  | _ => none

mutual
  /-- `okNode p gm c s t`: node `c` converts `s` to `t` by some rule, and every position below it is in order -/
  def okNode (p : Program) (gm : GenMethod) : Conv → Ty → Ty → Bool
    | .ident, _, _ => true
    | .cast inner, _, _ => (match inner with | .ident => true | _ => false)
    | .underlying cs ct inner, s, t =>
      let s' := if cs then under p.conv.env s else s
      let t' := if ct then under p.conv.env t else t
      (match look p gm.contexts s' t' with
       | .none => okNode p gm inner s' t'
       | r => headOK p r inner)
    | .call _ _ _ _, _, _ => true
    | .ptrPtr _ inner, s, t =>
      (match isPtr p.conv.env s, isPtr p.conv.env t with
       | some s', some t' =>
         (match look p gm.contexts s' t' with
          | .none => okNode p gm inner s' t'
          | r => headOK p r inner)
       | _, _ => false)
    | .srcPtr _ inner, s, t =>
      (match isPtr p.conv.env s with
       | some s' =>
         (match look p gm.contexts s' t with
          | .none => okNode p gm inner s' t
          | r => headOK p r inner)
       | none => false)
    | .tgtPtr _ inner, s, t =>
      (match isPtr p.conv.env t with
       | some t' =>
         (match look p gm.contexts s t' with
          | .none => okNode p gm inner s t'
          | r => headOK p r inner)
       | none => false)
    | .list _ _ _ elem, s, t =>
      (match isList p.conv.env s, isList p.conv.env t with
       | some (s', _), some (t', _) =>
         (match look p gm.contexts s' t' with
          | .none => okNode p gm elem s' t'
          | r => headOK p r elem)
       | _, _ => false)
    | .mapc _ _ key val, s, t =>
      (match isMap p.conv.env s, isMap p.conv.env t with
       | some (sk, sv), some (tk, tv) =>
         (match look p gm.contexts sk tk with
          | .none => okNode p gm key sk tk
          | r => headOK p r key) &&
         (match look p gm.contexts sv tv with
          | .none => okNode p gm val sv tv
          | r => headOK p r val)
       | _, _ => false)
    | .structc fields _, s, t =>
      (match isStruct p.conv.env t with
       | some tfs => okFields p gm fields s t tfs.toList
       | none => false)
    | .enumc _ _, _, _ => true
    | .withCtor _ _ rest, s, t => okNode p gm rest s t
    | .ctorUpdate _ _ srcIsPtr tgtIsPtr inner, s, t =>
      (match (if srcIsPtr then isPtr p.conv.env s else some s), (if tgtIsPtr then isPtr p.conv.env t else some t) with
       | some s', some t' =>
         (match look p gm.contexts s' t' with
          | .none => okNode p gm inner s' t'
          | r => headOK p r inner)
       | _, _ => false)
  /-- one plan per target field, in declaration order -/
  def okFields (p : Program) (gm : GenMethod) : FieldPlans → Ty → Ty → List (FieldInfo × Ty) → Bool
    | .nil, _, _, [] => true
    | .cons f rest, s, t, (tf, tty) :: tfs => okField p gm f s t tf tty && okFields p gm rest s t tfs
    | _, _, _, _ => false
  def okField (p : Program) (gm : GenMethod) : FieldPlan → Ty → Ty → FieldInfo → Ty → Bool
    | .skip target, _, _, tf, _ => target == tf.name
    | .mapped target path _ _ _ cv _, s, t, tf, tty =>
      target == tf.name &&
      (match fieldFn p gm t tf.name with
       | some fi => isCustomCall cv fi
       | none =>
         match fieldSrc p path s with
         | some s' =>
           (match look p gm.contexts s' tty with
            | .none => okNode p gm cv s' tty
            | r => headOK p r cv)
         | none => false)
    | .viaMethod target path _ _ call _ cv _, s, t, tf, tty =>
      target == tf.name &&
      (match fieldFn p gm t tf.name with
       | some fi => isCustomCall cv fi
       | none =>
         match structMethodName call with
         | none => false
         | some n =>
           match fieldSrcVia p path n s with
           | some s' =>
             (match look p gm.contexts s' tty with
              | .none => okNode p gm cv s' tty
              | r => headOK p r cv)
           | none => false)
end

/-- `delegateMethod`: the arguments of the delegation are the roles of the function's arguments -/
def delegArgs : List Arg → List CallArg → Bool
  | [], [] => true
  | a :: as, x :: xs =>
    (match a.use, x with
     | .iface, .self => true
     | .context, .ctx ty => ty == a.ty
     | .source, .source => true
     | _, _ => false) && delegArgs as xs
  | _, _ => false

def okBody (p : Program) (gm : GenMethod) : Bool :=
  match gm.body with
  | some (.convert c) =>
    -- no extend function for the method's own pair (else the body is the delegation), then the rule at the root
    (match Gen.indexGet (Gen.extendIndex p.conv) gm.source gm.target gm.contexts with
     | .none => okNode p gm c gm.source gm.target
     | _ => false)
  | some (.delegate i args _) =>
    (match Gen.indexGet (Gen.extendIndex p.conv) gm.source gm.target gm.contexts with
     | .hit j => i == j && (match p.conv.customs[i]? with | some d => delegArgs d.args args | none => false)
     | _ => false)
  | some (.update srcIsPtr c) =>
    (match (if srcIsPtr then isPtr p.conv.env gm.source else some gm.source), isPtr p.conv.env gm.target with
     | some s', some t' => okNode p gm c s' t'
     | _, _ => false)
  | none => false       -- every method of a generated program has a body

/-- custom functions and declared methods are used at every position of their pair, in every method body -/
def customsFirst (p : Program) : Bool := p.methods.all (okBody p)

/-- the same for what `Gen.generate` returns (for the driver) -/
def customsFirstOf (conv : Gen.Converter) (ms : List GenMethod) : Bool :=
  customsFirst { conv := conv, methods := ms }

end Gv.CustomCheck
