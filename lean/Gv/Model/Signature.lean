/-
Model of method/parse.go `Parse`: classification of parameters and results of a
conversion function by role, and the rejections.
-/
import Gv.Model.Str

namespace Gv.Signature
open Gv.Str

inductive ParamsMode | required | optional | none
  deriving Repr, DecidableEq, Inhabited

structure Opts where
  params : ParamsMode := .required
  multiSource : Bool := false
  allowTypeParams : Bool := false
  updateParam : S := []
  localContext : List S := []
  deriving Repr, Inhabited

/-- what the model needs to know of one parameter: name, type (as the type string the code keys on),
whether the type is identical to the converter interface, and whether the context regex matches the name
(an oracle answer: Go regexp) -/
structure Param where
  name : S
  ty : S
  isConverter : Bool
  ctxMatch : Bool
  deriving Repr, DecidableEq, Inhabited

structure Result where
  ty : S
  isError : Bool       -- the builtin `error` (named `error`, no package)
  deriving Repr, DecidableEq, Inhabited

structure Obj where
  accessible : Bool
  isFunc : Bool
  typeParams : Bool
  params : List Param
  results : List Result
  deriving Repr, Inhabited

inductive Role | source | multiSource | iface | context | target
  deriving Repr, DecidableEq, Inhabited

inductive PErr
  | notExported | notFunction | updateResults | updateArgMissing | resultCount | secondNotError
  | generic | noSourceAllowed | sourceRequired | oneSourceOnly
  deriving Repr, DecidableEq, Inhabited

structure Def where
  roles : List Role := []          -- one per parameter, in declared order (RawArgs)
  source : Option S := none
  multiSources : List S := []
  target : Option S := none
  contexts : List S := []          -- type strings (the code keeps a map)
  returnError : Bool := false
  updateTarget : Bool := false
  deriving Repr, DecidableEq, Inhabited

/-- the role decision for one parameter, given whether a source has been seen already -/
def roleOf (o : Opts) (sourceSeen : Bool) (p : Param) : Role :=
  if p.isConverter then .iface
  else if !o.updateParam.isEmpty && p.name == o.updateParam then .target
  else if p.ctxMatch || o.localContext.contains p.name then .context
  else if !sourceSeen then .source
  else .multiSource

/-- the parameter loop of `Parse` -/
def classify (o : Opts) (results : List Result) : Def → List Param → Except PErr Def
  | d, [] => .ok d
  | d, p :: ps =>
    match roleOf o d.source.isSome p with
    | .iface => classify o results { d with roles := d.roles ++ [.iface] } ps
    | .target =>
      let d' := { d with roles := d.roles ++ [.target], target := some p.ty, updateTarget := true }
      match results with
      | [] => classify o results d' ps
      | [r] => if r.isError then classify o results { d' with returnError := true } ps else .error .updateResults
      | _ => .error .updateResults
    | .context =>
      classify o results { d with roles := d.roles ++ [.context],
                                  contexts := if d.contexts.contains p.ty then d.contexts else d.contexts ++ [p.ty] } ps
    | .source => classify o results { d with roles := d.roles ++ [.source], source := some p.ty } ps
    | .multiSource => classify o results { d with roles := d.roles ++ [.multiSource], multiSources := d.multiSources ++ [p.ty] } ps

def chk (c : Bool) (e : PErr) : Except PErr Unit := if c then .error e else .ok ()

/-- target and error result of a non-update method (an update method was completed in the loop) -/
def finishResults (results : List Result) (d : Def) : Except PErr Def :=
  if d.updateTarget then .ok d
  else
    match results with
    | [r] => .ok { d with target := some r.ty }
    | [r, e] => if e.isError then .ok { d with target := some r.ty, returnError := true } else .error .secondNotError
    | _ => .error .resultCount

/-- `method.Parse` -/
def parse (o : Opts) (obj : Obj) : Except PErr Def := do
  chk (!obj.accessible) .notExported
  chk (!obj.isFunc) .notFunction
  let d0 ← classify o obj.results {} obj.params
  chk (!d0.updateTarget && !o.updateParam.isEmpty) .updateArgMissing
  let d ← finishResults obj.results d0
  chk (obj.typeParams && !o.allowTypeParams) .generic
  chk (o.params == .none && d.source.isSome) .noSourceAllowed
  chk (o.params == .required && d.source.isNone) .sourceRequired
  chk (!o.multiSource && !d.multiSources.isEmpty) .oneSourceOnly
  pure d

end Gv.Signature

namespace Gv.Signature
open Gv.Str

/-- who parses a function signature: the converter method itself, an `extend` function, a `map … | FUNC`
function, a `default` constructor, a method of the source struct used as a field source -/
inductive Consumer | converterMethod | extend | mapFunc | dflt | structMethod
  deriving Repr, DecidableEq, Inhabited

/-- at which level the `arg:context:regex` a consumer uses is resolved -/
inductive RegexScope | method | converter | fixedAll
  deriving Repr, DecidableEq, Inhabited

def Consumer.scope : Consumer → RegexScope
  | .converterMethod => .method | .mapFunc => .method | .dflt => .method
  | .extend => .converter
  | .structMethod => .fixedAll

/-- the pattern a consumer classifies context parameters with, given the three levels a user can write it on
(inheritance of C12: method, else converter, else command line) -/
def effPattern (k : Consumer) (cli conv meth : Option S) : Option S :=
  match k.scope with
  | .method => meth <|> conv <|> cli
  | .converter => conv <|> cli
  | .fixedAll => some ".*".toList

/-- the parsing profile of a consumer (`updateParam` / local contexts exist for the converter method only) -/
def consumerOpts (k : Consumer) (updateParam : S) (localContext : List S) : Opts :=
  match k with
  | .converterMethod => { params := .required, updateParam := updateParam, localContext := localContext }
  | .extend => { params := .required }
  | .mapFunc => { params := .optional, allowTypeParams := true }
  | .dflt => { params := .optional, allowTypeParams := true }
  | .structMethod => { params := .none }

/-- does the consumer recognise a parameter of the converter's own type (`Converter:` set)? -/
def Consumer.seesConverter : Consumer → Bool
  | .extend | .mapFunc | .dflt => true
  | _ => false

/-- the text of the `method.ParseOpts` literal a consumer must be written with (tie: Facts.parseOptsSites) -/
def Consumer.site (k : Consumer) : String :=
  let o := consumerOpts k [] []
  let loc := match k with
    | .converterMethod => "method.go:parseMethod" | .extend => "converter.go:parseConverterLine"
    | .mapFunc => "method.go:parseMethodLine" | .dflt => "method.go:parseMethodLine" | .structMethod => "struct.go:mapField"
  let params := match o.params with | .required => "method.ParamsRequired" | .optional => "method.ParamsOptional" | .none => "method.ParamsNone"
  let ctx := match k.scope with | .method => "m.ArgContextRegex" | .converter => "c.ArgContextRegex" | .fixedAll => "config.StructMethodContextRegex"
  let conv := if k.seesConverter then "c.typeForMethod()" else "nil"
  let gen := if k == .converterMethod then "true" else "false"
  let upd := if k == .converterMethod then "m.updateParam" else "\"\""
  loc ++ "|params=" ++ params ++ "|ctx=" ++ ctx ++ "|tp=" ++ toString o.allowTypeParams ++ "|conv=" ++ conv ++
    "|generated=" ++ gen ++ "|update=" ++ upd ++ "|multi=" ++ toString o.multiSource

def allConsumers : List Consumer := [.extend, .mapFunc, .dflt, .converterMethod, .structMethod]

end Gv.Signature

namespace Gv.Signature
open Gv.Str

/-- one package-level object seen by `goverter:extend PKG:PATTERN` -/
structure Cand where
  name : S
  /-- the pattern matches the whole name (an oracle answer: Go regexp, leftmost match = whole string) -/
  fullMatch : Bool
  obj : Obj
  /-- the `goverter:context ARG` lines of the function's own doc comment (`pkgload.localConfig`, looked up under the
  FUNCTION's name — not under the text of the extend setting) -/
  localCtx : List S := []
  deriving Repr, Inhabited

inductive SelErr
  | notFound            -- a literal name that does not exist in the package
  | parse (e : PErr)    -- a literal name whose object is not a usable conversion function
  | noMatch             -- a pattern without any usable match
  deriving Repr, DecidableEq, Inhabited

/-- the options a candidate is parsed with: the consumer's options plus the candidate's own context declarations -/
def candOpts (o : Opts) (c : Cand) : Opts := { o with localContext := o.localContext ++ c.localCtx }

def usable (o : Opts) (c : Cand) : Bool := match parse (candOpts o c) c.obj with | .ok _ => true | .error _ => false

/-- `pkgload.GetMatching`: a literal name selects exactly that function (or fails with its reason); a pattern selects
every fully matching object that parses as a conversion function, in the order of the package scope (sorted names) -/
def selectExtend (literal : Bool) (lit : S) (o : Opts) (cands : List Cand) : Except SelErr (List S) :=
  if literal then
    match cands.find? (fun c => c.name == lit) with
    | none => .error .notFound
    | some c => (match parse (candOpts o c) c.obj with | .ok _ => .ok [c.name] | .error e => .error (.parse e))
  else
    let ms := cands.filter (fun c => c.fullMatch && usable o c)
    if ms.isEmpty then .error .noMatch else .ok (ms.map (·.name))

/-- one name of a `goverter:extend` line: the package it addresses and what it selects there -/
structure ExtEntry where
  pkg : S
  literal : Bool
  lit : S
  cands : List Cand
  deriving Repr, Inhabited

/-- the extend list of a converter (`config.parseConverterLine`, case "extend"): the names of all its extend lines in source
order (global lines first), each contributing its selection, qualified by its package, at the end of the list; nothing is
dropped or merged (two packages may declare functions with the same identifier), and the first name that selects nothing
usable fails the configuration, whatever follows it on the line -/
def extendList (o : Opts) : List ExtEntry → Except SelErr (List (S × S))
  | [] => .ok []
  | e :: rest =>
    match selectExtend e.literal e.lit o e.cands with
    | .error x => .error x
    | .ok names =>
      match extendList o rest with
      | .error x => .error x
      | .ok more => .ok (names.map (fun n => (e.pkg, n)) ++ more)

end Gv.Signature
