/-
What the emitted file needs beyond the user's own packages (generator/generator.go wrap, builder/errorpath.go,
builder/enum.go caseAction): `fmt` and the wrapErrorsUsing package.
-/
import Gv.Model.Plan

namespace Gv.Emit
open Gv

/-- does wrapping this call site's error emit a `fmt.Errorf` / a call into the wrap package? -/
def wrapNeedsFmt (w : Wrap) : Bool :=
  match w.mode with
  | .wrapErrors => (match w.path.getLast? with | some (.field _) => true | some .index => true | _ => false)
  | _ => false

def wrapNeedsPkg (w : Wrap) : Option Str.S :=
  match w.mode with
  | .using pkg => some pkg
  | _ => none

def actionNeedsFmt : EnumAction → Bool
  | .panic => true
  | .error _ => true
  | _ => false

def actionPkg : EnumAction → Option Str.S
  | .error w => wrapNeedsPkg w
  | _ => none

mutual
  /-- (needs fmt, wrap packages referenced) of a plan -/
  def convNeeds : Conv → Bool × List Str.S
    | .ident => (false, [])
    | .cast i => convNeeds i
    | .underlying _ _ i => convNeeds i
    | .call _ _ retErr w => if retErr then (wrapNeedsFmt w, (wrapNeedsPkg w).toList) else (false, [])
    | .ptrPtr _ i => convNeeds i
    | .srcPtr _ i => convNeeds i
    | .tgtPtr _ i => convNeeds i
    | .list _ _ _ e => convNeeds e
    | .mapc _ _ k v => let a := convNeeds k; let b := convNeeds v; (a.1 || b.1, a.2 ++ b.2)
    | .structc fs _ => fieldsNeeds fs
    | .enumc cases dflt =>
      let acts := dflt :: cases.map (·.2.2)
      (acts.any actionNeedsFmt, acts.filterMap actionPkg)
    | .withCtor c _ r => let a := convNeeds c; let b := convNeeds r; (a.1 || b.1, a.2 ++ b.2)
    | .ctorUpdate c _ _ _ i => let a := convNeeds c; let b := convNeeds i; (a.1 || b.1, a.2 ++ b.2)
  def fieldsNeeds : FieldPlans → Bool × List Str.S
    | .nil => (false, [])
    | .cons f rest => let a := fieldNeeds f; let b := fieldsNeeds rest; (a.1 || b.1, a.2 ++ b.2)
  def fieldNeeds : FieldPlan → Bool × List Str.S
    | .skip _ => (false, [])
    | .mapped _ _ _ _ _ c _ => convNeeds c
    | .viaMethod _ _ _ _ cl _ c _ => let a := convNeeds cl; let b := convNeeds c; (a.1 || b.1, a.2 ++ b.2)
end

def bodyNeeds : Body → Bool × List Str.S
  | .convert c => convNeeds c
  | .delegate _ _ _ => (false, [])
  | .update _ c => convNeeds c

def methodsNeeds (ms : List GenMethod) : Bool × List Str.S :=
  ms.foldl (fun acc m => match m.body with
    | some b => let x := bodyNeeds b; (acc.1 || x.1, acc.2 ++ x.2)
    | none => acc) (false, [])

end Gv.Emit
