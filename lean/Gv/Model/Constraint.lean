/-
Model of `//go:build` constraint expressions (go/build/constraint: tags, !, &&, ||, parentheses) and of
tag-filtered loading: a file takes part in a load iff it has no constraint or its constraint holds
under the load tags.
-/
import Gv.Model.Str

namespace Gv.Constraint
open Gv.Str

inductive CExpr
  | tag (t : S)
  | not (e : CExpr)
  | and (a b : CExpr)
  | or (a b : CExpr)
  deriving Repr, DecidableEq, Inhabited

def eval (tags : List S) : CExpr → Bool
  | .tag t => tags.contains t
  | .not e => !eval tags e
  | .and a b => eval tags a && eval tags b
  | .or a b => eval tags a || eval tags b

inductive Tok | lp | rp | bang | andT | orT | ident (s : S)
  deriving Repr, DecidableEq, Inhabited

def isTagChar (c : Char) : Bool := c.isAlphanum || c == '_' || c == '.'

def lex : Nat → S → Option (List Tok)
  | 0, _ => none
  | _, [] => some []
  | f+1, c :: cs =>
    if c == ' ' || c == '\t' then lex f cs
    else if c == '(' then (lex f cs).map (Tok.lp :: ·)
    else if c == ')' then (lex f cs).map (Tok.rp :: ·)
    else if c == '!' then (lex f cs).map (Tok.bang :: ·)
    else if c == '&' then match cs with
      | '&' :: r => (lex f r).map (Tok.andT :: ·)
      | _ => none
    else if c == '|' then match cs with
      | '|' :: r => (lex f r).map (Tok.orT :: ·)
      | _ => none
    else if isTagChar c then
      let name := (c :: cs).takeWhile isTagChar
      let rest := (c :: cs).dropWhile isTagChar
      if rest.length < (c :: cs).length then (lex f rest).map (Tok.ident name :: ·) else none
    else none

mutual
  def parseOr : Nat → List Tok → Option (CExpr × List Tok)
    | 0, _ => none
    | f+1, ts =>
      match parseAnd f ts with
      | some (a, .orT :: rest) =>
        match parseOr f rest with
        | some (b, rest') => some (.or a b, rest')
        | none => none
      | r => r
  def parseAnd : Nat → List Tok → Option (CExpr × List Tok)
    | 0, _ => none
    | f+1, ts =>
      match parseNot f ts with
      | some (a, .andT :: rest) =>
        match parseAnd f rest with
        | some (b, rest') => some (.and a b, rest')
        | none => none
      | r => r
  def parseNot : Nat → List Tok → Option (CExpr × List Tok)
    | 0, _ => none
    | f+1, .bang :: rest =>
      match parseNot f rest with
      | some (e, rest') => some (.not e, rest')
      | none => none
    | f+1, .lp :: rest =>
      match parseOr f rest with
      | some (e, .rp :: rest') => some (e, rest')
      | _ => none
    | _+1, .ident s :: rest => some (.tag s, rest)
    | _+1, _ => none
end

/-- parse the expression of a `//go:build` line (&& and || associate either way for evaluation) -/
def parse (s : S) : Option CExpr :=
  match lex (s.length + 1) s with
  | some ts =>
    match parseOr (3 * ts.length + 3) ts with
    | some (e, []) => some e
    | _ => none
  | none => none

/-- comma separated `-tags` value -/
def tagsOf (s : S) : List S := (splitOn ',' s).filter (fun t => !t.isEmpty)

structure SrcFile where
  path : S
  constraint : Option CExpr
  content : S
  deriving Repr, DecidableEq, Inhabited

def included (tags : List S) (f : SrcFile) : Bool :=
  match f.constraint with
  | none => true
  | some c => eval tags c

/-- what a load with `-tags` sees -/
def loadable (tags : List S) (files : List SrcFile) : List SrcFile := files.filter (included tags)

end Gv.Constraint
