/-
Runtime values and the semantics of conversion plans: what the emitted code of a generated
method computes for a source value.  Reference nodes (pointer targets, slice backing arrays,
maps) carry a location, so that sharing between source and result is visible.
-/
import Gv.Model.Plan
import Gv.Model.Gen

namespace Gv.Eval
open Gv Gv.Str

inductive Loc
  | src (n : Nat)      -- a cell of the caller's input
  | fresh (n : Nat)    -- allocated by the generated code during this call
  | none               -- zero-size or empty allocation (no identity)
  deriving Repr, DecidableEq, Inhabited

inductive Val
  | basic (repr : S)                       -- payload in canonical text; conversions never change it
  | nil
  | ptr (l : Loc) (v : Val)
  | slice (l : Loc) (vs : List Val)
  | arr (vs : List Val)
  | map (l : Loc) (kvs : List (Val × Val))
  | struct (fs : List (S × Val))
  | tok (fn : S) (args : List Val)         -- result of an uninterpreted custom function
  | absent                                 -- a slot that does not exist (index beyond the length of a slice): writing to it panics
  deriving Repr, Inhabited

/-- an error value as the caller sees it -/
inductive ErrV
  | boom (fn : S)                           -- the root cause produced by custom function `fn`
  | enumUnknown                             -- `unexpected enum element`
  | field (name : S) (inner : ErrV)         -- fmt.Errorf("error setting field %s: %w")
  | index (i : Nat) (inner : ErrV)          -- fmt.Errorf("error setting index %d: %w")
  | wrap (elems : List (String × Val)) (inner : ErrV)   -- <pkg>.Wrap(err, Field(..) | Index(..) | Key(..) ...)
  deriving Repr, Inhabited

inductive PanicKind | indexOutOfRange | nilMap | nilDeref | enumUnknown | custom
  deriving Repr, DecidableEq, Inhabited

inductive Outcome (α : Type)
  | ok (v : α)
  | err (e : ErrV)
  | panic (k : PanicKind)
  | stuck (why : String)         -- ill-typed value / plan mismatch / out of fuel: never a legitimate result
  deriving Repr, Inhabited

/-- evaluation monad: fresh-location counter + outcome -/
abbrev E := StateT Nat Outcome

instance : Monad Outcome where
  pure := .ok
  bind x f := match x with
    | .ok v => f v
    | .err e => .err e
    | .panic k => .panic k
    | .stuck w => .stuck w

def errE {α} (e : ErrV) : E α := fun _ => .err e
def panicE {α} (k : PanicKind) : E α := fun _ => .panic k
def stuckE {α} (w : String) : E α := fun _ => .stuck w

def freshLoc : E Loc := fun n => .ok (.fresh n, n + 1)

/-- behaviour of the custom functions (uninterpreted apart from when they fail) -/
structure CustomSem where
  /-- `failsOn fn arg` : the custom function returns an error for this (first) argument -/
  failsOn : S → Val → Bool := fun _ _ => false
  /-- constructors (`default FUNC`) are interpreted: they return `ctorVal` of their result type -/
  isCtor : S → Bool := fun _ => false

structure Program where
  conv : Gen.Converter
  methods : List GenMethod
  sem : CustomSem := {}

def zeroBasic : Kind → S
  | .string => []
  | .bool => "false".toList
  | _ => "0".toList

/-- the zero value of a type -/
def zeroVal (env : TEnv) : Nat → Ty → Val
  | 0, t => (match under env t with | .struct _ => .struct [] | _ => .nil)   -- out of fuel: still a struct for a struct type
  | fuel+1, t =>
    match under env t with
    | .basic k => .basic (zeroBasic k)
    | .array n e => .arr (List.replicate n (zeroVal env fuel e))
    | .struct fs => .struct (zeroFields env fuel fs.toList)
    | _ => .nil
where
  zeroFields (env : TEnv) (fuel : Nat) : List (FieldInfo × Ty) → List (S × Val)
    | [] => []
    | (f, t) :: rest => (f.name, zeroVal env fuel t) :: zeroFields env fuel rest

/-- what the harness' constructor functions return: numeric fields 7, strings "ctor", everything else zero -/
def ctorVal (env : TEnv) : Nat → Ty → Val
  | 0, _ => .nil
  | fuel+1, t =>
    match under env t with
    | .basic .string => .basic "ctor".toList
    | .basic .bool => .basic "false".toList
    | .basic _ => .basic "7".toList
    | .array n e => .arr (List.replicate n (zeroVal env fuel e))
    | .struct fs => .struct (ctorFields env fuel fs.toList)
    | _ => .nil
where
  ctorFields (env : TEnv) (fuel : Nat) : List (FieldInfo × Ty) → List (S × Val)
    | [] => []
    | (f, t) :: rest =>
      (f.name, match under env t with
        | .basic _ => ctorVal env fuel t
        | _ => zeroVal env fuel t) :: ctorFields env fuel rest

def isZeroVal : Val → Bool
  | .nil => true
  | .basic r => r.isEmpty || r == "0".toList || r == "false".toList
  | .arr vs => vs.attach.all (fun ⟨v, _⟩ => isZeroVal v)
  | .struct fs => fs.attach.all (fun ⟨(_, v), _⟩ => isZeroVal v)
  | _ => false
termination_by v => sizeOf v
decreasing_by
  all_goals simp_wf
  · have := List.sizeOf_lt_of_mem ‹_›; omega
  · have := List.sizeOf_lt_of_mem ‹_›
    simp at this; omega

/-- the canonical text of a constant, as the harness prints runtime values of that type -/
def constRepr : ConstVal → S
  | .int v => (toString v).toList
  | .str s => s
  | .bool b => (toString b).toList
  | .opaque _ e => e

def fieldOf (v : Val) (name : S) : Option Val :=
  match v with
  | .struct fs => fs.lookup name
  | _ => none

def setField (v : Val) (name : S) (x : Val) : Val :=
  match v with
  | .struct fs =>
    if fs.any (fun p => p.1 == name) then .struct (fs.map (fun (n, old) => if n == name then (n, x) else (n, old)))
    else .struct (fs ++ [(name, x)])
  | _ => .struct [(name, x)]      -- (for `absent`: a write into a slot that does not exist; the caller panics)

/-- a struct-typed location always holds a struct: an unknown previous value counts as the struct without fields -/
def normStruct (old : Val) : Val := match old with | .nil => .struct [] | o => o

def Val.isAbsent : Val → Bool
  | .absent => true
  | _ => false

/-- walk a source path with nil-guarded dereferences (builder/struct.go mapField); `none` = a guard failed -/
def walk : List S → List Bool → Val → Outcome (Option Val)
  | [], _, v => .ok (some v)
  | p :: ps, d :: ds, v =>
    let cur : Outcome (Option Val) :=
      if d then match v with
        | .nil => .ok none
        | .ptr _ x => .ok (some x)
        | _ => .stuck "walk: pointer expected"
      else .ok (some v)
    match cur with
    | .ok (some c) =>
      -- a struct reached through a pointer-typed `source` of an update method is auto-dereferenced by Go
      let c' := match c with | .ptr _ x => x | x => x
      match fieldOf c' p with
      | some x => walk ps ds x
      | none => .stuck "walk: no such field"
    | .ok none => .ok none
    | .err e => .err e
    | .panic k => .panic k
    | .stuck w => .stuck w
  | _ :: _, [], _ => .stuck "walk: derefs too short"

def renderErrPath (path : List PathElem) (idx : List Nat) (keys : List Val) : List (String × Val) :=
  let rec go (p : List PathElem) (idx : List Nat) (keys : List Val) : List (String × Val) :=
    match p with
    | [] => []
    | .field n :: r => ("Field", .basic n) :: go r idx keys
    | .index :: r => (match idx with | i :: is => ("Index", .basic (toString i).toList) :: go r is keys | [] => go r [] keys)
    | .key :: r => (match keys with | k :: ks => ("Key", k) :: go r idx ks | [] => go r idx [])
  go path idx keys

/-- `generator.wrap`: idx/keys are the values of the enclosing loop variables, outermost first -/
def wrapErr (w : Wrap) (idx : List Nat) (keys : List Val) (e : ErrV) : ErrV :=
  match w.mode with
  | .none => e
  | .using _ => .wrap (renderErrPath w.path idx keys) e
  | .wrapErrors =>
    match w.path.getLast? with
    | some (.field n) => .field n e
    | some .index => (match idx.getLast? with | some i => .index i e | none => e)
    | _ => e

structure Frame where
  self : Nat                      -- method being executed
  ctx : List (Ty × Val)           -- its context arguments
  idx : List Nat                  -- enclosing list indices (outermost first)
  keys : List Val                 -- enclosing source map keys
  parent : Option Val             -- the pointer the current source was dereferenced from
  deriving Inhabited

def lookupCtx (fr : Frame) (t : Ty) : Option Val := (fr.ctx.find? (fun (t', _) => t' == t)).map (·.2)

/-- what the selected `case` (or `default`) of an enum switch does -/
def applyEnumAction (fr : Frame) (old : Val) (act : EnumAction) : E Val :=
  match act with
  | .member _ v => pure (.basic (constRepr v))
  | .ignore => pure old
  | .panic => panicE .enumUnknown
  | .error w => errE (wrapErr w fr.idx fr.keys .enumUnknown)

/-- the value passed for one argument of a call (the converter itself is not a value) -/
def argOf (fr : Frame) (src : Val) (a : CallArg) : E (Option Val) :=
  match a with
  | .self => pure none
  | .ctx t => (match lookupCtx fr t with | some v => pure (some v) | none => stuckE "context argument missing")
  | .ctxMissing _ => stuckE "call built without its context argument"
  | .source => pure (some src)
  | .sourceParent => (match fr.parent with | some pv => pure (some pv) | none => stuckE "no parent pointer")

mutual
  /-- the new value of a target location: `old` is what it held before -/
  def evalConv (p : Program) : Nat → Frame → Conv → Val → Val → E Val
    | 0, _, _, _, _ => stuckE "fuel"
    | fuel+1, fr, c, src, old =>
      match c with
      | .ident => pure src
      | .cast inner => evalConv p fuel fr inner src old
      | .underlying _ _ inner => evalConv p fuel { fr with parent := none } inner src old
      | .call callee args retErr w => do
        let argVals ← args.filterMapM (argOf fr src)
        match callee with
        | .structMethod name =>
          -- a method of the source value: uninterpreted, fails when the harness says so for this receiver
          if retErr && p.sem.failsOn name src then errE (wrapErr w fr.idx fr.keys (.boom name))
          else pure (.tok name (src :: argVals))
        | .custom i =>
          match p.conv.customs[i]? with
          | none => stuckE "bad custom index"
          | some d =>
            if retErr && p.sem.failsOn d.name (argVals.headD .nil) then errE (wrapErr w fr.idx fr.keys (.boom d.name))
            else if p.sem.isCtor d.name then
              match isPtr p.conv.env d.target with
              | some e => do let l ← freshLoc; pure (.ptr l (ctorVal p.conv.env 64 e))
              | none => pure (ctorVal p.conv.env 64 d.target)
            else pure (.tok d.name argVals)
        | .method m =>
          let ctxVals := args.filterMap (fun a => match a with | .ctx t => lookupCtx fr t | _ => none)
          fun n =>
            match callMethod p fuel m src ctxVals n with
            | .ok r => .ok r
            | .err e => if retErr then .err (wrapErr w fr.idx fr.keys e) else .stuck "error from a callee that returns none"
            | .panic k => .panic k
            | .stuck s => .stuck s
      | .ptrPtr te inner =>
        match src with
        | .nil => pure old
        | .ptr _ x => do
          let v ← evalConv p fuel { fr with parent := some src } inner x (zeroVal p.conv.env 64 te)
          let l ← freshLoc
          pure (.ptr l v)
        | _ => stuckE "ptrPtr: pointer expected"
      | .srcPtr t inner =>
        match src with
        | .nil => pure old
        | .ptr _ x => evalConv p fuel { fr with parent := some src } inner x (zeroVal p.conv.env 64 t)
        | _ => stuckE "srcPtr: pointer expected"
      | .tgtPtr te inner => do
        let v ← evalConv p fuel { fr with parent := none } inner src (zeroVal p.conv.env 64 te)
        let l ← freshLoc
        pure (.ptr l v)
      | .list te hasMake hasGuard elem =>
        let run (vs : List Val) : E Val := do
          if hasMake then
            let out ← evalElems p fuel fr te elem vs 0
            if vs.isEmpty then pure (.slice .none []) else do
              let l ← freshLoc
              pure (.slice l out)
          else
            -- no `make`: assigns element-wise into whatever the target holds; a write to a missing slot panics
            let ovs : List Val := match old with | .slice _ xs => xs | _ => []
            let olds := (List.range vs.length).map (fun i => (ovs[i]?).getD .absent)
            let out ← evalElemsOld p fuel fr elem vs olds 0
            if (out.zip olds).any (fun (n, o) => o.isAbsent && !n.isAbsent) then panicE .indexOutOfRange
            else match old with
              | .slice l xs => pure (.slice l (out.take xs.length ++ xs.drop vs.length))
              | o => pure o
        match src with
        | .nil => if hasGuard then pure old else run []
        | .slice _ vs => run vs
        | .arr vs => run vs
        | _ => stuckE "list: slice or array expected"
      | .mapc tk tv key val =>
        match src with
        | .nil => pure old
        | .map _ kvs => do
          let out ← evalEntries p fuel fr tk tv key val kvs
          let l ← freshLoc
          pure (.map l out)
        | _ => stuckE "map expected"
      | .structc fields isUpdate =>
        let _ := isUpdate
        -- a struct-typed location always holds a struct: an unknown previous value counts as the struct without fields
        evalFields p fuel fr fields src (normStruct old)
      | .enumc cases dflt =>
        let act := match src with
          | .basic r => ((cases.find? (fun (x : S × ConstVal × EnumAction) => constRepr x.2.1 == r)).map (fun (x : S × ConstVal × EnumAction) => x.2.2)).getD dflt
          | _ => dflt
        applyEnumAction fr old act
      | .withCtor ctor toPointer rest => do
        let cv ← evalConv p fuel fr ctor src .nil
        let init ← if toPointer then (do let l ← freshLoc; pure (Val.ptr l cv)) else pure cv
        evalConv p fuel fr rest src init
      | .ctorUpdate ctor toPointer srcIsPtr tgtIsPtr inner => do
        let cv ← evalConv p fuel fr ctor src .nil
        let init ← if toPointer then (do let l ← freshLoc; pure (Val.ptr l cv)) else pure cv
        let go (x : Val) (parent : Option Val) : E Val :=
          if tgtIsPtr then
            match init with
            | .ptr l tv => do
              let nv ← evalConv p fuel { fr with parent := parent } inner x tv
              pure (.ptr l nv)
            | .nil => panicE .nilDeref
            | _ => stuckE "ctorUpdate: pointer expected"
          else evalConv p fuel { fr with parent := parent } inner x init
        if srcIsPtr then
          match src with
          | .nil => pure init
          | .ptr _ x => go x (some src)
          | _ => stuckE "ctorUpdate: source pointer expected"
        else go src none

  def evalElems (p : Program) : Nat → Frame → Ty → Conv → List Val → Nat → E (List Val)
    | 0, _, _, _, _, _ => stuckE "fuel"
    | _, _, _, _, [], _ => pure []
    | fuel+1, fr, te, elem, v :: vs, i => do
      let x ← evalConv p fuel { fr with idx := fr.idx ++ [i], parent := none } elem v (zeroVal p.conv.env 64 te)
      let rest ← evalElems p fuel fr te elem vs (i + 1)
      pure (x :: rest)

  def evalElemsOld (p : Program) : Nat → Frame → Conv → List Val → List Val → Nat → E (List Val)
    | 0, _, _, _, _, _ => stuckE "fuel"
    | _, _, _, [], _, _ => pure []
    | fuel+1, fr, elem, v :: vs, olds, i => do
      let x ← evalConv p fuel { fr with idx := fr.idx ++ [i], parent := none } elem v (olds.headD .absent)
      let rest ← evalElemsOld p fuel fr elem vs (olds.drop 1) (i + 1)
      pure (x :: rest)

  def evalEntries (p : Program) : Nat → Frame → Ty → Ty → Conv → Conv → List (Val × Val) → E (List (Val × Val))
    | 0, _, _, _, _, _, _ => stuckE "fuel"
    | _, _, _, _, _, _, [] => pure []
    | fuel+1, fr, tk, tv, key, val, (k, v) :: rest => do
      let fr' := { fr with keys := fr.keys ++ [k], parent := none }
      let k' ← evalConv p fuel fr' key k (zeroVal p.conv.env 64 tk)
      let v' ← evalConv p fuel fr' val v (zeroVal p.conv.env 64 tv)
      let more ← evalEntries p fuel fr tk tv key val rest
      pure ((k', v') :: more)

  def evalFields (p : Program) : Nat → Frame → FieldPlans → Val → Val → E Val
    | 0, _, _, _, _ => stuckE "fuel"
    | _, _, .nil, _, old => pure old
    | fuel+1, fr, .cons f rest, src, old =>
      match f with
      | .skip _ => evalFields p fuel fr rest src old
      | .mapped target path derefs guarded leafIsPtr cv zero =>
        fun n =>
        match walk path derefs src with
        | .stuck w => .stuck w
        | .err e => .err e
        | .panic k => .panic k
        | .ok leaf? =>
          -- the value handed to the field conversion
          let argv : Val × Nat :=
            if !guarded then (leaf?.getD .nil, n)
            else match leaf? with
              | none => (.nil, n)
              | some lv => if leafIsPtr then (lv, n) else (.ptr (.fresh n) lv, n + 1)
          let oldF := if old.isAbsent then Val.absent else (fieldOf old target).getD .nil
          let skipZero := zero == .check && isZeroVal argv.1
          if skipZero then evalFields p fuel fr rest src old argv.2
          else
            let fr' := { fr with parent := if path.isEmpty then fr.parent else none }
            match evalConv p fuel fr' cv argv.1 oldF argv.2 with
            | .ok (nv, n') =>
              if old.isAbsent && nv.isAbsent then evalFields p fuel fr rest src old n'
              else evalFields p fuel fr rest src (setField old target nv) n'
            | .err e => .err e
            | .panic k => .panic k
            | .stuck w => .stuck w

      | .viaMethod target path derefs guarded call resIsPtr cv zero =>
        fun n =>
        match walk path (derefs.take path.length) src with
        | .stuck w => .stuck w
        | .err e => .err e
        | .panic k => .panic k
        | .ok recv0? =>
          -- the receiver itself may be a pointer (guarded, dereferenced by the call)
          let recv? : Outcome (Option Val) :=
            match recv0? with
            | none => .ok none
            | some rv =>
              if derefs.getLast?.getD false then
                match rv with
                | .nil => .ok none
                | .ptr _ x => .ok (some x)
                | _ => .stuck "viaMethod: pointer receiver expected"
              else .ok (some rv)
          match recv? with
          | .stuck w => .stuck w
          | .err e => .err e
          | .panic k => .panic k
          | .ok none =>
            -- a guard failed: the temporary pointer stays nil
            let oldF := if old.isAbsent then Val.absent else (fieldOf old target).getD .nil
            if zero == .check then evalFields p fuel fr rest src old n
            else
              match evalConv p fuel { fr with parent := none } cv .nil oldF n with
              | .ok (nv, n') =>
                if old.isAbsent && nv.isAbsent then evalFields p fuel fr rest src old n'
                else evalFields p fuel fr rest src (setField old target nv) n'
              | .err e => .err e
              | .panic k => .panic k
              | .stuck w => .stuck w
          | .ok (some recv) =>
            match evalConv p fuel { fr with parent := none } call recv .nil n with
            | .err e => .err e
            | .panic k => .panic k
            | .stuck w => .stuck w
            | .ok (r, n1) =>
              let argv : Val × Nat := if guarded && !resIsPtr then (.ptr (.fresh n1) r, n1 + 1) else (r, n1)
              let oldF := if old.isAbsent then Val.absent else (fieldOf old target).getD .nil
              if zero == .check && isZeroVal argv.1 then evalFields p fuel fr rest src old argv.2
              else
                match evalConv p fuel { fr with parent := none } cv argv.1 oldF argv.2 with
                | .ok (nv, n') =>
                  if old.isAbsent && nv.isAbsent then evalFields p fuel fr rest src old n'
                  else evalFields p fuel fr rest src (setField old target nv) n'
                | .err e => .err e
                | .panic k => .panic k
                | .stuck w => .stuck w

  /-- call generated/declared method `m` on a source value with the given context values -/
  def callMethod (p : Program) : Nat → Nat → Val → List Val → Nat → Outcome (Val × Nat)
    | 0, _, _, _, _ => .stuck "fuel"
    | fuel+1, m, src, ctxVals, n =>
      match p.methods[m]? with
      | none => .stuck "bad method index"
      | some gm =>
        let ctxTys := (gm.args.filter (fun a => a.use == .context)).map (·.ty)
        let fr : Frame := { self := m, ctx := ctxTys.zip ctxVals, idx := [], keys := [], parent := none }
        match gm.body with
        | none => .stuck "method without body"
        | some (.convert c) => evalConv p fuel fr c src (zeroVal p.conv.env 64 gm.target) n
        | some (.delegate i args retErr) =>
          match p.conv.customs[i]? with
          | none => .stuck "bad custom index"
          | some d =>
            let argVals := args.filterMap (fun a => match a with
              | .ctx t => lookupCtx fr t
              | .source => some src
              | _ => none)
            if retErr && p.sem.failsOn d.name src then .err (.boom d.name) else .ok (.tok d.name argVals, n)
        | some (.update _ _) => .stuck "update method called as a conversion"
end

/-- a pointer source of an update method stands for the struct it points to: fields are selected through it and
`goverter:map . X` reads `*source` -/
def updSource (srcIsPtr : Bool) (src : Val) : Val :=
  match srcIsPtr, src with
  | true, .ptr _ x => x
  | _, v => v

/-- … while a `map . X | F` function taking the pointer receives the pointer itself (JenID.ParentPointer) -/
def updParent (srcIsPtr : Bool) (src : Val) : Option Val :=
  match srcIsPtr, src with
  | true, .ptr l x => some (.ptr l x)
  | _, _ => none

/-- run an explicit method on its arguments in declared order (context and update-target arguments included) -/
def runMethod (p : Program) (m : Nat) (argVals : List Val) (fuel : Nat := 400) : Outcome Val :=
  match p.methods[m]? with
  | none => .stuck "bad method index"
  | some gm =>
    let pairs := gm.args.zip argVals
    let src := ((pairs.find? (fun (a, _) => a.use == .source)).map (·.2)).getD .nil
    let ctxVals := (pairs.filter (fun (a, _) => a.use == .context)).map (·.2)
    match gm.body with
    | some (.update srcIsPtr c) =>
      let tgt := ((pairs.find? (fun (a, _) => a.use == .target)).map (·.2)).getD .nil
      let ctxTys := (gm.args.filter (fun a => a.use == .context)).map (·.ty)
      let fr : Frame := { self := m, ctx := ctxTys.zip ctxVals, idx := [], keys := [], parent := updParent srcIsPtr src }
      match tgt with
      | .ptr l tv =>
        if srcIsPtr && (match src with | .nil => true | _ => false) then .ok tgt
        else
          match evalConv p fuel fr c (updSource srcIsPtr src) tv 0 with
          | .ok (nv, _) => .ok (.ptr l nv)
          | .err e => .err e
          | .panic k => .panic k
          | .stuck w => .stuck w
      | .nil =>
        -- a nil target is only dereferenced when some field is actually assigned
        if srcIsPtr && (match src with | .nil => true | _ => false) then .ok .nil
        else
          match evalConv p fuel fr c (updSource srcIsPtr src) .absent 0 with
          | .ok (nv, _) => if nv.isAbsent then .ok .nil else .panic .nilDeref
          | .err e => .err e
          | .panic k => .panic k
          | .stuck w => .stuck w
      | _ => .stuck "update target must be a pointer"
    | _ =>
      match callMethod p fuel m src ctxVals 0 with
      | .ok (v, _) => .ok v
      | .err e => .err e
      | .panic k => .panic k
      | .stuck w => .stuck w

end Gv.Eval
