/-
A decidable check that a generated plan lies in the fragment of the structural soundness theorem
(Gv.Sound.evalConv_structural): the checker is run by the driver on the plans `Gv.Gen.generate` produced, and
`Gv.Sound.checkProg_sound` turns `true` into the hypotheses of the theorem.
-/
import Gv.Model.Eval

namespace Gv.PlanCheck
open Gv Gv.Str Gv.Eval

def fieldNames (fs : List (FieldInfo × Ty)) : List S := fs.map (fun (x : FieldInfo × Ty) => x.1.name)

def isSourceOnly : List CallArg → Bool
  | [.source] => true
  | _ => false

mutual
  def checkTy (p : Program) : Conv → Ty → Ty → Bool
    | .ident, s, t =>
      (match under p.conv.env s, under p.conv.env t with
       | .basic k1, .basic k2 => k1 == k2
       | _, _ => false)
    | .cast inner, s, t =>
      (match inner, under p.conv.env s, under p.conv.env t with
       | .ident, .basic k1, .basic k2 => k1 == k2
       | _, _, _ => false)
    | .call callee args retErr _, s, t =>
      (match callee with
       | .method m =>
         isSourceOnly args && !retErr &&
         (match p.methods[m]? with
          | some gm => gm.source == s && gm.target == t
          | none => false)
       | _ => false)
    | .ptrPtr te inner, s, t =>
      (match under p.conv.env s, under p.conv.env t with
       | .ptr se, .ptr te' => te' == te && checkTy p inner se te
       | _, _ => false)
    | .tgtPtr te inner, s, t =>
      (match under p.conv.env s, under p.conv.env t with
       | .ptr _, _ => false
       | _, .ptr te' => te' == te && checkTy p inner s te
       | _, _ => false)
    | .srcPtr t' inner, s, t =>
      (match under p.conv.env s, under p.conv.env t with
       | _, .ptr _ => false
       | .ptr se, _ => t' == t && checkTy p inner se t
       | _, _ => false)
    | .list te hasMake hasGuard elem, s, t =>
      (match under p.conv.env s, under p.conv.env t with
       | .slice se, .slice te' => hasMake && hasGuard && te' == te && checkTy p elem se te
       | .array _ se, .slice te' => hasMake && !hasGuard && te' == te && checkTy p elem se te
       | _, _ => false)
    | .mapc tk tv key val, s, t =>
      (match under p.conv.env s, under p.conv.env t with
       | .map sk sv, .map tk' tv' => tk' == tk && tv' == tv && checkTy p key sk tk && checkTy p val sv tv
       | _, _ => false)
    | .structc plans _, s, t =>
      (match under p.conv.env s, under p.conv.env t with
       | .struct sfs, .struct tfs =>
         decide ((fieldNames tfs.toList).Nodup) && checkFields p plans sfs.toList tfs.toList
       | _, _ => false)
    | _, _, _ => false
  def checkFields (p : Program) : FieldPlans → List (FieldInfo × Ty) → List (FieldInfo × Ty) → Bool
    | .nil, _, [] => true
    | .cons f rest, sfs, (tf, tty) :: tfs => checkField p f sfs tf tty && checkFields p rest sfs tfs
    | _, _, _ => false
  def checkField (p : Program) : FieldPlan → List (FieldInfo × Ty) → FieldInfo → Ty → Bool
    | .mapped target path derefs guarded _ cv zero, sfs, tf, tty =>
      target == tf.name && path == [tf.name] && derefs == [false] && !guarded && zero == .none &&
      (match sfs.find? (fun (x : FieldInfo × Ty) => x.1.name == tf.name) with
       | some (_, sty) => checkTy p cv sty tty
       | none => false)
    | _, _, _, _ => false
end

/-- every method of the program is a structural conversion of its own signature -/
def checkProg (p : Program) : Bool :=
  p.methods.all (fun gm => match gm.body with
    | some (.convert c) => checkTy p c gm.source gm.target
    | _ => false)

end Gv.PlanCheck
