/-
A decidable check that the error paths recorded in a plan are the positions of the plan (C07): every call node and every
`@error` enum action inside a method body carries, as `wrap.path`, exactly the list of the enclosing positions of that body
(outermost first) — `.field F` below the plan of target field F, `.index` below a list, `.key` below the key and the value
conversion of a map — and the wrapping mode of the method (`wrapErrorsUsing` / `wrapErrors` / none, from the method's
configuration, as `Gen.wrapOf` computes it).  This is what `Gv.Gen` produces (`noLookup`, `structFields` extend `path`
exactly like this); the driver can evaluate `pathsOK` on every generated plan, and `Gv.Sound.callMethod_position`
(Gv/Proofs/ErrPath.lean) turns `true` into the composite location theorem.
-/
import Gv.Model.Eval

namespace Gv.PathCheck
open Gv Gv.Str Gv.Eval

/-- the wrapping mode `Gen.wrapOf` uses for a method with this configuration -/
def modeOf (c : Settings.Common) : WrapMode :=
  if !c.wrapErrorsUsing.isEmpty then .using c.wrapErrorsUsing
  else if c.wrapErrors then .wrapErrors
  else .none

def methodMode (gm : GenMethod) : WrapMode := modeOf gm.cfg.common

def okWrap (md : WrapMode) (w : Wrap) (pa : List PathElem) : Bool := w.mode == md && w.path == pa

def okAct (md : WrapMode) (a : EnumAction) (pa : List PathElem) : Bool :=
  match a with
  | .error w => okWrap md w pa
  | _ => true

def okCases (md : WrapMode) (pa : List PathElem) : List (S × ConstVal × EnumAction) → Bool
  | [] => true
  | x :: rest => okAct md x.2.2 pa && okCases md pa rest

mutual
  /-- `okConv md c pa`: inside a method of mode `md`, the node `c` at position `pa` records the right paths -/
  def okConv (md : WrapMode) : Conv → List PathElem → Bool
    | .ident, _ => true
    | .cast inner, pa => okConv md inner pa
    | .underlying _ _ inner, pa => okConv md inner pa
    | .call _ _ _ w, pa => okWrap md w pa
    | .ptrPtr _ inner, pa => okConv md inner pa
    | .srcPtr _ inner, pa => okConv md inner pa
    | .tgtPtr _ inner, pa => okConv md inner pa
    | .list _ _ _ elem, pa => okConv md elem (pa ++ [.index])
    | .mapc _ _ key val, pa => okConv md key (pa ++ [.key]) && okConv md val (pa ++ [.key])
    | .structc fields _, pa => okFields md fields pa
    | .enumc cases dflt, pa => okCases md pa cases && okAct md dflt pa
    | .withCtor ctor _ rest, pa => okConv md ctor pa && okConv md rest pa
    | .ctorUpdate ctor _ _ _ inner, pa => okConv md ctor pa && okConv md inner pa
  def okFields (md : WrapMode) : FieldPlans → List PathElem → Bool
    | .nil, _ => true
    | .cons f rest, pa => okField md f pa && okFields md rest pa
  def okField (md : WrapMode) : FieldPlan → List PathElem → Bool
    | .skip _, _ => true
    | .mapped target _ _ _ _ cv _, pa => okConv md cv (pa ++ [.field target])
    | .viaMethod target _ _ _ call _ cv _, pa => okConv md call (pa ++ [.field target]) && okConv md cv (pa ++ [.field target])
end

def okBody (gm : GenMethod) : Bool :=
  match gm.body with
  | some (.convert c) => okConv (methodMode gm) c []
  | some (.update _ c) => okConv (methodMode gm) c []
  | _ => true

/-- every method body of the program records, at every call site, the position of that call site -/
def pathsOK (p : Program) : Bool := p.methods.all okBody

/-- the same for a list of generated methods (what `Gen.generate` returns): the hook for the driver -/
def pathsOKMethods (ms : List GenMethod) : Bool := ms.all okBody

end Gv.PathCheck
