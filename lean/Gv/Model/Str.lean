/-
Model of the Go `strings` functions the goverter front end uses, over `List Char`
(Go source text is valid UTF-8, and every byte the modelled functions look at is
ASCII, so code points and bytes agree on what is matched).
-/
namespace Gv.Str

abbrev S := List Char

/-- `unicode.IsSpace` -/
def isSpace (c : Char) : Bool :=
  let n := c.toNat
  n == 9 || n == 10 || n == 11 || n == 12 || n == 13 || n == 32 || n == 0x85 || n == 0xA0 ||
  n == 0x1680 || (0x2000 ≤ n && n ≤ 0x200A) || n == 0x2028 || n == 0x2029 || n == 0x202F ||
  n == 0x205F || n == 0x3000

/-- `isWhitespace` of config/parse/comment.go (bytes ' ', \t, \n, \r) -/
def isAsciiWs (c : Char) : Bool := c == ' ' || c == '\t' || c == '\n' || c == '\r'

def trimLeft (p : Char → Bool) (s : S) : S := s.dropWhile p
def trimRight (p : Char → Bool) (s : S) : S := (s.reverse.dropWhile p).reverse

/-- `strings.TrimSpace` -/
def trimSpace (s : S) : S := trimRight isSpace (trimLeft isSpace s)

/-- `stripTrailingWhitespace` of config/parse/comment.go -/
def stripTrailingWs (s : S) : S := trimRight isAsciiWs s

/-- `strings.HasPrefix` -/
def hasPrefix (s p : S) : Bool := p.isPrefixOf s

/-- `strings.TrimPrefix` -/
def trimPrefix (s p : S) : S := if p.isPrefixOf s then s.drop p.length else s

/-- split on one separator character, like `strings.Split(s, string(c))` (always ≥ 1 piece) -/
def splitOn (c : Char) : S → List S
  | [] => [[]]
  | x :: xs =>
    if x == c then [] :: splitOn c xs
    else match splitOn c xs with
      | [] => [[x]]          -- unreachable: splitOn is never empty
      | p :: ps => (x :: p) :: ps

/-- `strings.SplitN(s, string(c), 2)` as a pair: text before the first `c`, and (if `c` occurs) the text after it -/
def cut (c : Char) : S → S × Option S
  | [] => ([], none)
  | x :: xs =>
    if x == c then ([], some xs)
    else let (a, b) := cut c xs; (x :: a, b)

/-- `strings.Fields` : maximal runs of non-space characters -/
def fieldsAux : S → S → List S
  | cur, [] => if cur.isEmpty then [] else [cur.reverse]
  | cur, x :: xs =>
    if isSpace x then
      (if cur.isEmpty then fieldsAux [] xs else cur.reverse :: fieldsAux [] xs)
    else fieldsAux (x :: cur) xs

def fields (s : S) : List S := fieldsAux [] s

/-- `strings.Contains` -/
def isInfixOf (p : S) : S → Bool
  | [] => p.isEmpty
  | x :: xs => p.isPrefixOf (x :: xs) || isInfixOf p xs

/-- UTF-8 byte length of a character / string -/
def utf8Len (s : S) : Nat := s.foldl (fun n c => n + c.utf8Size) 0

def join (sep : S) : List S → S
  | [] => []
  | [x] => x
  | x :: xs => x ++ sep ++ join sep xs

/-- ASCII `strings.Title` on the first character only is not what Go does; Go's
(deprecated) `strings.Title` upper-cases the first letter of every word, where a
word starts after a non-letter.  The generator applies it to identifiers made of
letters, digits and `_`, so a word starts at position 0 and after every
non-letter/non-digit/non-underscore... Go's isSeparator: letters, digits and
underscore are NOT separators; ASCII others are; for non-ASCII, spaces are. -/
def isSeparator (c : Char) : Bool :=
  let n := c.toNat
  if n < 0x80 then
    !(c.isAlphanum || c == '_')
  else isSpace c

def toUpperAscii (c : Char) : Char := if 'a' ≤ c ∧ c ≤ 'z' then Char.ofNat (c.toNat - 32) else c

def titleAux : Char → S → S
  | _, [] => []
  | prev, x :: xs => (if isSeparator prev then toUpperAscii x else x) :: titleAux x xs

/-- `strings.Title` restricted to ASCII case mapping (non-ASCII letters are left as they are;
the harness only generates ASCII identifiers where Title is involved) -/
def title (s : S) : S := titleAux ' ' s

end Gv.Str
