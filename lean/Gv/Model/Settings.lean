/-
Model of config/common.go (parseCommon), config/converter.go (parseConverterLine,
initConverter defaults), config/method.go (parseMethodLine, parseMethodMap) and
config/parse/parse.go (Bool, Enum, String, Regex, File): how `goverter:` lines are
turned into settings and how CLI (-g), converter and method lines are layered.

Lines that need loaded packages (extend, map ... | FUNC, default) are outside
this model: they are handled by the generator model's environment.
-/
import Gv.Model.Str
import Gv.Model.Comments
import Gv.Model.Facts

namespace Gv.Settings
open Gv.Str

/-! ### value parsers (config/parse/parse.go) -/

inductive SErr
  | wrapConflictUsing      -- wrapErrors while wrapErrorsUsing is set
  | wrapConflictErrors     -- wrapErrorsUsing while wrapErrors is set
  | enumInvalid            -- parse.Enum: one value, not in the list (also Bool)
  | enumCount              -- parse.Enum: not exactly one value (or none when allowed)
  | stringCount            -- parse.String: not exactly one value
  | regexInvalid
  | enumActionInvalid
  | missingKey
  | unknownSetting
  | notAllowedForVariables
  | formatAfterExtend
  | formatUnsupportedVariables
  | formatUnsupportedConverter
  | mapMissingTarget
  | mapTooMany
  | mapTargetPath
  | enumMapFields
  | transformerUnknown
  | idPatternInvalid
  | needsLoader            -- extend / map|FUNC / default: not part of this model
  deriving Repr, DecidableEq, Inhabited

/-- `parse.Enum(empty, rest, values...)` -/
def parseEnum (empty : Bool) (rest : S) (values : List S) : Except SErr S :=
  match fields rest with
  | [] => if empty then .ok [] else .error .enumCount
  | [f] => if values.contains f then .ok f else .error .enumInvalid
  | _ => .error .enumCount

/-- `parse.Bool` -/
def parseBool (rest : S) : Except SErr Bool :=
  match parseEnum true rest ["yes".toList, "no".toList] with
  | .ok v => .ok (v.isEmpty || v == "yes".toList)
  | .error e => .error e

/-- `parse.String` -/
def parseString (rest : S) : Except SErr S :=
  match fields rest with
  | [f] => .ok f
  | _ => .error .stringCount

/-! ### Common (config/common.go) -/

structure Common where
  wrapErrors : Bool := false
  wrapErrorsUsing : S := []
  ignoreUnexported : Bool := false
  ignoreBasicZero : Bool := false
  ignoreStructZero : Bool := false
  ignoreNillableZero : Bool := false
  matchIgnoreCase : Bool := false
  ignoreMissing : Bool := false
  skipCopySameType : Bool := false
  useZeroValue : Bool := false
  useUnderlying : Bool := false
  defaultUpdate : Bool := false
  argContextRegex : Option S := none
  enumEnabled : Bool := true           -- DefaultCommon
  enumUnknown : S := []
  enumExcludes : List (S × S) := []    -- (path pattern, name pattern); converter level only
  deriving Repr, DecidableEq, Inhabited

def defaultCommon : Common := {}

inductive CKey
  | wrapErrors | wrapErrorsUsing | ignoreUnexported | zvAll | zvBasic | zvStruct | zvNillable
  | defaultUpdate | matchIgnoreCase | ignoreMissing | skipCopySameType | useZeroValue | useUnderlying
  | enum | argContextRegex | enumUnknown
  deriving Repr, DecidableEq, Inhabited

def commonKeyTable : List (String × CKey) := [
  ("wrapErrors", .wrapErrors), ("wrapErrorsUsing", .wrapErrorsUsing), ("ignoreUnexported", .ignoreUnexported),
  ("update:ignoreZeroValueField", .zvAll), ("update:ignoreZeroValueField:basic", .zvBasic),
  ("update:ignoreZeroValueField:struct", .zvStruct), ("update:ignoreZeroValueField:nillable", .zvNillable),
  ("default:update", .defaultUpdate), ("matchIgnoreCase", .matchIgnoreCase), ("ignoreMissing", .ignoreMissing),
  ("skipCopySameType", .skipCopySameType), ("useZeroValueOnPointerInconsistency", .useZeroValue),
  ("useUnderlyingTypeMethods", .useUnderlying), ("enum", .enum), ("arg:context:regex", .argContextRegex),
  ("enum:unknown", .enumUnknown)]

def lookupKey {α} (table : List (String × α)) (cmd : S) : Option α :=
  match table.find? (fun p => p.1.toList == cmd) with
  | some p => some p.2
  | none => none

/-- is the key a "field setting" (recorded in RawFieldSettings at method level) -/
def CKey.fieldSetting : CKey → Bool
  | .ignoreUnexported | .zvAll | .matchIgnoreCase | .ignoreMissing => true
  | _ => false

def isEnumAction (s : S) : Bool := hasPrefix s ['@']

def validEnumAction (s : S) : Bool := Facts.enumActions.any (fun a => a.toList == s)

/-- regular-expression validity is an oracle (Go's regexp.Compile); the harness passes the answers -/
abbrev RegexOracle := S → Bool

/-- one `case` of `parseCommon`, on an already recognised key -/
def applyKey (rx : RegexOracle) (c : Common) (k : CKey) (rest : S) : Except SErr Common :=
  match k with
  | .wrapErrors =>
    if !c.wrapErrorsUsing.isEmpty then .error .wrapConflictUsing
    else do let b ← parseBool rest; pure { c with wrapErrors := b }
  | .wrapErrorsUsing =>
    if c.wrapErrors then .error .wrapConflictErrors
    else do let s ← parseString rest; pure { c with wrapErrorsUsing := s }
  | .ignoreUnexported => do let b ← parseBool rest; pure { c with ignoreUnexported := b }
  | .zvAll => do
    let b ← parseBool rest
    pure { c with ignoreBasicZero := b, ignoreStructZero := b, ignoreNillableZero := b }
  | .zvBasic => do let b ← parseBool rest; pure { c with ignoreBasicZero := b }
  | .zvStruct => do let b ← parseBool rest; pure { c with ignoreStructZero := b }
  | .zvNillable => do let b ← parseBool rest; pure { c with ignoreNillableZero := b }
  | .defaultUpdate => do let b ← parseBool rest; pure { c with defaultUpdate := b }
  | .matchIgnoreCase => do let b ← parseBool rest; pure { c with matchIgnoreCase := b }
  | .ignoreMissing => do let b ← parseBool rest; pure { c with ignoreMissing := b }
  | .skipCopySameType => do let b ← parseBool rest; pure { c with skipCopySameType := b }
  | .useZeroValue => do let b ← parseBool rest; pure { c with useZeroValue := b }
  | .useUnderlying => do let b ← parseBool rest; pure { c with useUnderlying := b }
  | .enum => do let b ← parseBool rest; pure { c with enumEnabled := b }
  | .argContextRegex => do
    let s ← parseString rest
    if rx s then pure { c with argContextRegex := some s } else .error .regexInvalid
  | .enumUnknown => do
    let s ← parseString rest
    if isEnumAction s && !validEnumAction s then .error .enumActionInvalid
    else pure { c with enumUnknown := s }

/-- `config.parseCommon` -/
def parseCommon (rx : RegexOracle) (c : Common) (cmd rest : S) : Except SErr (Bool × Common) :=
  match lookupKey commonKeyTable cmd with
  | some k => do let c' ← applyKey rx c k rest; pure (k.fieldSetting, c')
  | none => if cmd.isEmpty then .error .missingKey else .error .unknownSetting

/-! ### converter level (config/converter.go) -/

inductive Format | struct | function | variable
  deriving Repr, DecidableEq, Inhabited

structure ConvCfg where
  common : Common := {}
  isVariables : Bool := false
  name : S := []
  outputRaw : List S := []
  outputFile : S := []
  outputPackagePath : S := []
  outputPackageName : S := []
  format : Format := .struct
  comments : List S := []
  extendCount : Nat := 0
  deriving Repr, DecidableEq, Inhabited

inductive VKey
  | marker | name | outputRaw | outputFile | outputFormat | outputPackage | structComment | enumExclude | extend
  deriving Repr, DecidableEq, Inhabited

def converterKeyTable : List (String × VKey) := [
  ("converter", .marker), ("variables", .marker), ("name", .name), ("output:raw", .outputRaw),
  ("output:file", .outputFile), ("output:format", .outputFormat), ("output:package", .outputPackage),
  ("struct:comment", .structComment), ("enum:exclude", .enumExclude), ("extend", .extend)]

def formatOf (s : S) : Format :=
  if s == "function".toList then .function else if s == "struct".toList then .struct else .variable

def requireStruct (c : ConvCfg) : Except SErr Unit :=
  if c.format == .struct then .ok () else .error .notAllowedForVariables

/-- `pkgload.ParseMethodString` (pkgload/parse.go); `pathJoin` is path.Join of the package path with a relative part -/
def parseMethodString (pathJoin : S → S → S) (sourcePackage full : S) : Except SErr (S × S) :=
  let (pkg, name) :=
    match cut ':' full with
    | (a, none) => (sourcePackage, a)
    | (a, some b) =>
      (if hasPrefix a "../".toList || hasPrefix a "./".toList || a == ".".toList then pathJoin sourcePackage a else a, b)
  if (match cut ':' full with | (_, some _) => pkg.isEmpty | _ => false) then .error .idPatternInvalid
  else if name.isEmpty then .error .idPatternInvalid
  else if isInfixOf "...".toList pkg then .error .idPatternInvalid
  else .ok (pkg, name)

structure Env where
  rx : RegexOracle
  /-- `parse.File`: the absolute path for an `@cwd/` value (filepath.Abs (Join cwd rest)) -/
  cwdFile : S → S
  pathJoin : S → S → S
  pkgPath : S
  /-- the functions named by `extend`, `map … | FUNC` and `default FUNC` exist and load (their signatures are the business
      of Gv.Signature); with `false` such a line is outside this model -/
  loaderOk : Bool := false

/-- `config.parseConverterLine` -/
def parseConverterLine (env : Env) (c : ConvCfg) (value : S) : Except SErr ConvCfg :=
  let (cmd, rest) := Comments.command value
  match lookupKey converterKeyTable cmd with
  | some .marker => .ok c
  | some .name => do
    requireStruct c
    let s ← parseString rest
    pure { c with name := s }
  | some .outputRaw => .ok { c with outputRaw := c.outputRaw ++ [rest] }
  | some .outputFile => do
    let f ← parseString rest
    pure { c with outputFile := if hasPrefix f "@cwd/".toList then env.cwdFile (f.drop 5) else f }
  | some .outputFormat =>
    if c.extendCount != 0 then .error .formatAfterExtend else do
    let v ← parseEnum false rest ["function".toList, "struct".toList, "assign-variable".toList]
    let f := formatOf v
    if c.isVariables && f != .variable then .error .formatUnsupportedVariables
    else if !c.isVariables && f == .variable then .error .formatUnsupportedConverter
    else pure { c with format := f }
  | some .outputPackage =>
    match parseString rest with
    | .error e => .error e
    | .ok pkg =>
      match cut ':' pkg with
      | (a, some b) => .ok { c with outputPackagePath := a, outputPackageName := b }
      | (a, none) => .ok { c with outputPackagePath := a, outputPackageName := [] }
  | some .structComment => do
    requireStruct c
    pure { c with comments := c.comments ++ [rest] }
  | some .enumExclude => do
    let (p, n) ← parseMethodString env.pathJoin env.pkgPath rest
    if env.rx p && env.rx n then
      pure { c with common := { c.common with enumExcludes := c.common.enumExcludes ++ [(p, n)] } }
    else .error .regexInvalid
  | some .extend => if env.loaderOk then .ok c else .error .needsLoader
  | none => do
    let (_, cm) ← parseCommon env.rx c.common cmd rest
    pure { c with common := cm }

/-- the error of a line list: index of the failing line, its key, the class -/
structure LineErr where
  level : String       -- "global" | "converter" | "method"
  key : S
  err : SErr
  deriving Repr, DecidableEq, Inhabited

def parseConverterLines (env : Env) (level : String) : ConvCfg → List S → Except LineErr ConvCfg
  | c, [] => .ok c
  | c, l :: ls =>
    match parseConverterLine env c l with
    | .ok c' => parseConverterLines env level c' ls
    | .error e => .error { level := level, key := (Comments.command l).1, err := e }

/-- `initConverter` defaults -/
def initConverter (isVariables : Bool) (ifaceName : S) (defaultVarFile : S) (pkgName pkgPath : S) : ConvCfg :=
  if isVariables then
    { isVariables := true, format := .variable, outputFile := defaultVarFile, outputPackageName := pkgName, outputPackagePath := pkgPath }
  else
    { isVariables := false, format := .struct, outputFile := "./generated/generated.go".toList, name := ifaceName ++ "Impl".toList }

/-! ### method level (config/method.go) -/

structure FieldMapping where
  source : S := []
  ignore : Bool := false
  hasFunction : Bool := false
  /-- the function named after `|` on a `map` line for this field, as written (`NAME` or `PKG:NAME`) -/
  function : S := []
  deriving Repr, DecidableEq, Inhabited

structure MethodCfg where
  common : Common
  fields : List (S × FieldMapping) := []       -- insertion order; the code keeps a map
  autoMap : List S := []
  enumMap : List (S × S) := []
  transformers : List (S × S) := []
  rawFieldSettings : List S := []
  updateParam : S := []
  contexts : List S := []
  /-- the function named by the method's (last) `default` line, as written -/
  ctor : S := []
  deriving Repr, DecidableEq, Inhabited

inductive MKey | map | ignore | update | context | enumMap | enumTransform | autoMap | default
  deriving Repr, DecidableEq, Inhabited

def methodKeyTable : List (String × MKey) := [
  ("map", .map), ("ignore", .ignore), ("update", .update), ("context", .context), ("enum:map", .enumMap),
  ("enum:transform", .enumTransform), ("autoMap", .autoMap), ("default", .default)]

def MKey.fieldSetting : MKey → Bool
  | .map | .ignore | .autoMap => true
  | _ => false

/-- `parseMethodMap` : (source, target, custom) -/
def parseMethodMap (remaining : S) : Except SErr (S × S × S) :=
  let (lhs, custom) :=
    match cut '|' remaining with
    | (a, some b) => (a, trimSpace b)
    | (a, none) => (a, [])
  match fields lhs with
  | [t] => if t.contains '.' then .error .mapTargetPath else .ok ([], t, custom)
  | [s, t] => if t.contains '.' then .error .mapTargetPath else .ok (s, t, custom)
  | [] => .error .mapMissingTarget
  | _ => .error .mapTooMany

def updField (fs : List (S × FieldMapping)) (name : S) (f : FieldMapping → FieldMapping) : List (S × FieldMapping) :=
  if fs.any (fun p => p.1 == name) then fs.map (fun p => if p.1 == name then (p.1, f p.2) else p)
  else fs ++ [(name, f {})]

def setAssoc (m : List (S × S)) (k v : S) : List (S × S) :=
  if m.any (fun p => p.1 == k) then m.map (fun p => if p.1 == k then (k, v) else p) else m ++ [(k, v)]

/-- `config.parseMethodLine` -/
def parseMethodLine (env : Env) (m : MethodCfg) (value : S) : Except SErr MethodCfg :=
  let (cmd, rest) := Comments.command value
  let track (fs : Bool) (m : MethodCfg) : MethodCfg :=
    if fs then { m with rawFieldSettings := m.rawFieldSettings ++ [value] } else m
  match lookupKey methodKeyTable cmd with
  | some .map => do
    let (s, t, custom) ← parseMethodMap rest
    if !custom.isEmpty && !env.loaderOk then .error .needsLoader
    else pure (track true { m with fields := updField m.fields t (fun f =>
      -- a later `map` line for the same field without `| FUNC` keeps the function of the earlier one
      { f with source := s, function := if custom.isEmpty then f.function else custom }) })
  | some .ignore =>
    .ok (track true { m with fields := (fields rest).foldl (fun fs f => updField fs f (fun x => { x with ignore := true })) m.fields })
  | some .update => do let s ← parseString rest; pure { m with updateParam := s }
  | some .context =>
    -- the code stores the key even when parse.String failed, but then aborts with the error
    do let s ← parseString rest; pure { m with contexts := if m.contexts.contains s then m.contexts else m.contexts ++ [s] }
  | some .enumMap =>
    match fields rest with
    | [a, b] =>
      if isEnumAction b && !validEnumAction b then .error .enumActionInvalid
      else .ok { m with enumMap := setAssoc m.enumMap a b }
    | _ => .error .enumMapFields
  | some .enumTransform =>
    let (name, cfg) := match cut ' ' rest with
      | (a, some b) => (a, b)
      | (a, none) => (a, [])
    if name == "regex".toList then .ok { m with transformers := m.transformers ++ [(name, cfg)] }
    else .error .transformerUnknown
  | some .autoMap => do
    let s ← parseString rest
    pure (track true { m with autoMap := m.autoMap ++ [trimSpace s] })
  | some .default => if env.loaderOk then .ok { m with ctor := rest } else .error .needsLoader
  | none => do
    let (fs, cm) ← parseCommon env.rx m.common cmd rest
    pure (track fs { m with common := cm })

def parseMethodLines (env : Env) : MethodCfg → List S → Except LineErr MethodCfg
  | m, [] => .ok m
  | m, l :: ls =>
    match parseMethodLine env m l with
    | .ok m' => parseMethodLines env m' ls
    | .error e => .error { level := "method", key := (Comments.command l).1, err := e }

/-- the layering of `parseConverter` + `parseMethod`: CLI lines, then converter lines (both through the
converter-level parser), then a copy of the converter's Common refined by the method's lines -/
def resolveConverter (env : Env) (init : ConvCfg) (cli conv : List S) : Except LineErr ConvCfg := do
  let c ← parseConverterLines env "global" init cli
  parseConverterLines env "converter" c conv

def resolveMethod (env : Env) (init : ConvCfg) (cli conv meth : List S) : Except LineErr (ConvCfg × MethodCfg) := do
  let c ← resolveConverter env init cli conv
  let m ← parseMethodLines env { common := c.common } meth
  pure (c, m)

end Gv.Settings
