/-
Model of cli/parse.go (Parse, parseGen — including the behaviour of Go's `flag`
package they rely on), cli/run.go (Run: exit codes, stdout/stderr) and runner.go
(GenerateConverters: generate everything in memory, write only after success).
-/
import Gv.Model.Str
import Gv.Model.Facts

namespace Gv.Cli
open Gv.Str

inductive FlagErr | badSyntax | notDefined | needsArg
  deriving Repr, DecidableEq, Inhabited

inductive FlagOut (α : Type)
  | ok (state : α) (rest : List S)
  | help
  | err (e : FlagErr) (name : S)
  deriving Repr, Inhabited

/-- Go's `flag.FlagSet.Parse` with `ContinueOnError`, for flag sets whose flags all take a value
(goverter defines no boolean flags).  `set name value st` is `none` when the flag is not defined. -/
def parseFlags {α} (set : S → S → α → Option α) : Nat → α → List S → FlagOut α
  | 0, st, args => .ok st args
  | _+1, st, [] => .ok st []
  | fuel+1, st, s :: rest =>
    match s with
    | '-' :: c :: cs =>
      -- at least two characters, first is '-'
      let (name0, isDD) := if c == '-' then (cs, true) else (c :: cs, false)
      if isDD && cs.isEmpty then .ok st rest           -- "--" terminates the flags
      else
      match name0 with
      | [] => .err .badSyntax s
      | n0 :: _ =>
        if n0 == '-' || n0 == '=' then .err .badSyntax s else
        let (name, value?) := cut '=' name0
        -- is the flag defined?  (probe with an empty value)
        match set name [] st with
        | none => if name == "help".toList || name == "h".toList then .help else .err .notDefined name
        | some _ =>
          match value? with
          | some v => match set name v st with
            | some st' => parseFlags set fuel st' rest
            | none => .err .notDefined name
          | none =>
            match rest with
            | v :: rest' => match set name v st with
              | some st' => parseFlags set fuel st' rest'
              | none => .err .notDefined name
            | [] => .err .needsArg name
    | _ => .ok st (s :: rest)      -- first non-flag argument stops the parsing

structure GenCfg where
  patterns : List S := []
  global : List S := []
  buildTags : S := (Facts.cliGenFlags.lookup "build-tags" |>.getD "").toList
  outputConstraint : S := (Facts.cliGenFlags.lookup "output-constraint" |>.getD "").toList
  cwd : S := []
  deriving Repr, DecidableEq, Inhabited

def setGenFlag (name value : S) (c : GenCfg) : Option GenCfg :=
  if name == "g".toList || name == "global".toList then some { c with global := c.global ++ [value] }
  else if name == "build-tags".toList then some { c with buildTags := value }
  else if name == "output-constraint".toList then some { c with outputConstraint := value }
  else if name == "cwd".toList then some { c with cwd := value }
  else none

inductive Cmd
  | help
  | version
  | gen (c : GenCfg)
  | usageErr (why : String)
  deriving Repr, DecidableEq, Inhabited

/-- `cli.Parse` -/
def parse (args : List S) : Cmd :=
  match args with
  | [] => .usageErr "invalid args"
  | _ :: rest =>
    match parseFlags (fun _ _ (_ : Unit) => none) (rest.length + 1) () rest with
    | .help => .help
    | .err _ _ => .usageErr "flag"
    | .ok _ [] => .usageErr "missing command"
    | .ok _ (sub :: subArgs) =>
      if sub == "gen".toList then
        match parseFlags setGenFlag (subArgs.length + 1) {} subArgs with
        | .help => .help
        | .err _ _ => .usageErr "flag"
        | .ok c [] => .usageErr "missing PATTERN"
        | .ok c ps => .gen { c with patterns := ps }
      else if sub == "version".toList then .version
      else if sub == "help".toList then .help
      else .usageErr "unknown command"

/-! ### the run -/

abbrev Files := List (S × S)     -- path ↦ content

structure Outcome where
  exit : Nat
  stdoutUsage : Bool       -- the usage text was printed on stdout
  stderrNonEmpty : Bool
  written : Files          -- files written (created or replaced)
  deriving Repr, DecidableEq, Inhabited

/-- `cli.Run` + `goverter.GenerateConverters`; `generate` stands for generateConvertersRaw
(comments.ParseDocs → config.Parse → generator.Generate), which touches no file (Facts.fsWriteSites) -/
def run (generate : GenCfg → Except String Files) (args : List S) : Outcome :=
  match parse args with
  | .help => { exit := 0, stdoutUsage := true, stderrNonEmpty := false, written := [] }
  | .version => { exit := 0, stdoutUsage := false, stderrNonEmpty := false, written := [] }
  | .usageErr _ => { exit := 1, stdoutUsage := false, stderrNonEmpty := true, written := [] }
  | .gen c =>
    match generate c with
    | .error _ => { exit := 1, stdoutUsage := false, stderrNonEmpty := true, written := [] }
    | .ok files => { exit := 0, stdoutUsage := false, stderrNonEmpty := false, written := files }

/-- `generator.Generate`: converters in order, the first failure aborts and yields no file at all -/
def generateAll {C} (genOne : C → Except String Files) : List C → Except String Files
  | [] => .ok []
  | c :: cs => do
    let f ← genOne c
    let rest ← generateAll genOne cs
    pure (f ++ rest)

end Gv.Cli
