/-
The structural fragment with sharing positions (skipCopySameType): `checkTyS` accepts everything `PlanCheck.checkTy`
accepts and, in addition, the node `.ident` at a position whose source and target types are identical (`s == t`), for
ANY type (slices, maps, pointers, structs, named types …).  Such a position hands the source's own cells to the result:
it is a *sharing position* (`sharePos`).  `hasShareTy` says whether a plan contains one (for a position of basic type
nothing can be shared: those are not counted).  Core only (run by the driver like `PlanCheck.checkProg`).
-/
import Gv.Model.PlanCheck

namespace Gv.PlanCheckS
open Gv Gv.Str Gv.Eval Gv.PlanCheck

def isBasicTy (p : Program) (s : Ty) : Bool :=
  match under p.conv.env s with
  | .basic _ => true
  | _ => false

/-- `.ident` at this position shares the cells of the source: identical types, and not a basic type -/
def sharePos (p : Program) (s t : Ty) : Bool := s == t && !isBasicTy p s

mutual
  def checkTyS (p : Program) : Conv → Ty → Ty → Bool
    | .ident, s, t =>
      (s == t) ||
      (match under p.conv.env s, under p.conv.env t with
       | .basic k1, .basic k2 => k1 == k2
       | _, _ => false)
    | .cast inner, s, t =>
      (match inner, under p.conv.env s, under p.conv.env t with
       | .ident, .basic k1, .basic k2 => k1 == k2
       | _, _, _ => false)
    | .call callee args retErr _, s, t =>
      (match callee with
       | .method m =>
         isSourceOnly args && !retErr &&
         (match p.methods[m]? with
          | some gm => gm.source == s && gm.target == t
          | none => false)
       | _ => false)
    | .ptrPtr te inner, s, t =>
      (match under p.conv.env s, under p.conv.env t with
       | .ptr se, .ptr te' => te' == te && checkTyS p inner se te
       | _, _ => false)
    | .tgtPtr te inner, s, t =>
      (match under p.conv.env s, under p.conv.env t with
       | .ptr _, _ => false
       | _, .ptr te' => te' == te && checkTyS p inner s te
       | _, _ => false)
    | .srcPtr t' inner, s, t =>
      (match under p.conv.env s, under p.conv.env t with
       | _, .ptr _ => false
       | .ptr se, _ => t' == t && checkTyS p inner se t
       | _, _ => false)
    | .list te hasMake hasGuard elem, s, t =>
      (match under p.conv.env s, under p.conv.env t with
       | .slice se, .slice te' => hasMake && hasGuard && te' == te && checkTyS p elem se te
       | .array _ se, .slice te' => hasMake && !hasGuard && te' == te && checkTyS p elem se te
       | _, _ => false)
    | .mapc tk tv key val, s, t =>
      (match under p.conv.env s, under p.conv.env t with
       | .map sk sv, .map tk' tv' => tk' == tk && tv' == tv && checkTyS p key sk tk && checkTyS p val sv tv
       | _, _ => false)
    | .structc plans _, s, t =>
      (match under p.conv.env s, under p.conv.env t with
       | .struct sfs, .struct tfs =>
         decide ((fieldNames tfs.toList).Nodup) && checkFieldsS p plans sfs.toList tfs.toList
       | _, _ => false)
    | _, _, _ => false
  def checkFieldsS (p : Program) : FieldPlans → List (FieldInfo × Ty) → List (FieldInfo × Ty) → Bool
    | .nil, _, [] => true
    | .cons f rest, sfs, (tf, tty) :: tfs => checkFieldS p f sfs tf tty && checkFieldsS p rest sfs tfs
    | _, _, _ => false
  def checkFieldS (p : Program) : FieldPlan → List (FieldInfo × Ty) → FieldInfo → Ty → Bool
    | .mapped target path derefs guarded _ cv zero, sfs, tf, tty =>
      target == tf.name && path == [tf.name] && derefs == [false] && !guarded && zero == .none &&
      (match sfs.find? (fun (x : FieldInfo × Ty) => x.1.name == tf.name) with
       | some (_, sty) => checkTyS p cv sty tty
       | none => false)
    | _, _, _, _ => false
end

/-- every method of the program is a structural conversion of its own signature, possibly with sharing positions -/
def checkProgS (p : Program) : Bool :=
  p.methods.all (fun gm => match gm.body with
    | some (.convert c) => checkTyS p c gm.source gm.target
    | _ => false)

mutual
  /-- the plan (walked along the types exactly as `checkTyS` walks it; method calls are not followed: every method body
      is looked at by `progHasShare`) contains a sharing position -/
  def hasShareTy (p : Program) : Conv → Ty → Ty → Bool
    | .ident, s, t => sharePos p s t
    | .ptrPtr te inner, s, _ =>
      (match under p.conv.env s with
       | .ptr se => hasShareTy p inner se te
       | _ => false)
    | .tgtPtr te inner, s, _ => hasShareTy p inner s te
    | .srcPtr _ inner, s, t =>
      (match under p.conv.env s with
       | .ptr se => hasShareTy p inner se t
       | _ => false)
    | .list te _ _ elem, s, _ =>
      (match under p.conv.env s with
       | .slice se => hasShareTy p elem se te
       | .array _ se => hasShareTy p elem se te
       | _ => false)
    | .mapc tk tv key val, s, _ =>
      (match under p.conv.env s with
       | .map sk sv => hasShareTy p key sk tk || hasShareTy p val sv tv
       | _ => false)
    | .structc plans _, s, t =>
      (match under p.conv.env s, under p.conv.env t with
       | .struct sfs, .struct tfs => hasShareFields p plans sfs.toList tfs.toList
       | _, _ => false)
    | _, _, _ => false
  def hasShareFields (p : Program) : FieldPlans → List (FieldInfo × Ty) → List (FieldInfo × Ty) → Bool
    | .cons f rest, sfs, (tf, tty) :: tfs => hasShareField p f sfs tf tty || hasShareFields p rest sfs tfs
    | _, _, _ => false
  def hasShareField (p : Program) : FieldPlan → List (FieldInfo × Ty) → FieldInfo → Ty → Bool
    | .mapped _ _ _ _ _ cv _, sfs, tf, tty =>
      (match sfs.find? (fun (x : FieldInfo × Ty) => x.1.name == tf.name) with
       | some (_, sty) => hasShareTy p cv sty tty
       | none => false)
    | _, _, _, _ => false
end

/-- some method body of the program contains a sharing position -/
def progHasShare (p : Program) : Bool :=
  p.methods.any (fun gm => match gm.body with
    | some (.convert c) => hasShareTy p c gm.source gm.target
    | _ => false)

end Gv.PlanCheckS
