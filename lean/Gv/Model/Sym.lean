/-
Symbolic reading of a conversion plan: the value a generated method returns, written as a
term over its parameters.  `denote` follows `Eval.evalConv` clause by clause, with terms in
place of values; the harness computes the same kind of term from the EMITTED Go code by
symbolic execution of its statements (`harness/internal/lift`), and the driver compares the
two after one common normalisation (`norm`).  The comparison ties every generated method of
every K1 case to its plan for ALL runtime values at once (not only the executed ones).

Term language (S-expressions):
  (p NAME)                 parameter               (i D) (k D) (v D)   loop index / key / value at loop depth D
  (sel T F) (deref T) (at T I)                     reads
  (zero) (nil) (lit TEXT)                          constants
  (cast T)                 conversion to a type of the same underlying type
  (ref T)                  pointer to a fresh copy of T          (refsrc T)  pointer to the place T itself
  (call CALLEE ARG*)       call without error result
  (try CALLEE WRAP ARG*)   call whose error is returned, wrapped by WRAP
  (if C T E)               C ::= (nz T) | (and C C)
  (setf T F X) (setat T I X) (setderef T X)        T with one component replaced
  (make T)                 make(_, len(T))
  (for D S T) (range D S T)                        T is the container after one iteration (mentions the loop variables)
  (switch T (case NAME X)* (default X))            X ::= term | (panic) | (fail WRAP)
-/
import Gv.Sexp
import Gv.Model.Plan
import Gv.Model.Gen

namespace Gv.Sym
open Gv Gv.Sexp

abbrev T := Sexp

def a (s : String) : T := .atom s
def mk (h : String) (xs : List T) : T := .list (.atom h :: xs)
def strT (s : Str.S) : T := .str (String.ofList s)
def natT (n : Nat) : T := .atom (Nat.repr n)

def zeroT : T := mk "zero" []
def selT (t : T) (f : Str.S) : T := mk "sel" [t, strT f]
def ifT (c t e : T) : T := mk "if" [c, t, e]
def nzT (t : T) : T := mk "nz" [t]

structure Cx where
  depth : Nat := 0
  idx : List Nat := []          -- depths of the enclosing index loops, outermost first
  keys : List Nat := []         -- depths of the enclosing map loops
  parent : Option T := none     -- the pointer the current source was dereferenced from
  env : TEnv := []
  ctxNames : List (Ty × Str.S) := []   -- context parameters of the method: type ↦ emitted parameter name
  customs : List FnDef := []
  methods : List GenMethod := []

/-- the i-th context parameter is called `context`, `context2`, … (namer.Name) -/
def ctxParamName (i : Nat) : Str.S :=
  if i == 0 then "context".toList else ("context" ++ Nat.repr (i + 1)).toList

def calleeT (cx : Cx) : Callee → T
  | .custom i => mk "f" [strT ((cx.customs[i]?.map (·.name)).getD [])]
  | .method m => mk "m" [strT ((cx.methods[m]?.map (·.name)).getD [])]
  | .structMethod n => mk "sm" [strT n]

def pathElems (path : List PathElem) (idx keys : List Nat) : List T :=
  match path with
  | [] => []
  | .field n :: r => mk "Field" [strT n] :: pathElems r idx keys
  | .index :: r => (match idx with
      | d :: ds => mk "Index" [mk "i" [natT d]] :: pathElems r ds keys
      | [] => mk "Index" [a "?"] :: pathElems r [] keys)
  | .key :: r => (match keys with
      | d :: ds => mk "Key" [mk "k" [natT d]] :: pathElems r idx ds
      | [] => mk "Key" [a "?"] :: pathElems r idx [])

def wrapT (cx : Cx) (w : Wrap) : T :=
  match w.mode with
  | .none => mk "w" [a "none"]
  | .using _ => mk "w" (a "using" :: pathElems w.path cx.idx cx.keys)
  | .wrapErrors =>
    match w.path.getLast? with
    | some (.field n) => mk "w" [a "field", strT n]
    | some .index => (match cx.idx.getLast? with
        | some d => mk "w" [a "index", mk "i" [natT d]]
        | none => mk "w" [a "index", a "?"])
    | _ => mk "w" [a "none"]

def argT (cx : Cx) (src : T) : CallArg → Option T
  | .self => none
  | .ctx t => some (match cx.ctxNames.reverse.find? (fun (t', _) => t' == t) with
      | some (_, n) => mk "p" [a (String.ofList n)]
      | none => mk "noctx" [])
  | .ctxMissing _ => none
  | .source => some src
  | .sourceParent => some (cx.parent.getD (mk "noparent" []))

def callT (cx : Cx) (callee : Callee) (args : List CallArg) (retErr : Bool) (w : Wrap) (src : T) : T :=
  let recv : List T := match callee with | .structMethod _ => [src] | _ => []
  let as := recv ++ args.filterMap (argT cx src)
  if retErr then mk "try" (calleeT cx callee :: wrapT cx w :: as) else mk "call" (calleeT cx callee :: as)

def actionT (cx : Cx) (old : T) : EnumAction → T
  | .member n _ => mk "lit" [strT n]
  | .ignore => old
  | .panic => mk "panic" []
  | .error w => mk "fail" [wrapT cx w]

/-- the source expression `source.A.B.C` -/
def pathT (src : T) (path : List Str.S) : T := path.foldl selT src

/-- the nil guards of a walked path: one `(nz prefix)` per dereferenced pointer -/
def guardsOf (src : T) : List Str.S → List Bool → List T
  | [], _ => []
  | _ :: _, [] => []
  | p :: ps, d :: ds => (if d then [nzT src] else []) ++ guardsOf (selT src p) ps ds

def andAll : List T → Option T
  | [] => none
  | c :: cs => some (cs.foldl (fun acc x => mk "and" [acc, x]) c)

/-- what kind of Go expression carries a value: that decides what `&expr` means (`JenID.Pointer`) -/
inductive Addr
  | other     -- not addressable (call, conversion, `*p`, `&x`): copied into a temporary first
  | localVar  -- a variable of the generated function (parameter, range variable, declared temporary): `&x` is a fresh cell
  | place     -- a field or element of the source: `&source.F` points INTO the source
  deriving DecidableEq, Inhabited

def refOf (t : T) : Addr → T
  | .place => mk "refsrc" [t]
  | _ => mk "ref" [t]

mutual
  /-- (term, how the emitted expression is carried) -/
  def denote (cx : Cx) : Conv → T → Addr → T → T × Addr
    | .ident, src, v, _ => (src, v)
    | .cast inner, src, v, old => let r := denote cx inner src v old; (mk "cast" [r.1], .other)
    | .underlying cs ct inner, src, v, old =>
      let s' : T × Addr := if cs then (mk "cast" [src], .other) else (src, v)
      let r := denote { cx with parent := none } inner s'.1 s'.2 old
      if ct then (mk "cast" [r.1], .other) else r
    | .call callee args retErr w, src, _, _ => (callT cx callee args retErr w src, if retErr then .localVar else .other)
    | .ptrPtr _ inner, src, _, old =>
      let r := denote { cx with parent := some src } inner (mk "deref" [src]) .other zeroT
      (ifT (nzT src) (refOf r.1 r.2) old, .localVar)
    | .srcPtr _ inner, src, _, old =>
      let r := denote { cx with parent := some src } inner (mk "deref" [src]) .other zeroT
      (ifT (nzT src) r.1 old, .localVar)
    | .tgtPtr te inner, src, v, _ =>
      let r := denote { cx with parent := none } inner src v zeroT
      -- BasicTargetPointerRule (pointee of basic type) always copies into a temporary first
      (refOf r.1 (if (isBasic cx.env te).isSome then .other else r.2), .other)
    | .list _ hasMake hasGuard elem, src, _, old =>
      let d := cx.depth
      let base := if hasMake then mk "make" [src] else old
      let i := mk "i" [natT d]
      let e := denote { cx with depth := d + 1, idx := cx.idx ++ [d], parent := none } elem (mk "at" [src, i]) .place (mk "at" [base, i])
      let body := mk "for" [natT d, src, mk "setat" [base, i, e.1]]
      (if hasGuard then ifT (nzT src) body old else body, .localVar)
    | .mapc _ _ key val, src, _, old =>
      let d := cx.depth
      let base := mk "make" [src]
      let cx' := { cx with depth := d + 1, keys := cx.keys ++ [d], parent := none }
      let k := denote cx' key (mk "k" [natT d]) .localVar zeroT
      let v := denote cx' val (mk "v" [natT d]) .localVar zeroT
      (ifT (nzT src) (mk "range" [natT d, src, mk "setat" [base, k.1, v.1]]) old, .localVar)
    | .structc fields _, src, _, old => (denoteFields cx fields src old, .localVar)
    | .enumc cases dflt, src, _, old =>
      (mk "switch" (src :: (cases.map (fun (x : Str.S × ConstVal × EnumAction) => mk "case" [strT x.1, actionT cx old x.2.2])
        ++ [mk "default" [actionT cx old dflt]])), .localVar)
    | .withCtor ctor toPointer rest, src, v, _ =>
      let cv := denote cx ctor src v zeroT
      let init := if toPointer then refOf cv.1 cv.2 else cv.1
      denote cx rest src v init
    | .ctorUpdate ctor toPointer srcIsPtr tgtIsPtr inner, src, v, _ =>
      let cv := denote cx ctor src v zeroT
      let init := if toPointer then refOf cv.1 cv.2 else cv.1
      let x := if srcIsPtr then mk "deref" [src] else src
      let xv : Addr := if srcIsPtr then .other else v
      let cx' := { cx with parent := if srcIsPtr then some src else none }
      let upd :=
        if tgtIsPtr then mk "setderef" [init, (denote cx' inner x xv (mk "deref" [init])).1]
        else (denote cx' inner x xv init).1
      (if srcIsPtr then ifT (nzT src) upd init else upd, .localVar)

  def denoteFields (cx : Cx) : FieldPlans → T → T → T
    | .nil, _, acc => acc
    | .cons f rest, src, acc => denoteFields cx rest src (denoteField cx f src acc)

  /-- the struct value after the assignment of one field -/
  def denoteField (cx : Cx) : FieldPlan → T → T → T
    | .skip _, _, acc => acc
    | .mapped target path derefs guarded leafIsPtr cv zero, src, acc =>
      let leaf := pathT src path
      let argv : T × Addr :=
        if !guarded then (leaf, if path.isEmpty then .localVar else .place)
        else
          let c := (andAll (guardsOf src path derefs)).getD (mk "true" [])
          (ifT c (if leafIsPtr then leaf else mk "refsrc" [leaf]) zeroT, .localVar)
      let cx' := { cx with parent := if path.isEmpty then cx.parent else none }
      let nv := denote cx' cv argv.1 argv.2 (selT acc target)
      let upd := mk "setf" [acc, strT target, nv.1]
      if zero == .check then ifT (nzT argv.1) upd acc else upd
    | .viaMethod target path derefs guarded call resIsPtr cv zero, src, acc =>
      let recv := pathT src path
      let r := denote { cx with parent := none } call recv .place zeroT
      let argv : T × Addr :=
        if !guarded then r
        else
          let c := (andAll (guardsOf src (path ++ [[]]) derefs)).getD (mk "true" [])
          (ifT c (if resIsPtr then r.1 else refOf r.1 r.2) zeroT, .localVar)
      let nv := denote { cx with parent := none } cv argv.1 argv.2 (selT acc target)
      let upd := mk "setf" [acc, strT target, nv.1]
      if zero == .check then ifT (nzT argv.1) upd acc else upd
end

/-! ### normalisation (applied to both sides) -/

def strOf : T → String
  | .str s => s
  | .atom s => s
  | _ => ""

/-- one bottom-up pass of local simplifications -/
partial def norm (t : T) : T :=
  match t with
  | .list (.atom h :: xs) =>
    let ys := xs.map norm
    match h, ys with
    -- reads of constants
    | "sel", [.list [.atom "zero"], _] => zeroT
    | "at", [.list [.atom "make", _], _] => zeroT
    | "deref", [.list [.atom "ref", x]] => x
    | "deref", [.list [.atom "setderef", _, x]] => x
    -- implicit dereference: x.F through a pointer reads the same field
    | "sel", [.list [.atom "deref", x], f] => norm (mk "sel" [x, f])
    -- … and a method of the struct called through a pointer has the same receiver
    | "call", (.list [.atom "sm", nm]) :: (.list [.atom "deref", x]) :: rest => mk "call" (mk "sm" [nm] :: x :: rest)
    | "try", (.list [.atom "sm", nm]) :: w :: (.list [.atom "deref", x]) :: rest => mk "try" (mk "sm" [nm] :: w :: x :: rest)
    -- read after write
    | "sel", [.list [.atom "setf", b, g, x], f] => if strOf g == strOf f then x else norm (mk "sel" [b, f])
    | "at", [.list [.atom "setat", b, j, x], i] => if j == i then x else mk "at" [mk "setat" [b, j, x], i]
    | "sel", [.list [.atom "if", c, x, y], f] => norm (mk "if" [c, mk "sel" [x, f], mk "sel" [y, f]])
    -- write after write at the same place
    | "setat", [.list [.atom "setat", b, j, _], i, x] => if j == i then mk "setat" [b, i, x] else mk "setat" [mk "setat" [b, j, x], i, x]
    | "setderef", [.list [.atom "setderef", b, _], x] => mk "setderef" [b, x]
    | "setderef", [.list [.atom "ref", _], x] => mk "ref" [x]
    -- a conditional write of one component is the write of a conditional value
    | "if", [c, .list [.atom "setf", b, g, x], e] =>
      if .list [.atom "setf", b, g, x] == e then e
      else norm (mk "setf" [mk "if" [c, b, e], g, mk "if" [c, x, mk "sel" [e, g]]])
    | "if", [c, .list [.atom "setat", b, j, x], e] =>
      if .list [.atom "setat", b, j, x] == e then e
      else norm (mk "setat" [mk "if" [c, b, e], j, mk "if" [c, x, mk "at" [e, j]]])
    | "if", [c, .list [.atom "setderef", b, x], e] =>
      if .list [.atom "setderef", b, x] == e then e
      else norm (mk "setderef" [mk "if" [c, b, e], mk "if" [c, x, mk "deref" [e]]])
    | "if", [c, .list [.atom "ref", x], .list [.atom "ref", y]] => norm (mk "ref" [mk "if" [c, x, y]])
    -- an index loop that writes back what the slot already holds does nothing (not so for maps: the write creates the entry)
    | "for", [d, src, .list [.atom "setat", b, i, x]] =>
      if i == mk "i" [d] && norm (mk "at" [b, i]) == x then b else mk "for" [d, src, mk "setat" [b, i, x]]
    -- writing back what the field already holds
    | "setf", [b, f, x] =>
      if norm (mk "sel" [b, f]) == x then b
      else match b with
        | .list [.atom "setf", b', g, _] => if strOf g == strOf f then mk "setf" [b', f, x] else mk "setf" [b, f, x]
        | _ => mk "setf" [b, f, x]
    -- a conditional whose branches agree
    | "if", [_, x, y] => if x == y then x else mk "if" ys
    | _, _ => mk h ys
  | x => x

/-- the parameters' emitted names: source / target / context, context2, … -/
def ctxNamesOf (m : GenMethod) : List (Ty × Str.S) :=
  ((m.args.filter (fun x => x.use == .context)).zipIdx).map (fun (x, i) => (x.ty, ctxParamName i))

/-- the term a method returns (for an update method: the value of `*target` afterwards) -/
def methodTerm (env : TEnv) (customs : List FnDef) (methods : List GenMethod) (m : GenMethod) : T :=
  let cx : Cx := { env := env, ctxNames := ctxNamesOf m, customs := customs, methods := methods }
  let src := mk "p" [a "source"]
  match m.body with
  | none => mk "nobody" []
  | some (.convert c) => (denote cx c src .localVar zeroT).1
  | some (.delegate i args retErr) => callT cx (.custom i) args retErr { mode := .none, path := [] } src
  | some (.update srcIsPtr c) =>
    let tgt := mk "p" [a "target"]
    -- a pointer source: fields are selected through it (`norm` reads `(sel (deref x) f)` as `(sel x f)`), the whole source is `*source`
    let r := if srcIsPtr then (denote { cx with parent := some src } c (mk "deref" [src]) .other tgt).1
             else (denote cx c src .localVar tgt).1
    if srcIsPtr then ifT (nzT src) r tgt else r

end Gv.Sym
