/-
The conversion plan: what the emitted code of one generated method does, as a tree.
Every node describes how the value of a target location is obtained from a source value
and from the previous value of that location (`old`): Assign-native builders (pointer,
source pointer, struct, map, list) assign conditionally, so with a nil source the target
keeps what it had — the zero value for a fresh variable, the constructor's result with
`default`, the caller's instance for update methods.
-/
import Gv.Model.Types
import Gv.Model.Settings

namespace Gv
open Gv.Str

/-- one element of builder.ErrorPath -/
inductive PathElem
  | field (name : S)
  | index          -- the index variable of the enclosing list loop
  | key            -- the source key variable of the enclosing map loop
  deriving Repr, DecidableEq, Inhabited

inductive WrapMode | none | wrapErrors | using (pkg : S)
  deriving Repr, DecidableEq, Inhabited

/-- how an error coming out of a call is wrapped before it is returned (generator.wrap) -/
structure Wrap where
  mode : WrapMode
  path : List PathElem      -- the full ErrorPath at the call site (outermost first)
  deriving Repr, Inhabited

/-- who is called -/
inductive Callee
  | custom (fn : Nat)       -- index into the converter's custom function table (extend, map|FUNC, default)
  | method (m : Nat)        -- index into the method table (declared or generated)
  | structMethod (name : S) -- a method of the (walked) source value itself: `source.Path.Name(ctx…)`
  deriving Repr, DecidableEq, Inhabited

/-- one argument of a call, by role (generator.CallMethod) -/
inductive CallArg
  | self                    -- the converter itself (`c`)
  | ctx (ty : Ty)           -- the context argument of that type of the calling method
  | ctxMissing (ty : Ty)    -- context not (yet) available in this build of the caller (omitted from the call)
  | source
  | sourceParent            -- the pointer the current source was dereferenced from (`map . X | F` with F taking the pointer)
  deriving Repr, Inhabited

inductive EnumAction
  | member (name : S) (val : ConstVal)
  | ignore
  | panic
  | error (wrap : Wrap)
  deriving Repr, Inhabited

inductive ZeroCheck | none | check
  deriving Repr, DecidableEq, Inhabited

mutual
  inductive Conv
    /-- the source expression itself (Basic without cast, SkipCopy, empty unnamed struct): the value is shared -/
    | ident
    /-- `T(x)` : conversion between types of the same basic kind -/
    | cast (inner : Conv)
    /-- `useUnderlyingTypeMethods`: cast the source and/or the result around an inner conversion -/
    | underlying (castSource castTarget : Bool) (inner : Conv)
    /-- a call; `retErr` says whether the callee returns an error that is checked and propagated -/
    | call (callee : Callee) (args : List CallArg) (retErr : Bool) (wrap : Wrap)
    /-- `*S → *T` (Pointer): `if s != nil { x := inner(*s); t = &x }` -/
    | ptrPtr (te : Ty) (inner : Conv)
    /-- `*S → T` with useZeroValueOnPointerInconsistency (SourcePointer): `if s != nil { t = inner(*s) }` -/
    | srcPtr (t : Ty) (inner : Conv)
    /-- `S → *T` (TargetPointer / BasicTargetPointerRule): `x := inner(s); &x` -/
    | tgtPtr (te : Ty) (inner : Conv)
    /-- list: `make` present?, nil guard present?, element conversion.
        Build from a slice: nil guard + make.  Build from an array: make, no guard.
        Assign from a slice: nil guard + make.  Assign from an array: NEITHER (the code omits `make`). -/
    | list (te : Ty) (hasMake hasNilGuard : Bool) (elem : Conv)
    /-- map: `if s != nil { t = make(len); for k, v := range s { t[key(k)] = val(v) } }` -/
    | mapc (tk tv : Ty) (key val : Conv)
    /-- struct: per target field in declaration order -/
    | structc (fields : FieldPlans) (isUpdate : Bool)
    /-- enum switch: (source member, its value, action) per emitted `case`, then the default action -/
    | enumc (cases : List (S × ConstVal × EnumAction)) (dflt : EnumAction)
    /-- `default FUNC`: the target variable starts from the constructor's result (the constructor call,
        whether its result must be wrapped into a pointer), then `rest` assigns on top of it -/
    | withCtor (ctor : Conv) (toPointer : Bool) (rest : Conv)
    /-- Pointer / SourcePointer / TargetPointer with `default:update`: assign through the constructed value -/
    | ctorUpdate (ctor : Conv) (toPointer : Bool) (srcIsPtr tgtIsPtr : Bool) (inner : Conv)
    deriving Repr, Inhabited
  inductive FieldPlans
    | nil
    | cons (f : FieldPlan) (rest : FieldPlans)
    deriving Repr, Inhabited
  inductive FieldPlan
    /-- not assigned (ignore, ignoreUnexported, ignoreMissing without match) -/
    | skip (target : S)
    /-- assigned from a source path.  `path` = field names to walk ([] = the whole source, `map . X`);
        `derefs[i]` = the value reached before step i is a pointer and is dereferenced under a nil guard;
        `wrapPtr` = some pointer was passed and the leaf is not a pointer: the leaf is passed on as a pointer;
        `leafNil` = the leaf itself is a pointer (passed on as it is, nil when a guard fails) -/
    | mapped (target : S) (path : List S) (derefs : List Bool) (guarded : Bool) (leafIsPtr : Bool)
        (conv : Conv) (zero : ZeroCheck)
    /-- assigned from a method of the source struct reached by `path`: `call` (a `.call (.structMethod _)` node) is
        evaluated on the receiver inside the nil guards; its result (behind a fresh pointer when a guard exists and the
        result is not a pointer itself, `resIsPtr`) feeds `conv` -/
    | viaMethod (target : S) (path : List S) (derefs : List Bool) (guarded : Bool) (call : Conv) (resIsPtr : Bool)
        (conv : Conv) (zero : ZeroCheck)
    deriving Repr, Inhabited
end

def FieldPlans.toList : FieldPlans → List FieldPlan
  | .nil => []
  | .cons f r => f :: r.toList

def FieldPlans.ofList : List FieldPlan → FieldPlans
  | [] => .nil
  | f :: r => .cons f (FieldPlans.ofList r)

inductive Role | source | multiSource | iface | context | target
  deriving Repr, DecidableEq, Inhabited

structure Arg where
  name : S
  use : Role
  ty : Ty
  deriving Repr, Inhabited

/-- a custom function (extend / map|FUNC / default) or the signature part of a method (method.Definition) -/
structure FnDef where
  name : S
  pkgPath : S
  source : Option Ty
  target : Ty
  args : List Arg
  contexts : List Ty
  returnError : Bool
  typeParams : Bool := false
  updateTarget : Bool := false
  deriving Repr, Inhabited

structure FieldCfg where
  source : S := []
  ignore : Bool := false
  function : Option Nat := none      -- custom function index
  deriving Repr, Inhabited

structure MethodCfg where
  common : Settings.Common
  fields : List (S × FieldCfg) := []
  autoMap : List S := []
  enumMap : List (S × S) := []
  transformers : List (S × S) := []
  rawFieldSettings : List S := []
  constructor : Option Nat := none
  deriving Repr, Inhabited

/-- a method body: how the (single) source becomes the target -/
inductive Body
  | convert (c : Conv)              -- `return conv(source)` (Build)
  | delegate (fn : Nat) (args : List CallArg) (retErr : Bool)    -- an extend function with the same signature
  | update (srcIsPtr : Bool) (c : Conv)   -- update method: assign into *target (under `if source != nil` for a pointer source)
  deriving Repr, Inhabited

structure GenMethod where
  name : S
  source : Ty
  target : Ty
  args : List Arg
  contexts : List Ty
  returnError : Bool
  updateTarget : Bool
  explicit : Bool
  dirty : Bool
  originPath : List Nat
  originName : S
  cfg : MethodCfg
  body : Option Body := none
  deriving Repr, Inhabited

end Gv
