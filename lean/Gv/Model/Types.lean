/-
Model of the Go types goverter looks at (go/types as seen through xtype.Type) and of the
environment of named types.
-/
import Gv.Model.Str

namespace Gv
open Gv.Str

inductive Kind
  | bool | int | int8 | int16 | int32 | int64 | uint | uint8 | uint16 | uint32 | uint64 | uintptr
  | float32 | float64 | complex64 | complex128 | string | unsafePointer | invalid
  /-- the predeclared aliases `byte` (= uint8) and `rune` (= int32): identical Go types, but goverter keys its method
      and extend tables and `skipCopySameType` on the type's text, where the two spellings differ -/
  | byte | rune
  deriving Repr, DecidableEq, Inhabited

/-- the kind as `go/types` reports it (`BasicType.Kind()`): the aliases are their target kinds -/
def Kind.canon : Kind → Kind
  | .byte => .uint8
  | .rune => .int32
  | k => k

/-- kinds of types goverter never converts structurally -/
inductive OKind | iface | func | chan | tparam | generic | tuple | unknown
  deriving Repr, DecidableEq, Inhabited

structure FieldInfo where
  name : S
  exported : Bool
  embedded : Bool
  pkg : S
  /-- the field tag: part of the identity of a struct type (and of the text goverter keys its tables on) -/
  tag : S := []
  deriving Repr, DecidableEq, Inhabited

mutual
  inductive Ty
    | basic (k : Kind)
    | named (id : S)
    | ptr (e : Ty)
    | slice (e : Ty)
    | array (n : Nat) (e : Ty)
    | map (k v : Ty)
    | struct (fs : Fields)
    | opaque (k : OKind) (str : S)
    deriving Repr, Inhabited
  inductive Fields
    | nil
    | cons (f : FieldInfo) (t : Ty) (rest : Fields)
    deriving Repr, Inhabited
end

mutual
  def Ty.beq : Ty → Ty → Bool
    | .basic a, .basic b => a == b
    | .named a, .named b => a == b
    | .ptr a, .ptr b => Ty.beq a b
    | .slice a, .slice b => Ty.beq a b
    | .array n a, .array m b => n == m && Ty.beq a b
    | .map k v, .map k' v' => Ty.beq k k' && Ty.beq v v'
    | .struct a, .struct b => Fields.beq a b
    | .opaque k s, .opaque k' s' => k == k' && s == s'
    | _, _ => false
  def Fields.beq : Fields → Fields → Bool
    | .nil, .nil => true
    | .cons f t r, .cons f' t' r' => f == f' && Ty.beq t t' && Fields.beq r r'
    | _, _ => false
end

instance : BEq Ty := ⟨Ty.beq⟩
instance : BEq Fields := ⟨Fields.beq⟩

def Fields.toList : Fields → List (FieldInfo × Ty)
  | .nil => []
  | .cons f t r => (f, t) :: r.toList

def Fields.ofList : List (FieldInfo × Ty) → Fields
  | [] => .nil
  | (f, t) :: r => .cons f t (Fields.ofList r)

def Fields.length : Fields → Nat
  | .nil => 0
  | .cons _ _ r => r.length + 1

inductive ConstVal
  | int (v : Int)
  | str (s : S)
  | bool (b : Bool)
  | opaque (uid : Nat) (exact : S)     -- *big.Int / *big.Rat / *big.Float: compared by pointer identity in the code
  deriving Repr, DecidableEq, Inhabited

structure FuncSig where
  str : S
  params : List (S × Ty)
  results : List Ty
  typeParams : Bool
  variadic : Bool
  deriving Repr, Inhabited

structure MethodDecl where
  name : S
  exported : Bool
  ptrRecv : Bool
  sig : FuncSig
  deriving Repr, Inhabited

structure ConstDecl where
  name : S
  exported : Bool
  val : ConstVal
  deriving Repr, Inhabited

structure NamedDecl where
  id : S
  pkgPath : S
  pkgName : S
  name : S
  exported : Bool
  underlying : Ty           -- never `named`
  methods : List MethodDecl
  consts : List ConstDecl   -- constants of exactly this type in its package scope, sorted by name
  deriving Repr, Inhabited

abbrev TEnv := List NamedDecl

def TEnv.find (env : TEnv) (id : S) : Option NamedDecl := env.find? (fun d => d.id == id)

/-- the type behind a named type (one step; underlying types are never named) -/
def under (env : TEnv) : Ty → Ty
  | .named id => match env.find id with
    | some d => d.underlying
    | none => .opaque .unknown id
  | t => t

def Ty.isNamed : Ty → Bool
  | .named _ => true
  | _ => false

/-! the flags of xtype.Type, on the resolved type -/
def isBasic (env : TEnv) (t : Ty) : Option Kind := match under env t with | .basic k => some k | _ => none
def isPtr (env : TEnv) (t : Ty) : Option Ty := match under env t with | .ptr e => some e | _ => none
def isStruct (env : TEnv) (t : Ty) : Option Fields := match under env t with | .struct fs => some fs | _ => none
def isMap (env : TEnv) (t : Ty) : Option (Ty × Ty) := match under env t with | .map k v => some (k, v) | _ => none
/-- (element, fixed size) -/
def isList (env : TEnv) (t : Ty) : Option (Ty × Option Nat) :=
  match under env t with
  | .slice e => some (e, none)
  | .array n e => some (e, some n)
  | _ => none

def Kind.name : Kind → String
  | .bool => "bool" | .int => "int" | .int8 => "int8" | .int16 => "int16" | .int32 => "int32" | .int64 => "int64"
  | .uint => "uint" | .uint8 => "uint8" | .uint16 => "uint16" | .uint32 => "uint32" | .uint64 => "uint64" | .uintptr => "uintptr"
  | .float32 => "float32" | .float64 => "float64" | .complex64 => "complex64" | .complex128 => "complex128"
  | .string => "string" | .unsafePointer => "unsafe.Pointer" | .invalid => "invalid type"
  | .byte => "byte" | .rune => "rune"

def Kind.ofName : String → Kind
  | "bool" => .bool | "int" => .int | "int8" => .int8 | "int16" => .int16 | "int32" => .int32 | "int64" => .int64
  | "uint" => .uint | "uint8" => .uint8 | "uint16" => .uint16 | "uint32" => .uint32 | "uint64" => .uint64 | "uintptr" => .uintptr
  | "float32" => .float32 | "float64" => .float64 | "complex64" => .complex64 | "complex128" => .complex128
  | "string" => .string | "unsafepointer" => .unsafePointer | "byte" => .byte | "rune" => .rune | _ => .invalid

/-- kinds `enum.Detect` accepts: IsFloat | IsString | IsInteger -/
def Kind.enumOK : Kind → Bool
  | .bool | .complex64 | .complex128 | .unsafePointer | .invalid => false
  | _ => true

/-- `xtype.Type.asID` : the identifier fragment of a type (`ID` = escapeReserved, `UnescapedID` not) -/
def tyIdAux (env : TEnv) : Nat → Bool → Bool → Ty → S
  | 0, _, _, _ => "unknown".toList
  | fuel+1, seeNamed, esc, t =>
    match t, seeNamed with
    | .named id, true =>
      match env.find id with
      | some d => if d.pkgPath.isEmpty then (if esc then 'x' :: d.name else d.name) else d.pkgName ++ d.name
      | none => "unknown".toList
    | _, _ =>
    match under env t with
    | .slice e => tyIdAux env fuel true false e ++ "List".toList
    | .array _ e => tyIdAux env fuel true false e ++ "List".toList
    | .basic k => if esc then 'x' :: k.name.toList else k.name.toList
    | .ptr e => 'p' :: title (tyIdAux env fuel true false e)
    | .map k v => "map".toList ++ title (tyIdAux env fuel true false k ++ title (tyIdAux env fuel true false v))
    | .struct _ => "unnamed".toList
    | .opaque .chan _ => "chan".toList
    | _ => "unknown".toList

def tyId (env : TEnv) (t : Ty) : S := tyIdAux env 64 true true t
def tyUnescapedId (env : TEnv) (t : Ty) : S := tyIdAux env 64 true false t

end Gv
