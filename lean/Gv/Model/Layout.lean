/-
Model of where generated code goes: generator/filemanager.go (getOutputDir, Get,
header comments), config/package.go (resolvePackage), config/converter.go
(resolveOutputPackage, PackageID, defaultOutputFile) and jennifer's guessAlias.
-/
import Gv.Model.Path
import Gv.Model.Settings
import Gv.Model.Facts

namespace Gv.Layout
open Gv.Str Gv.Path Gv.Settings

/-- `defaultOutputFile` : <base without ext>.gen<ext> -/
def defaultOutputFile (fileName : S) : S :=
  let f := base fileName
  let e := ext f
  (if e.isEmpty then f else f.take (f.length - e.length)) ++ ".gen".toList ++ e

/-- `getOutputDir` (despite its name: the output FILE path) -/
def outputPath (declFile outputFile : S) : S :=
  if isAbs outputFile then clean outputFile else join2 (dir declFile) outputFile

/-- `resolvePackage` -/
def resolvePackage (declFile sourcePackage targetFile : S) : Option S :=
  let r := if isAbs targetFile then rel (dir declFile) targetFile else some targetFile
  r.map (fun rf => dir (join2 sourcePackage rf))

/-- `resolveOutputPackage`; `loaded p` = name of the package the loader found at import path `p` -/
def resolveOutputPackage (loaded : S → Option S) (declFile declPkg : S) (c : ConvCfg) : ConvCfg :=
  match resolvePackage declFile declPkg c.outputFile with
  | none => c
  | some tp =>
    let c1 := if c.outputPackagePath.isEmpty then { c with outputPackagePath := tp } else c
    match loaded tp with
    | none => c1
    | some n => if c1.outputPackageName.isEmpty then { c1 with outputPackageName := n } else c1

def packageID (c : ConvCfg) : S :=
  if c.outputPackageName.isEmpty then c.outputPackagePath else c.outputPackagePath ++ [':'] ++ c.outputPackageName

def toLowerAscii (c : Char) : Char := if 'A' ≤ c ∧ c ≤ 'Z' then Char.ofNat (c.toNat + 32) else c

/-- the alphanumeric core of the last path element, leading digits removed -/
def aliasCore (path : S) : S :=
  let a := if path.getLast? == some '/' then path.dropLast else path
  let a := (a.reverse.takeWhile (· != '/')).reverse
  let a := (a.map toLowerAscii).filter (fun c => ('a' ≤ c ∧ c ≤ 'z') || ('0' ≤ c ∧ c ≤ '9'))
  a.dropWhile (fun c => '0' ≤ c ∧ c ≤ '9')

/-- jennifer's `guessAlias` (ASCII lower-casing; non-ASCII letters are dropped by the `[^a-z0-9]` filter
unless their lower-case form is ASCII, which the harness does not generate) -/
def guessAlias (path : S) : S :=
  if (aliasCore path).isEmpty then "pkg".toList else aliasCore path

/-- the `package` clause of the emitted file -/
def packageClause (c : ConvCfg) : S :=
  if c.outputPackageName.isEmpty then guessAlias c.outputPackagePath else c.outputPackageName

/-- the first lines of every emitted file (before the package clause) -/
def headerLines (buildConstraint : S) : List S :=
  let h := (Facts.headerComments.headD "").toList.drop 6     -- strip the `const:` tag of the fact
  if buildConstraint.isEmpty then [h] else [h, "//go:build ".toList ++ buildConstraint]

/-- one converter as far as file management is concerned -/
structure Placed where
  name : S            -- struct name (sort key of config.Parse)
  path : S            -- output path
  pkgID : S
  clause : S
  deriving Repr, DecidableEq, Inhabited

structure OutFile where
  path : S
  pkgID : S
  clause : S
  converters : List S
  deriving Repr, DecidableEq, Inhabited

inductive LayoutErr | differentPackages (path : S)
  deriving Repr, DecidableEq, Inhabited

/-- `fileManager.Get` over the converters in generation order: one file per output path, all converters of
a path must agree on the package ID; the first converter of a path fixes the package clause -/
def place : List OutFile → List Placed → Except LayoutErr (List OutFile)
  | files, [] => .ok files
  | files, p :: ps =>
    match files.find? (fun f => f.path == p.path) with
    | none => place (files ++ [{ path := p.path, pkgID := p.pkgID, clause := p.clause, converters := [p.name] }]) ps
    | some f =>
      if f.pkgID != p.pkgID then .error (.differentPackages p.path)
      else place (files.map (fun g => if g.path == p.path then { g with converters := g.converters ++ [p.name] } else g)) ps

end Gv.Layout
