/-
The generalised fragment check (C05 / C10 composites): `PlanCheck.checkTy` extended by
  * skipped fields (`FieldPlan.skip`: goverter:ignore / ignoreMissing / ignoreUnexported — the field is not assigned),
  * struct nodes of update methods (`structc … isUpdate` with either flag),
  * zero-value guards (`ZeroCheck.check`: update:ignoreZeroValueField),
  * fields fed by a source METHOD (`FieldPlan.viaMethod`, no error result, identity conversion of the uninterpreted result),
  * mapped fields with arbitrary source paths (goverter:map: dotted paths through structs and nil-guarded pointers, `.`),
  * update methods at the top level (`Body.update srcIsPtr c`),
  * default constructors at the top level of a conversion method (`withCtor` / `ctorUpdate` around a constructor call).
`Gv.Sound.checkProgU_sound` turns `true` into the hypotheses of `Gv.Sound.evalConv_onto`.
-/
import Gv.Model.Eval
import Gv.Model.PlanCheck

namespace Gv.PlanCheck
open Gv Gv.Str Gv.Eval

/-- one step of a field path: a pointer is dereferenced (under a nil guard) -/
def derefTy (env : TEnv) (cur : Ty) : Ty × Bool :=
  match under env cur with
  | .ptr e => (e, true)
  | _ => (cur, false)

/-- the type of field `name` of the struct type `t` -/
def fieldTyOf (env : TEnv) (t : Ty) (name : S) : Option Ty :=
  match under env t with
  | .struct fs => (fs.toList.find? (fun (x : FieldInfo × Ty) => x.1.name == name)).map (·.2)
  | _ => none

/-- the walk of a field path over TYPES (builder/struct.go mapField, `Gen.walkPath`): each step selects a field of a struct or
of a pointer to a struct; result: the leaf type, per step whether a pointer is dereferenced (under a nil guard), and
whether any step does -/
def walkTy (env : TEnv) : Ty → List S → Option (Ty × List Bool × Bool)
  | cur, [] => some (cur, [], false)
  | cur, p :: rest =>
    match fieldTyOf env (derefTy env cur).1 p with
    | some ty =>
      (match walkTy env ty rest with
       | some (leaf, ds, g) => some (leaf, (derefTy env cur).2 :: ds, (derefTy env cur).2 || g)
       | none => none)
    | none => none

/-- the result type of method `n` of the named type `t`, if it has exactly one result (no error result) -/
def methodResTy (env : TEnv) (t : Ty) (n : S) : Option Ty :=
  match t with
  | .named id =>
    (match env.find id with
     | some d =>
       (match d.methods.find? (fun (m : MethodDecl) => m.name == n) with
        | some md => (match md.sig.results with | [r] => some r | _ => none)
        | none => none)
     | none => none)
  | _ => none

def isCtxArg : CallArg → Bool
  | .ctx _ => true
  | _ => false

/-- the identity conversions: the only ones that make sense on an uninterpreted value -/
def isIdConv : Conv → Bool
  | .ident => true
  | .cast .ident => true
  | _ => false

/-- the conversions accepted for the result of a source method (an uninterpreted value, possibly behind the temporary
pointer of a nil guard): an identity conversion, directly or below one pointer step -/
def opaqueShape : Conv → Bool
  | .ident => true
  | .cast .ident => true
  | .ptrPtr _ c => isIdConv c
  | .srcPtr _ c => isIdConv c
  | .tgtPtr _ c => isIdConv c
  | _ => false

/-- the type of the value handed to the field conversion: the leaf itself, or — behind a nil guard, for a non-pointer leaf —
the temporary pointer to it -/
def fieldArgTy (guarded leafIsPtr : Bool) (leaf : Ty) : Ty := if !guarded || leafIsPtr then leaf else .ptr leaf

mutual
  def checkTyU (p : Program) : Conv → Ty → Ty → Bool
    | .ident, s, t =>
      (match under p.conv.env s, under p.conv.env t with
       | .basic k1, .basic k2 => k1 == k2
       | _, _ => false)
    | .cast inner, s, t =>
      (match inner, under p.conv.env s, under p.conv.env t with
       | .ident, .basic k1, .basic k2 => k1 == k2
       | _, _, _ => false)
    | .call callee args retErr _, s, t =>
      (match callee with
       | .method m =>
         isSourceOnly args && !retErr &&
         (match p.methods[m]? with
          | some gm => gm.source == s && gm.target == t
          | none => false)
       | _ => false)
    | .ptrPtr te inner, s, t =>
      (match under p.conv.env s, under p.conv.env t with
       | .ptr se, .ptr te' => te' == te && checkTyU p inner se te
       | _, _ => false)
    | .tgtPtr te inner, s, t =>
      (match under p.conv.env s, under p.conv.env t with
       | .ptr _, _ => false
       | _, .ptr te' => te' == te && checkTyU p inner s te
       | _, _ => false)
    | .srcPtr t' inner, s, t =>
      (match under p.conv.env s, under p.conv.env t with
       | _, .ptr _ => false
       | .ptr se, _ => t' == t && checkTyU p inner se t
       | _, _ => false)
    | .list te hasMake hasGuard elem, s, t =>
      (match under p.conv.env s, under p.conv.env t with
       | .slice se, .slice te' => hasMake && hasGuard && te' == te && checkTyU p elem se te
       | .array _ se, .slice te' => hasMake && !hasGuard && te' == te && checkTyU p elem se te
       | _, _ => false)
    | .mapc tk tv key val, s, t =>
      (match under p.conv.env s, under p.conv.env t with
       | .map sk sv, .map tk' tv' => tk' == tk && tv' == tv && checkTyU p key sk tk && checkTyU p val sv tv
       | _, _ => false)
    | .structc plans _, s, t =>
      (match under p.conv.env s, under p.conv.env t with
       | .struct _, .struct tfs =>
         decide ((fieldNames tfs.toList).Nodup) && checkFieldsU p plans s tfs.toList
       | _, _ => false)
    | _, _, _ => false
  /-- one plan per target field, in declaration order (`s` = the source struct type) -/
  def checkFieldsU (p : Program) : FieldPlans → Ty → List (FieldInfo × Ty) → Bool
    | .nil, _, [] => true
    | .cons f rest, s, (tf, tty) :: tfs => checkFieldU p f s tf tty && checkFieldsU p rest s tfs
    | _, _, _ => false
  /-- a skipped field, or a field fed by a source path that type-checks from the source struct type: `derefs`, `guarded`,
  `leafIsPtr` are what the walk over the types says, and the conversion goes from the handed value's type to the field type -/
  def checkFieldU (p : Program) : FieldPlan → Ty → FieldInfo → Ty → Bool
    | .skip target, _, tf, _ => target == tf.name
    | .mapped target path derefs guarded leafIsPtr cv _, s, tf, tty =>
      target == tf.name &&
      (match walkTy p.conv.env s path with
       | some (leaf, ds, g) =>
         derefs == ds && guarded == g && leafIsPtr == (isPtr p.conv.env leaf).isSome &&
         checkTyU p cv (fieldArgTy guarded leafIsPtr leaf) tty
       | none => false)
    | .viaMethod target path derefs guarded (.call (.structMethod n) args retErr _) resIsPtr cv _, s, tf, tty =>
      target == tf.name && !retErr && args.all isCtxArg &&
      (match walkTy p.conv.env s path with
       | some (t0, ds, g) =>
         derefs == ds ++ [(derefTy p.conv.env t0).2] && guarded == (g || (derefTy p.conv.env t0).2) &&
         (fieldTyOf p.conv.env (derefTy p.conv.env t0).1 n).isNone &&
         (match methodResTy p.conv.env (derefTy p.conv.env t0).1 n with
          | some rty =>
            resIsPtr == (isPtr p.conv.env rty).isSome && opaqueShape cv &&
            checkTyU p cv (fieldArgTy guarded resIsPtr rty) tty
          | none => false)
       | none => false)
    | _, _, _, _ => false
end

/-- `default FUNC`: the constructor call as `Gen.targetVar` emits it — a call of a custom function that the harness interprets
as a constructor (`isCtor`), returning the target type (or, with `toPointer`, the non-pointer type the target points to) -/
def checkCtor (p : Program) (ctor : Conv) (toPointer : Bool) (t : Ty) : Bool :=
  match ctor with
  | .call (.custom i) _ _ _ =>
    (match p.conv.customs[i]? with
     | some d =>
       p.sem.isCtor d.name &&
       (if toPointer then
          (match under p.conv.env t with
           | .ptr te => d.target == te && (isPtr p.conv.env d.target).isNone
           | _ => false)
        else d.target == t)
     | none => false)
  | _ => false

/-- the body of a conversion method: a structural conversion, possibly starting from a default constructor
(`withCtor`: plain `default`; `ctorUpdate`: with default:update, over the three pointer shapes) -/
def checkConvertU (p : Program) (c : Conv) (s t : Ty) : Bool :=
  match c with
  | .withCtor ctor toPointer rest =>
    -- the constructor wraps a builder's own code, never a call of another method (`callExisting` returns before)
    checkCtor p ctor toPointer t && (match rest with | .call _ _ _ _ => false | _ => true) && checkTyU p rest s t
  | .ctorUpdate ctor toPointer srcIsPtr tgtIsPtr inner =>
    checkCtor p ctor toPointer t &&
    (if srcIsPtr then
       (match under p.conv.env s with
        | .ptr se =>
          if tgtIsPtr then
            (match under p.conv.env t with
             | .ptr te => checkTyU p inner se te
             | _ => false)
          else
            (match under p.conv.env t with
             | .ptr _ => false
             | _ => checkTyU p inner se t)
        | _ => false)
     else if tgtIsPtr then
       (match under p.conv.env s, under p.conv.env t with
        | .ptr _, _ => false
        | _, .ptr te => checkTyU p inner s te
        | _, _ => false)
     else false)
  | c => checkTyU p c s t

/-- the struct types an update method converts between: the pointee of the target, and the source or its pointee -/
def checkBodyU (p : Program) (gm : GenMethod) : Bool :=
  match gm.body with
  | some (.convert c) => checkConvertU p c gm.source gm.target
  | some (.update srcIsPtr c) =>
    (match under p.conv.env gm.target with
     | .ptr te =>
       if srcIsPtr then
         (match under p.conv.env gm.source with
          | .ptr se => checkTyU p c se te
          | _ => false)
       else checkTyU p c gm.source te
     | _ => false)
  | _ => false

/-- every method of the program is a structural conversion / a structural update of its own signature -/
def checkProgU (p : Program) : Bool := p.methods.all (checkBodyU p)

end Gv.PlanCheck
