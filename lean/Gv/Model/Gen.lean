/-
Model of the generator: generator/{generate,setup,validate,generator}.go, builder/*.go, method/index.go,
xtype/type.go (FindField), xtype/enum.go, enum/detect.go, enum/transformer_builtin.go.

`generate` turns a converter (its custom functions and its declared methods, with resolved settings)
into a method table whose bodies are conversion plans (Gv.Plan), or a diagnostic.  It mirrors the code
including its order of decisions: lookup of extend functions, then declared/generated methods, then
sub-method creation, then the ordered rule list; the dirty loop that retrofits error results and
context parameters; the per-file namer for sub-method names.
-/
import Gv.Model.Types
import Gv.Model.Plan
import Gv.Model.Facts

namespace Gv.Gen
open Gv Gv.Str Gv.Settings

inductive Diag
  | typeMismatch | typeMismatchPtr
  | noMatch | ambiguous | unexportedField | unknownField | cannotAccess | cannotFind
  | autoMapNotFound | autoMapNotStruct
  | overlapping | invalidFieldMapping | updateTargetShape | updateSourceShape
  | methodSourceMismatch | methodTargetMismatch | errorNotReturned | delegateErrorMismatch
  | contextMissing | contextUnsatisfied | overlappingSignatures
  | enumUnknownMissing | enumKeyMissing | enumTargetMissing | enumMismatch | enumInvalidTarget
  | enumTransformerError | enumTransformerEmpty | enumUnderlyingConflict | enumErrorNotAllowed
  | structMethodSig         -- a source struct method whose signature cannot be used (method.Parse rejects it)
  | unsupported (why : String)
  | outOfFuel
  deriving Repr, DecidableEq, Inhabited

/-- answers of Go's regexp package and of types.AssignableTo for interface targets, supplied with the case -/
structure Oracles where
  rxMatch : S → S → Bool := fun _ _ => false            -- pattern, subject (MatchString)
  rxReplace : S → S → S → Option S := fun _ _ _ => none   -- pattern, replacement, subject (ReplaceAllString); none = pattern invalid
  assignable : Ty → Ty → Bool := fun _ _ => false          -- extra assignability (to interface types)

structure Converter where
  env : TEnv
  common : Common                  -- the converter's resolved Common
  outputPkg : S                    -- OutputPackagePath
  customs : List FnDef             -- all custom functions referenced (extend, map|FUNC, default)
  extend : List Nat                -- indices into `customs`, in the order of the extend settings
  orc : Oracles

structure GState where
  methods : List GenMethod
  fileNames : List S        -- per-file namer (sub-method names)
  seen : List S             -- MethodContext.SeenNamed of the method being built
  useCtor : Bool            -- MethodContext.UseConstructor of the method being built
  /-- (callee, caller): which methods were built with a call of a declared / generated method (`generator.callers`);
      they are rebuilt when the callee's signature changes -/
  callers : List (Nat × Nat) := []
  deriving Inhabited

abbrev M := StateT GState (Except Diag)

def fail {α} (d : Diag) : M α := throw d

/-- per-method constants of builder.MethodContext -/
structure Ctx where
  self : Nat
  cfg : MethodCfg
  confSource : Option Ty
  confTarget : Ty
  updateTarget : Bool
  fieldsTarget : Ty
  available : List Ty        -- AvailableContext
  ctxArgs : List Ty          -- context parameters the method has in THIS build (MethodContext.Context)
  sigSource : Ty
  sigTarget : Ty
  deriving Inhabited

/-! ### small helpers -/

def tyMem (t : Ty) (ts : List Ty) : Bool := ts.any (· == t)

/-- `satisfiesContext required available` -/
def satisfies (required available : List Ty) : Bool := required.all (fun r => tyMem r available)

def namerName (used : List S) (base : S) : S × List S :=
  let rec go (fuel i : Nat) : S :=
    match fuel with
    | 0 => base
    | fuel+1 =>
      let cand := if i ≤ 1 then base else base ++ (toString i).toList
      if used.contains cand then go fuel (i+1) else cand
  let n := go (used.length + 2) 1
  (n, used ++ [n])

def assignable (c : Converter) (a b : Ty) : Bool :=
  a == b || (under c.env a == under c.env b && (!a.isNamed || !b.isNamed) &&
              (match under c.env a with | .opaque _ _ => false | _ => true)) || c.orc.assignable a b

/-- `xtype.Accessible` for a struct field -/
def fieldAccessible (c : Converter) (f : FieldInfo) : Bool := f.exported || f.pkg.isEmpty || f.pkg == c.outputPkg

def toLowerAscii (ch : Char) : Char := if 'A' ≤ ch ∧ ch ≤ 'Z' then Char.ofNat (ch.toNat + 32) else ch
def equalFold (a b : S) : Bool := a.map toLowerAscii == b.map toLowerAscii

/-! ### enum detection (enum/detect.go, xtype/enum.go) -/

def enumMembers (c : Converter) (cfg : Common) (t : Ty) : Option (List ConstDecl) :=
  match t with
  | .named id =>
    match c.env.find id with
    | none => none
    | some d =>
      if d.pkgPath.isEmpty then none                      -- universe types (after the fix: for `error`)
      else if !cfg.enumEnabled then none
      else if cfg.enumExcludes.any (fun (p, n) => c.orc.rxMatch p d.pkgPath && c.orc.rxMatch n d.name) then none
      else match d.underlying with
        | .basic k => if k.enumOK && !d.consts.isEmpty then some d.consts else none
        | _ => none
  | _ => none

def isEnumPair (c : Converter) (cfg : Common) (s t : Ty) : Bool :=
  cfg.enumEnabled && (enumMembers c cfg s).isSome && (enumMembers c cfg t).isSome

/-! ### field lookup (xtype/type.go) -/

inductive FieldHit
  | field (name : S) (ty : Ty)
  | method (name : S) (d : MethodDecl) (pkg : S)   -- a method declared on the named source type (and its package)
  deriving Repr, Inhabited

/-- `findAllFields` on one struct: the exact match (if any) and the case-insensitive matches in order -/
def findAllFields (c : Converter) (t : Ty) (name : S) (ignoreCase : Bool) : Option FieldHit × List FieldHit :=
  let fs := match isStruct c.env t with | some fs => fs.toList | none => []
  let ms := match t with
    | .named id => match c.env.find id with | some d => d.methods.map (fun (m : MethodDecl) => FieldHit.method m.name m d.pkgPath) | none => []
    | _ => []
  let cands : List FieldHit := fs.map (fun (f, ty) => .field f.name ty) ++ ms
  let nameOf : FieldHit → S := fun h => match h with | .field n _ => n | .method n _ _ => n
  -- the scan stops at the first exact match; case-insensitive matches seen before it are returned too
  let rec scan (l : List FieldHit) (acc : List FieldHit) : Option FieldHit × List FieldHit :=
    match l with
    | [] => (none, acc)
    | h :: rest =>
      if nameOf h == name then (some h, acc)
      else if ignoreCase && equalFold (nameOf h) name then scan rest (acc ++ [h])
      else scan rest acc
  scan cands []

inductive FindResult
  | one (path : List S) (hit : FieldHit)
  | noMatch
  | ambiguous
  deriving Repr, Inhabited

/-- `xtype.FindField` over the source struct and the autoMap sources -/
def findField (c : Converter) (name : S) (ignoreCase : Bool) (source : Ty) (extra : List (List S × Ty)) : FindResult :=
  let (ex0, ic0) := findAllFields c source name ignoreCase
  let exact : List (List S × FieldHit) := (match ex0 with | some h => [([], h)] | none => [])
  let ic : List (List S × FieldHit) := ic0.map (fun h => ([], h))
  let (exact, ic) := extra.foldl (fun (acc : List (List S × FieldHit) × List (List S × FieldHit)) (p, t) =>
      let (e, i) := findAllFields c t name ignoreCase
      (acc.1 ++ (match e with | some h => [(p, h)] | none => []), acc.2 ++ i.map (fun h => (p, h)))) (exact, ic)
  let ms := if exact.isEmpty then ic else exact
  match ms with
  | [(p, h)] => .one p h
  | [] => .noMatch
  | _ => .ambiguous

def findExactField (c : Converter) (t : Ty) (name : S) : Option FieldHit := (findAllFields c t name false).1

/-! ### the zero-value guard decision (builder/struct.go shouldCheckAgainstZero) -/

def shouldCheckZero (c : Converter) (cx : Ctx) (s t : Ty) (isUpdate call : Bool) : Bool :=
  if !cx.updateTarget && !isUpdate then false
  else
    let u := under c.env s
    let isStructT := match u with | .struct _ => true | _ => false
    let isBasicT := match u with | .basic _ => true | _ => false
    if isStructT && cx.cfg.common.ignoreStructZero then true
    else if isBasicT && cx.cfg.common.ignoreBasicZero then true
    else if cx.cfg.common.ignoreNillableZero then
      (match u with
       | .map _ _ => true
       | .opaque .chan _ | .opaque .func _ | .opaque .iface _ => true
       | .slice _ => call || (cx.cfg.common.skipCopySameType && s == t)
       | .ptr _ => call || (cx.cfg.common.skipCopySameType && s == t)
       | _ => false)
    else false

/-! ### state access -/

def getMethod (i : Nat) : M GenMethod := do
  match (← get).methods[i]? with
  | some m => pure m
  | none => fail (.unsupported "bad method index")

def modifyMethod (i : Nat) (f : GenMethod → GenMethod) : M Unit :=
  modify (fun s => { s with methods := s.methods.modify i f })

/-- `Index.Get` over a table of (signature, required contexts): first entry whose contexts are available -/
inductive GetResult | none | hit (i : Nat) | unsatisfied
  deriving Repr, Inhabited

def indexGet (entries : List (Nat × Ty × Ty × List Ty)) (s t : Ty) (available : List Ty) : GetResult :=
  let hits := entries.filter (fun (_, s', t', _) => s' == s && t' == t)
  if hits.isEmpty then .none
  else match hits.find? (fun (_, _, _, req) => satisfies req available) with
    | some (i, _, _, _) => .hit i
    | none => .unsatisfied

/-- the extend index after `RegisterOverrideOverlapping` of every extend function in order -/
def extendIndex (c : Converter) : List (Nat × Ty × Ty × List Ty) :=
  c.extend.foldl (fun (acc : List (Nat × Ty × Ty × List Ty)) i =>
    match c.customs[i]? with
    | none => acc
    | some d =>
      match d.source with
      | none => acc
      | some src =>
        let e := (i, src, d.target, d.contexts)
        match acc.findIdx? (fun (_, s', t', req) => s' == src && t' == d.target && (satisfies req d.contexts || satisfies d.contexts req)) with
        | some k => acc.set k e
        | none => acc ++ [e]) []

/-- the lookup index: declared and generated methods that are not update methods -/
def lookupIndex (ms : List GenMethod) : List (Nat × Ty × Ty × List Ty) :=
  (ms.zipIdx.filter (fun (m, _) => !m.updateTarget)).map (fun (m, i) => (i, m.source, m.target, m.contexts))

def hasSignature (c : Converter) (ms : List GenMethod) (s t : Ty) : Bool :=
  (extendIndex c).any (fun (_, s', t', _) => s' == s && t' == t) ||
  (lookupIndex ms).any (fun (_, s', t', _) => s' == s && t' == t)

/-- the method table after every recorded caller of `callee` was flagged for a rebuild -/
def markDirty (callers : List (Nat × Nat)) (callee : Nat) (ms : List GenMethod) : List GenMethod :=
  callers.foldl (fun ms p => if p.1 == callee then ms.modify p.2 (fun m => { m with dirty := true }) else ms) ms

/-- `generator.markCallersDirty` -/
def markCallersDirty (callee : Nat) : M Unit :=
  modify (fun st => { st with methods := markDirty st.callers callee st.methods })

/-- `generator.addContext`: the context argument is added to a generated method and to the generated methods already
built with a call of it (an explicit caller that lacks the context is only marked for a rebuild, which reports it).
The fuel bounds the walk over the caller graph (every step adds the context to one more method). -/
def addContext (need : Ty) : Nat → Nat → M Bool
  | 0, _ => pure true
  | fuel+1, i => do
    let m ← getMethod i
    if tyMem need m.contexts then return true
    if m.explicit then return false
    modifyMethod i (fun m => { m with contexts := m.contexts ++ [need],
                                      args := m.args ++ [{ name := [], use := .context, ty := need }], dirty := true })
    let st ← get
    for (ce, cr) in st.callers do
      if ce == i then
        if !(← addContext need fuel cr) then modifyMethod cr (fun m => { m with dirty := true })
    return true

/-- `generator.requireContext` -/
def requireContext (cx : Ctx) (need : Ty) : M Bool := do
  if tyMem need cx.ctxArgs then return true
  let self ← getMethod cx.self
  let n := (← get).methods.length + 1
  let rec walk (ids : List Nat) : M Bool :=
    match ids with
    | [] => pure true
    | i :: rest => do
      if !(← addContext need n i) then pure false
      else walk rest
  walk (cx.self :: self.originPath)

def wrapOf (cx : Ctx) (path : List PathElem) : Wrap :=
  if !cx.cfg.common.wrapErrorsUsing.isEmpty then { mode := .using cx.cfg.common.wrapErrorsUsing, path := path }
  else if cx.cfg.common.wrapErrors then { mode := .wrapErrors, path := path }
  else { mode := .none, path := path }

/-- `generator.ReturnError`: make every method on the origin path return an error; `false` if an explicit one does not -/
def returnError (cx : Ctx) : M Bool := do
  let self ← getMethod cx.self
  if self.returnError then return true
  let rec walk (ids : List Nat) : M Bool :=
    match ids with
    | [] => pure true
    | i :: rest => do
      let m ← getMethod i
      if m.explicit && !m.returnError then pure false
      else do
        if !m.returnError then
          modifyMethod i (fun m => { m with returnError := true, dirty := true })
          markCallersDirty i
        walk rest
  walk (cx.self :: self.originPath)

/-- `generator.CallMethod` -/
def callMethod (c : Converter) (cx : Ctx) (callee : Callee) (d : FnDef) (source : Option Ty) (target : Ty)
    (path : List PathElem) : M Conv := do
  let mut args : List CallArg := []
  for a in d.args do
    match a.use with
    | .iface => args := args ++ [.self]
    | .context =>
      if !(← requireContext cx a.ty) then fail .contextMissing
      args := args ++ [if tyMem a.ty cx.ctxArgs then .ctx a.ty else .ctxMissing a.ty]
    | .source =>
      match source, d.source with
      | some s, some ds => if !assignable c s ds && !d.typeParams then fail .methodSourceMismatch
      | _, _ => pure ()
      args := args ++ [.source]
    | .multiSource => fail (.unsupported "multi source")
    | .target => fail (.unsupported "target argument in callee")
  if !assignable c d.target target && !d.typeParams then fail .methodTargetMismatch
  -- remember who calls a declared / generated method
  match callee with
  | .method i => modify (fun st => if st.callers.any (fun p => p == (i, cx.self)) then st else { st with callers := st.callers ++ [(i, cx.self)] })
  | _ => pure ()
  if d.returnError then
    if !(← returnError cx) then fail .errorNotReturned
    pure (.call callee args true (wrapOf cx path))
  else pure (.call callee args false (wrapOf cx path))

def fnDefOfMethod (m : GenMethod) : FnDef :=
  { name := m.name, pkgPath := [], source := some m.source, target := m.target, args := m.args, contexts := m.contexts,
    returnError := m.returnError, updateTarget := m.updateTarget }

/-- `generator.callExisting` -/
def callExisting (c : Converter) (cx : Ctx) (s t : Ty) (path : List PathElem) : M (Option Conv) := do
  match indexGet (extendIndex c) s t cx.available with
  | .hit i =>
    match c.customs[i]? with
    | some d => return some (← callMethod c cx (.custom i) d (some s) t path)
    | none => fail (.unsupported "bad custom index")
  | .unsatisfied => fail .contextUnsatisfied
  | .none => pure ()
  match indexGet (lookupIndex (← get).methods) s t cx.available with
  | .hit i =>
    let m ← getMethod i
    return some (← callMethod c cx (.method i) (fnDefOfMethod m) (some s) t path)
  | .unsatisfied => fail .contextUnsatisfied
  | .none => return none

/-- `generator.shouldCreateSubMethod` (also marks the source as seen) -/
def shouldCreateSubMethod (c : Converter) (cx : Ctx) (s t : Ty) : M Bool := do
  let env := c.env
  let bothStruct := (isStruct env s).isSome && (isStruct env t).isSome
  let isCurPtrStruct := bothStruct && (cx.sigSource == .ptr s || cx.sigTarget == .ptr t)
  let st ← get
  let namedId : Option S := match s with | .named id => some id | _ => none
  let hasSeen := match namedId with | some id => st.seen.contains id | none => false
  let mut create := false
  if hasSeen then
    modifyMethod cx.self (fun m => { m with dirty := true })
    create := true
  else if !isCurPtrStruct then
    let namedNonBasic (x : Ty) : Bool := x.isNamed && (isBasic env x).isNone
    if namedNonBasic s then create := true
    else if namedNonBasic t then create := true
    else if (match isPtr env s with | some e => namedNonBasic e | none => false) then create := true
    else if (enumMembers c cx.cfg.common s).isSome && (enumMembers c cx.cfg.common t).isSome then create := true
    if cx.cfg.common.skipCopySameType && s == t then create := false
  match namedId with
  | some id => modify (fun st => { st with seen := if st.seen.contains id then st.seen else st.seen ++ [id] })
  | none => pure ()
  return create

def typeMismatch (c : Converter) (s t : Ty) : Diag :=
  if (isPtr c.env s).isSome && (isPtr c.env t).isNone then .typeMismatchPtr else .typeMismatch

/-- which target name a source member gets: an explicit `enum:map` entry, else what the transformers produced, else its own name -/
def chooseEnumTarget (enumMap tmap : List (S × S)) (name : S) : S :=
  match enumMap.lookup name with
  | some x => x
  | none => match tmap.lookup name with
    | some x => x
    | none => name

/-- a later transformer overrides an earlier one for the members it maps, and adds the rest -/
def mergeTransformer (tmap m : List (S × S)) : List (S × S) :=
  (tmap.filter (fun (k, _) => !m.any (·.1 == k))) ++ m

/-- what one target name of an enum mapping means: an action (`@error` needs an error result), or a member of the target enum -/
def enumAction (cx : Ctx) (path : List PathElem) (tm : List ConstDecl) (targetName : S) : M EnumAction := do
  if Settings.isEnumAction targetName then
    if targetName == "@ignore".toList then pure .ignore
    else if targetName == "@panic".toList then pure .panic
    else if targetName == "@error".toList then
      if !(← returnError cx) then fail .enumErrorNotAllowed
      pure (.error (wrapOf cx path))
    else fail .enumInvalidTarget
  else match tm.find? (·.name == targetName) with
    | some td => pure (.member targetName td.val)
    | none => fail .enumTargetMissing

/-- what one `enum:transform regex PATTERN REPLACEMENT` maps: every source member whose replaced name is a target member -/
def transformerPairs (c : Converter) (pat repl : S) (tm : List ConstDecl) : List ConstDecl → Except Diag (List (S × S))
  | [] => .ok []
  | sd :: rest =>
    match c.orc.rxReplace pat repl sd.name with
    | none => .error .enumTransformerError
    | some tk =>
      match transformerPairs c pat repl tm rest with
      | .error e => .error e
      | .ok m => .ok (if tm.any (·.name == tk) then (sd.name, tk) :: m else m)

/-- all transformers of the method, merged in source order (a later one overrides an earlier one) -/
def enumTransformers (c : Converter) (sm tm : List ConstDecl) : List (S × S) → List (S × S) → Except Diag (List (S × S))
  | [], tmap => .ok tmap
  | (name, cfgS) :: rest, tmap =>
    if name != "regex".toList then .error (.unsupported "custom transformer")
    else match splitOn ' ' cfgS with
      | [pat, repl] =>
        match transformerPairs c pat repl tm sm with
        | .error e => .error e
        | .ok m =>
          -- (an invalid pattern with an empty source list cannot be told apart; members are never empty)
          if m.isEmpty then .error .enumTransformerEmpty
          else enumTransformers c sm tm rest (mergeTransformer tmap m)
      | _ => .error .enumTransformerError

/-- members sharing a source value must agree: on the target VALUE when both targets are members, else on the target name -/
def enumMismatch (tm : List ConstDecl) (targetName prevTarget : S) : Bool :=
  let valOf (n : S) : Option ConstVal := (tm.find? (·.name == n)).map (·.val)
  if !Settings.isEnumAction targetName && !Settings.isEnumAction prevTarget then valOf prevTarget != valOf targetName
  else targetName != prevTarget

/-- the loop state of `Enum.Build`: emitted cases, source value ↦ target name of the emitted case, enum:map keys not met yet -/
structure EnumAcc where
  cases : List (S × ConstVal × EnumAction) := []
  seenVals : List (ConstVal × S) := []
  remaining : List S := []

/-- one case per distinct source VALUE, in member order; members sharing a value must agree on the target -/
def enumCases (cx : Ctx) (path : List PathElem) (tm : List ConstDecl) (tmap : List (S × S)) : List ConstDecl → EnumAcc → M EnumAcc
  | [], acc => pure acc
  | sd :: rest, acc => do
    let remaining := acc.remaining.filter (· != sd.name)
    let targetName := chooseEnumTarget cx.cfg.enumMap tmap sd.name
    let act ← enumAction cx path tm targetName
    match acc.seenVals.find? (fun (v, _) => v == sd.val) with
    | some (_, prevTarget) =>
      if enumMismatch tm targetName prevTarget then fail .enumMismatch
      else enumCases cx path tm tmap rest { acc with remaining := remaining }
    | none =>
      enumCases cx path tm tmap rest
        { cases := acc.cases ++ [(sd.name, sd.val, act)], seenVals := acc.seenVals ++ [(sd.val, targetName)], remaining := remaining }

/-- the enum mapping of one position (builder/enum.go Enum.Build without the target variable) -/
def enumPlan (c : Converter) (cx : Ctx) (s t : Ty) (path : List PathElem) : M Conv := do
  let some sm := enumMembers c cx.cfg.common s | fail (.unsupported "enum source")
  let some tm := enumMembers c cx.cfg.common t | fail (.unsupported "enum target")
  let defined : List S := if cx.fieldsTarget == t then cx.cfg.enumMap.map (·.1) else []
  let tmap ← (match enumTransformers c sm tm cx.cfg.transformers [] with
    | .ok m => pure m
    | .error e => fail e : M (List (S × S)))
  -- members are sorted by name
  let acc ← enumCases cx path tm tmap sm { remaining := defined }
  let unknown := cx.cfg.common.enumUnknown
  if unknown.isEmpty then fail .enumUnknownMissing
  let dflt ← enumAction cx path tm unknown
  if !acc.remaining.isEmpty then fail .enumKeyMissing
  pure (.enumc acc.cases dflt)

/-- how the walk along a source path ends (builder/struct.go mapField) -/
structure Mapped where
  path : List S
  derefs : List Bool
  guarded : Bool
  leafIsPtr : Bool
  nextSource : Ty
  /-- the path ends in a method of the struct reached by `path`: (name, declaration, package of the receiver type) -/
  method : Option (S × MethodDecl × S) := none
  deriving Inhabited

/-- walk the field path; a method may only be the last element (its func type is neither struct nor pointer) -/
def walkPath (c : Converter) : List S → Ty → List Bool → Bool → Except Diag (Ty × List Bool × Bool × Option (S × MethodDecl × S))
  | [], cur, derefs, guarded => .ok (cur, derefs, guarded, none)
  | p :: rest, cur, derefs, guarded =>
    let (cur', d, g) := match isPtr c.env cur with
      | some e => (e, true, true)
      | none => (cur, false, guarded)
    match isStruct c.env cur' with
    | none => .error .cannotAccess
    | some _ =>
      match findExactField c cur' p with
      | some (.field _ ty) => walkPath c rest ty (derefs ++ [d]) g
      | some (.method n md pkg) =>
        if rest.isEmpty then .ok (cur', derefs ++ [d], g, some (n, md, pkg)) else .error .cannotAccess
      | none => .error .cannotFind

/-- `parseAutoMap` -/
def parseAutoMap (c : Converter) (cx : Ctx) (source : Ty) : Except Diag (List (List S × Ty)) :=
  cx.cfg.autoMap.foldlM (fun acc field =>
    let path := splitOn '.' field
    let rec go (ps : List S) (cur : Ty) : Except Diag Ty :=
      match ps with
      | [] => .ok cur
      | p :: rest =>
        if (isStruct c.env cur).isNone then
          -- FindExactField panics on a non-struct; only the first step can be one, and Struct.Assign guarantees a struct there
          .error .autoMapNotFound
        else
        match findExactField c cur p with
        | none => .error .autoMapNotFound
        | some (.method _ _ _) => .error .autoMapNotStruct
        | some (.field _ ty) =>
          match isPtr c.env ty with
          | some e =>
            (match isStruct c.env e with
             | some fs => go rest (.struct fs)          -- xtype.TypeOf(innerSource.PointerInner.StructType): the unnamed struct
             | none => .error .autoMapNotStruct)
          | none => if (isStruct c.env ty).isSome then go rest ty else .error .autoMapNotStruct
    do let t ← go path source; pure (acc ++ [(path, t)])) []

def fieldCfgOf (cx : Ctx) (target : Ty) (name : S) : FieldCfg :=
  if cx.fieldsTarget == target then (cx.cfg.fields.lookup name).getD {} else {}

/-- `mapField` without the code emission: which source path feeds a target field -/
def mapField (c : Converter) (cx : Ctx) (target : Ty) (fname : S) (source : Ty) (extra : List (List S × Ty)) :
    Except Diag (Option Mapped) :=
  let def_ := fieldCfgOf cx target fname
  if def_.source == ['.'] then
    .ok (some { path := [], derefs := [], guarded := false, leafIsPtr := false, nextSource := source })
  else do
    let path ←
      if def_.source.isEmpty then
        match findField c fname cx.cfg.common.matchIgnoreCase source extra with
        | .one p (.field n _) => pure (some (p ++ [n]))
        | .one p (.method n _ _) => pure (some (p ++ [n]))
        | .noMatch => if cx.cfg.common.ignoreMissing then pure none else throw .noMatch
        | .ambiguous => throw .ambiguous
      else pure (some (splitOn '.' def_.source))
    match path with
    | none => pure none
    | some path =>
      let (leaf, derefs, guarded, meth) ← walkPath c path source [] false
      match meth with
      | some (n, md, pkg) =>
        -- method.Parse with ParamsNone and the context pattern `.*`: every parameter is a context
        if !md.exported && !pkg.isEmpty && pkg != c.outputPkg then throw .structMethodSig
        if md.sig.variadic then throw (.unsupported "variadic source method")
        let res ← match md.sig.results with
          | [r] => pure (r, false)
          | [r, e] => if e == Ty.named "error".toList then pure (r, true) else throw .structMethodSig
          | _ => throw .structMethodSig
        let resIsPtr := (isPtr c.env res.1).isSome
        let next := if guarded && !resIsPtr then Ty.ptr res.1 else res.1
        pure (some { path := path.dropLast, derefs := derefs, guarded := guarded, leafIsPtr := resIsPtr, nextSource := next,
                     method := some (n, { md with sig := { md.sig with results := [res.1] ++ (if res.2 then [Ty.named "error".toList] else []) } }, pkg) })
      | none =>
      (match under c.env leaf with
       | .opaque .func _ => throw (.unsupported "func-typed source field")
       | _ => pure ())
      let leafIsPtr := (isPtr c.env leaf).isSome
      let next := if guarded && !leafIsPtr then .ptr leaf else leaf
      pure (some { path := path, derefs := derefs, guarded := guarded, leafIsPtr := leafIsPtr, nextSource := next })

/-- the call of a source struct method found by `mapField` (`gen.CallMethod(ctx, def, nil, nil, def.Target, errPath)`) -/
def structMethodCall (c : Converter) (cx : Ctx) (mp : Mapped) (fpath : List PathElem) : M (Option Conv) :=
  match mp.method with
  | none => pure none
  | some (n, md, pkg) => do
    let res := md.sig.results.headD (.opaque .unknown [])
    let ctxTys := md.sig.params.foldl (fun (acc : List Ty) (p : S × Ty) => if tyMem p.2 acc then acc else acc ++ [p.2]) []
    let d : FnDef := { name := n, pkgPath := pkg, source := none, target := res,
                       args := md.sig.params.map (fun (p : S × Ty) => { name := p.1, use := .context, ty := p.2 }),
                       contexts := ctxTys, returnError := md.sig.results.length == 2 }
    let cl ← callMethod c cx (.structMethod n) d none res fpath
    pure (some cl)

inductive Mode
  | build
  | assign (must update : Bool)
  deriving Repr, DecidableEq, Inhabited

def Mode.isUpdate : Mode → Bool
  | .assign _ u => u
  | _ => false

/-- `buildTargetVar`: does the default constructor apply at this position?  Returns the constructor call. -/
def targetVar (c : Converter) (cx : Ctx) (s t : Ty) (path : List PathElem) : M (Option (Conv × Bool)) := do
  let st ← get
  if !st.useCtor || cx.confSource != some s || cx.confTarget != t then return none
  set { st with useCtor := false }
  let some ci := cx.cfg.constructor | return none
  let some d := c.customs[ci]? | fail (.unsupported "bad constructor index")
  let toPointer := (isPtr c.env t).isSome && (isPtr c.env d.target).isNone
  let callTarget := if toPointer then (isPtr c.env t).getD t else t
  let call ← callMethod c cx (.custom ci) d (some s) callTarget path
  return some (call, toPointer)

def withVar (v : Option (Conv × Bool)) (rest : Conv) : Conv :=
  match v with
  | some (ctor, toPtr) => .withCtor ctor toPtr rest
  | none => rest

mutual
  /-- `generator.Build` / `generator.Assign` -/
  def conv (c : Converter) : Nat → Ctx → Mode → Bool → Ty → Ty → List PathElem → M Conv
    | 0, _, _, _, _, _, _ => fail .outOfFuel
    | fuel+1, cx, mode, parentPtr, s, t, path => do
      -- Assign with Must goes through Build
      match ← callExisting c cx s t path with
      | some call => return call
      | none => pure ()
      if ← shouldCreateSubMethod c cx s t then
        return ← createSubMethod c fuel cx s t path
      let mode' := match mode with | .assign true _ => Mode.build | m => m
      noLookup c fuel cx mode' parentPtr s t path

  /-- `generator.createSubMethod` -/
  def createSubMethod (c : Converter) : Nat → Ctx → Ty → Ty → List PathElem → M Conv
    | 0, _, _, _, _ => fail .outOfFuel
    | fuel+1, cx, s, t, path => do
      let st ← get
      let (name, names) := namerName st.fileNames (tyUnescapedId c.env s ++ "To".toList ++ title (tyUnescapedId c.env t))
      let orig ← getMethod cx.self
      let m : GenMethod := {
        name := name, source := s, target := t, args := [{ name := "source".toList, use := .source, ty := s }], contexts := [],
        returnError := false, updateTarget := false, explicit := false, dirty := false,
        originPath := cx.self :: orig.originPath, originName := orig.originName,
        cfg := { common := c.common } }
      let idx := st.methods.length
      set { st with methods := st.methods ++ [m], fileNames := names }
      buildMethod c fuel idx cx.available
      let m ← getMethod idx
      callMethod c cx (.method idx) (fnDefOfMethod m) (some s) t path

  /-- `generator.buildMethod` -/
  def buildMethod (c : Converter) : Nat → Nat → List Ty → M Unit
    | 0, _, _ => fail .outOfFuel
    | fuel+1, idx, available => do
      let m ← getMethod idx
      let fieldsTarget := match isPtr c.env m.target with
        | some e => if (isStruct c.env e).isSome then e else m.target
        | none => m.target
      let ctxArgs := (m.args.filter (fun a => a.use == .context)).map (·.ty)
      let cx : Ctx := { self := idx, cfg := m.cfg, confSource := some m.source, confTarget := m.target, updateTarget := m.updateTarget,
                        fieldsTarget := fieldsTarget, available := available, ctxArgs := ctxArgs, sigSource := m.source, sigTarget := m.target }
      let outer ← get
      set { outer with seen := [], useCtor := m.cfg.constructor.isSome }
      let body ←
        if m.updateTarget then do
          -- convertTo
          let some te := isPtr c.env m.target | fail .updateTargetShape
          if (isStruct c.env te).isNone then fail .updateTargetShape
          let (srcStruct, srcIsPtr) ←
            if (isStruct c.env m.source).isSome then pure (m.source, false)
            else match isPtr c.env m.source with
              | some e => if (isStruct c.env e).isSome then pure (e, true) else fail .updateSourceShape
              | none => fail .updateSourceShape
          -- a pointer source is dereferenced for the struct builder; `map . X` sees `(*source)` and a function taking
          -- the pointer gets the pointer (JenID.ImplicitPointer / ParentPointer)
          let cv ← structAssign c fuel cx false srcIsPtr srcStruct te []
          pure (Body.update srcIsPtr cv)
        else
          match indexGet (extendIndex c) m.source m.target available with
          | .hit i =>
            let some d := c.customs[i]? | fail (.unsupported "bad custom index")
            -- delegateMethod
            let args := d.args.map (fun a => match a.use with
              | .iface => CallArg.self
              | .context => CallArg.ctx a.ty
              | _ => CallArg.source)
            let cur ← getMethod idx
            if d.returnError && !cur.returnError then fail .delegateErrorMismatch
            pure (Body.delegate i args d.returnError)
          | .unsatisfied => fail .contextUnsatisfied
          | .none => do
            let cv ← noLookup c fuel cx .build false m.source m.target []
            pure (Body.convert cv)
      modifyMethod idx (fun m => { m with body := some body })
      modify (fun st => { st with seen := outer.seen, useCtor := outer.useCtor })

  /-- `buildNoLookup` / `assignNoLookup`: overlapping-settings check, then the first matching rule -/
  def noLookup (c : Converter) : Nat → Ctx → Mode → Bool → Ty → Ty → List PathElem → M Conv
    | 0, _, _, _, _, _, _ => fail .outOfFuel
    | fuel+1, cx, mode, parentPtr, s, t, path => do
      let env := c.env
      -- getOverlappingStructDefinition
      if (isStruct env s).isSome && (isStruct env t).isSome then
        let ms := (← get).methods
        for (s', t') in [(Ty.ptr s, t), (Ty.ptr s, Ty.ptr t), (s, Ty.ptr t)] do
          if !(cx.sigSource == s' && cx.sigTarget == t') then
            -- every method registered for the overlapping signature, whatever contexts it requires (Index.All)
            if (lookupIndex ms).any (fun (i, s2, t2, _) => s2 == s' && t2 == t' &&
                (match ms[i]? with | some m => !m.cfg.rawFieldSettings.isEmpty | none => false)) then fail .overlapping
      let cfg := cx.cfg.common
      let sPtr := isPtr env s
      let tPtr := isPtr env t
      let sBasic := isBasic env s
      let tBasic := isBasic env t
      -- 1 UseUnderlyingTypeMethods
      let msNow := (← get).methods
      let (uS, uT) : Bool × Bool :=
        if !cfg.useUnderlying then (false, false)
        else
          let has := hasSignature c msNow
          if s.isNamed && has (under env s) t then (true, false)
          else if s.isNamed && t.isNamed && has (under env s) (under env t) then (true, true)
          else if t.isNamed && has s (under env t) then (false, true)
          else (false, false)
      if uS || uT then
        if isEnumPair c cfg s t then fail .enumUnderlyingConflict
        let inner ← conv c fuel cx .build false (if uS then under env s else s) (if uT then under env t else t) path
        return .underlying uS uT inner
      -- 2 SkipCopy
      if cfg.skipCopySameType && s == t then return .ident
      -- 3 Enum
      if isEnumPair c cfg s t then
        let v ← targetVar c cx s t path
        return withVar v (← enumPlan c cx s t path)
      -- 4 BasicTargetPointerRule
      if sBasic.isSome && (match tPtr with | some e => (isBasic env e).isSome | none => false) then
        let inner ← conv c fuel cx .build false s (tPtr.getD t) path
        return .tgtPtr (tPtr.getD t) inner
      -- 5 Pointer
      if sPtr.isSome && tPtr.isSome then
        let se := sPtr.getD s
        let te := tPtr.getD t
        let useCtorNow := (← get).useCtor
        if mode == .build && useCtorNow && cfg.defaultUpdate then
          match ← targetVar c cx s t path with
          | some (ctor, toPtr) =>
            let inner ← conv c fuel cx (.assign false true) true se te path
            return .ctorUpdate ctor toPtr true true inner
          | none => pure ()      -- constructor does not apply here: plain variable
          let inner ← conv c fuel cx .build true se te path
          return .ptrPtr te inner
        let v ← if mode == .build then targetVar c cx s t path else pure none
        let inner ← conv c fuel cx .build true se te path
        return withVar v (.ptrPtr te inner)
      -- 6 SourcePointer
      if cfg.useZeroValue && sPtr.isSome && tPtr.isNone then
        let se := sPtr.getD s
        let useCtorNow := (← get).useCtor
        if mode == .build && useCtorNow && cfg.defaultUpdate then
          match ← targetVar c cx s t path with
          | some (ctor, toPtr) =>
            let inner ← conv c fuel cx (.assign false true) true se t path
            return .ctorUpdate ctor toPtr true false inner
          | none => pure ()
          let inner ← conv c fuel cx .build true se t path
          return .srcPtr t inner
        let v ← if mode == .build then targetVar c cx s t path else pure none
        let inner ← conv c fuel cx .build true se t path
        return withVar v (.srcPtr t inner)
      -- 7 TargetPointer
      if sPtr.isNone && tPtr.isSome then
        let te := tPtr.getD t
        let useCtorNow := (← get).useCtor
        if useCtorNow then
          match ← targetVar c cx s t path with
          | some (ctor, toPtr) =>
            let inner ← conv c fuel cx (.assign false true) false s te path
            return .ctorUpdate ctor toPtr false true inner
          | none => pure ()
        let inner ← conv c fuel cx .build false s te path
        return .tgtPtr te inner
      -- 8 Basic
      if (match sBasic, tBasic with | some a, some b => a.canon == b.canon | _, _ => false) then
        return (if t.isNamed || s.isNamed then .cast .ident else .ident)
      -- 9 Struct
      if (isStruct env s).isSome && (isStruct env t).isSome then
        let emptyUnnamed := !s.isNamed && !t.isNamed &&
          (match isStruct env s, isStruct env t with | some a, some b => a.length == 0 && b.length == 0 | _, _ => false)
        if mode == .build && emptyUnnamed then return .ident
        let v ← if mode == .build then targetVar c cx s t path else pure none
        return withVar v (← structAssign c fuel cx mode.isUpdate parentPtr s t path)
      -- 10 List
      match isList env s, isList env t with
      | some (se, sFixed), some (te, none) =>
        let elem ← conv c fuel cx (.assign false false) false se te (path ++ [.index])
        let fixed := sFixed.isSome
        return (match mode with
          | .build => .list te true (!fixed) elem
          | .assign _ _ => .list te (!fixed) (!fixed) elem)
      | _, _ => pure ()
      -- 11 Map
      match isMap env s, isMap env t with
      | some (sk, sv), some (tk, tv) =>
        let v ← if mode == .build then targetVar c cx s t path else pure none
        let k ← conv c fuel cx .build false sk tk (path ++ [.key])
        let vv ← conv c fuel cx (.assign true false) false sv tv (path ++ [.key])
        return withVar v (.mapc tk tv k vv)
      | _, _ => pure ()
      fail (typeMismatch c s t)

  /-- `Struct.Assign` -/
  def structAssign (c : Converter) : Nat → Ctx → Bool → Bool → Ty → Ty → List PathElem → M Conv
    | 0, _, _, _, _, _, _ => fail .outOfFuel
    | fuel+1, cx, isUpdate, parentPtr, s, t, path => do
      let extra ← match parseAutoMap c cx s with
        | .ok e => pure e
        | .error d => fail d
      let tfs := match isStruct c.env t with | some fs => fs.toList | none => []
      let defined : List S := if cx.fieldsTarget == t then cx.cfg.fields.map (·.1) else []
      let plans ← structFields c fuel cx isUpdate parentPtr s t path extra tfs
      let remaining := defined.filter (fun n => !tfs.any (fun (f, _) => f.name == n))
      if !remaining.isEmpty then fail .unknownField
      pure (.structc (FieldPlans.ofList plans) isUpdate)

  def structFields (c : Converter) : Nat → Ctx → Bool → Bool → Ty → Ty → List PathElem → List (List S × Ty) → List (FieldInfo × Ty) → M (List FieldPlan)
    | 0, _, _, _, _, _, _, _, _ => fail .outOfFuel
    | _, _, _, _, _, _, _, _, [] => pure []
    | fuel+1, cx, isUpdate, parentPtr, s, t, path, extra, (f, fty) :: rest => do
      let fm := fieldCfgOf cx t f.name
      let plan ← (do
        -- blank fields (`_ T`, never exported) cannot be referred to: never assigned
        if !f.exported && f.name == ['_'] then return FieldPlan.skip f.name
        if fm.ignore then return FieldPlan.skip f.name
        if !f.exported && cx.cfg.common.ignoreUnexported then return FieldPlan.skip f.name
        if !fieldAccessible c f then fail .unexportedField
        let fpath := path ++ [.field f.name]
        match fm.function with
        | none =>
          match mapField c cx t f.name s extra with
          | .error d => fail d
          | .ok none => return FieldPlan.skip f.name
          | .ok (some mp) =>
            let mcall ← structMethodCall c cx mp fpath
            let cv ← conv c fuel cx (.assign false false) false mp.nextSource fty fpath
            let z := shouldCheckZero c cx mp.nextSource fty isUpdate false
            match mcall with
            | some cl => return FieldPlan.viaMethod f.name mp.path mp.derefs mp.guarded cl mp.leafIsPtr cv (if z then .check else .none)
            | none => return FieldPlan.mapped f.name mp.path mp.derefs mp.guarded mp.leafIsPtr cv (if z then .check else .none)
        | some fi =>
          let some d := c.customs[fi]? | fail (.unsupported "bad custom index")
          match d.source with
          | some _ =>
            match mapField c cx t f.name s extra with
            | .error e => fail e
            | .ok none => fail .noMatch        -- the code does not honour `skip` here: it reports the error
            | .ok (some mp) =>
              let mcall ← structMethodCall c cx mp fpath
              -- `map . X | F` below a dereferenced pointer: F may take the pointer itself (JenID.ParentPointer)
              let viaParent := fm.source == ['.'] && parentPtr &&
                (match d.source with | some ds => assignable c (.ptr s) ds | none => false)
              let srcTy := if viaParent then Ty.ptr s else mp.nextSource
              let cv ← callMethod c cx (.custom fi) d (some srcTy) fty fpath
              let cv := if viaParent then (match cv with
                | .call cl as re w => .call cl (as.map (fun a => match a with | .source => CallArg.sourceParent | x => x)) re w
                | x => x) else cv
              let z := shouldCheckZero c cx srcTy fty isUpdate true
              match mcall with
              | some cl => return FieldPlan.viaMethod f.name mp.path mp.derefs mp.guarded cl mp.leafIsPtr cv (if z then .check else .none)
              | none => return FieldPlan.mapped f.name mp.path mp.derefs mp.guarded mp.leafIsPtr cv (if z then .check else .none)
          | none =>
            let cv ← callMethod c cx (.custom fi) d none fty fpath
            return FieldPlan.mapped f.name [] [] false false cv .none)
      let more ← structFields c fuel cx isUpdate parentPtr s t path extra rest
      pure (plan :: more)
end

/-- a method declared by the user (after config parsing) -/
structure Declared where
  name : S
  source : Ty
  target : Ty
  args : List Arg
  contexts : List Ty
  returnError : Bool
  updateTarget : Bool
  cfg : MethodCfg
  deriving Inhabited

def contextsOverlap (a b : List Ty) : Bool := satisfies a b

/-- `setupGenerator` + `validateMethods` -/
def setup (c : Converter) (ds : List Declared) : Except Diag (List GenMethod) := do
  let ms ← ds.foldlM (fun (acc : List GenMethod) d => do
    if !d.updateTarget then
      for m in acc do
        if !m.updateTarget && m.source == d.source && m.target == d.target &&
            (satisfies m.contexts d.contexts || satisfies d.contexts m.contexts) then
          throw Diag.overlappingSignatures
    pure (acc ++ [{ name := d.name, source := d.source, target := d.target, args := d.args, contexts := d.contexts,
                    returnError := d.returnError, updateTarget := d.updateTarget, explicit := true, dirty := true,
                    originPath := [], originName := d.name, cfg := d.cfg : GenMethod }])) []
  -- validateMethods: sorted by name (update methods are not in the index and are not validated)
  let sorted := (ms.filter (fun m => !m.updateTarget)).mergeSort (fun a b => String.ofList a.name ≤ String.ofList b.name)
  for m in sorted do
    if !m.cfg.rawFieldSettings.isEmpty then
      let okTarget := (isStruct c.env m.target).isSome ||
        (match isPtr c.env m.target with | some e => (isStruct c.env e).isSome | none => false)
      if !okTarget then throw Diag.invalidFieldMapping
  pure ms

/-- the dirty loop of `buildMethods`: rebuild dirty methods, sorted by name, until none is dirty -/
def buildDirty (c : Converter) (fuel : Nat) : Nat → M Unit
  | 0 => fail .outOfFuel
  | rounds+1 => do
    let st ← get
    if !st.methods.any (fun (m : GenMethod) => m.dirty) then return ()
    let order := (st.methods.zipIdx.mergeSort (fun a b => String.ofList a.1.name ≤ String.ofList b.1.name)).map (·.2)
    for i in order do
      let m ← getMethod i
      if m.dirty then
        modifyMethod i (fun m => { m with dirty := false })
        buildMethod c fuel i m.contexts
    buildDirty c fuel rounds

/-- `generateConverter` -/
def generate (c : Converter) (ds : List Declared) (fuel : Nat := 200) (rounds : Nat := 64) : Except Diag (List GenMethod) := do
  let ms ← setup c ds
  let st0 : GState := { methods := ms, fileNames := [Facts.thisVar.toList], seen := [], useCtor := false }
  let ((), st) ← (buildDirty c fuel rounds).run st0
  pure st.methods

end Gv.Gen
