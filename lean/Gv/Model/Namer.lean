/-
Model of namer/namer.go: allocation of identifiers that are unused in a scope.
-/
import Gv.Model.Str
import Gv.Model.Facts

namespace Gv.Namer
open Gv.Str

structure Namer where
  used : List S
  deriving Repr, Inhabited

/-- `namer.New()`: the receiver name is reserved -/
def new : Namer := { used := [Facts.thisVar.toList] }

/-- `Register` -/
def register (n : Namer) (name : S) : Bool × Namer :=
  if n.used.contains name then (false, n) else (true, { used := n.used ++ [name] })

def suffixed (base : S) (i : Nat) : S := if i ≤ 1 then base else base ++ (toString i).toList

/-- `Name`: base, base2, base3 … — the first that is unused (fuel = number of candidates tried) -/
def nameAux (n : Namer) (base : S) : Nat → Nat → Option S
  | 0, _ => none
  | fuel+1, i => if n.used.contains (suffixed base i) then nameAux n base fuel (i+1) else some (suffixed base i)

def name (n : Namer) (base : S) : Option (S × Namer) :=
  match nameAux n base (n.used.length + 1) 1 with
  | some c => some (c, { used := n.used ++ [c] })
  | none => none

def indexVars : List S := Facts.indexVars.map String.toList

/-- `Index`: i, j, …, z, i2, j2, … -/
def indexAux (n : Namer) : Nat → Nat → Option S
  | 0, _ => none
  | fuel+1, round =>
    match (indexVars.map (fun v => suffixed v round)).find? (fun c => !n.used.contains c) with
    | some c => some c
    | none => indexAux n fuel (round + 1)

def index (n : Namer) : Option (S × Namer) :=
  match indexAux n (n.used.length + 1) 1 with
  | some c => some (c, { used := n.used ++ [c] })
  | none => none

def kvName (base : String) (i : Nat) : S := if i ≤ 1 then base.toList else base.toList ++ (toString i).toList

/-- `Map`: key/value, key2/value2 … (rounds 0 and 1 both try the bare names) — both must be unused -/
def mapAux (n : Namer) : Nat → Nat → Option (S × S)
  | 0, _ => none
  | fuel+1, i =>
    let k := kvName "key" i
    let v := kvName "value" i
    if !n.used.contains k && !n.used.contains v then some (k, v) else mapAux n fuel (i + 1)

def mapKV (n : Namer) : Option ((S × S) × Namer) :=
  match mapAux n (n.used.length + 3) 0 with
  | some (k, v) => some ((k, v), { used := n.used ++ [k, v] })
  | none => none

end Gv.Namer
