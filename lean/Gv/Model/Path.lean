/-
Model of the `path` / `path/filepath` (unix) functions goverter uses:
Clean, Join, Dir, Base, Ext, IsAbs, Rel, Abs.
-/
import Gv.Model.Str

namespace Gv.Path
open Gv.Str

def isAbs (p : S) : Bool := p.head? == some '/'

/-- process the components of a path: drop "" and ".", resolve ".." -/
def cleanComps (rooted : Bool) : List S → List S → List S
  | stack, [] => stack.reverse
  | stack, c :: cs =>
    if c.isEmpty || c == ['.'] then cleanComps rooted stack cs
    else if c == ['.', '.'] then
      match stack with
      | top :: rest => if top == ['.', '.'] then cleanComps rooted (c :: stack) cs else cleanComps rooted rest cs
      | [] => if rooted then cleanComps rooted [] cs else cleanComps rooted [c] cs
    else cleanComps rooted (c :: stack) cs

/-- `path.Clean` / `filepath.Clean` on unix -/
def clean (p : S) : S :=
  let rooted := isAbs p
  let comps := cleanComps rooted [] (splitOn '/' p)
  let body := join ['/'] comps
  if rooted then '/' :: body
  else if body.isEmpty then ['.'] else body

/-- `path.Join` / `filepath.Join`: empty elements are ignored; all empty ⇒ "" -/
def joinPaths (elems : List S) : S :=
  match elems.filter (fun e => !e.isEmpty) with
  | [] => []
  | es => clean (join ['/'] es)

def join2 (a b : S) : S := joinPaths [a, b]

def lastSlashPrefix (p : S) : S :=
  -- p[: lastIndex('/')+1]
  (p.reverse.dropWhile (· != '/')).reverse

/-- `filepath.Dir` -/
def dir (p : S) : S := clean (lastSlashPrefix p)

/-- `filepath.Base` -/
def base (p : S) : S :=
  if p.isEmpty then ['.'] else
  let q := (p.reverse.dropWhile (· == '/')).reverse
  let b := (q.reverse.takeWhile (· != '/')).reverse
  if b.isEmpty then ['/'] else b

/-- `filepath.Ext` -/
def ext (p : S) : S :=
  let last := (p.reverse.takeWhile (· != '/')).reverse
  if last.contains '.' then
    '.' :: (last.reverse.takeWhile (· != '.')).reverse
  else []

def comps (p : S) : List S := (splitOn '/' p).filter (fun c => !c.isEmpty)

def commonPrefixLen : List S → List S → Nat
  | a :: as, b :: bs => if a == b then 1 + commonPrefixLen as bs else 0
  | _, _ => 0

/-- `filepath.Rel` (unix); `none` = error -/
def rel (basep targ : S) : Option S :=
  let b := clean basep
  let t := clean targ
  if b == t then some ['.'] else
  let b := if b == ['.'] then [] else b
  if isAbs b != isAbs t then none else
  let bc := comps b
  let tc := comps t
  let k := commonPrefixLen bc tc
  let restB := bc.drop k
  if restB.contains ['.', '.'] then none else
  let ups := restB.map (fun _ => ['.', '.'])
  let r := join ['/'] (ups ++ tc.drop k)
  some (if r.isEmpty then ['.'] else r)

/-- `filepath.Abs` given the process working directory -/
def abs (procWd p : S) : S := if isAbs p then clean p else join2 procWd p

end Gv.Path
