/-
Model of config/parse/comment.go (CommentToString), config/parse/line.go
(SettingLines), config/parse/parse.go (Command) and comments/parse_docs.go
(parseGenDecl / parseFunctions / parseInterface / parseInterfaceMethods) and of
pkgload.localConfig, over a structured layout of one source file.
-/
import Gv.Model.Str
import Gv.Model.Facts

namespace Gv.Comments
open Gv.Str

/-- A comment group as go/parser delivers it: the raw text of each comment,
including its `//` or `/* */` markers.  `[]` models a nil group. -/
abbrev Group := List S

/-- remove the comment markers of one raw comment, as CommentToString does -/
def stripMarkers (c : S) : S :=
  match c with
  | '/' :: '/' :: rest =>
    match rest with
    | [] => []
    | ' ' :: r => r
    | _ => rest
  | '/' :: '*' :: rest => rest.take (rest.length - 2)
  | _ => c     -- not produced by go/parser

/-- the lines of a group before blank-line normalisation -/
def rawLines (g : Group) : List S :=
  g.flatMap (fun c => (splitOn '\n' (stripMarkers c)).map stripTrailingWs)

/-- drop leading blank lines and collapse interior runs of blank lines; `prevBlank` says whether
nothing or a blank line was emitted last -/
def squeeze : Bool → List S → List S
  | _, [] => []
  | prevBlank, l :: ls =>
    if l.isEmpty then
      (if prevBlank then squeeze true ls else [] :: squeeze true ls)
    else l :: squeeze false ls

def commentLines (g : Group) : List S :=
  let ls := squeeze true (rawLines g)
  match ls.getLast? with
  | some l => if l.isEmpty then ls else ls ++ [[]]
  | none => ls

/-- `parse.CommentToString` -/
def commentToString (g : Group) : S := join ['\n'] (commentLines g)

def dropCR (l : S) : S :=
  match l.getLast? with
  | some '\r' => l.dropLast
  | _ => l

/-- the tokens `bufio.Scanner` (ScanLines, default buffer) yields: lines split at `\n`, one
trailing `\r` removed, no token for an empty remainder at the end, and - when the scanner has a
token limit (`limit ≠ 0`) - the scan STOPS at the first line of `limit` bytes or more. -/
def scanTokens (limit : Nat) : List S → List S
  | [] => []
  | l :: ls => if limit ≠ 0 ∧ utf8Len l ≥ limit then [] else dropCR l :: scanTokens limit ls

def physLines (text : S) : List S :=
  let ps := splitOn '\n' text
  match ps.getLast? with
  | some l => if l.isEmpty then ps.dropLast else ps
  | none => ps

def scanLines (text : S) : List S := scanTokens Facts.maxScanTokenSize (physLines text)

def prefixS : S := Facts.settingPrefix.toList   -- "goverter:"

def settingOf (line : S) : Option S :=
  let t := trimSpace line
  if hasPrefix t prefixS then some (t.drop prefixS.length) else none

/-- `parse.SettingLines` -/
def settingLines (text : S) : List S := (scanLines text).filterMap settingOf

/-- `parse.Command` -/
def command (v : S) : S × S :=
  match cut ' ' v with
  | (a, some b) => (a, b)
  | (a, none) => (a, [])

/-! ### declaration layout -/

inductive Tok | type | var | const | import_
  deriving Repr, DecidableEq, Inhabited

inductive SpecKind | iface | otherType | value | importSpec
  deriving Repr, DecidableEq, Inhabited

structure MethodL where
  names : List S          -- 0 names = embedded interface, ≥2 impossible in Go syntax for methods
  doc : Group
  deriving Repr, Inhabited

structure Spec where
  kind : SpecKind
  names : List S
  doc : Group
  methods : List MethodL
  deriving Repr, Inhabited

structure GenDecl where
  tok : Tok
  doc : Group
  specs : List Spec
  deriving Repr, Inhabited

structure FuncDecl where
  name : S
  isMethod : Bool
  doc : Group
  deriving Repr, Inhabited

inductive Decl
  | gen (g : GenDecl)
  | func (f : FuncDecl)
  deriving Repr, Inhabited

inductive DocErr
  | variablesNotOnVar | valueSpecNames | converterNotOnType | multipleSpecs | notInterface | methodNames
  deriving Repr, DecidableEq, Inhabited

structure RawConv where
  ifaceName : S                    -- [] for a variables block
  lines : List S
  methods : List (S × List S)      -- in declaration order (the code stores a map)
  deriving Repr, Inhabited

def converterMarker : S := Facts.converterMarker.toList
def variablesMarker : S := Facts.variablesMarker.toList

def parseInterfaceMethods : List MethodL → Except DocErr (List (S × List S))
  | [] => .ok []
  | m :: ms =>
    match m.names with
    | [n] => do
      let rest ← parseInterfaceMethods ms
      pure ((n, settingLines (commentToString m.doc)) :: rest)
    | _ => .error .methodNames

def parseInterface (sp : Spec) (declDocs : S) : Except DocErr RawConv :=
  if sp.kind != .iface then .error .notInterface else do
    let ms ← parseInterfaceMethods sp.methods
    pure { ifaceName := sp.names.headD [], lines := settingLines declDocs, methods := ms }

def parseFunctionSpecs : List Spec → Except DocErr (List (S × List S))
  | [] => .ok []
  | sp :: sps =>
    match sp.names with
    | [n] => do
      let rest ← parseFunctionSpecs sps
      pure ((n, settingLines (commentToString sp.doc)) :: rest)
    | _ => .error .valueSpecNames

def parseSpecs : List Spec → Except DocErr (List RawConv)
  | [] => .ok []
  | sp :: sps =>
    let d := commentToString sp.doc
    if (sp.kind == .iface || sp.kind == .otherType) && isInfixOf converterMarker d then do
      let c ← parseInterface sp d
      let rest ← parseSpecs sps
      pure (c :: rest)
    else parseSpecs sps

/-- `comments.parseGenDecl` -/
def parseGenDecl (g : GenDecl) : Except DocErr (List RawConv) :=
  let declDocs := commentToString g.doc
  if isInfixOf variablesMarker declDocs then
    if g.tok != .var then .error .variablesNotOnVar else do
      let ms ← parseFunctionSpecs g.specs
      pure [{ ifaceName := [], lines := settingLines declDocs, methods := ms }]
  else if isInfixOf converterMarker declDocs then
    if g.tok != .type then .error .converterNotOnType else
    match g.specs with
    | [sp] => do
      let c ← parseInterface sp declDocs
      pure [c]
    | _ => .error .multipleSpecs
  else parseSpecs g.specs

/-- the per-file part of `comments.ParseDocs`: converters in declaration order, first error wins
(the converters found before the error are returned by the code but unused by its caller) -/
def parseDecls : List Decl → Except DocErr (List RawConv)
  | [] => .ok []
  | .func _ :: ds => parseDecls ds
  | .gen g :: ds => do
    let cs ← parseGenDecl g
    let rest ← parseDecls ds
    pure (cs ++ rest)

/-- `pkgload.localConfig`: context names declared on a function's doc comment -/
def localContexts (doc : Group) : List S :=
  (settingLines (commentToString doc)).filterMap (fun l =>
    let (cmd, rest) := command l
    if cmd == "context".toList then
      match fields rest with
      | [x] => some x
      | _ => none
    else none)

end Gv.Comments
