import Gv.Sexp
import Gv.Model.Comments
import Gv.Spec.Comments

namespace Gv.Driver
open Gv Gv.Sexp Gv.Comments

def sOf (x : Sexp) : Str.S := (asString x).toList
def strS (s : Str.S) : Sexp := .str (String.ofList s)

def groupOf (x : Sexp) (key : String := "doc") : Group := (fieldArgs x key).map sOf

def methodOf (x : Sexp) : MethodL :=
  { names := (fieldArgs x "names").map sOf, doc := groupOf x }

def specKindOf : String → SpecKind
  | "iface" => .iface
  | "type" => .otherType
  | "value" => .value
  | _ => .importSpec

def specOf (x : Sexp) : Spec :=
  { kind := specKindOf (asString ((args x).headD (.atom "")))
    names := (fieldArgs x "names").map sOf
    doc := groupOf x
    methods := (fieldArgs x "methods").map methodOf }

def tokOf : String → Tok
  | "type" => .type
  | "var" => .var
  | "const" => .const
  | _ => .import_

def declOf (x : Sexp) : Decl :=
  match args x with
  | .atom "gen" :: .atom t :: _ =>
    .gen { tok := tokOf t, doc := groupOf x, specs := ((args x).filter (fun y => head? y == some "spec")).map specOf }
  | .atom "func" :: n :: _ => .func { name := sOf n, isMethod := false, doc := groupOf x }
  | _ => .func { name := [], isMethod := false, doc := [] }

def docErrName : DocErr → String
  | .variablesNotOnVar => "variablesNotOnVar"
  | .valueSpecNames => "valueSpecNames"
  | .converterNotOnType => "converterNotOnType"
  | .multipleSpecs => "multipleSpecs"
  | .notInterface => "notInterface"
  | .methodNames => "methodNames"

def rawConvOut (c : RawConv) : Sexp :=
  mkList "conv" [strS c.ifaceName, mkList "lines" (c.lines.map strS),
    mkList "methods" (c.methods.map (fun (n, ls) => mkList "m" [strS n, mkList "lines" (ls.map strS)]))]

/-- `(layout id (decl ...) ...)` -/
def handleLayout (req : Sexp) : Sexp :=
  let decls := ((args req).filter (fun y => head? y == some "decl")).map declOf
  match parseDecls decls with
  | .ok cs =>
    let m := mkList "ok" (cs.map rawConvOut)
    if decls.any Spec.Comments.misplaced then
      mkList "both" [m, mkList "specdiff" [.str "MarkersOnlyOnBlocksOrTypeSpecs", mkList "err" [.atom "wrongKind"]]]
    else m
  | .error e => mkList "err" [.atom (docErrName e)]

/-- `(c2s id "c1" "c2" ...)` → `(s "...")` -/
def handleC2S (req : Sexp) : Sexp :=
  let t := commentToString ((args req).drop 1 |>.map sOf)
  -- only what the property constrains: the settings and the two marker tests (not the flattened text itself)
  mkList "doc" [mkList "lines" ((settingLines t).map strS),
    .atom (toString (Str.isInfixOf converterMarker t)), .atom (toString (Str.isInfixOf variablesMarker t))]

/-- `(slines id "text")` → `(lines "..." ...)` -/
def handleSLines (req : Sexp) : Sexp :=
  match (args req).drop 1 with
  | [t] =>
    let m := settingLines (sOf t)
    let sp := Spec.Comments.specSettingLines (sOf t)
    if m == sp then mkList "lines" (m.map strS)
    else mkList "both" [mkList "lines" (m.map strS), mkList "specdiff" [.str "NoLongLine", mkList "lines" (sp.map strS)]]
  | _ => mkList "err" [.atom "bad-request"]

def handleCommand (req : Sexp) : Sexp :=
  match (args req).drop 1 with
  | [t] => let (a, b) := command (sOf t); mkList "cmd" [strS a, strS b]
  | _ => mkList "err" [.atom "bad-request"]

def handleLocalCtx (req : Sexp) : Sexp :=
  mkList "ctx" ((localContexts ((args req).drop 1 |>.map sOf)).map strS)

end Gv.Driver
