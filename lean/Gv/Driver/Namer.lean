import Gv.Sexp
import Gv.Model.Namer
import Gv.Driver.Comments

namespace Gv.Driver
open Gv Gv.Sexp Gv.Namer

/-- `(namer id (name "x") (index) (map) (register "y") ...)` → `(names "x" "i" (kv "key" "value") true ...)` -/
def handleNamer (req : Sexp) : Sexp :=
  let ops := (args req).drop 1
  let (outs, _) := ops.foldl (fun (acc : List Sexp × Namer) op =>
    let (os, n) := acc
    match op with
    | .list [.atom "name", b] =>
      (match Namer.name n (sOf b) with | some (c, n') => (os ++ [strS c], n') | none => (os ++ [.atom "stuck"], n))
    | .list [.atom "index"] =>
      (match Namer.index n with | some (c, n') => (os ++ [strS c], n') | none => (os ++ [.atom "stuck"], n))
    | .list [.atom "map"] =>
      (match Namer.mapKV n with | some ((k, v), n') => (os ++ [mkList "kv" [strS k, strS v]], n') | none => (os ++ [.atom "stuck"], n))
    | .list [.atom "register", b] =>
      let (ok, n') := Namer.register n (sOf b); (os ++ [.atom (toString ok)], n')
    | _ => (os ++ [.atom "bad-op"], n)) ([], Namer.new)
  mkList "names" outs

end Gv.Driver
