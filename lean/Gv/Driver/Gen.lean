import Gv.Sexp
import Gv.Model.Gen
import Gv.Model.Emit
import Gv.Model.Sym
import Gv.Driver.Settings

namespace Gv.Driver
open Gv Gv.Sexp Gv.Gen

def okindOf : String → OKind
  | "iface" => .iface | "func" => .func | "chan" => .chan | "tparam" => .tparam | "generic" => .generic | "tuple" => .tuple | _ => .unknown

partial def tyOf (x : Sexp) : Ty :=
  match x with
  | .list [.atom "b", .atom k] => .basic (Kind.ofName k)
  | .list [.atom "n", id] => .named (sOf id)
  | .list [.atom "p", e] => .ptr (tyOf e)
  | .list [.atom "s", e] => .slice (tyOf e)
  | .list [.atom "a", n, e] => .array (asNat n) (tyOf e)
  | .list [.atom "m", k, v] => .map (tyOf k) (tyOf v)
  | .list (.atom "st" :: fs) =>
    .struct (Fields.ofList (fs.map (fun f => match args f with
      | [n, ex, em, pk, t] => ({ name := sOf n, exported := asBool ex, embedded := asBool em, pkg := sOf pk }, tyOf t)
      | [n, ex, em, pk, t, tg] => ({ name := sOf n, exported := asBool ex, embedded := asBool em, pkg := sOf pk, tag := sOf tg }, tyOf t)
      | _ => (default, .opaque .unknown []))))
  | .list [.atom "o", .atom k, s] => .opaque (okindOf k) (sOf s)
  | .list (.atom "fn" :: s :: _) => .opaque .func (sOf s)
  | _ => .opaque .unknown []

def constValOf (x : Sexp) : ConstVal :=
  match x with
  | .list [.atom "int", v] => .int (asInt v)
  | .list [.atom "str", v] => .str (sOf v)
  | .list [.atom "bool", v] => .bool (asBool v)
  | .list [.atom "opaque", n, s] => .opaque (asNat n) (sOf s)
  | _ => .opaque 0 []

def sigOf (x : Sexp) : FuncSig :=
  match x with
  | .list [.atom "fn", s, ps, rs, tp, va] =>
    { str := sOf s, params := (args ps).map (fun p => match args p with | [n, t] => (sOf n, tyOf t) | _ => ([], .opaque .unknown [])),
      results := (args rs).map tyOf, typeParams := asBool tp, variadic := asBool va }
  | _ => { str := [], params := [], results := [], typeParams := false, variadic := false }

def namedOf (x : Sexp) : NamedDecl :=
  match args x with
  | [id, pp, pn, n, ex, u, ms, cs] =>
    { id := sOf id, pkgPath := sOf pp, pkgName := sOf pn, name := sOf n, exported := asBool ex, underlying := tyOf u,
      methods := (args ms).map (fun m => match args m with
        | [mn, mex, pr, sg] => { name := sOf mn, exported := asBool mex, ptrRecv := asBool pr, sig := sigOf sg }
        | _ => default),
      consts := (args cs).map (fun c => match args c with
        | [cn, cex, v] => { name := sOf cn, exported := asBool cex, val := constValOf v }
        | _ => default) }
  | _ => default

def roleOfS : String → Role
  | "source" => .source | "additional-source" => .multiSource | "interface" => .iface | "context" => .context | _ => .target

def argOf (x : Sexp) : Arg :=
  match args x with
  | [n, .atom u, t] => { name := sOf n, use := roleOfS u, ty := tyOf t }
  | _ => default

def one (x : Sexp) (k : String) : Sexp := match fieldArgs x k with | [v] => v | _ => .atom ""

def commonOf (x : Sexp) : Settings.Common :=
  let b (k : String) : Bool := asBool (one x k)
  let s (k : String) : Str.S := sOf (one x k)
  { wrapErrors := b "WrapErrors", wrapErrorsUsing := s "WrapErrorsUsing", ignoreUnexported := b "IgnoreUnexported",
    ignoreBasicZero := b "IgnoreBasicZeroValueField", ignoreStructZero := b "IgnoreStructZeroValueField",
    ignoreNillableZero := b "IgnoreNillableZeroValueField", matchIgnoreCase := b "MatchIgnoreCase", ignoreMissing := b "IgnoreMissing",
    skipCopySameType := b "SkipCopySameType", useZeroValue := b "UseZeroValueOnPointerInconsistency",
    useUnderlying := b "UseUnderlyingTypeMethods", defaultUpdate := b "DefaultUpdate",
    argContextRegex := none, enumEnabled := b "Enum.Enabled", enumUnknown := s "Enum.Unknown",
    enumExcludes := (fieldArgs x "Enum.Excludes").map (fun e => match args e with | [p, n] => (sOf p, sOf n) | _ => ([], [])) }

def optNat (x : Sexp) : Option Nat := let s := asString x; if s == "-1" || s == "" then none else some s.toNat!

def fnDefOf (x : Sexp) : FnDef :=
  { name := sOf (one x "name"), pkgPath := sOf (one x "pkg"),
    source := match fieldArgs x "source" with | [t] => some (tyOf t) | _ => none,
    target := tyOf (one x "target"), args := (fieldArgs x "args").map argOf, contexts := (fieldArgs x "ctx").map tyOf,
    returnError := asBool (one x "err"), typeParams := asBool (one x "tparams") }

def methodCfgOf (x : Sexp) : MethodCfg :=
  { common := commonOf (match field? x "common" with | some c => c | none => .list []),
    fields := (fieldArgs x "fields").map (fun f => match args f with
      | [n, s, ig, fi] => (sOf n, { source := sOf s, ignore := asBool ig, function := optNat fi })
      | _ => ([], {})),
    autoMap := (fieldArgs x "automap").map sOf,
    enumMap := (fieldArgs x "enummap").map (fun e => match args e with | [a, b] => (sOf a, sOf b) | _ => ([], [])),
    transformers := (fieldArgs x "transformers").map (fun e => match args e with | [a, b] => (sOf a, sOf b) | _ => ([], [])),
    rawFieldSettings := (fieldArgs x "rawfs").map sOf,
    constructor := optNat (one x "ctor") }

def declaredOf (x : Sexp) : Declared :=
  { name := sOf (one x "name"), source := tyOf (one x "source"), target := tyOf (one x "target"),
    args := (fieldArgs x "args").map argOf, contexts := (fieldArgs x "ctx").map tyOf, returnError := asBool (one x "err"),
    updateTarget := asBool (one x "update"), cfg := methodCfgOf x }

def oraclesOf (x : Sexp) : Oracles :=
  let rm := (fieldArgs x "rxmatch").map (fun e => match args e with | [p, s, b] => (sOf p, sOf s, asBool b) | _ => ([], [], false))
  let rr := (fieldArgs x "rxrepl").map (fun e => match args e with
    | [p, r, s, .list [.atom "invalid"]] => (sOf p, sOf r, sOf s, (none : Option Str.S))
    | [p, r, s, res] => (sOf p, sOf r, sOf s, some (sOf res))
    | _ => ([], [], [], none))
  let asg := (fieldArgs x "assign").map (fun e => match args e with | [a, b] => (tyOf a, tyOf b) | _ => (.opaque .unknown [], .opaque .unknown []))
  { rxMatch := fun p s => (rm.find? (fun (p', s', _) => p' == p && s' == s)).map (·.2.2) |>.getD false
    rxReplace := fun p r s => match rr.find? (fun (p', r', s', _) => p' == p && r' == r && s' == s) with
      | some (_, _, _, res) => res
      | none => some s
    assignable := fun a b => asg.any (fun (a', b') => a' == a && b' == b) }

def diagName : Diag → String
  | .typeMismatch => "typeMismatch" | .typeMismatchPtr => "typeMismatchPtr" | .noMatch => "noMatch" | .ambiguous => "ambiguous"
  | .unexportedField => "unexportedField" | .unknownField => "unknownField" | .cannotAccess => "cannotAccess" | .cannotFind => "cannotFind"
  | .autoMapNotFound => "autoMapNotFound" | .autoMapNotStruct => "autoMapNotStruct" | .overlapping => "overlapping"
  | .invalidFieldMapping => "invalidFieldMapping" | .updateTargetShape => "updateTargetShape" | .updateSourceShape => "updateSourceShape"
  | .methodSourceMismatch => "methodSourceMismatch" | .methodTargetMismatch => "methodTargetMismatch" | .errorNotReturned => "errorNotReturned"
  | .delegateErrorMismatch => "delegateErrorMismatch" | .contextMissing => "contextMissing" | .contextUnsatisfied => "contextUnsatisfied"
  | .overlappingSignatures => "overlappingSignatures" | .enumUnknownMissing => "enumUnknownMissing" | .enumKeyMissing => "enumKeyMissing"
  | .enumTargetMissing => "enumTargetMissing" | .enumMismatch => "enumMismatch" | .enumInvalidTarget => "enumInvalidTarget"
  | .enumTransformerError => "enumTransformerError" | .enumTransformerEmpty => "enumTransformerEmpty"
  | .enumUnderlyingConflict => "enumUnderlyingConflict" | .enumErrorNotAllowed => "enumErrorNotAllowed"
  | .structMethodSig => "structMethodSig"
  | .unsupported w => "unsupported:" ++ w | .outOfFuel => "outOfFuel"

def roleS : Role → String
  | .source => "source" | .multiSource => "additional-source" | .iface => "interface" | .context => "context" | .target => "target"

structure GenCase where
  conv : Converter
  declared : List Declared

def genCaseOf (req : Sexp) : GenCase :=
  let env := (fieldArgs req "env").map namedOf
  let cv := match field? req "conv" with | some c => c | none => .list []
  { conv := { env := env, common := commonOf (match field? cv "common" with | some c => c | none => .list []),
              outputPkg := sOf (one cv "outpkg"), customs := (fieldArgs cv "customs").map fnDefOf,
              extend := (fieldArgs cv "extend").map asNat,
              orc := oraclesOf (match field? req "oracles" with | some o => o | none => .list []) },
    declared := (fieldArgs cv "methods").map declaredOf }

def methodOut (m : GenMethod) : Sexp :=
  mkList "method" [strS m.name, .atom (toString m.explicit), .atom (toString m.returnError),
    mkList "args" (m.args.map (fun a => .atom (roleS a.use)))]

/-- the emitted code read back by the harness (`(lifted (t NAME TERM) …)`) against the plan's own term, both normalised -/
def symCompare (gc : GenCase) (ms : List GenMethod) (req : Sexp) : List Sexp :=
  match field? req "lifted" with
  | none => []
  | some l =>
    let impl : List (String × Sexp) := (args l).filterMap (fun e => match args e with | [n, t] => some (asString n, t) | _ => none)
    let rows := ms.map (fun m =>
      let name := String.ofList m.name
      match impl.find? (fun p => p.1 == name) with
      | none => mkList "missing" [.str name]
      | some (_, t) =>
        if head? t == some "unliftable" then mkList "unlift" [.str name, t]
        else
          let mt := Sym.norm (Sym.methodTerm gc.conv.env gc.conv.customs ms m)
          let it := Sym.norm t
          if mt == it then mkList "eq" [.str name] else mkList "diff" [.str name, mt, it])
    [mkList "sym" rows]

/-- `(gen id (env ...) (conv ...) (oracles ...))` -/
def handleGen (req : Sexp) : Sexp :=
  let gc := genCaseOf req
  match generate gc.conv gc.declared with
  | .ok ms =>
    let sorted := ms.mergeSort (fun a b => String.ofList a.name ≤ String.ofList b.name)
    let needs := Emit.methodsNeeds ms
    mkList "ok" (sorted.map methodOut ++ [mkList "needs" [.atom (toString needs.1), mkList "wrap" (needs.2.eraseDups.map strS)]]
      ++ symCompare gc ms req)
  | .error d => mkList "err" [.atom (diagName d)]

end Gv.Driver
