import Gv.Sexp
import Gv.Model.Eval
import Gv.Driver.Gen
import Gv.Spec.Structural
import Gv.Model.PlanCheck
import Gv.Model.PlanCheckU
import Gv.Model.PathCheck
import Gv.Model.CustomCheck
import Gv.Model.PlanCheckS
import Gv.Proofs.Safety

namespace Gv.Driver
open Gv Gv.Sexp Gv.Eval

/-- methods a plan node calls on the SAME value (through casts and value -> pointer nodes only) -/
def sameValueCallees : Conv → List Nat
  | .call (.method m) _ _ _ => [m]
  | .cast i => sameValueCallees i
  | .underlying _ _ i => sameValueCallees i
  | .tgtPtr _ i => sameValueCallees i
  | _ => []

/-- a candidate ranking for `Safety.callsDescend`: the length of the longest chain of same-value calls starting at a method
(iterated as often as there are methods; on a cyclic call structure no ranking exists and the check below answers false) -/
def candidateRank (p : Eval.Program) : Nat → Nat :=
  let callees : List (List Nat) := p.methods.map (fun gm => match gm.body with
    | some (.convert c) => sameValueCallees c
    | _ => [])
  let step (r : List Nat) : List Nat := callees.map (fun cs => cs.foldl (fun acc m => Nat.max acc (r.getD m 0 + 1)) 0)
  let final := (List.range p.methods.length).foldl (fun r _ => step r) (callees.map (fun _ => 0))
  fun m => final.getD m 0

/-- parse an input value; `memo` maps labels of already built reference cells to their values -/
partial def valOf (memo : List (Nat × Val)) (x : Sexp) : Val × List (Nat × Val) :=
  let many (memo : List (Nat × Val)) (xs : List Sexp) : List Val × List (Nat × Val) :=
    xs.foldl (fun (acc : List Val × List (Nat × Val)) y => let (v, m) := valOf acc.2 y; (acc.1 ++ [v], m)) ([], memo)
  match x with
  | .atom "nil" => (.nil, memo)
  | .list [.atom "b", r] => (.basic (sOf r), memo)
  | .list [.atom "ref", l] => ((memo.lookup (asNat l)).getD .nil, memo)
  | .list [.atom "ptr", l, v] =>
    let (pv, m) := valOf memo v
    let r := Val.ptr (.src (asNat l)) pv
    (r, (asNat l, r) :: m)
  | .list (.atom "sl" :: l :: vs) =>
    let (xs, m) := many memo vs
    let r := Val.slice (if xs.isEmpty then .none else .src (asNat l)) xs
    (r, (asNat l, r) :: m)
  | .list (.atom "arr" :: vs) => let (xs, m) := many memo vs; (.arr xs, m)
  | .list (.atom "mp" :: l :: es) =>
    let (kvs, m) := es.foldl (fun (acc : List (Val × Val) × List (Nat × Val)) e =>
      match args e with
      | [k, v] => let (kv, m1) := valOf acc.2 k; let (vv, m2) := valOf m1 v; (acc.1 ++ [(kv, vv)], m2)
      | _ => acc) ([], memo)
    let r := Val.map (.src (asNat l)) kvs
    (r, (asNat l, r) :: m)
  | .list (.atom "st" :: fs) =>
    let (out, m) := fs.foldl (fun (acc : List (Str.S × Val) × List (Nat × Val)) f =>
      match args f with
      | [n, v] => let (vv, m1) := valOf acc.2 v; (acc.1 ++ [(sOf n, vv)], m1)
      | _ => acc) ([], memo)
    (.struct out, m)
  | _ => (.nil, memo)

/-- Go iterates a map in an unspecified order, so when several entries of a map fail, which failure the call reports is
    not determined.  `rotMaps` rotates the entry list of every map of an input value; the rotation amounts are the digits
    of `k` in the mixed radix of the map sizes (state: remaining `k`, number of variants so far, capped).  The harness asks
    for the other variants only after the implementation and the model disagree on a failing call. -/
partial def rotMaps (v : Val) : StateM (Nat × Nat) Val := do
  match v with
  | .ptr l x => return .ptr l (← rotMaps x)
  | .slice l xs => return .slice l (← xs.mapM rotMaps)
  | .arr xs => return .arr (← xs.mapM rotMaps)
  | .struct fs => return .struct (← fs.mapM (fun (n, x) => do pure (n, ← rotMaps x)))
  | .map l kvs =>
    let kvs' ← kvs.mapM (fun (a, b) => do pure (← rotMaps a, ← rotMaps b))
    let n := kvs'.length
    if n < 2 then return .map l kvs' else
    let (k, prod) ← get
    set (k / n, min (prod * n) 100000)
    return .map l (kvs'.rotateLeft (k % n))
  | x => return x

/-- printing state: fresh locations renumbered by first occurrence -/
structure PSt where
  seen : List Nat := []

def locOut (erase : Bool) (l : Loc) : StateM PSt Sexp := do
  if erase then return .atom "_"
  match l with
  | .none => return .atom "z"
  | .src n => return mkList "s" [.atom (toString n)]
  | .fresh n =>
    let st ← get
    match st.seen.idxOf? n with
    | some i => return mkList "n" [.atom (toString i)]
    | none =>
      set { st with seen := st.seen ++ [n] }
      return mkList "n" [.atom (toString st.seen.length)]

partial def valOut (erase : Bool) (v : Val) : StateM PSt Sexp := do
  match v with
  | .basic r => return mkList "b" [strS r]
  | .nil => return .atom "nil"
  | .ptr l x =>
    let lo ← locOut erase l
    return mkList "ptr" [lo, ← valOut erase x]
  | .slice l xs =>
    let lo ← locOut erase l
    let ys ← xs.mapM (valOut erase)
    return mkList "sl" (lo :: ys)
  | .arr xs => return mkList "arr" (← xs.mapM (valOut erase))
  | .map l kvs =>
    let lo ← locOut erase l
    -- entries sorted by the erased text of the key; values are numbered in that order
    let keyed := kvs.map (fun (k, v) => (Sexp.toString ((valOut true k).run' {}), k, v))
    let sorted := keyed.mergeSort (fun a b => a.1 ≤ b.1)
    let es ← sorted.mapM (fun (_, k, v) => do
      let ko ← valOut erase k
      let vo ← valOut erase v
      pure (mkList "e" [ko, vo]))
    return mkList "mp" (lo :: es)
  | .struct fs =>
    let ys ← fs.mapM (fun (n, x) => do pure (mkList "f" [strS n, ← valOut erase x]))
    return mkList "st" ys
  | .tok fn as =>
    let ys ← as.mapM (valOut true)
    return mkList "tok" (strS fn :: ys)
  | .absent => return .atom "absent"

partial def errOut : ErrV → Sexp
  | .boom fn => mkList "boom" [strS fn]
  | .enumUnknown => mkList "enumerr" []
  | .field n e => mkList "field" [strS n, errOut e]
  | .index i e => mkList "index" [.atom (toString i), errOut e]
  | .wrap elems e =>
    mkList "wrap" [mkList "path" (elems.map (fun (k, v) => mkList k [(valOut true v).run' {}])), errOut e]

def panicName : PanicKind → String
  | .indexOutOfRange => "index" | .nilMap => "nilmap" | .nilDeref => "nilderef" | .enumUnknown => "enum" | .custom => "custom"

def outcomeOut : Outcome Val → Sexp
  | .ok v => mkList "ok" [(valOut false v).run' {}]
  | .err e => mkList "err" [errOut e]
  | .panic k => mkList "panic" [.atom (panicName k)]
  | .stuck w => mkList "stuck" [.str w]

/-- `(eval id (env ..) (conv ..) (oracles ..) (failon (f "fn" "repr") ..) (calls (call "Method" v ..) ..))`
    → `(ok (r outcome) ..)` | `(err class)` -/
def handleEval (req : Sexp) : Sexp :=
  let gc := genCaseOf req
  match Gen.generate gc.conv gc.declared with
  | .error d => mkList "err" [.atom (diagName d)]
  | .ok ms =>
    let fails := (fieldArgs req "failon").map (fun f => match args f with | [a, b] => (sOf a, sOf b) | _ => ([], []))
    let failsOn : Str.S → Val → Bool := fun fn v =>
      let v' := match v with | .ptr _ x => x | x => x
      let v'' := match v' with | .struct ((_, x) :: _) => x | x => x
      match v'' with
      | .basic r => fails.any (fun (f, r') => f == fn && r' == r)
      | _ => false
    let sem : CustomSem := { failsOn := failsOn, isCtor := fun fn => "New".toList.isPrefixOf fn }
    let prog : Program := { conv := gc.conv, methods := ms, sem := sem }
    let mapRot : Option Nat := (fieldArgs req "maprot").head?.map asNat
    let wantSpec := (fieldArgs req "spec").any (fun x => asString x == "structural")
    let outs := (fieldArgs req "calls").map (fun cl =>
      match args cl with
      | name :: vs =>
        match ms.findIdx? (fun m => m.explicit && m.name == sOf name) with
        | some mi =>
          let (vals0, _) := vs.foldl (fun (acc : List Val × List (Nat × Val)) y => let (v, m) := valOf acc.2 y; (acc.1 ++ [v], m)) ([], [])
          let (vals, variants) := match mapRot with
            | none => (vals0, 1)
            | some k => let (xs, st) := (vals0.mapM rotMaps).run (k, 1); (xs, st.2)
          let out := runMethod prog mi vals
          let base := if mapRot.isSome then mkList "r" [outcomeOut out, mkList "mapvariants" [.atom (toString variants)]]
                      else mkList "r" [outcomeOut out]
          if !wantSpec then base else
          match ms[mi]? with
          | none => base
          | some gm =>
            -- the structural specification of C02 (single source argument, no update)
            let sp := Spec.specMap gc.conv.env gm.source gm.target (vals.headD .nil)
            let spOut : Sexp := match sp with
              | some v => mkList "ok" [(valOut true v).run' {}]
              | none => mkList "nospec" []
            let modelErased : Sexp := match out with
              | .ok v => mkList "ok" [(valOut true v).run' {}]
              | o => outcomeOut o
            if Sexp.toString spOut == Sexp.toString modelErased || sp.isNone then base
            else mkList "r" [outcomeOut out, mkList "specdiff" [.str "structural", spOut]]
        | none => mkList "r" [mkList "stuck" [.str "no such method"]]
      | [] => mkList "r" [mkList "stuck" [.str "bad call"]])
    -- is the whole program inside the fragment of the composite theorem (Gv.Props.C02.C02_composite)?
    let wantFrag := wantSpec || (fieldArgs req "spec").any (fun x => asString x == "fragment")
    -- … of the update / skipped-field composites (C10_composite, C05_composite_ignored_unassigned), and do all error sites
    -- carry their position (C07_path_is_position)?
    let frag := if wantFrag then [mkList "fragment" [.atom (toString (PlanCheck.checkProg prog)),
      .atom (toString (PlanCheck.checkProgU prog)), .atom (toString (PathCheck.pathsOK prog)),
      -- custom functions / declared methods first at every typed position (C06_every_occurrence); the deep-copy fragment
      -- extended by skipCopySameType positions (C04_skipcopy_composite) and whether the program has such a position
      .atom (toString (CustomCheck.customsFirst prog)), .atom (toString (PlanCheckS.checkProgS prog)),
      .atom (toString (PlanCheckS.progHasShare prog)),
      -- … and is its call structure acyclic on equal values (C02_total: every well-typed finite value is converted)?
      .atom (toString (Safety.callsDescend prog (candidateRank prog)))]] else []
    mkList "ok" (outs ++ frag ++ symCompare gc ms req)

end Gv.Driver
