import Gv.Sexp
import Gv.Model.Settings
import Gv.Model.Path
import Gv.Driver.Comments

namespace Gv.Driver
open Gv Gv.Sexp Gv.Settings

def serrName : SErr → String
  | .wrapConflictUsing => "wrapConflictUsing"
  | .wrapConflictErrors => "wrapConflictErrors"
  | .enumInvalid => "enumInvalid"
  | .enumCount => "enumCount"
  | .stringCount => "stringCount"
  | .regexInvalid => "regexInvalid"
  | .enumActionInvalid => "enumActionInvalid"
  | .missingKey => "missingKey"
  | .unknownSetting => "unknownSetting"
  | .notAllowedForVariables => "notAllowedForVariables"
  | .formatAfterExtend => "formatAfterExtend"
  | .formatUnsupportedVariables => "formatUnsupportedVariables"
  | .formatUnsupportedConverter => "formatUnsupportedConverter"
  | .mapMissingTarget => "mapMissingTarget"
  | .mapTooMany => "mapTooMany"
  | .mapTargetPath => "mapTargetPath"
  | .enumMapFields => "enumMapFields"
  | .transformerUnknown => "transformerUnknown"
  | .idPatternInvalid => "idPatternInvalid"
  | .needsLoader => "needsLoader"

def bAtom (b : Bool) : Sexp := .atom (toString b)

def commonOut (c : Common) : Sexp :=
  mkList "common" [
    mkList "WrapErrors" [bAtom c.wrapErrors], mkList "WrapErrorsUsing" [strS c.wrapErrorsUsing],
    mkList "IgnoreUnexported" [bAtom c.ignoreUnexported], mkList "IgnoreBasicZeroValueField" [bAtom c.ignoreBasicZero],
    mkList "IgnoreStructZeroValueField" [bAtom c.ignoreStructZero], mkList "IgnoreNillableZeroValueField" [bAtom c.ignoreNillableZero],
    mkList "MatchIgnoreCase" [bAtom c.matchIgnoreCase], mkList "IgnoreMissing" [bAtom c.ignoreMissing],
    mkList "SkipCopySameType" [bAtom c.skipCopySameType], mkList "UseZeroValueOnPointerInconsistency" [bAtom c.useZeroValue],
    mkList "UseUnderlyingTypeMethods" [bAtom c.useUnderlying], mkList "DefaultUpdate" [bAtom c.defaultUpdate],
    mkList "ArgContextRegex" [strS (c.argContextRegex.getD [])], mkList "Enum.Enabled" [bAtom c.enumEnabled],
    mkList "Enum.Unknown" [strS c.enumUnknown],
    mkList "Enum.Excludes" (c.enumExcludes.map (fun (p, n) => mkList "x" [strS p, strS n]))]

def formatName : Format → String
  | .struct => "struct" | .function => "function" | .variable => "assign-variable"

def convOut (c : ConvCfg) : Sexp :=
  mkList "conv" [mkList "Name" [strS c.name], mkList "OutputRaw" (c.outputRaw.map strS), mkList "OutputFile" [strS c.outputFile],
    mkList "OutputPackagePath" [strS c.outputPackagePath], mkList "OutputPackageName" [strS c.outputPackageName],
    mkList "OutputFormat" [.atom (formatName c.format)], mkList "Comments" (c.comments.map strS), commonOut c.common]

def methOut (m : MethodCfg) : Sexp :=
  mkList "method" [commonOut m.common,
    mkList "Fields" (m.fields.map (fun (n, f) => mkList "f" [strS n, strS f.source, bAtom f.ignore])),
    mkList "AutoMap" (m.autoMap.map strS),
    mkList "EnumMap" (m.enumMap.map (fun (a, b) => mkList "e" [strS a, strS b])),
    mkList "Transformers" (m.transformers.map (fun (a, b) => mkList "t" [strS a, strS b])),
    mkList "RawFieldSettings" (m.rawFieldSettings.map strS),
    mkList "UpdateParam" [strS m.updateParam], mkList "Contexts" (m.contexts.map strS),
    mkList "Functions" ((m.fields.filter (fun (_, f) => !f.function.isEmpty)).map (fun (n, f) => mkList "fn" [strS n, strS f.function])),
    mkList "Constructor" [strS m.ctor]]

/-- `(resolve id (vars b) (iface "N") (cwd "/w") (procwd "/x") (pkg "p/q") (pkgname "q") (varfile "f.gen.go")
     (rxbad "pat"...) (cli ..) (conv ..) (meth ..))` -/
def handleResolve (req : Sexp) : Sexp :=
  let f (k : String) : Str.S := match fieldArgs req k with | [x] => sOf x | _ => []
  let isVars := match fieldArgs req "vars" with | [x] => asBool x | _ => false
  let rxbad := (fieldArgs req "rxbad").map sOf
  let cwd := f "cwd"
  let env : Env := {
    rx := fun s => !rxbad.contains s
    cwdFile := fun x => Path.abs (f "procwd") (Path.join2 cwd x)
    pathJoin := Path.join2
    pkgPath := f "pkg"
    loaderOk := match fieldArgs req "loaderok" with | [x] => asBool x | _ => false }
  let init := initConverter isVars (f "iface") (f "varfile") (f "pkgname") (f "pkg")
  let ls (k : String) := (fieldArgs req k).map sOf
  match resolveMethod env init (ls "cli") (ls "conv") (ls "meth") with
  | .ok (c, m) => mkList "ok" [convOut c, methOut m]
  | .error e => mkList "err" [.atom e.level, strS e.key, .atom (serrName e.err)]

/-- `(path id op "a" "b"?)` -/
def handlePath (req : Sexp) : Sexp :=
  match (args req).drop 1 with
  | [.atom "clean", a] => strS (Path.clean (sOf a))
  | [.atom "join", a, b] => strS (Path.joinPaths [sOf a, sOf b])
  | [.atom "dir", a] => strS (Path.dir (sOf a))
  | [.atom "base", a] => strS (Path.base (sOf a))
  | [.atom "ext", a] => strS (Path.ext (sOf a))
  | [.atom "isabs", a] => bAtom (Path.isAbs (sOf a))
  | [.atom "rel", a, b] => match Path.rel (sOf a) (sOf b) with | some r => strS r | none => mkList "err" []
  | [.atom "abs", a, b] => strS (Path.abs (sOf a) (sOf b))
  | _ => mkList "err" [.atom "bad-request"]

end Gv.Driver
