import Gv.Sexp
import Gv.Model.Signature
import Gv.Driver.Comments

namespace Gv.Driver
open Gv Gv.Sexp Gv.Signature

def perrName : PErr → String
  | .notExported => "notExported" | .notFunction => "notFunction" | .updateResults => "updateResults"
  | .updateArgMissing => "updateArgMissing" | .resultCount => "resultCount" | .secondNotError => "secondNotError"
  | .generic => "generic" | .noSourceAllowed => "noSourceAllowed" | .sourceRequired => "sourceRequired"
  | .oneSourceOnly => "oneSourceOnly"

def roleName : Role → String
  | .source => "source" | .multiSource => "additional-source" | .iface => "interface" | .context => "context" | .target => "target"

def optsOf (x : Sexp) : Opts :=
  let one (k : String) : Sexp := match fieldArgs x k with | [v] => v | _ => .atom ""
  { params := match asString (one "params") with | "optional" => .optional | "none" => .none | _ => .required
    multiSource := asBool (one "multi")
    allowTypeParams := asBool (one "allowtp")
    updateParam := sOf (one "update")
    localContext := (fieldArgs x "localctx").map sOf }

def objOf (x : Sexp) : Obj :=
  let one (k : String) : Sexp := match fieldArgs x k with | [v] => v | _ => .atom ""
  { accessible := asBool (one "accessible"), isFunc := asBool (one "func"), typeParams := asBool (one "typeparams")
    params := (fieldArgs x "params").map (fun p => match args p with
      | [n, t, c, m] => { name := sOf n, ty := sOf t, isConverter := asBool c, ctxMatch := asBool m }
      | _ => default)
    results := (fieldArgs x "results").map (fun r => match args r with
      | [t, e] => { ty := sOf t, isError := asBool e }
      | _ => default) }

def defOut (d : Def) : Sexp :=
  mkList "ok" [mkList "roles" (d.roles.map (fun r => .atom (roleName r))),
    mkList "source" [strS (d.source.getD [])], mkList "target" [strS (d.target.getD [])],
    mkList "err" [bAtomS d.returnError], mkList "update" [bAtomS d.updateTarget],
    mkList "ctx" (d.contexts.map strS), mkList "multi" (d.multiSources.map strS)]
where bAtomS (b : Bool) : Sexp := .atom (toString b)

/-- `(sig id (opts ...) (obj ...))` -/
def handleSig (req : Sexp) : Sexp :=
  match field? req "opts", field? req "obj" with
  | some o, some ob =>
    match parse (optsOf o) (objOf ob) with
    | .ok d => defOut d
    | .error e => mkList "err" [.atom (perrName e)]
  | _, _ => mkList "err" [.atom "bad-request"]

def consumerOf : String → Consumer
  | "extend" => .extend | "mapfunc" => .mapFunc | "default" => .dflt | "structmethod" => .structMethod | _ => .converterMethod

/-- `(consumer id (kind K) (cli P?) (conv P?) (meth P?) (update U) (localctx ..) (rx (m pat name bool) ..) (obj ..))`:
the signature is parsed with the profile of the consumer and with the context pattern in effect at its level;
`rx` holds the regexp oracle answers (pattern, parameter name) -/
def handleConsumer (req : Sexp) : Sexp :=
  let k := consumerOf (asString (match fieldArgs req "kind" with | [v] => v | _ => .atom ""))
  let lvl (key : String) : Option Str.S := match fieldArgs req key with | [v] => some (sOf v) | _ => none
  let rx := (fieldArgs req "rx").map (fun e => match args e with | [p, n, b] => (sOf p, sOf n, asBool b) | _ => ([], [], false))
  let pat := effPattern k (lvl "cli") (lvl "conv") (lvl "meth")
  let o := consumerOpts k (sOf (match fieldArgs req "update" with | [v] => v | _ => .atom "")) ((fieldArgs req "localctx").map sOf)
  match field? req "obj" with
  | some ob =>
    let obj := objOf ob
    let obj := { obj with params := obj.params.map (fun p =>
      { p with isConverter := p.isConverter && k.seesConverter,
               ctxMatch := match pat with
                 | none => false
                 | some pt => rx.any (fun (p', n', b) => p' == pt && n' == p.name && b) }) }
    match parse o obj with
    | .ok d => defOut d
    | .error e => mkList "err" [.atom (perrName e)]
  | none => mkList "err" [.atom "bad-request"]

/-- `(extsel id (literal b) (lit "name") (opts ..) (cands (c "name" fullmatch (obj ..)) ..))` -/
def handleExtSel (req : Sexp) : Sexp :=
  let one (k : String) : Sexp := match fieldArgs req k with | [v] => v | _ => .atom ""
  let o := match field? req "opts" with | some x => optsOf x | none => {}
  let cands : List Cand := (fieldArgs req "cands").map (fun c => match args c with
    | [n, fm, ob] => { name := sOf n, fullMatch := asBool fm, obj := objOf ob, localCtx := (fieldArgs ob "localctx").map sOf }
    | _ => default)
  match selectExtend (asBool (one "literal")) (sOf (one "lit")) o cands with
  | .ok names => mkList "ok" (names.map strS)
  | .error .notFound => mkList "err" [.atom "notFound"]
  | .error .noMatch => mkList "err" [.atom "noMatch"]
  | .error (.parse e) => mkList "err" [.atom (perrName e)]

/-- `(extlist id (opts ..) (entry (pkg "path") (literal b) (lit "name") (cands ..)) ..)` -/
def handleExtList (req : Sexp) : Sexp :=
  let o := match field? req "opts" with | some x => optsOf x | none => {}
  let entries : List ExtEntry := (args req).filterMap (fun e =>
    if head? e == some "entry" then
      let one (k : String) : Sexp := match fieldArgs e k with | [v] => v | _ => .atom ""
      let cands : List Cand := (fieldArgs e "cands").map (fun c => match args c with
        | [n, fm, ob] => { name := sOf n, fullMatch := asBool fm, obj := objOf ob, localCtx := (fieldArgs ob "localctx").map sOf }
        | _ => default)
      some { pkg := sOf (one "pkg"), literal := asBool (one "literal"), lit := sOf (one "lit"), cands := cands }
    else none)
  match extendList o entries with
  | .ok l => mkList "ok" (l.map (fun (p, n) => strS (p ++ ":".toList ++ n)))
  | .error .notFound => mkList "err" [.atom "notFound"]
  | .error .noMatch => mkList "err" [.atom "noMatch"]
  | .error (.parse e) => mkList "err" [.atom (perrName e)]

end Gv.Driver
