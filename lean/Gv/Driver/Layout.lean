import Gv.Sexp
import Gv.Model.Layout
import Gv.Model.Cli
import Gv.Driver.Settings

namespace Gv.Driver
open Gv Gv.Sexp Gv.Settings Gv.Layout

/-- `(place id (cwd "/w") (procwd "/w") (cli "line"...) (loaded (p "import/path" "name")...)
      (conv (vars b) (iface "N") (file "/abs/decl.go") (pkg "import/path") (pkgname "n") (rxbad ...) (lines "..."...))...)`
   → `(ok (file "path" "clause" "Conv1" ...)...)` | `(err class detail)` -/
def handlePlace (req : Sexp) : Sexp :=
  let f1 (x : Sexp) (k : String) : Str.S := match fieldArgs x k with | [v] => sOf v | _ => []
  let cwd := f1 req "cwd"
  let procwd := f1 req "procwd"
  let cli := (fieldArgs req "cli").map sOf
  let loadedTbl := (fieldArgs req "loaded").map (fun p => match args p with | [a, b] => (sOf a, sOf b) | _ => ([], []))
  let loaded : Str.S → Option Str.S := fun p => loadedTbl.lookup p
  let convs := (args req).filter (fun y => head? y == some "conv")
  let step (acc : Except Sexp (List Placed)) (cv : Sexp) : Except Sexp (List Placed) := do
    let ps ← acc
    let isVars := match fieldArgs cv "vars" with | [x] => asBool x | _ => false
    let declFile := f1 cv "file"
    let pkg := f1 cv "pkg"
    let rxbad := (fieldArgs cv "rxbad").map sOf
    let env : Env := { rx := fun s => !rxbad.contains s, cwdFile := fun x => Path.abs procwd (Path.join2 cwd x),
                       pathJoin := Path.join2, pkgPath := pkg }
    let init := initConverter isVars (f1 cv "iface") (defaultOutputFile declFile) (f1 cv "pkgname") pkg
    match resolveConverter env init cli ((fieldArgs cv "lines").map sOf) with
    | .error e => .error (mkList "err" [.atom "config", .atom e.level, strS e.key, .atom (serrName e.err)])
    | .ok c =>
      let c := resolveOutputPackage loaded declFile pkg c
      pure (ps ++ [{ name := c.name, path := outputPath declFile c.outputFile, pkgID := packageID c, clause := packageClause c }])
  match convs.foldl step (.ok []) with
  | .error e => e
  | .ok placed =>
    -- config.Parse sorts by Name (the harness uses distinct names; variables blocks have the empty name)
    let sorted := placed.mergeSort (fun a b => String.ofList a.name ≤ String.ofList b.name)
    match place [] sorted with
    | .error (.differentPackages p) => mkList "err" [.atom "generate", .atom "differentPackages", strS p]
    | .ok files =>
      let files := files.mergeSort (fun a b => String.ofList a.path ≤ String.ofList b.path)
      mkList "ok" (files.map (fun f => mkList "file" ([strS f.path, strS f.clause] ++ f.converters.map strS)))

def cmdOut : Cli.Cmd → Sexp
  | .help => mkList "help" []
  | .version => mkList "version" []
  | .usageErr w => mkList "usage" [.str w]
  | .gen c => mkList "gen" [mkList "patterns" (c.patterns.map strS), mkList "global" (c.global.map strS),
      mkList "tags" [strS c.buildTags], mkList "constraint" [strS c.outputConstraint], mkList "cwd" [strS c.cwd]]

/-- `(cli id "arg0" "arg1" ...)` -/
def handleCli (req : Sexp) : Sexp := cmdOut (Cli.parse ((args req).drop 1 |>.map sOf))

/-- `(misc id guessalias "p")`, `(misc id header "constraint")`, `(misc id defaultfile "f.go")` -/
def handleMisc (req : Sexp) : Sexp :=
  match (args req).drop 1 with
  | [.atom "guessalias", a] => strS (guessAlias (sOf a))
  | [.atom "header", a] => mkList "lines" ((headerLines (sOf a)).map strS)
  | [.atom "defaultfile", a] => strS (defaultOutputFile (sOf a))
  | _ => mkList "err" [.atom "bad-request"]

end Gv.Driver
