/-
C17 – a failing run changes no files and the exit status reflects the outcome.

Model: Gv.Cli (cli.Parse incl. Go's flag parsing, cli.Run, GenerateConverters, generator.Generate's
abort-on-first-error).  The run is sequential, so the theorems are short; their weight rests on the
static facts re-extracted on every run (the only file-writing calls of the whole code base are in
writeFiles, reached only after generateConvertersRaw returned nil) and on the C17 campaign.
-/
import Gv.Model.Cli
import Gv.Proofs.SettingsLemmas

namespace Gv.Props.C17
open Gv.Str Gv.Cli Gv.Settings

/-! ### static ties -/
theorem tie_pipeline :
    Facts.generateConvertersSteps = ["call:generateConvertersRaw", "iferr-return", "return-call:writeFiles"] ∧
    Facts.generateConvertersRawSteps = ["call:comments.ParseDocs", "iferr-return", "call:config.Parse", "iferr-return", "return-call:generator.Generate"] := by
  decide
/-- the only calls that touch the file system for writing, in all non-test code -/
theorem tie_only_writeFiles_writes :
    Facts.fsWriteSites = ["goverter.writeFiles:os.MkdirAll", "goverter.writeFiles:os.WriteFile"] := by decide
theorem tie_exit_codes : Facts.cliRunExits = ["1", "0", "1"] := by decide
theorem tie_flag_defaults :
    Facts.cliGenFlags = [("global", "<list>"), ("g", "<list>"), ("build-tags", "goverter"), ("output-constraint", "!goverter"), ("cwd", "")] := by
  decide

/-! ### the run -/

/-- **C17_fail_no_write**: whatever fails before the write stage (load, docs, settings, signature,
conversion — any converter, any position), the run writes nothing and exits with status 1 and a diagnostic -/
theorem C17_fail_no_write (generate : GenCfg → Except String Files) (args : List S) (c : GenCfg) (msg : String)
    (hp : parse args = .gen c) (hg : generate c = .error msg) :
    (run generate args).written = [] ∧ (run generate args).exit = 1 ∧ (run generate args).stderrNonEmpty = true := by
  simp [run, hp, hg]

/-- **C17_success**: all converters fine ⇒ exit 0 and exactly the generated files are written -/
theorem C17_success (generate : GenCfg → Except String Files) (args : List S) (c : GenCfg) (files : Files)
    (hp : parse args = .gen c) (hg : generate c = .ok files) :
    (run generate args).written = files ∧ (run generate args).exit = 0 ∧ (run generate args).stderrNonEmpty = false := by
  simp [run, hp, hg]

/-- **C17_cli**: help exits 0, usage errors exit 1, neither generates -/
theorem C17_cli (generate : GenCfg → Except String Files) (args : List S) :
    (parse args = .help → (run generate args).exit = 0 ∧ (run generate args).written = [] ∧ (run generate args).stdoutUsage = true) ∧
    (∀ w, parse args = .usageErr w → (run generate args).exit = 1 ∧ (run generate args).written = [] ∧ (run generate args).stderrNonEmpty = true) := by
  constructor
  · intro h; simp [run, h]
  · intro w h; simp [run, h]

/-- files are written only by a successful generation, and then the exit status is 0 -/
theorem C17_written_only_on_success (generate : GenCfg → Except String Files) (args : List S)
    (h : (run generate args).written ≠ []) :
    (run generate args).exit = 0 ∧ ∃ c, parse args = .gen c ∧ generate c = .ok (run generate args).written := by
  cases hp : parse args with
  | help => simp [run, hp] at h
  | version => simp [run, hp] at h
  | usageErr w => simp [run, hp] at h
  | gen c =>
    cases hg : generate c with
    | error m => simp [run, hp, hg] at h
    | ok files => simp [run, hp, hg]

/-- the exit status is 0 or 1, never anything else -/
theorem C17_exit_codes (generate : GenCfg → Except String Files) (args : List S) :
    (run generate args).exit = 0 ∨ (run generate args).exit = 1 := by
  unfold run
  split
  · exact Or.inl rfl
  · exact Or.inl rfl
  · exact Or.inr rfl
  · split
    · exact Or.inr rfl
    · exact Or.inl rfl

/-- `generator.Generate`: one failing converter, at any position among good ones, fails the whole generation -/
theorem C17_one_bad_fails_all {C} (genOne : C → Except String Files) (cs : List C)
    (h : ∃ c ∈ cs, ∃ m, genOne c = .error m) : ∃ m, generateAll genOne cs = .error m := by
  induction cs with
  | nil => simp at h
  | cons c cs ih =>
    unfold generateAll
    cases hc : genOne c with
    | error m => exact ⟨m, rfl⟩
    | ok f =>
      obtain ⟨c', hc', m, hm⟩ := h
      rcases List.mem_cons.mp hc' with rfl | hin
      · rw [hc] at hm; cases hm
      · obtain ⟨m', hm'⟩ := ih ⟨c', hin, m, hm⟩
        exact ⟨m', by simp [bind, Except.bind, hm']⟩

/-- and when all succeed every converter's files are in the result -/
theorem C17_all_good {C} (genOne : C → Except String Files) (cs : List C) (fs : Files)
    (h : generateAll genOne cs = .ok fs) : ∀ c ∈ cs, ∃ f, genOne c = .ok f ∧ ∀ x ∈ f, x ∈ fs := by
  induction cs generalizing fs with
  | nil => simp
  | cons c cs ih =>
    unfold generateAll at h
    obtain ⟨f, hf, h⟩ := bind_ok h
    obtain ⟨rest, hr, h⟩ := bind_ok h
    cases h
    intro c' hc'
    rcases List.mem_cons.mp hc' with rfl | hin
    · exact ⟨f, hf, fun x hx => by simp [hx]⟩
    · obtain ⟨f', hf', hsub⟩ := ih rest hr c' hin
      exact ⟨f', hf', fun x hx => by simp [hsub x hx]⟩

/-! ### argument vectors -/

example : parse ["goverter".toList, "-h".toList] = .help := by decide
example : parse ["goverter".toList, "gen".toList, "--help".toList] = .help := by decide
example : parse ["goverter".toList, "gen".toList] = .usageErr "missing PATTERN" := by decide
example : parse ["goverter".toList] = .usageErr "missing command" := by decide
example : parse ["goverter".toList, "frob".toList] = .usageErr "unknown command" := by decide
example : parse ["goverter".toList, "gen".toList, "-g".toList] = .usageErr "flag" := by decide
example : parse ["goverter".toList, "gen".toList, "-g".toList, "ignoreMissing no".toList, "-build-tags=".toList, "./...".toList] =
    .gen { patterns := ["./...".toList], global := ["ignoreMissing no".toList], buildTags := [], outputConstraint := "!goverter".toList, cwd := [] } := by
  decide

/-- `help`, `version` and unknown commands are recognised whatever follows -/
theorem C17_subcommands (cmd : S) (rest : List S) :
    parse (cmd :: "help".toList :: rest) = .help ∧ parse (cmd :: "version".toList :: rest) = .version := by
  constructor <;> simp [parse, parseFlags]

/-- `gen` with flags only and no pattern is a usage error -/
theorem C17_gen_needs_pattern (cmd : S) : parse [cmd, "gen".toList] = .usageErr "missing PATTERN" := by
  simp [parse, parseFlags]

end Gv.Props.C17
