/-
C10 – update methods write only mapped, non-skipped fields of the target instance.

Model: Gv.Eval.runMethod (Body.update), evalFields (per-field conditional assignment), Gv.Gen.shouldCheckZero
(the zero-value guard decision).  Tied to the code by the C10 campaign (pre-filled targets, zero / non-zero /
nil sources, all category combinations at converter and method level, both argument orders).
-/
import Gv.Model.Eval
import Gv.Model.Gen
import Gv.Proofs.EvalLemmas
import Gv.Proofs.Frame
import Gv.Proofs.UpdateSound
import Gv.Proofs.PlanCheckUSound
import Gv.Proofs.PlanCheckUComplete

namespace Gv.Props.C10
open Gv Gv.Str Gv.Eval Gv.Gen

variable (p : Program) (fr : Frame)

/-- **C10_only_mapped**: a field that is ignored / unmapped is not touched: the rest of the struct is processed
on the unchanged target -/
theorem C10_skipped_field_kept (fuel : Nat) (t : S) (rest : FieldPlans) (src old : Val) (n : Nat) :
    evalFields p (fuel+1) fr (.cons (.skip t) rest) src old n = evalFields p fuel fr rest src old n := by
  simp [evalFields]

/-- no field plans at all: the target keeps its previous value -/
theorem C10_no_fields_unchanged (fuel : Nat) (src old : Val) (n : Nat) :
    evalFields p (fuel+1) fr .nil src old n = .ok (old, n) := by
  simp [evalFields, pure, StateT.pure]

/-- **C10_zero_skip**: under a zero-value guard a zero source value leaves the target field as it was -/
theorem C10_zero_value_skipped (fuel : Nat) (t f : S) (cv : Conv) (rest : FieldPlans) (srcFields : List (S × Val)) (sv old : Val) (n : Nat)
    (hf : fieldOf (.struct srcFields) f = some sv) (hz : isZeroVal sv = true) :
    evalFields p (fuel+1) fr (.cons (.mapped t [f] [false] false false cv .check) rest) (.struct srcFields) old n =
    evalFields p fuel fr rest (.struct srcFields) old n := by
  simp [evalFields, walk, hf, hz]

/-- **C10_nil_source**: an update method with a nil source pointer returns the target untouched -/
theorem C10_nil_source (m : Nat) (gm : GenMethod) (c : Conv) (l : Loc) (tv : Val) (srcArg tgtArg : Arg)
    (hm : p.methods[m]? = some gm) (hb : gm.body = some (.update true c))
    (ha : gm.args = [srcArg, tgtArg]) (hs : srcArg.use = .source) (ht : tgtArg.use = .target) :
    runMethod p m [.nil, .ptr l tv] = .ok (.ptr l tv) := by
  unfold runMethod
  simp [hm, hb, ha, hs, ht, List.zip, List.find?]

/-- **C10_zero_guard_decision**: when the generated code compares a source field with its zero value.
Never outside update/default-update assignments; then by category: struct / basic / nillable
(maps, chans, funcs, interfaces always; slices and pointers only when they are passed on unchanged:
via a custom function or skipCopySameType with identical types). -/
theorem C10_zero_guard_decision (c : Converter) (cx : Ctx) (s t : Ty) (isUpdate call : Bool) :
    shouldCheckZero c cx s t isUpdate call =
      (if !cx.updateTarget && !isUpdate then false
       else
        let u := under c.env s
        if (match u with | .struct _ => true | _ => false) && cx.cfg.common.ignoreStructZero then true
        else if (match u with | .basic _ => true | _ => false) && cx.cfg.common.ignoreBasicZero then true
        else if cx.cfg.common.ignoreNillableZero then
          (match u with
           | .map _ _ => true
           | .opaque .chan _ | .opaque .func _ | .opaque .iface _ => true
           | .slice _ => call || (cx.cfg.common.skipCopySameType && s == t)
           | .ptr _ => call || (cx.cfg.common.skipCopySameType && s == t)
           | _ => false)
        else false) := by
  unfold shouldCheckZero
  rfl

/-- a plain conversion method (no update target, no default:update assignment) never emits a zero guard -/
theorem C10_no_guard_outside_update (c : Converter) (cx : Ctx) (s t : Ty) (call : Bool) (h : cx.updateTarget = false) :
    shouldCheckZero c cx s t false call = false := by
  simp [shouldCheckZero, h]

/-- arrays are never guarded (the statement's categories are basic / struct / nillable) -/
theorem C10_arrays_not_guarded (c : Converter) (cx : Ctx) (n : Nat) (e t : Ty) (isUpdate call : Bool) :
    shouldCheckZero c cx (.array n e) t isUpdate call = false := by
  simp [shouldCheckZero, under]

/-! ### The frame theorem: an update writes only the fields its plan assigns

For ALL plans (whatever conversions, custom functions, zero guards, nil-guarded paths or source methods the fields use),
all source values, all previous target values and all fuel: a field of the target instance that no plan of the struct
conversion targets (ignored fields, fields skipped by ignoreMissing / ignoreUnexported) has the value it had before. -/

open Gv.Sound in
theorem C10_frame (p : Program) (fuel : Nat) (fr : Frame) (plans : FieldPlans) (upd : Bool) (src old : Val) (n : Nat)
    (v' : Val) (n' : Nat) (hev : evalConv p (fuel + 1) fr (.structc plans upd) src old n = .ok (v', n'))
    (name : S) (hname : name ∉ planTargets plans) : fieldOf v' name = fieldOf old name :=
  structc_frame p fuel fr plans upd src old n v' n' hev name hname

open Gv.Sound in
/-- non-vacuity: with `Keep` ignored and `V` mapped, `Keep` keeps "kept" while `V` is overwritten -/
example : ("Keep".toList ∉ planTargets (.cons (.skip "Keep".toList) (.cons (.mapped "V".toList ["V".toList] [false] false false .ident .none) .nil))) := by
  decide

/-! ### The composite theorem: a checked update method assigns field by field as the statement says

`PlanCheck.checkProgU` is the decidable fragment test (structural plans + ignored fields + zero-value guards + update
methods); `Spec.ImgOnto` / `Spec.FieldOutcome` is the statement as a relation.  For every program that passes, every
update method `m` whose body is the struct assignment `plans`, every well-typed source struct (passed by value or behind
a non-nil pointer), every well-typed previous target struct `old`, every fuel: the result is a struct, and for the `i`-th
target field `tf` with plan `f`:
  (i)   `f = .skip _` (ignored / unmapped):                         the field holds what `old` held;
  (ii)  `f = .mapped …` without guard, or with a non-zero source:   the field holds the conversion of the source field;
  (iii) `f = .mapped … .check` and the source field is zero:        the field holds what `old` held.
(Locations erased; the nil source pointer is `C10_composite_run` (iv) below.) -/

open Gv.Typing Gv.Spec Gv.Sound in
theorem C10_composite (p : Program) (hchk : PlanCheck.checkProgU p = true)
    (m : Nat) (gm : GenMethod) (srcIsPtr : Bool) (plans : FieldPlans) (upd : Bool)
    (hm : p.methods[m]? = some gm) (hb : gm.body = some (.update srcIsPtr (.structc plans upd)))
    (s t : Ty) (htys : UpdTypes p gm srcIsPtr s t) (sfs tfs : Fields)
    (hs : under p.conv.env s = .struct sfs) (ht : under p.conv.env t = .struct tfs)
    (src : Val) (fs : List (S × Val))
    (hsrc : src = .struct fs ∨ ((∃ l, src = .ptr l (.struct fs)) ∧ noWholeSource plans = true))
    (hwt : WT p.conv.env (.struct fs) s) (old : Val) (hold : WT p.conv.env old t)
    (fuel : Nat) (fr : Frame) (n : Nat) (v' : Val) (n' : Nat)
    (hev : evalConv p fuel fr (.structc plans upd) src old n = .ok (v', n')) :
    ∃ ws, v' = .struct ws ∧
      ∀ (i : Nat) (tf : FieldInfo) (tty : Ty), tfs.toList[i]? = some (tf, tty) →
        ∃ f, plans.toList[i]? = some f ∧
          FieldOutcome p.conv.env (CtorSig p) s (.struct fs) tf tty (oldFields (erase old)) (erase.eraseFields ws) f := by
  obtain ⟨ws, hv', himg⟩ := update_struct_onto p (checkProgU_sound p hchk) m gm srcIsPtr plans upd hm hb s t htys sfs tfs hs ht
    src fs hsrc hwt old (oldOK_of_WT hold) fuel fr n v' n' hev
  exact ⟨ws, hv', fun i tf tty hi => himg.outcome i tf tty hi⟩

open Gv.Typing Gv.Spec Gv.Sound in
/-- the general form, for any plan node of a checked program (nested structs, pointers, slices, maps included): whatever
the node returns for a well-typed source value `v` and a well-typed previous value `old` of the target location is the
assignment image of `v` onto `old` -/
theorem C10_composite_onto (p : Program) (hchk : PlanCheck.checkProgU p = true)
    (fuel : Nat) (fr : Frame) (c : Conv) (s t : Ty) (v old : Val) (n : Nat) (v' : Val) (n' : Nat)
    (hc : PlanCheck.checkTyU p c s t = true) (hwt : WT p.conv.env v s) (hold : WT p.conv.env old t)
    (hev : evalConv p fuel fr c v old n = .ok (v', n')) :
    ImgOnto p.conv.env (CtorSig p) s t v (erase old) (erase v') :=
  evalConv_onto p (checkProgU_sound p hchk) fuel fr c s t v old n v' n' (checkTyU_sound p c s t hc) hwt (oldOK_of_WT hold) hev

open Gv.Spec in
/-- what the relation says at a basic target type: an assigned field holds exactly the payload of its source -/
theorem C10_onto_basic {env : TEnv} {K : Ty → Ty → Bool → Prop} {s t : Ty} {r : S} {k : Kind} {old w : Val}
    (ht : under env t = .basic k) (h : ImgOnto env K s t (.basic r) old w) : w = .basic r :=
  ImgOnto.basic_inv_aux h r k rfl ht

open Gv.Typing Gv.Spec Gv.Sound in
/-- the same at the level of the method call (`runMethod`: source argument, then the target pointer), including
 (iv) a nil source pointer leaves the target untouched -/
theorem C10_composite_run (p : Program) (hchk : PlanCheck.checkProgU p = true)
    (m : Nat) (gm : GenMethod) (srcIsPtr : Bool) (plans : FieldPlans) (upd : Bool)
    (hm : p.methods[m]? = some gm) (hb : gm.body = some (.update srcIsPtr (.structc plans upd)))
    (srcArg tgtArg : Arg) (ha : gm.args = [srcArg, tgtArg]) (hsu : srcArg.use = .source) (htu : tgtArg.use = .target)
    (s t : Ty) (htys : UpdTypes p gm srcIsPtr s t) (sfs tfs : Fields)
    (hs : under p.conv.env s = .struct sfs) (ht : under p.conv.env t = .struct tfs)
    (src : Val) (l : Loc) (old : Val) (hold : WT p.conv.env old t) (fuel : Nat) (r : Val)
    (hrun : runMethod p m [src, .ptr l old] fuel = .ok r) :
    (srcIsPtr = true → src = .nil → r = .ptr l old) ∧
    (∀ fs, (src = .struct fs ∨ ((∃ l', src = .ptr l' (.struct fs)) ∧ (srcIsPtr = true ∨ noWholeSource plans = true))) →
      WT p.conv.env (.struct fs) s →
      ∃ ws, r = .ptr l (.struct ws) ∧
        ∀ (i : Nat) (tf : FieldInfo) (tty : Ty), tfs.toList[i]? = some (tf, tty) →
          ∃ f, plans.toList[i]? = some f ∧
            FieldOutcome p.conv.env (CtorSig p) s (.struct fs) tf tty (oldFields (erase old)) (erase.eraseFields ws) f) := by
  unfold runMethod at hrun
  simp [hm, hb, ha, hsu, htu, List.zip, List.find?] at hrun
  refine ⟨?_, ?_⟩
  · intro h1 h2
    subst h1; subst h2
    rw [if_pos ⟨rfl, rfl⟩] at hrun
    cases hrun
    rfl
  · intro fs hsrc hwt
    have key : ∃ nv n1, evalConv p fuel { self := m, ctx := [], idx := [], keys := [], parent := updParent srcIsPtr src }
          (.structc plans upd) (updSource srcIsPtr src) old 0 = .ok (nv, n1) ∧ r = .ptr l nv := by
      rcases hsrc with rfl | ⟨⟨l', rfl⟩, _⟩
      all_goals
        simp only [Bool.false_eq_true, and_false, if_false] at hrun
        split at hrun
        · rename_i nv n1 hc; cases hrun; exact ⟨nv, n1, hc, rfl⟩
        · cases hrun
        · cases hrun
        · cases hrun
    obtain ⟨nv, n1, hc, hr⟩ := key
    have hsrc' : updSource srcIsPtr src = .struct fs ∨
        ((∃ l', updSource srcIsPtr src = .ptr l' (.struct fs)) ∧ noWholeSource plans = true) := by
      rcases hsrc with rfl | ⟨⟨l', rfl⟩, hor⟩
      · left; cases srcIsPtr <;> rfl
      · cases srcIsPtr
        · right
          rcases hor with h | h
          · cases h
          · exact ⟨⟨l', rfl⟩, h⟩
        · left; rfl
    obtain ⟨ws, hv', hall⟩ := C10_composite p hchk m gm srcIsPtr plans upd hm hb s t htys sfs tfs hs ht (updSource srcIsPtr src) fs hsrc' hwt old hold
      fuel _ 0 nv n1 hc
    subst hv'
    exact ⟨ws, hr, hall⟩

/-! non-vacuity: a concrete update method passes the check, its hypotheses are met, and the call is computed:
`A` is assigned, `B` is guarded and its source is the zero value (kept), `K` is ignored (kept) -/

def uFields : Fields :=
  .cons { name := "A".toList, exported := true, embedded := false, pkg := [] } (.basic .int)
    (.cons { name := "B".toList, exported := true, embedded := false, pkg := [] } (.basic .string)
      (.cons { name := "K".toList, exported := true, embedded := false, pkg := [] } (.basic .int) .nil))

def uPlans : FieldPlans :=
  .cons (.mapped "A".toList ["A".toList] [false] false false .ident .none)
    (.cons (.mapped "B".toList ["B".toList] [false] false false .ident .check)
      (.cons (.skip "K".toList) .nil))

def uMethod : GenMethod :=
  { name := "Update".toList, source := .struct uFields, target := .ptr (.struct uFields),
    args := [{ name := "source".toList, use := .source, ty := .struct uFields },
             { name := "target".toList, use := .target, ty := .ptr (.struct uFields) }],
    contexts := [], returnError := false, updateTarget := true, explicit := true, dirty := false, originPath := [],
    originName := [], cfg := { common := {} }, body := some (.update false (.structc uPlans false)) }

def uProgram : Program :=
  { conv := { env := [], common := {}, outputPkg := [], customs := [], extend := [], orc := {} }, methods := [uMethod] }

def uSrc : Val := .struct [("A".toList, .basic "5".toList), ("B".toList, .basic []), ("K".toList, .basic "1".toList)]
def uOld : Val := .struct [("A".toList, .basic "9".toList), ("B".toList, .basic "keep".toList), ("K".toList, .basic "42".toList)]
def uNew : Val := .struct [("A".toList, .basic "5".toList), ("B".toList, .basic "keep".toList), ("K".toList, .basic "42".toList)]

example : PlanCheck.checkProgU uProgram = true := by decide

open Gv.Sound in
example : UpdTypes uProgram uMethod false (.struct uFields) (.struct uFields) := ⟨rfl, rfl⟩

/-- the call succeeds (the hypothesis `… = .ok _` is met): `A` replaced, `B` (zero source, guarded) and `K` (ignored) kept -/
example : runMethod uProgram 0 [uSrc, .ptr (.src 7) uOld] 10 = .ok (.ptr (.src 7) uNew) := by
  unfold runMethod
  simp [uProgram, uMethod, uPlans, uSrc, uOld, uNew, evalConv, evalFields, walk, fieldOf, setField, normStruct,
    Val.isAbsent, isZeroVal, pure, StateT.pure, List.lookup, List.zip, List.find?, updSource, updParent]

open Gv.Typing in
example : WT uProgram.conv.env uSrc (.struct uFields) :=
  WT_struct_of_basics (tfs := uFields) rfl
    (by intro q hq; simp at hq; rcases hq with rfl | rfl | rfl <;> exact ⟨_, rfl⟩)
    (by intro q hq; simp [uFields, Fields.toList] at hq; rcases hq with rfl | rfl | rfl <;> exact ⟨_, rfl⟩)

open Gv.Typing in
example : WT uProgram.conv.env uOld (.struct uFields) :=
  WT_struct_of_basics (tfs := uFields) rfl
    (by intro q hq; simp at hq; rcases hq with rfl | rfl | rfl <;> exact ⟨_, rfl⟩)
    (by intro q hq; simp [uFields, Fields.toList] at hq; rcases hq with rfl | rfl | rfl <;> exact ⟨_, rfl⟩)

/-! the same method with a POINTER source (`srcIsPtr = true`): a non-nil pointer is read through, a nil pointer leaves the
target untouched -/

def uMethodP : GenMethod :=
  { uMethod with source := .ptr (.struct uFields),
                 args := [{ name := "source".toList, use := .source, ty := .ptr (.struct uFields) },
                          { name := "target".toList, use := .target, ty := .ptr (.struct uFields) }],
                 body := some (.update true (.structc uPlans false)) }

def uProgramP : Program := { uProgram with methods := [uMethodP] }

example : PlanCheck.checkProgU uProgramP = true := by decide

open Gv.Sound in
example : UpdTypes uProgramP uMethodP true (.struct uFields) (.struct uFields) := ⟨rfl, rfl⟩

example : runMethod uProgramP 0 [.ptr (.src 3) uSrc, .ptr (.src 7) uOld] 10 = .ok (.ptr (.src 7) uNew) := by
  unfold runMethod
  simp [uProgramP, uProgram, uMethodP, uMethod, uPlans, uSrc, uOld, uNew, evalConv, evalFields, walk, fieldOf, setField,
    normStruct, Val.isAbsent, isZeroVal, pure, StateT.pure, List.lookup, List.zip, List.find?, updSource, updParent]

example : runMethod uProgramP 0 [.nil, .ptr (.src 7) uOld] 10 = .ok (.ptr (.src 7) uOld) := by
  unfold runMethod
  simp [uProgramP, uProgram, uMethodP, uMethod, List.zip, List.find?]

/-! ### The run-time checker is EXACTLY the typing judgement of the composite theorems

`PlanCheck.checkProgU` (evaluated by the driver on every generated plan) and the judgement `Typing.ProgOKU` / `HasTyU` from
which `C05_composite_*`, `C10_composite*`, `C11_composite_*` are proved accept the same programs / plan nodes: the checker
is sound (`checkProgU_sound`) AND complete — it cannot silently reject a plan the proofs cover, and a rejection means the
plan really lies outside the judgement. -/

open Gv.Typing Gv.Sound in
theorem C10_checker_exact (p : Program) : PlanCheck.checkProgU p = true ↔ ProgOKU p :=
  ⟨checkProgU_sound p, checkProgU_complete p⟩

open Gv.Typing Gv.Sound in
/-- the same for a single plan node at a pair of types -/
theorem C10_checker_exact_node (p : Program) (c : Conv) (s t : Ty) : PlanCheck.checkTyU p c s t = true ↔ HasTyU p c s t :=
  ⟨checkTyU_sound p c s t, checkTyU_complete p c s t⟩

open Gv.Typing Gv.Sound in
/-- … for the field plans of a struct node (skipped fields, mapped paths, source methods) -/
theorem C10_checker_exact_fields (p : Program) (plans : FieldPlans) (s : Ty) (tfs : List (FieldInfo × Ty)) :
    PlanCheck.checkFieldsU p plans s tfs = true ↔ HasFieldsU p plans s tfs :=
  ⟨checkFieldsU_sound p plans s tfs, checkFieldsU_complete p plans s tfs⟩

open Gv.Typing Gv.Sound in
/-- … and for method bodies with a default constructor (`withCtor` / `ctorUpdate`) -/
theorem C10_checker_exact_convert (p : Program) (c : Conv) (s t : Ty) :
    PlanCheck.checkConvertU p c s t = true ↔ ConvertOKU p c s t :=
  ⟨checkConvertU_sound p c s t, checkConvertU_complete p c s t⟩

open Gv.Typing Gv.Sound in
/-- a rejection is meaningful: a rejected program is outside the judgement -/
theorem C10_checker_reject (p : Program) (h : PlanCheck.checkProgU p = false) : ¬ ProgOKU p := by
  intro hok
  rw [checkProgU_complete p hok] at h
  cases h

open Gv.Typing in
/-- non-vacuity: the update program of the examples above is in the judgement (through the checker) … -/
example : ProgOKU uProgram := (C10_checker_exact uProgram).1 (by decide)

/-- … and a program whose update method maps a field the source does not have is rejected -/
def uProgramBad : Program :=
  { uProgram with methods := [{ uMethod with body := some (.update false (.structc
      (.cons (.mapped "A".toList ["Missing".toList] [false] false false .ident .none)
        (.cons (.skip "B".toList) (.cons (.skip "K".toList) .nil))) false)) }] }

open Gv.Typing in
example : ¬ ProgOKU uProgramBad := C10_checker_reject uProgramBad (by decide)

end Gv.Props.C10
