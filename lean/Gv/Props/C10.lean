/-
C10 – update methods write only mapped, non-skipped fields of the target instance.

Model: Gv.Eval.runMethod (Body.update), evalFields (per-field conditional assignment), Gv.Gen.shouldCheckZero
(the zero-value guard decision).  Tied to the code by the C10 campaign (pre-filled targets, zero / non-zero /
nil sources, all category combinations at converter and method level, both argument orders).
-/
import Gv.Model.Eval
import Gv.Model.Gen
import Gv.Proofs.EvalLemmas
import Gv.Proofs.Frame

namespace Gv.Props.C10
open Gv Gv.Str Gv.Eval Gv.Gen

variable (p : Program) (fr : Frame)

/-- **C10_only_mapped**: a field that is ignored / unmapped is not touched: the rest of the struct is processed
on the unchanged target -/
theorem C10_skipped_field_kept (fuel : Nat) (t : S) (rest : FieldPlans) (src old : Val) (n : Nat) :
    evalFields p (fuel+1) fr (.cons (.skip t) rest) src old n = evalFields p fuel fr rest src old n := by
  simp [evalFields]

/-- no field plans at all: the target keeps its previous value -/
theorem C10_no_fields_unchanged (fuel : Nat) (src old : Val) (n : Nat) :
    evalFields p (fuel+1) fr .nil src old n = .ok (old, n) := by
  simp [evalFields, pure, StateT.pure]

/-- **C10_zero_skip**: under a zero-value guard a zero source value leaves the target field as it was -/
theorem C10_zero_value_skipped (fuel : Nat) (t f : S) (cv : Conv) (rest : FieldPlans) (srcFields : List (S × Val)) (sv old : Val) (n : Nat)
    (hf : fieldOf (.struct srcFields) f = some sv) (hz : isZeroVal sv = true) :
    evalFields p (fuel+1) fr (.cons (.mapped t [f] [false] false false cv .check) rest) (.struct srcFields) old n =
    evalFields p fuel fr rest (.struct srcFields) old n := by
  simp [evalFields, walk, hf, hz]

/-- **C10_nil_source**: an update method with a nil source pointer returns the target untouched -/
theorem C10_nil_source (m : Nat) (gm : GenMethod) (c : Conv) (l : Loc) (tv : Val) (srcArg tgtArg : Arg)
    (hm : p.methods[m]? = some gm) (hb : gm.body = some (.update true c))
    (ha : gm.args = [srcArg, tgtArg]) (hs : srcArg.use = .source) (ht : tgtArg.use = .target) :
    runMethod p m [.nil, .ptr l tv] = .ok (.ptr l tv) := by
  unfold runMethod
  simp [hm, hb, ha, hs, ht, List.zip, List.find?]

/-- **C10_zero_guard_decision**: when the generated code compares a source field with its zero value.
Never outside update/default-update assignments; then by category: struct / basic / nillable
(maps, chans, funcs, interfaces always; slices and pointers only when they are passed on unchanged:
via a custom function or skipCopySameType with identical types). -/
theorem C10_zero_guard_decision (c : Converter) (cx : Ctx) (s t : Ty) (isUpdate call : Bool) :
    shouldCheckZero c cx s t isUpdate call =
      (if !cx.updateTarget && !isUpdate then false
       else
        let u := under c.env s
        if (match u with | .struct _ => true | _ => false) && cx.cfg.common.ignoreStructZero then true
        else if (match u with | .basic _ => true | _ => false) && cx.cfg.common.ignoreBasicZero then true
        else if cx.cfg.common.ignoreNillableZero then
          (match u with
           | .map _ _ => true
           | .opaque .chan _ | .opaque .func _ | .opaque .iface _ => true
           | .slice _ => call || (cx.cfg.common.skipCopySameType && s == t)
           | .ptr _ => call || (cx.cfg.common.skipCopySameType && s == t)
           | _ => false)
        else false) := by
  unfold shouldCheckZero
  rfl

/-- a plain conversion method (no update target, no default:update assignment) never emits a zero guard -/
theorem C10_no_guard_outside_update (c : Converter) (cx : Ctx) (s t : Ty) (call : Bool) (h : cx.updateTarget = false) :
    shouldCheckZero c cx s t false call = false := by
  simp [shouldCheckZero, h]

/-- arrays are never guarded (the statement's categories are basic / struct / nillable) -/
theorem C10_arrays_not_guarded (c : Converter) (cx : Ctx) (n : Nat) (e t : Ty) (isUpdate call : Bool) :
    shouldCheckZero c cx (.array n e) t isUpdate call = false := by
  simp [shouldCheckZero, under]

/-! ### The frame theorem: an update writes only the fields its plan assigns

For ALL plans (whatever conversions, custom functions, zero guards, nil-guarded paths or source methods the fields use),
all source values, all previous target values and all fuel: a field of the target instance that no plan of the struct
conversion targets (ignored fields, fields skipped by ignoreMissing / ignoreUnexported) has the value it had before. -/

open Gv.Sound in
theorem C10_frame (p : Program) (fuel : Nat) (fr : Frame) (plans : FieldPlans) (upd : Bool) (src old : Val) (n : Nat)
    (v' : Val) (n' : Nat) (hev : evalConv p (fuel + 1) fr (.structc plans upd) src old n = .ok (v', n'))
    (name : S) (hname : name ∉ planTargets plans) : fieldOf v' name = fieldOf old name :=
  structc_frame p fuel fr plans upd src old n v' n' hev name hname

open Gv.Sound in
/-- non-vacuity: with `Keep` ignored and `V` mapped, `Keep` keeps "kept" while `V` is overwritten -/
example : ("Keep".toList ∉ planTargets (.cons (.skip "Keep".toList) (.cons (.mapped "V".toList ["V".toList] [false] false false .ident .none) .nil))) := by
  decide

end Gv.Props.C10
