/-
C12 – settings resolve method > converter > CLI > default and are validated where written.

Model: Gv.Model.Settings (tied to config/common.go, converter.go, method.go,
parse/parse.go by Facts and by the C12 campaign).  The specification is the
table `writes` (which key writes which boolean field, from the reference
documentation) and the last-writer function `lastWrite`.
-/
import Gv.Model.Settings
import Gv.Proofs.SettingsLemmas

namespace Gv.Props.C12
open Gv.Str Gv.Settings

/-! ### static ties: the switch statements of the code are the tables of the model -/

/-- the effects the model gives to each key, in the vocabulary of the fact extractor -/
def expectedEffects : CKey → List (String × String × String)
  | .wrapErrors => [("guardNonEmpty", "WrapErrorsUsing", ""), ("parse", "WrapErrors", "Bool")]
  | .wrapErrorsUsing => [("guardTrue", "WrapErrors", ""), ("parse", "WrapErrorsUsing", "String")]
  | .ignoreUnexported => [("parse", "IgnoreUnexported", "Bool")]
  | .zvAll => [("parse", "IgnoreBasicZeroValueField", "Bool"), ("copy", "IgnoreStructZeroValueField", "IgnoreBasicZeroValueField"),
      ("copy", "IgnoreNillableZeroValueField", "IgnoreBasicZeroValueField")]
  | .zvBasic => [("parse", "IgnoreBasicZeroValueField", "Bool")]
  | .zvStruct => [("parse", "IgnoreStructZeroValueField", "Bool")]
  | .zvNillable => [("parse", "IgnoreNillableZeroValueField", "Bool")]
  | .defaultUpdate => [("parse", "DefaultUpdate", "Bool")]
  | .matchIgnoreCase => [("parse", "MatchIgnoreCase", "Bool")]
  | .ignoreMissing => [("parse", "IgnoreMissing", "Bool")]
  | .skipCopySameType => [("parse", "SkipCopySameType", "Bool")]
  | .useZeroValue => [("parse", "UseZeroValueOnPointerInconsistency", "Bool")]
  | .useUnderlying => [("parse", "UseUnderlyingTypeMethods", "Bool")]
  | .enum => [("parse", "Enum.Enabled", "Bool")]
  | .argContextRegex => [("parse", "ArgContextRegex", "Regex")]
  | .enumUnknown => [("parse", "Enum.Unknown", "String"), ("validateEnumAction", "Enum.Unknown", "")]

def expectedCommonCases : List Facts.KeyCase :=
  commonKeyTable.map (fun p => { keys := [p.1], fieldSetting := p.2.fieldSetting, effects := expectedEffects p.2 }) ++
  [{ keys := [""], fieldSetting := false, effects := [("error", "missing setting key", "")] },
   { keys := [], fieldSetting := false, effects := [("error", "unknown setting: %s", "")] }]

theorem tie_commonCases : Facts.commonCases = expectedCommonCases := by decide
theorem tie_converterKeys : Facts.converterKeys = converterKeyTable.map (·.1) ∧ Facts.converterKeysDefault = "parseCommon" := by decide
theorem tie_methodKeys : Facts.methodKeys = methodKeyTable.map (·.1) ∧ Facts.methodKeysDefault = "parseCommon" := by decide
theorem tie_methodFieldSettings :
    Facts.methodFieldSettingKeys = (methodKeyTable.filter (·.2.fieldSetting)).map (·.1) := by decide
theorem tie_defaults :
    Facts.defaultCommon = [("Enum.Enabled", "true")] ∧
    Facts.defaultConfigInterface = [("OutputFile", "./generated/generated.go"), ("Common", "DefaultCommon"), ("OutputFormat", "struct")] ∧
    Facts.defaultConfigVariables = [("OutputFormat", "assign-variable"), ("Common", "DefaultCommon")] ∧
    Facts.cliGlobalLocation = "command line (-g, -global)" := by decide
theorem tie_enumActions : Facts.enumActions = ["@panic", "@error", "@ignore"] := by decide

/-! ### boolean values -/

/-- **C12_bool**: a bare setting or `yes` enables, `no` disables, anything else is an error -/
theorem C12_bool (rest : S) :
    parseBool rest =
      match fields rest with
      | [] => .ok true
      | [v] => if v = "yes".toList then .ok true else if v = "no".toList then .ok false else .error .enumInvalid
      | _ => .error .enumCount := by
  unfold parseBool parseEnum
  cases h : fields rest with
  | nil => rfl
  | cons v tl =>
    cases tl with
    | cons _ _ => rfl
    | nil =>
      have e1 : "yes".toList = ['y', 'e', 's'] := rfl
      have e2 : "no".toList = ['n', 'o'] := rfl
      by_cases h1 : v = "yes".toList
      · subst h1; rfl
      · by_cases h2 : v = "no".toList
        · subst h2; rfl
        · rw [e1] at h1; rw [e2] at h2
          simp [h1, h2]

example : parseBool "".toList = .ok true ∧ parseBool " yes ".toList = .ok true ∧ parseBool "no".toList = .ok false ∧
    parseBool "maybe".toList = .error .enumInvalid ∧ parseBool "yes no".toList = .error .enumCount :=
  ⟨rfl, rfl, rfl, rfl, rfl⟩

/-! ### last writer wins, hence method > converter > CLI > default -/

/-- **C12_last_writer**: whenever all lines are accepted, every inheritable boolean of the method's
settings is the value written by the last line (in CLI ++ converter ++ method order) whose key writes
that field, and the default if there is none. -/
theorem C12_last_writer (env : Env) (init c : ConvCfg) (m : MethodCfg) (cli conv meth : List S)
    (h : resolveMethod env init cli conv meth = .ok (c, m)) (f : BF) :
    f.get m.common = lastWrite f (f.get init.common) ((cli ++ conv ++ meth).filterMap keyOfLine) := by
  unfold resolveMethod resolveConverter at h
  obtain ⟨c2, hc2, h⟩ := bind_ok h
  obtain ⟨c1, hc1, hc2'⟩ := bind_ok hc2
  obtain ⟨m1, hm1, hr⟩ := bind_ok h
  cases hr
  have e1 := parseConverterLines_effect env "global" cli init c1 hc1 f
  have e2 := parseConverterLines_effect env "converter" conv c1 c hc2' f
  have e3 := parseMethodLines_effect env meth { common := c.common } m hm1 f
  simp only [List.filterMap_append, lastWrite_append]
  rw [e3, e2, e1]

/-- the converter's own settings obey the same rule over CLI ++ converter lines -/
theorem C12_last_writer_converter (env : Env) (init c : ConvCfg) (cli conv : List S)
    (h : resolveConverter env init cli conv = .ok c) (f : BF) :
    f.get c.common = lastWrite f (f.get init.common) ((cli ++ conv).filterMap keyOfLine) := by
  unfold resolveConverter at h
  obtain ⟨c1, hc1, hc2⟩ := bind_ok h
  have e1 := parseConverterLines_effect env "global" cli init c1 hc1 f
  have e2 := parseConverterLines_effect env "converter" conv c1 c hc2 f
  simp only [List.filterMap_append, lastWrite_append]
  rw [e2, e1]

theorem lastWrite_snoc_writer (f : BF) (init : Bool) (ks : List (CKey × S)) (k : CKey) (rest : S) (hw : writes k f = true) :
    lastWrite f init (ks ++ [(k, rest)]) = boolOf rest := by
  simp [lastWrite, List.foldl_append, hw]

theorem lastWrite_single (f : BF) (init : Bool) (k : CKey) (rest : S) (hw : writes k f = true) :
    lastWrite f init [(k, rest)] = boolOf rest := by
  simp [lastWrite, hw]

theorem lastWrite_no_writer (f : BF) (init : Bool) (ks : List (CKey × S)) (h : ∀ kr ∈ ks, writes kr.1 f = false) :
    lastWrite f init ks = init := by
  induction ks generalizing init with
  | nil => rfl
  | cons kr ks ih =>
    have h0 := h kr (by simp)
    simp only [lastWrite, List.foldl_cons, h0, Bool.false_eq_true, if_false]
    exact ih init (fun x hx => h x (by simp [hx]))

/-- **C12_precedence (method level wins)**: if the method's lines end with a line writing `f`
(followed only by lines that do not write it), that line decides, whatever CLI and converter say -/
theorem C12_method_wins (f : BF) (init : Bool) (cli conv m1 m2 : List (CKey × S)) (k : CKey) (rest : S)
    (hw : writes k f = true) (hno : ∀ kr ∈ m2, writes kr.1 f = false) :
    lastWrite f init (cli ++ conv ++ (m1 ++ [(k, rest)] ++ m2)) = boolOf rest := by
  rw [lastWrite_append, lastWrite_append (a := m1 ++ [(k, rest)]), lastWrite_no_writer f _ m2 hno]
  rw [lastWrite_append, lastWrite_single f _ k rest hw]

/-- **C12_precedence (converter over CLI)**: no method line writes `f` ⇒ the converter's last writer decides -/
theorem C12_converter_wins (f : BF) (init : Bool) (cli c1 c2 meth : List (CKey × S)) (k : CKey) (rest : S)
    (hw : writes k f = true) (hno : ∀ kr ∈ c2, writes kr.1 f = false) (hm : ∀ kr ∈ meth, writes kr.1 f = false) :
    lastWrite f init (cli ++ (c1 ++ [(k, rest)] ++ c2) ++ meth) = boolOf rest := by
  rw [lastWrite_append, lastWrite_no_writer f _ meth hm, lastWrite_append, lastWrite_append (a := c1 ++ [(k, rest)]),
    lastWrite_no_writer f _ c2 hno, lastWrite_append, lastWrite_single f _ k rest hw]

/-- **C12_precedence (CLI over default, default otherwise)** -/
theorem C12_default (f : BF) (init : Bool) (all : List (CKey × S)) (h : ∀ kr ∈ all, writes kr.1 f = false) :
    lastWrite f init all = init := lastWrite_no_writer f init all h

/-- the defaults: everything off except enum detection -/
theorem C12_defaults (isVars : Bool) (a b c d : S) (f : BF) :
    f.get (initConverter isVars a b c d).common = (f == .enumEnabled) := by
  cases isVars <;> cases f <;> rfl

/-! ### rejection, with the place it was written -/

/-- an unknown key at CLI or converter level is rejected, naming level and key -/
theorem C12_reject_unknown_converter (env : Env) (lvl : String) (c : ConvCfg) (l : S) (ls : List S)
    (h1 : lookupKey converterKeyTable (Comments.command l).1 = none)
    (h2 : lookupKey commonKeyTable (Comments.command l).1 = none) :
    parseConverterLines env lvl c (l :: ls) =
      .error { level := lvl, key := (Comments.command l).1,
               err := if (Comments.command l).1.isEmpty then .missingKey else .unknownSetting } := by
  unfold parseConverterLines parseConverterLine
  rcases hcmd : Comments.command l with ⟨cmd, rest⟩
  rw [hcmd] at h1 h2
  simp only at h1 h2
  simp only [h1, parseCommon, h2]
  split
  · rename_i heq
    by_cases hc : cmd = [] <;> simp [hc] at heq <;> cases heq
  · rename_i heq
    by_cases hc : cmd = [] <;> simp [hc] at heq ⊢ <;> (cases heq; rfl)

/-- the same at method level -/
theorem C12_reject_unknown_method (env : Env) (m : MethodCfg) (l : S) (ls : List S)
    (h1 : lookupKey methodKeyTable (Comments.command l).1 = none)
    (h2 : lookupKey commonKeyTable (Comments.command l).1 = none) :
    parseMethodLines env m (l :: ls) =
      .error { level := "method", key := (Comments.command l).1,
               err := if (Comments.command l).1.isEmpty then .missingKey else .unknownSetting } := by
  unfold parseMethodLines parseMethodLine
  rcases hcmd : Comments.command l with ⟨cmd, rest⟩
  rw [hcmd] at h1 h2
  simp only at h1 h2
  simp only [h1, parseCommon, h2]
  split
  · rename_i heq
    by_cases hc : cmd = [] <;> simp [hc] at heq <;> cases heq
  · rename_i heq
    by_cases hc : cmd = [] <;> simp [hc] at heq ⊢ <;> (cases heq; rfl)

/-- a method-only setting is unknown at converter/CLI level, a converter-only setting is unknown at method level -/
theorem C12_wrong_level_tables :
    (∀ p ∈ methodKeyTable, lookupKey converterKeyTable p.1.toList = none ∧ lookupKey commonKeyTable p.1.toList = none) ∧
    (∀ p ∈ converterKeyTable, lookupKey methodKeyTable p.1.toList = none ∧ lookupKey commonKeyTable p.1.toList = none) := by
  decide

/-- the conflicting pair is rejected in either order, whatever the value -/
theorem C12_wrap_conflict (rx : RegexOracle) (c : Common) (rest : S) :
    (c.wrapErrorsUsing ≠ [] → applyKey rx c .wrapErrors rest = .error .wrapConflictUsing) ∧
    (c.wrapErrors = true → applyKey rx c .wrapErrorsUsing rest = .error .wrapConflictErrors) := by
  constructor
  · intro h
    have : c.wrapErrorsUsing.isEmpty = false := by
      cases hc : c.wrapErrorsUsing with
      | nil => exact absurd hc h
      | cons _ _ => rfl
    simp [applyKey, this]
  · intro h; simp [applyKey, h]

end Gv.Props.C12
