/-
C18 – generated code is reflection-free, stateless and imports only what it needs.

Model: Gv.Emit (what beyond the user's packages a plan needs: fmt, the wrapErrorsUsing package).  The code emits
every reference through jen.Qual, so imports are derived from use (jennifer, trusted); the only literal
qualified identifiers in builder/, generator/ and xtype/ are listed by the fact extractor.  Tied to the code by
the C18 campaign: the AST of every emitted file of the scenario corpus and of generated converters.
-/
import Gv.Model.Emit
import Gv.Model.Facts

namespace Gv.Props.C18
open Gv Gv.Emit

/-- the only packages the generator itself refers to by name are fmt (Errorf, Sprintf) and unsafe (to spell a
user's unsafe.Pointer field); in particular never reflect -/
theorem tie_literal_quals : Facts.literalQuals = ["fmt.Errorf", "fmt.Sprintf", "unsafe.Pointer"] := by decide

/-- only raw user code, a comment, the converter struct type, funcs and `init` are appended to a file: no package-level var/const -/
theorem tie_decl_kinds : Facts.appendGeneratedFileCalls = ["Id", "Comment", "Type", "Func", "Add"] := by decide

/-- **fmt is needed exactly for** an `@error`/`@panic` enum action … -/
theorem C18_fmt_for_enum_actions (cases : List (Str.S × ConstVal × EnumAction)) (dflt : EnumAction) :
    (convNeeds (.enumc cases dflt)).1 = (dflt :: cases.map (·.2.2)).any actionNeedsFmt := rfl

/-- … or a wrapErrors site whose innermost path element is a field or an index -/
theorem C18_fmt_for_wrapErrors (callee : Callee) (args : List CallArg) (w : Wrap) :
    (convNeeds (.call callee args true w)).1 =
      (match w.mode with
       | .wrapErrors => (match w.path.getLast? with | some (.field _) => true | some .index => true | _ => false)
       | _ => false) := by
  simp only [convNeeds, if_true, wrapNeedsFmt]
  cases w.mode <;> rfl

/-- a call that returns no error needs neither fmt nor the wrap package -/
theorem C18_plain_call_needs_nothing (callee : Callee) (args : List CallArg) (w : Wrap) :
    convNeeds (.call callee args false w) = (false, []) := by
  simp [convNeeds]

/-- the wrap package is referenced exactly at error sites under wrapErrorsUsing -/
theorem C18_wrap_pkg (callee : Callee) (args : List CallArg) (pkg : Str.S) (path : List PathElem) :
    (convNeeds (.call callee args true { mode := .using pkg, path := path })).2 = [pkg] := by
  simp [convNeeds, wrapNeedsPkg]

/-- purely structural plans (no calls, no enums) need nothing beyond the user's own packages -/
theorem C18_structural_needs_nothing_ident : convNeeds .ident = (false, []) := by simp [convNeeds]

theorem C18_structural_needs_nothing_ptr (te : Ty) (i : Conv) (h : convNeeds i = (false, [])) :
    convNeeds (.ptrPtr te i) = (false, []) ∧ convNeeds (.tgtPtr te i) = (false, []) ∧ convNeeds (.srcPtr te i) = (false, []) ∧
    convNeeds (.cast i) = (false, []) := by
  simp [convNeeds, h]

theorem C18_structural_needs_nothing_list (te : Ty) (a b : Bool) (i : Conv) (h : convNeeds i = (false, [])) :
    convNeeds (.list te a b i) = (false, []) := by
  simp [convNeeds, h]

theorem C18_structural_needs_nothing_map (tk tv : Ty) (k v : Conv) (hk : convNeeds k = (false, [])) (hv : convNeeds v = (false, [])) :
    convNeeds (.mapc tk tv k v) = (false, []) := by
  simp [convNeeds, hk, hv]

end Gv.Props.C18
