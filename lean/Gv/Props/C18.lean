/-
C18 – generated code is reflection-free, stateless and imports only what it needs.

Model: Gv.Emit (what beyond the user's packages a plan needs: fmt, the wrapErrorsUsing package).  The code emits
every reference through jen.Qual, so imports are derived from use (jennifer, trusted); the only literal
qualified identifiers in builder/, generator/ and xtype/ are listed by the fact extractor.  Tied to the code by
the C18 campaign: the AST of every emitted file of the scenario corpus and of generated converters.
-/
import Gv.Model.Emit
import Gv.Model.Facts
import Gv.Proofs.EmitLemmas

namespace Gv.Props.C18
open Gv Gv.Emit

/-- the only packages the generator itself refers to by name are fmt (Errorf, Sprintf) and unsafe (to spell a
user's unsafe.Pointer field); in particular never reflect -/
theorem tie_literal_quals : Facts.literalQuals = ["fmt.Errorf", "fmt.Sprintf", "unsafe.Pointer"] := by decide

/-- only raw user code, a comment, the converter struct type, funcs and `init` are appended to a file: no package-level var/const -/
theorem tie_decl_kinds : Facts.appendGeneratedFileCalls = ["Id", "Comment", "Type", "Func", "Add"] := by decide

/-- **fmt is needed exactly for** an `@error`/`@panic` enum action … -/
theorem C18_fmt_for_enum_actions (cases : List (Str.S × ConstVal × EnumAction)) (dflt : EnumAction) :
    (convNeeds (.enumc cases dflt)).1 = (dflt :: cases.map (·.2.2)).any actionNeedsFmt := rfl

/-- … or a wrapErrors site whose innermost path element is a field or an index -/
theorem C18_fmt_for_wrapErrors (callee : Callee) (args : List CallArg) (w : Wrap) :
    (convNeeds (.call callee args true w)).1 =
      (match w.mode with
       | .wrapErrors => (match w.path.getLast? with | some (.field _) => true | some .index => true | _ => false)
       | _ => false) := by
  simp only [convNeeds, if_true, wrapNeedsFmt]
  cases w.mode <;> rfl

/-- a call that returns no error needs neither fmt nor the wrap package -/
theorem C18_plain_call_needs_nothing (callee : Callee) (args : List CallArg) (w : Wrap) :
    convNeeds (.call callee args false w) = (false, []) := by
  simp [convNeeds]

/-- the wrap package is referenced exactly at error sites under wrapErrorsUsing -/
theorem C18_wrap_pkg (callee : Callee) (args : List CallArg) (pkg : Str.S) (path : List PathElem) :
    (convNeeds (.call callee args true { mode := .using pkg, path := path })).2 = [pkg] := by
  simp [convNeeds, wrapNeedsPkg]

/-- purely structural plans (no calls, no enums) need nothing beyond the user's own packages -/
theorem C18_structural_needs_nothing_ident : convNeeds .ident = (false, []) := by simp [convNeeds]

theorem C18_structural_needs_nothing_ptr (te : Ty) (i : Conv) (h : convNeeds i = (false, [])) :
    convNeeds (.ptrPtr te i) = (false, []) ∧ convNeeds (.tgtPtr te i) = (false, []) ∧ convNeeds (.srcPtr te i) = (false, []) ∧
    convNeeds (.cast i) = (false, []) := by
  simp [convNeeds, h]

theorem C18_structural_needs_nothing_list (te : Ty) (a b : Bool) (i : Conv) (h : convNeeds i = (false, [])) :
    convNeeds (.list te a b i) = (false, []) := by
  simp [convNeeds, h]

theorem C18_structural_needs_nothing_map (tk tv : Ty) (k v : Conv) (hk : convNeeds k = (false, [])) (hv : convNeeds v = (false, [])) :
    convNeeds (.mapc tk tv k v) = (false, []) := by
  simp [convNeeds, hk, hv]

/-! ### whole plans (`Gv/Proofs/EmitLemmas.lean`: `convSites` lists every call node and every enum action of a plan) -/

open Gv.EmitLemmas

/-- **C18_fmt_iff**: a plan needs `fmt` iff some enum action in it is `@panic`/`@error`, or some error-returning call in it is
wrapped with wrapErrors at a path ending in a field or an index -/
theorem C18_fmt_iff (c : Conv) : (convNeeds c).1 = true ↔ ∃ s, s ∈ convSites c ∧ SiteNeedsFmt s := by
  rw [convNeeds_eq]
  simp only [needsOf, List.any_eq_true, siteFmt_iff]

/-- **C18_pkgs_exact**: the wrap packages a plan refers to are exactly those of its error-returning calls and `@error`
actions under wrapErrorsUsing -/
theorem C18_pkgs_exact (c : Conv) (pkg : Str.S) : pkg ∈ (convNeeds c).2 ↔ ∃ s, s ∈ convSites c ∧ SiteUsesPkg pkg s := by
  rw [convNeeds_eq]
  simp only [needsOf, List.mem_filterMap, sitePkg_iff]

/-- the fold over the method table: `fmt` if any body needs it, the packages of all bodies in order -/
theorem C18_methods_fold (ms : List GenMethod) :
    (methodsNeeds ms).1 = (ms.filterMap (·.body)).any (fun b => (bodyNeeds b).1) ∧
    (methodsNeeds ms).2 = (ms.filterMap (·.body)).flatMap (fun b => (bodyNeeds b).2) :=
  methodsNeeds_per_method ms

/-- both, for a whole file (`methodsSites`: the sites of all method bodies; a delegating body has none) -/
theorem C18_methods_fmt_iff (ms : List GenMethod) :
    (methodsNeeds ms).1 = true ↔ ∃ s, s ∈ methodsSites ms ∧ SiteNeedsFmt s := by
  rw [methodsNeeds_eq]
  simp only [needsOf, List.any_eq_true, siteFmt_iff]

theorem C18_methods_pkgs_exact (ms : List GenMethod) (pkg : Str.S) :
    pkg ∈ (methodsNeeds ms).2 ↔ ∃ s, s ∈ methodsSites ms ∧ SiteUsesPkg pkg s := by
  rw [methodsNeeds_eq]
  simp only [needsOf, List.mem_filterMap, sitePkg_iff]

/-- a site of the file is a site of the body of one of its methods -/
theorem C18_methods_sites (ms : List GenMethod) (s : Site) :
    s ∈ methodsSites ms ↔ ∃ m b, m ∈ ms ∧ m.body = some b ∧ s ∈ bodySites b := by
  simp only [methodsSites, List.mem_flatMap, List.mem_filterMap]
  constructor
  · rintro ⟨b, ⟨m, hm, hb⟩, hs⟩; exact ⟨m, b, hm, hb, hs⟩
  · rintro ⟨m, b, hm, hb, hs⟩; exact ⟨b, ⟨m, hm, hb⟩, hs⟩

/-- **C18_pure_structural_imports_nothing**: a plan without call nodes and without enum nodes needs neither `fmt` nor any
wrap package; so does a file of such plans -/
theorem C18_pure_structural_imports_nothing (c : Conv) (h : convSites c = []) : convNeeds c = (false, []) := by
  rw [convNeeds_eq, h]; rfl

theorem C18_pure_structural_file_imports_nothing (ms : List GenMethod) (h : methodsSites ms = []) :
    methodsNeeds ms = (false, []) := by
  rw [methodsNeeds_eq, h]; rfl

/-! non-vacuity -/
section Examples
private def wE : Wrap := { mode := .wrapErrors, path := [.field "A".toList, .index] }
private def wU : Wrap := { mode := .using "my/wrap".toList, path := [.field "A".toList] }
private def planCalls : Conv :=
  .structc (.cons (.mapped "A".toList ["A".toList] [] false false (.list (.basic .int) true true (.call (.custom 0) [.source] true wE)) .none)
           (.cons (.mapped "B".toList ["B".toList] [] false false (.enumc [("X".toList, .int 0, .ignore)] (.error wU)) .none) .nil)) false
private def planPure : Conv :=
  .structc (.cons (.mapped "A".toList ["A".toList] [] false false (.ptrPtr (.basic .int) (.cast .ident)) .none)
           (.cons (.skip "B".toList) .nil)) false

example : convSites planCalls = [.call true wE, .action (.error wU), .action .ignore] := rfl
example : SiteNeedsFmt (.call true wE) := ⟨rfl, rfl, .inr rfl⟩
example : (convNeeds planCalls).1 = true := (C18_fmt_iff planCalls).2 ⟨.call true wE, by simp [planCalls, convSites, fieldsSites, fieldSites], rfl, rfl, .inr rfl⟩
example : "my/wrap".toList ∈ (convNeeds planCalls).2 :=
  (C18_pkgs_exact planCalls _).2 ⟨.action (.error wU), by simp [planCalls, convSites, fieldsSites, fieldSites], _, rfl⟩
example : convSites planPure = [] := rfl
example : convNeeds planPure = (false, []) := C18_pure_structural_imports_nothing planPure rfl
end Examples

end Gv.Props.C18
