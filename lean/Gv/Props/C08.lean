/-
C08 – enum conversion is a total name-driven mapping with the set unknown-value policy.

Model: Gv.Gen.enumMembers (detection), Gv.Gen.enumPlan (mapping: enum:map, transformers, same name; duplicate
values; unknown policy) and Gv.Eval (switch semantics).  Tied to the code by facts (kind mask, actions) and by
the C08 campaign (int/uint8/string enums with duplicate-valued members, all policies, four positions, member
and non-member values) and the enum scenarios of the repository.
-/
import Gv.Model.Eval
import Gv.Model.Gen
import Gv.Proofs.EvalLemmas
import Gv.Proofs.EnumLemmas
import Gv.Proofs.EnumFail
import Gv.Proofs.EnumRun
import Gv.Proofs.EnumCheck

namespace Gv.Props.C08
open Gv Gv.Str Gv.Eval Gv.Gen

/-! ### static ties -/
theorem tie_enum_kind_mask : Facts.enumKindMask = "(types.IsFloat | types.IsString | types.IsInteger)" := by decide
theorem tie_enum_actions : Facts.enumActions = ["@panic", "@error", "@ignore"] := by decide

/-- the kinds accepted by the mask: every integer kind (incl. uintptr), floats and string — not bool, complex, unsafe.Pointer -/
theorem C08_kinds (k : Kind) :
    k.enumOK = (k ∈ [Kind.int, .int8, .int16, .int32, .int64, .uint, .uint8, .uint16, .uint32, .uint64, .uintptr, .float32, .float64, .string, .byte, .rune]) := by
  cases k <;> decide

/-- **C08_detect**: a type is an enum iff it is a named type of a package, enum detection is enabled, it is not
excluded, its underlying type is of an accepted kind, and at least one constant of exactly that type exists -/
theorem C08_detect (c : Converter) (cfg : Settings.Common) (t : Ty) (ms : List ConstDecl) :
    enumMembers c cfg t = some ms ↔
      ∃ id d k, t = .named id ∧ c.env.find id = some d ∧ d.pkgPath.isEmpty = false ∧ cfg.enumEnabled = true ∧
        cfg.enumExcludes.any (fun (pn : S × S) => c.orc.rxMatch pn.1 d.pkgPath && c.orc.rxMatch pn.2 d.name) = false ∧
        d.underlying = .basic k ∧ k.enumOK = true ∧ d.consts.isEmpty = false ∧ ms = d.consts := by
  constructor
  · intro h
    unfold enumMembers at h
    split at h
    · rename_i id
      split at h
      · cases h
      · rename_i d hd
        split at h
        · cases h
        · rename_i hp
          split at h
          · cases h
          · rename_i he
            split at h
            · cases h
            · rename_i hx
              split at h
              · rename_i k hk
                split at h
                · rename_i hok
                  cases h
                  simp only [Bool.and_eq_true, Bool.not_eq_true'] at hok
                  exact ⟨id, d, k, rfl, hd, by simpa using hp, by simpa using he, by simpa using hx, hk, hok.1, hok.2, rfl⟩
                · cases h
              · cases h
    · cases h
  · rintro ⟨id, d, k, rfl, hd, hp, he, hx, hk, hok, hc, rfl⟩
    simp [enumMembers, hd, hp, he, hx, hk, hok, hc]

/-- only named types can be enums; pointers, slices, structs never are -/
theorem C08_unnamed_never_enum (c : Converter) (cfg : Settings.Common) (t : Ty) (h : t.isNamed = false) :
    enumMembers c cfg t = none := by
  cases t <;> simp_all [enumMembers, Ty.isNamed]

/-- `enum no` switches detection off for every type -/
theorem C08_disabled (c : Converter) (cfg : Settings.Common) (s t : Ty) (h : cfg.enumEnabled = false) :
    isEnumPair c cfg s t = false := by
  simp [isEnumPair, h]

/-! ### run time: the switch -/

variable (p : Program) (fr : Frame)

/-- **C08_runtime (member)**: a declared member value yields the mapped target member's value -/
theorem C08_runtime_member (fuel : Nat) (name tname : S) (v tv : ConstVal) (rest : List (S × ConstVal × EnumAction)) (dflt : EnumAction) (old : Val) (n : Nat) :
    evalConv p (fuel+1) fr (.enumc ((name, v, .member tname tv) :: rest) dflt) (.basic (constRepr v)) old n = .ok (.basic (constRepr tv), n) := by
  simp [evalConv, applyEnumAction, List.find?, pure, StateT.pure]

/-- **C08_runtime (unknown value)**: a value that matches no case follows enum:unknown exactly -/
theorem C08_runtime_unknown (fuel : Nat) (cases : List (S × ConstVal × EnumAction)) (r : S) (old : Val) (n : Nat)
    (hno : cases.find? (fun (x : S × ConstVal × EnumAction) => constRepr x.2.1 == r) = none) :
    (∀ tname tv, evalConv p (fuel+1) fr (.enumc cases (.member tname tv)) (.basic r) old n = .ok (.basic (constRepr tv), n)) ∧
    evalConv p (fuel+1) fr (.enumc cases .ignore) (.basic r) old n = .ok (old, n) ∧
    evalConv p (fuel+1) fr (.enumc cases .panic) (.basic r) old n = .panic .enumUnknown ∧
    (∀ w, evalConv p (fuel+1) fr (.enumc cases (.error w)) (.basic r) old n = .err (wrapErr w fr.idx fr.keys .enumUnknown)) := by
  refine ⟨fun tname tv => ?_, ?_, ?_, fun w => ?_⟩ <;>
    simp [evalConv, applyEnumAction, hno, pure, StateT.pure, panicE, errE]

/-- `@ignore` as unknown policy on a fresh target yields the zero value -/
theorem C08_ignore_zero (fuel : Nat) (cases : List (S × ConstVal × EnumAction)) (r : S) (n : Nat)
    (hno : cases.find? (fun (x : S × ConstVal × EnumAction) => constRepr x.2.1 == r) = none) (k : Kind) :
    evalConv p (fuel+1) fr (.enumc cases .ignore) (.basic r) (.basic (zeroBasic k)) n = .ok (.basic (zeroBasic k), n) :=
  (C08_runtime_unknown p fr fuel cases r _ n hno).2.1

/-! ### which target member a source member is mapped to (builder/enum.go: enum:map, then transformers, then the same name) -/

/-- an explicit `enum:map` entry wins, also when it names the member itself and a transformer maps it elsewhere -/
theorem C08_map_wins (enumMap tmap : List (S × S)) (name x : S) (h : enumMap.lookup name = some x) :
    chooseEnumTarget enumMap tmap name = x := by
  unfold chooseEnumTarget; simp [h]

/-- without an entry, the transformers decide -/
theorem C08_transformer_next (enumMap tmap : List (S × S)) (name y : S) (h1 : enumMap.lookup name = none)
    (h2 : tmap.lookup name = some y) : chooseEnumTarget enumMap tmap name = y := by
  unfold chooseEnumTarget; simp [h1, h2]

/-- without either, the member keeps its name -/
theorem C08_same_name_last (enumMap tmap : List (S × S)) (name : S) (h1 : enumMap.lookup name = none)
    (h2 : tmap.lookup name = none) : chooseEnumTarget enumMap tmap name = name := by
  unfold chooseEnumTarget; simp [h1, h2]

/-- a later transformer overrides an earlier one exactly for the members it maps … -/
theorem C08_later_transformer_overrides (tmap m : List (S × S)) (name y : S) (h : m.lookup name = some y)
    (hk : ∀ k v, (k, v) ∈ tmap → m.any (fun e => e.1 == k) = true ∨ k ≠ name) :
    (mergeTransformer tmap m).lookup name = some y := by
  unfold mergeTransformer
  have hnone : (tmap.filter (fun (e : S × S) => !m.any (fun x => x.1 == e.1))).lookup name = none := by
    induction tmap with
    | nil => rfl
    | cons a t ih =>
      obtain ⟨k, v⟩ := a
      have iht := ih (fun k' v' hm => hk k' v' (List.mem_cons_of_mem _ hm))
      simp only [List.filter_cons]
      cases hany : m.any (fun x => x.1 == k) with
      | true => simpa [hany] using iht
      | false =>
        simp only [hany, Bool.not_false, if_true, List.lookup]
        rcases hk k v (List.mem_cons_self ..) with h1 | h1
        · rw [hany] at h1; cases h1
        · have : (name == k) = false := by
            cases hh : (name == k) with
            | false => rfl
            | true => exact absurd (by simpa using hh : name = k).symm h1
          simpa [this] using iht
  have hfun : (fun (x : S × S) => match x with | (k, _) => !m.any (fun e => e.1 == k)) = (fun (e : S × S) => !m.any (fun x => x.1 == e.1)) := by
    funext x; obtain ⟨a, b⟩ := x; rfl
  rw [hfun]
  rw [List.lookup_append, hnone]
  simpa using h

/-! ### the generated mapping is total and name-driven (`Gv.Gen.enumPlan`) -/

open Gv.EnumLemmas in
/-- what a successful `enumPlan` went through -/
theorem enumPlan_inv (c : Converter) (cx : Ctx) (s t : Ty) (path : List PathElem) (st st' : GState) (r : Conv)
    (h : enumPlan c cx s t path st = .ok (r, st')) :
    ∃ sm tm tmap acc dflt s1 s2 s3,
      enumMembers c cx.cfg.common s = some sm ∧ enumMembers c cx.cfg.common t = some tm ∧
      enumTransformers c sm tm cx.cfg.transformers [] = .ok tmap ∧
      enumCases cx path tm tmap sm { remaining := if cx.fieldsTarget == t then cx.cfg.enumMap.map (·.1) else [] } s1 = .ok (acc, s2) ∧
      cx.cfg.common.enumUnknown.isEmpty = false ∧
      enumAction cx path tm cx.cfg.common.enumUnknown s2 = .ok (dflt, s3) ∧
      acc.remaining.isEmpty = true ∧ r = .enumc acc.cases dflt := by
  unfold enumPlan at h
  cases hsm : enumMembers c cx.cfg.common s with
  | none => rw [hsm] at h; simp only [] at h; exact absurd h (by rw [M_fail_ok]; exact id)
  | some sm =>
    rw [hsm] at h; simp only [] at h
    cases htm : enumMembers c cx.cfg.common t with
    | none => rw [htm] at h; simp only [] at h; exact absurd h (by rw [M_fail_ok]; exact id)
    | some tm =>
      rw [htm] at h; simp only [] at h
      obtain ⟨tmap, s1, h1, h2⟩ := (M_bind_ok _ _ _ _).1 h
      cases htr : enumTransformers c sm tm cx.cfg.transformers [] with
      | error e => rw [htr] at h1; simp only [] at h1; exact absurd h1 (by rw [M_fail_ok]; exact id)
      | ok tmap' =>
        rw [htr] at h1; simp only [] at h1
        have := (M_pure_ok _ _ _).1 h1
        cases this
        obtain ⟨acc, s2, h3, h4⟩ := (M_bind_ok _ _ _ _).1 h2
        split at h4
        · exact absurd h4 (by
            intro h4
            obtain ⟨_, _, hf, _⟩ := (M_bind_ok _ _ _ _).1 h4
            exact (M_fail_ok _ _ _).1 hf)
        · rename_i hunk
          obtain ⟨dflt, s3, h6, h7⟩ := (M_bind_ok _ _ _ _).1 h4
          split at h7
          · exact absurd h7 (by
              intro h7
              obtain ⟨_, _, hf, _⟩ := (M_bind_ok _ _ _ _).1 h7
              exact (M_fail_ok _ _ _).1 hf)
          · rename_i hrem
            have := (M_pure_ok _ _ _).1 h7
            cases this
            exact ⟨sm, tm, tmap, acc, dflt, _, _, _, rfl, rfl, htr, h3, by simpa using hunk, h6, by simpa using hrem, rfl⟩

open Gv.EnumLemmas in
/-- **total**: a generated enum conversion has a case for the value of EVERY declared member of the source enum (members
sharing a value share the case), and a configured unknown policy for everything else -/
theorem C08_total (c : Converter) (cx : Ctx) (s t : Ty) (path : List PathElem) (st st' : GState) (r : Conv)
    (h : enumPlan c cx s t path st = .ok (r, st')) :
    ∃ sm cases dflt, enumMembers c cx.cfg.common s = some sm ∧ r = .enumc cases dflt ∧
      cx.cfg.common.enumUnknown.isEmpty = false ∧ ∀ sd, sd ∈ sm → ∃ x, x ∈ cases ∧ x.2.1 = sd.val := by
  obtain ⟨sm, tm, tmap, acc, dflt, s1, s2, s3, hsm, _, _, hc, hu, _, _, hr⟩ := enumPlan_inv c cx s t path st st' r h
  obtain ⟨_, _, hcov⟩ := enumCases_cover cx path tm tmap sm _ acc s1 s2 hc (by simp [Sync])
  exact ⟨sm, acc.cases, dflt, hsm, hr, hu, hcov⟩

open Gv.EnumLemmas in
/-- **name-driven**: every case belongs to a source member, and its action is what the name chosen for that member
(`chooseEnumTarget`: enum:map, then the transformers, then the same name) means: a member of the target enum with that
name, or one of the three actions -/
theorem C08_name_driven (c : Converter) (cx : Ctx) (s t : Ty) (path : List PathElem) (st st' : GState) (cases : List (S × ConstVal × EnumAction))
    (dflt : EnumAction) (h : enumPlan c cx s t path st = .ok (.enumc cases dflt, st')) :
    ∃ sm tm tmap, enumMembers c cx.cfg.common s = some sm ∧ enumMembers c cx.cfg.common t = some tm ∧
      enumTransformers c sm tm cx.cfg.transformers [] = .ok tmap ∧
      ∀ x, x ∈ cases → ∃ sd, sd ∈ sm ∧ x.1 = sd.name ∧ x.2.1 = sd.val ∧
        ∃ s1 s2, enumAction cx path tm (chooseEnumTarget cx.cfg.enumMap tmap sd.name) s1 = .ok (x.2.2, s2) := by
  obtain ⟨sm, tm, tmap, acc, dflt', s1, s2, s3, hsm, htm, htr, hc, _, _, _, hr⟩ := enumPlan_inv c cx s t path st st' _ h
  cases hr
  refine ⟨sm, tm, tmap, hsm, htm, htr, ?_⟩
  intro x hx
  rcases enumCases_name_driven cx path tm tmap sm _ acc s1 s2 hc x hx with h0 | h1
  · cases h0
  · exact h1

open Gv.EnumLemmas in
/-- an `enum:map KEY …` whose KEY is not a member of the source enum fails the generation -/
theorem C08_map_key_must_be_member (c : Converter) (cx : Ctx) (s t : Ty) (path : List PathElem) (st : GState) (sm : List ConstDecl)
    (hsm : enumMembers c cx.cfg.common s = some sm) (hft : (cx.fieldsTarget == t) = true)
    (k : S) (hk : k ∈ cx.cfg.enumMap.map (·.1)) (hne : ∀ sd, sd ∈ sm → sd.name ≠ k) :
    ∀ r st', enumPlan c cx s t path st ≠ .ok (r, st') := by
  intro r st' h
  obtain ⟨sm', tm, tmap, acc, dflt, s1, s2, s3, hsm', _, _, hc, _, _, hrem, _⟩ := enumPlan_inv c cx s t path st st' r h
  rw [hsm] at hsm'; cases hsm'
  have := enumCases_remaining cx path tm tmap sm _ acc s1 s2 hc k (by simp only [hft, if_true]; exact hk) hne
  cases hacc : acc.remaining with
  | nil => rw [hacc] at this; cases this
  | cons a b => rw [hacc] at hrem; simp at hrem

/-- what a transformer contributes: only pairs (source member, its replaced name) whose replaced name is a member of the target enum -/
theorem C08_transformer_pairs_sound (c : Converter) (pat repl : S) (tm : List ConstDecl) :
    ∀ (sm : List ConstDecl) (m : List (S × S)), transformerPairs c pat repl tm sm = .ok m →
      ∀ n tk, (n, tk) ∈ m → ∃ sd, sd ∈ sm ∧ sd.name = n ∧ c.orc.rxReplace pat repl n = some tk ∧ tm.any (·.name == tk) = true := by
  intro sm
  induction sm with
  | nil => intro m h n tk hm; unfold transformerPairs at h; cases h; cases hm
  | cons sd rest ih =>
    intro m h n tk hm
    unfold transformerPairs at h
    split at h
    · cases h
    · rename_i tk0 hrx
      split at h
      · cases h
      · rename_i m0 hrest
        cases h
        split at hm
        · rename_i hany
          rcases List.mem_cons.1 hm with heq | hin
          · cases heq
            exact ⟨sd, List.mem_cons_self, rfl, hrx, hany⟩
          · obtain ⟨sd', h1, h2, h3, h4⟩ := ih m0 hrest n tk hin
            exact ⟨sd', List.mem_cons_of_mem _ h1, h2, h3, h4⟩
        · obtain ⟨sd', h1, h2, h3, h4⟩ := ih m0 hrest n tk hm
          exact ⟨sd', List.mem_cons_of_mem _ h1, h2, h3, h4⟩

/-- and all of them: a source member whose replaced name is a target member is mapped by the transformer -/
theorem C08_transformer_pairs_complete (c : Converter) (pat repl : S) (tm : List ConstDecl) :
    ∀ (sm : List ConstDecl) (m : List (S × S)), transformerPairs c pat repl tm sm = .ok m →
      ∀ sd tk, sd ∈ sm → c.orc.rxReplace pat repl sd.name = some tk → tm.any (·.name == tk) = true → (sd.name, tk) ∈ m := by
  intro sm
  induction sm with
  | nil => intro m _ sd tk hsd; cases hsd
  | cons sd0 rest ih =>
    intro m h sd tk hsd hrx hany
    unfold transformerPairs at h
    split at h
    · cases h
    · rename_i tk0 hrx0
      split at h
      · cases h
      · rename_i m0 hrest
        cases h
        rcases List.mem_cons.1 hsd with rfl | hin
        · rw [hrx] at hrx0; cases hrx0
          simp [hany]
        · have := ih m0 hrest sd tk hin hrx hany
          split
          · exact List.mem_cons_of_mem _ this
          · exact this

/-! ### the failure direction (`Gv/Proofs/EnumFail.lean`) -/

open Gv.EnumFail in
/-- **C08_ok_iff**: a generated enum conversion exists exactly when both types are enums, the transformers are fine, the
name chosen for every source member resolves (`enumResolves`: `@ignore`, `@panic`, `@error` in a method that can return an
error, or a member of the target enum), source members with equal values agree (`enumMismatch`), `enum:unknown` is set and
resolves, and (for the method's own target) every `enum:map` key is a source member -/
theorem C08_ok_iff (c : Converter) (cx : Ctx) (s t : Ty) (path : List PathElem) (st : GState) :
    (∃ r st', enumPlan c cx s t path st = .ok (r, st')) ↔
    ∃ sm tm tmap, enumMembers c cx.cfg.common s = some sm ∧ enumMembers c cx.cfg.common t = some tm ∧
      enumTransformers c sm tm cx.cfg.transformers [] = .ok tmap ∧
      (∀ sd, sd ∈ sm → enumResolves cx st tm (chooseEnumTarget cx.cfg.enumMap tmap sd.name) = true) ∧
      (∀ a b, a ∈ sm → b ∈ sm → a.val = b.val →
        enumMismatch tm (chooseEnumTarget cx.cfg.enumMap tmap a.name) (chooseEnumTarget cx.cfg.enumMap tmap b.name) = false) ∧
      cx.cfg.common.enumUnknown.isEmpty = false ∧
      enumResolves cx st tm cx.cfg.common.enumUnknown = true ∧
      ((cx.fieldsTarget == t) = true → ∀ k, k ∈ cx.cfg.enumMap.map (·.1) → ∃ sd, sd ∈ sm ∧ sd.name = k) := by
  constructor
  · rintro ⟨r, st', h⟩
    obtain ⟨sm, tm, tmap, _, _, _, _, _, hsm, htm, htr, _, hu, _, _, _⟩ := enumPlan_inv c cx s t path st st' r h
    -- enumPlan_inv does not say that the loop started in `st`: read it off the equation
    rw [enumPlan_eq' c cx s t path st sm tm tmap hsm htm htr] at h
    cases hc' : enumCases cx path tm tmap sm { remaining := if cx.fieldsTarget == t then cx.cfg.enumMap.map (·.1) else [] } st with
    | error e => rw [hc'] at h; cases h
    | ok v =>
      obtain ⟨acc, s2⟩ := v
      rw [hc'] at h
      simp only [hu, Bool.false_eq_true, if_false] at h
      cases hd' : enumAction cx path tm cx.cfg.common.enumUnknown s2 with
      | error e => rw [hd'] at h; cases h
      | ok v =>
        obtain ⟨dflt, s3⟩ := v
        rw [hd'] at h
        simp only [] at h
        split at h
        · rename_i hrem
          obtain ⟨hl1, hl2⟩ := enumCases_ok_LoopOK cx path tm tmap st sm _ acc s2 hc'
          obtain ⟨hs2, _⟩ := enumCases_ok_resolves cx path tm tmap st sm _ acc st s2 hc' (StInv_refl cx st)
          obtain ⟨_, hru⟩ := enumAction_ok_inv cx path tm _ st s2 s3 dflt hs2 hd'
          obtain ⟨_, _, _, _, i5⟩ := enumCases_ok_vals cx path tm tmap sm _ acc st s2 hc' (AccInv_init _)
          refine ⟨sm, tm, tmap, hsm, htm, htr, hl1, hl2, hu, hru, ?_⟩
          intro hft
          rw [i5] at hrem
          simp only [hft, if_true] at hrem
          exact (remaining_empty_iff _ _).1 hrem
        · cases h
  · rintro ⟨sm, tm, tmap, hsm, htm, htr, hl1, hl2, hu, hru, hkeys⟩
    rw [enumPlan_eq' c cx s t path st sm tm tmap hsm htm htr]
    obtain ⟨acc, s2, hc⟩ := (enumCases_ok_iff cx path tm tmap st sm
      (if cx.fieldsTarget == t then cx.cfg.enumMap.map (·.1) else [])).2 ⟨hl1, hl2⟩
    obtain ⟨hs2, _⟩ := enumCases_ok_resolves cx path tm tmap st sm _ acc st s2 hc (StInv_refl cx st)
    obtain ⟨dflt, s3, hd⟩ := enumAction_ok_of cx path tm _ st s2 hs2 hru
    obtain ⟨_, _, _, _, i5⟩ := enumCases_ok_vals cx path tm tmap sm _ acc st s2 hc (AccInv_init _)
    have hrem : acc.remaining.isEmpty = true := by
      rw [i5]
      apply (remaining_empty_iff _ _).2
      intro k hk
      split at hk
      · rename_i hft; exact hkeys hft k hk
      · cases hk
    rw [hc]
    simp only [hu, Bool.false_eq_true, if_false, hd, hrem, if_true]
    exact ⟨_, _, rfl⟩

open Gv.EnumFail in
/-- **C08_fail_iff**: for two enums with working transformers, generation fails with diagnostic `e` exactly in one of four
ways, in this order: (1) after a prefix of the source members that went through, the next member's chosen name does not
resolve (`enumActionDiag`: `enumTargetMissing` for a name that is no target member, `enumInvalidTarget` for an unknown
`@…`, `enumErrorNotAllowed` for `@error` in a method that cannot return an error) or it disagrees with an earlier member of
equal value (`enumMismatch`); (2) all members went through and `enum:unknown` is not set (`enumUnknownMissing`); (3) it is
set but does not resolve; (4) it resolves but an `enum:map` key of the method's own target is no source member
(`enumKeyMissing`) -/
theorem C08_fail_iff (c : Converter) (cx : Ctx) (s t : Ty) (path : List PathElem) (st : GState)
    (sm tm : List ConstDecl) (tmap : List (S × S))
    (hsm : enumMembers c cx.cfg.common s = some sm) (htm : enumMembers c cx.cfg.common t = some tm)
    (htr : enumTransformers c sm tm cx.cfg.transformers [] = .ok tmap) (e : Diag) :
    enumPlan c cx s t path st = .error e ↔
      (∃ pre sd post, sm = pre ++ sd :: post ∧ LoopOK cx st tm tmap pre ∧
        (enumActionDiag cx st tm (chooseEnumTarget cx.cfg.enumMap tmap sd.name) = some e ∨
         (enumResolves cx st tm (chooseEnumTarget cx.cfg.enumMap tmap sd.name) = true ∧ e = .enumMismatch ∧
           ∃ sd0, sd0 ∈ pre ∧ sd0.val = sd.val ∧
             enumMismatch tm (chooseEnumTarget cx.cfg.enumMap tmap sd.name) (chooseEnumTarget cx.cfg.enumMap tmap sd0.name) = true))) ∨
      (LoopOK cx st tm tmap sm ∧ cx.cfg.common.enumUnknown.isEmpty = true ∧ e = .enumUnknownMissing) ∨
      (LoopOK cx st tm tmap sm ∧ cx.cfg.common.enumUnknown.isEmpty = false ∧
        enumActionDiag cx st tm cx.cfg.common.enumUnknown = some e) ∨
      (LoopOK cx st tm tmap sm ∧ cx.cfg.common.enumUnknown.isEmpty = false ∧
        enumResolves cx st tm cx.cfg.common.enumUnknown = true ∧ e = .enumKeyMissing ∧ (cx.fieldsTarget == t) = true ∧
        ∃ k, k ∈ cx.cfg.enumMap.map (·.1) ∧ ∀ sd, sd ∈ sm → sd.name ≠ k) := by
  rw [enumPlan_eq' c cx s t path st sm tm tmap hsm htm htr]
  cases hc : enumCases cx path tm tmap sm { remaining := if cx.fieldsTarget == t then cx.cfg.enumMap.map (·.1) else [] } st with
  | error e1 =>
    simp only []
    have hnot : ¬ LoopOK cx st tm tmap sm := by
      intro hl
      obtain ⟨_, _, hok⟩ := (enumCases_ok_iff cx path tm tmap st sm _).2 hl
      rw [hc] at hok; cases hok
    constructor
    · intro h
      have he : e1 = e := by injection h
      subst he
      exact .inl ((enumCases_error_iff' cx path tm tmap st _ sm e1).1 hc)
    · rintro (h | ⟨h, _⟩ | ⟨h, _⟩ | ⟨h, _⟩)
      · have := (enumCases_error_iff' cx path tm tmap st (if cx.fieldsTarget == t then cx.cfg.enumMap.map (·.1) else []) sm e).2 h
        rw [hc] at this
        have he : e1 = e := by injection this
        rw [he]
      · exact absurd h hnot
      · exact absurd h hnot
      · exact absurd h hnot
  | ok v =>
    obtain ⟨acc, s2⟩ := v
    simp only []
    have hl : LoopOK cx st tm tmap sm := enumCases_ok_LoopOK cx path tm tmap st sm _ acc s2 hc
    have hno1 : ∀ e', ¬ (∃ pre sd post, sm = pre ++ sd :: post ∧ LoopOK cx st tm tmap pre ∧
        (enumActionDiag cx st tm (chooseEnumTarget cx.cfg.enumMap tmap sd.name) = some e' ∨
         (enumResolves cx st tm (chooseEnumTarget cx.cfg.enumMap tmap sd.name) = true ∧ e' = .enumMismatch ∧
           ∃ sd0, sd0 ∈ pre ∧ sd0.val = sd.val ∧
             enumMismatch tm (chooseEnumTarget cx.cfg.enumMap tmap sd.name) (chooseEnumTarget cx.cfg.enumMap tmap sd0.name) = true))) := by
      intro e' h
      have := (enumCases_error_iff' cx path tm tmap st (if cx.fieldsTarget == t then cx.cfg.enumMap.map (·.1) else []) sm e').2 h
      rw [hc] at this; cases this
    obtain ⟨hs2, _⟩ := enumCases_ok_resolves cx path tm tmap st sm _ acc st s2 hc (StInv_refl cx st)
    obtain ⟨_, _, _, _, i5⟩ := enumCases_ok_vals cx path tm tmap sm _ acc st s2 hc (AccInv_init _)
    cases hu : cx.cfg.common.enumUnknown.isEmpty with
    | true =>
      simp only [if_true]
      constructor
      · intro h; cases h; exact .inr (.inl ⟨hl, by simp, rfl⟩)
      · rintro (h | ⟨_, _, rfl⟩ | ⟨_, h, _⟩ | ⟨_, h, _⟩)
        · exact absurd h (hno1 e)
        · rfl
        · cases h
        · cases h
    | false =>
      simp only [Bool.false_eq_true, if_false]
      cases hd : enumAction cx path tm cx.cfg.common.enumUnknown s2 with
      | error e1 =>
        simp only []
        have hdiag := (enumAction_error_iff cx path tm _ st s2 e1 hs2).1 hd
        constructor
        · intro h; cases h; exact .inr (.inr (.inl ⟨hl, by simp, hdiag⟩))
        · rintro (h | ⟨_, h, _⟩ | ⟨_, _, h⟩ | ⟨_, _, h, _⟩)
          · exact absurd h (hno1 e)
          · cases h
          · rw [hdiag] at h; cases h; rfl
          · rw [← enumActionDiag_none_iff, hdiag] at h; cases h
      | ok v =>
        obtain ⟨dflt, s3⟩ := v
        simp only []
        obtain ⟨_, hru⟩ := enumAction_ok_inv cx path tm _ st s2 s3 dflt hs2 hd
        have hnone := (enumActionDiag_none_iff cx st tm _).2 hru
        cases hrem : acc.remaining.isEmpty with
        | true =>
          simp only [if_true]
          constructor
          · intro h; cases h
          · rintro (h | ⟨_, h, _⟩ | ⟨_, _, h⟩ | ⟨_, _, _, _, hft, k, hk, hne⟩)
            · exact absurd h (hno1 e)
            · cases h
            · rw [hnone] at h; cases h
            · rw [i5] at hrem
              simp only [hft, if_true] at hrem
              obtain ⟨sd, hsd, he⟩ := (remaining_empty_iff _ _).1 hrem k hk
              exact absurd he (hne sd hsd)
        | false =>
          simp only [Bool.false_eq_true, if_false]
          constructor
          · intro h; cases h
            refine .inr (.inr (.inr ⟨hl, by simp, hru, rfl, ?_⟩))
            rw [i5] at hrem
            cases hft : (cx.fieldsTarget == t) with
            | false => simp [hft] at hrem
            | true =>
              refine ⟨rfl, ?_⟩
              simp only [hft, if_true] at hrem
              apply Classical.byContradiction
              intro hcon
              have : ∀ k, k ∈ cx.cfg.enumMap.map (·.1) → ∃ sd, sd ∈ sm ∧ sd.name = k := by
                intro k hk
                apply Classical.byContradiction
                intro hn
                exact hcon ⟨k, hk, fun sd hsd he => hn ⟨sd, hsd, he⟩⟩
              rw [(remaining_empty_iff _ _).2 this] at hrem
              cases hrem
          · rintro (h | ⟨_, h, _⟩ | ⟨_, _, h⟩ | ⟨_, _, _, rfl, _⟩)
            · exact absurd h (hno1 e)
            · cases h
            · rw [hnone] at h; cases h
            · rfl

/-- before the members are looked at: a type that is no enum, or a failing transformer, is the diagnostic -/
theorem C08_setup_fails (c : Converter) (cx : Ctx) (s t : Ty) (path : List PathElem) (st : GState) :
    (enumMembers c cx.cfg.common s = none → enumPlan c cx s t path st = .error (.unsupported "enum source")) ∧
    (∀ sm, enumMembers c cx.cfg.common s = some sm → enumMembers c cx.cfg.common t = none →
      enumPlan c cx s t path st = .error (.unsupported "enum target")) ∧
    (∀ sm tm e, enumMembers c cx.cfg.common s = some sm → enumMembers c cx.cfg.common t = some tm →
      enumTransformers c sm tm cx.cfg.transformers [] = .error e → enumPlan c cx s t path st = .error e ∧
        (e = .unsupported "custom transformer" ∨ e = .enumTransformerError ∨ e = .enumTransformerEmpty)) := by
  refine ⟨?_, ?_, ?_⟩
  · intro h; rw [EnumFail.enumPlan_eq, h]
  · intro sm h1 h2; rw [EnumFail.enumPlan_eq, h1, h2]
  · intro sm tm e h1 h2 h3
    refine ⟨?_, EnumFail.enumTransformers_error c sm tm _ _ e h3⟩
    rw [EnumFail.enumPlan_eq, h1, h2]; simp only []; rw [h3]

/-- a transformer that maps no source member onto a target member fails the generation -/
theorem C08_empty_transformer_fails (c : Converter) (sm tm : List ConstDecl) (pat repl cfgS : S) (rest tmap : List (S × S))
    (h : transformerPairs c pat repl tm sm = .ok [])
    (hcfg : splitOn ' ' cfgS = [pat, repl]) :
    enumTransformers c sm tm (("regex".toList, cfgS) :: rest) tmap = .error .enumTransformerEmpty := by
  unfold enumTransformers
  simp [hcfg, h]

open Gv.EnumFail in
/-- the diagnostic of a name is `enumTargetMissing` exactly for a name that is neither `@…` nor a target member -/
theorem enumActionDiag_targetMissing_iff (cx : Ctx) (st : GState) (tm : List ConstDecl) (n : S) :
    enumActionDiag cx st tm n = some .enumTargetMissing ↔ Settings.isEnumAction n = false ∧ tm.any (·.name == n) = false := by
  unfold enumActionDiag
  split
  · rename_i ha
    simp only [ha, Bool.true_eq_false, false_and, iff_false]
    split
    · simp
    · split
      · simp
      · split
        · split
          · simp
          · simp
          · rename_i e hr
            have := returnError_error cx st e hr
            subst this; simp
        · simp
  · rename_i ha
    simp only [ha, true_and]
    split <;> simp_all

open Gv.EnumFail in
/-- **C08_missing_target_fails** (a): a source member whose chosen name (enum:map, else transformers, else its own name) is
neither a member of the target enum nor an `@` action fails the generation, in every state -/
theorem C08_missing_target_fails (c : Converter) (cx : Ctx) (s t : Ty) (path : List PathElem) (st : GState)
    (sm tm : List ConstDecl) (tmap : List (S × S))
    (hsm : enumMembers c cx.cfg.common s = some sm) (htm : enumMembers c cx.cfg.common t = some tm)
    (htr : enumTransformers c sm tm cx.cfg.transformers [] = .ok tmap)
    (sd : ConstDecl) (hsd : sd ∈ sm)
    (hna : Settings.isEnumAction (chooseEnumTarget cx.cfg.enumMap tmap sd.name) = false)
    (hmiss : tm.any (·.name == chooseEnumTarget cx.cfg.enumMap tmap sd.name) = false) :
    ∃ e, enumPlan c cx s t path st = .error e := by
  cases h : enumPlan c cx s t path st with
  | error e => exact ⟨e, rfl⟩
  | ok v =>
    obtain ⟨r, st'⟩ := v
    obtain ⟨sm', tm', tmap', hsm', htm', htr', hres, _⟩ := (C08_ok_iff c cx s t path st).1 ⟨r, st', h⟩
    rw [hsm] at hsm'; cases hsm'
    rw [htm] at htm'; cases htm'
    rw [htr] at htr'; cases htr'
    have := hres sd hsd
    unfold enumResolves at this
    simp [hna, hmiss] at this

open Gv.EnumFail in
/-- … and the diagnostic is `enumTargetMissing` exactly when such a member comes after a prefix of members that went
through, or all members went through and `enum:unknown` is such a name -/
theorem C08_missing_target_diag_iff (c : Converter) (cx : Ctx) (s t : Ty) (path : List PathElem) (st : GState)
    (sm tm : List ConstDecl) (tmap : List (S × S))
    (hsm : enumMembers c cx.cfg.common s = some sm) (htm : enumMembers c cx.cfg.common t = some tm)
    (htr : enumTransformers c sm tm cx.cfg.transformers [] = .ok tmap) :
    enumPlan c cx s t path st = .error .enumTargetMissing ↔
      (∃ pre sd post, sm = pre ++ sd :: post ∧ LoopOK cx st tm tmap pre ∧
        Settings.isEnumAction (chooseEnumTarget cx.cfg.enumMap tmap sd.name) = false ∧
        tm.any (·.name == chooseEnumTarget cx.cfg.enumMap tmap sd.name) = false) ∨
      (LoopOK cx st tm tmap sm ∧ cx.cfg.common.enumUnknown.isEmpty = false ∧
        Settings.isEnumAction cx.cfg.common.enumUnknown = false ∧ tm.any (·.name == cx.cfg.common.enumUnknown) = false) := by
  rw [C08_fail_iff c cx s t path st sm tm tmap hsm htm htr]
  constructor
  · rintro (⟨pre, sd, post, hl, hpre, h | ⟨_, h, _⟩⟩ | ⟨_, _, h⟩ | ⟨hl, hu, h⟩ | ⟨_, _, _, h, _⟩)
    · exact .inl ⟨pre, sd, post, hl, hpre, (enumActionDiag_targetMissing_iff cx st tm _).1 h⟩
    · cases h
    · cases h
    · exact .inr ⟨hl, hu, (enumActionDiag_targetMissing_iff cx st tm _).1 h⟩
    · cases h
  · rintro (⟨pre, sd, post, hl, hpre, h⟩ | ⟨hl, hu, h⟩)
    · exact .inl ⟨pre, sd, post, hl, hpre, .inl ((enumActionDiag_targetMissing_iff cx st tm _).2 h)⟩
    · exact .inr (.inr (.inl ⟨hl, hu, (enumActionDiag_targetMissing_iff cx st tm _).2 h⟩))

open Gv.EnumFail in
/-- **C08_unknown_missing_fails** (b): without `enum:unknown` the generation fails, in every state; the diagnostic is
`enumUnknownMissing` exactly when moreover all source members went through -/
theorem C08_unknown_missing_fails (c : Converter) (cx : Ctx) (s t : Ty) (path : List PathElem) (st : GState)
    (hu : cx.cfg.common.enumUnknown.isEmpty = true) :
    (∃ e, enumPlan c cx s t path st = .error e) ∧
    ∀ sm tm tmap, enumMembers c cx.cfg.common s = some sm → enumMembers c cx.cfg.common t = some tm →
      enumTransformers c sm tm cx.cfg.transformers [] = .ok tmap →
      (enumPlan c cx s t path st = .error .enumUnknownMissing ↔ LoopOK cx st tm tmap sm) := by
  constructor
  · cases h : enumPlan c cx s t path st with
    | error e => exact ⟨e, rfl⟩
    | ok v =>
      obtain ⟨r, st'⟩ := v
      obtain ⟨_, _, _, _, _, _, _, _, hu', _⟩ := (C08_ok_iff c cx s t path st).1 ⟨r, st', h⟩
      rw [hu] at hu'; cases hu'
  · intro sm tm tmap hsm htm htr
    rw [C08_fail_iff c cx s t path st sm tm tmap hsm htm htr]
    constructor
    · rintro (⟨pre, sd, post, hl, hpre, h | ⟨_, h, _⟩⟩ | ⟨hl, _, _⟩ | ⟨_, h, _⟩ | ⟨_, h, _⟩)
      · rcases enumActionDiag_kinds cx st tm _ _ h with h | h | h | h <;> cases h
      · cases h
      · exact hl
      · rw [hu] at h; cases h
      · rw [hu] at h; cases h
    · intro hl; exact .inr (.inl ⟨hl, hu, rfl⟩)

/-- what `enumMismatch` compares for two names that are members of the target enum: their VALUES -/
theorem enumMismatch_members (tm : List ConstDecl) (a b : S) (ta tb : ConstDecl)
    (ha : Settings.isEnumAction a = false) (hb : Settings.isEnumAction b = false)
    (hta : tm.find? (·.name == a) = some ta) (htb : tm.find? (·.name == b) = some tb) :
    enumMismatch tm a b = true ↔ ta.val ≠ tb.val := by
  unfold enumMismatch
  simp only [ha, hb, hta, htb, Bool.not_false, Bool.and_self, if_true, Option.map_some]
  constructor
  · intro h heq; rw [heq] at h; simp at h
  · intro h; simp only [bne_iff_ne, ne_eq, Option.some.injEq]; exact fun h' => h h'.symm

open Gv.EnumFail in
/-- **C08_equal_values_must_agree** (c): two source members with the same value whose chosen names disagree (`enumMismatch`:
different target VALUES for two target members, different names otherwise) fail the generation, in every state and in
whichever order they are declared -/
theorem C08_equal_values_must_agree (c : Converter) (cx : Ctx) (s t : Ty) (path : List PathElem) (st : GState)
    (sm tm : List ConstDecl) (tmap : List (S × S))
    (hsm : enumMembers c cx.cfg.common s = some sm) (htm : enumMembers c cx.cfg.common t = some tm)
    (htr : enumTransformers c sm tm cx.cfg.transformers [] = .ok tmap)
    (a b : ConstDecl) (ha : a ∈ sm) (hb : b ∈ sm) (hv : a.val = b.val)
    (hmm : enumMismatch tm (chooseEnumTarget cx.cfg.enumMap tmap a.name) (chooseEnumTarget cx.cfg.enumMap tmap b.name) = true) :
    ∃ e, enumPlan c cx s t path st = .error e := by
  cases h : enumPlan c cx s t path st with
  | error e => exact ⟨e, rfl⟩
  | ok v =>
    obtain ⟨r, st'⟩ := v
    obtain ⟨sm', tm', tmap', hsm', htm', htr', _, hag, _⟩ := (C08_ok_iff c cx s t path st).1 ⟨r, st', h⟩
    rw [hsm] at hsm'; cases hsm'
    rw [htm] at htm'; cases htm'
    rw [htr] at htr'; cases htr'
    rw [hag a b ha hb hv] at hmm; cases hmm

open Gv.EnumFail in
/-- … with diagnostic `enumMismatch` exactly when the first failing member resolves but disagrees with an earlier one -/
theorem C08_mismatch_diag_iff (c : Converter) (cx : Ctx) (s t : Ty) (path : List PathElem) (st : GState)
    (sm tm : List ConstDecl) (tmap : List (S × S))
    (hsm : enumMembers c cx.cfg.common s = some sm) (htm : enumMembers c cx.cfg.common t = some tm)
    (htr : enumTransformers c sm tm cx.cfg.transformers [] = .ok tmap) :
    enumPlan c cx s t path st = .error .enumMismatch ↔
      ∃ pre sd post, sm = pre ++ sd :: post ∧ LoopOK cx st tm tmap pre ∧
        enumResolves cx st tm (chooseEnumTarget cx.cfg.enumMap tmap sd.name) = true ∧
        ∃ sd0, sd0 ∈ pre ∧ sd0.val = sd.val ∧
          enumMismatch tm (chooseEnumTarget cx.cfg.enumMap tmap sd.name) (chooseEnumTarget cx.cfg.enumMap tmap sd0.name) = true := by
  rw [C08_fail_iff c cx s t path st sm tm tmap hsm htm htr]
  constructor
  · rintro (⟨pre, sd, post, hl, hpre, h | ⟨h1, _, h2⟩⟩ | ⟨_, _, h⟩ | ⟨hl, hu, h⟩ | ⟨_, _, _, h, _⟩)
    · rcases enumActionDiag_kinds cx st tm _ _ h with h | h | h | h <;> cases h
    · exact ⟨pre, sd, post, hl, hpre, h1, h2⟩
    · cases h
    · rcases enumActionDiag_kinds cx st tm _ _ h with h | h | h | h <;> cases h
    · cases h
  · rintro ⟨pre, sd, post, hl, hpre, h1, h2⟩
    exact .inl ⟨pre, sd, post, hl, hpre, .inr ⟨h1, rfl, h2⟩⟩

open Gv.EnumFail Gv.EnumLemmas in
/-- **C08_cases_nodup** (c, compile safety): the emitted cases have pairwise distinct values – always, whatever the members
are – and their values are exactly the values of the source members: equal-valued members share ONE case -/
theorem C08_cases_nodup (c : Converter) (cx : Ctx) (s t : Ty) (path : List PathElem) (st st' : GState)
    (cases : List (S × ConstVal × EnumAction)) (dflt : EnumAction)
    (h : enumPlan c cx s t path st = .ok (.enumc cases dflt, st')) :
    (cases.map (·.2.1)).Nodup ∧
    ∃ sm, enumMembers c cx.cfg.common s = some sm ∧ ∀ v, v ∈ cases.map (·.2.1) ↔ ∃ sd, sd ∈ sm ∧ sd.val = v := by
  obtain ⟨sm, tm, tmap, acc, dflt', s1, s2, s3, hsm, htm, htr, hc, _, _, _, hr⟩ := enumPlan_inv c cx s t path st st' _ h
  cases hr
  obtain ⟨i1, _⟩ := enumCases_ok_vals cx path tm tmap sm _ acc s1 s2 hc (AccInv_init _)
  refine ⟨i1.nodup, sm, hsm, ?_⟩
  intro v
  constructor
  · intro hv
    obtain ⟨x, hx, hxv⟩ := List.mem_map.1 hv
    rcases enumCases_name_driven cx path tm tmap sm _ acc s1 s2 hc x hx with h0 | ⟨sd, hm, _, h3, _⟩
    · cases h0
    · exact ⟨sd, hm, by rw [← h3, hxv]⟩
  · rintro ⟨sd, hm, rfl⟩
    obtain ⟨_, _, hcov⟩ := enumCases_cover cx path tm tmap sm _ acc s1 s2 hc (by simp [Sync])
    obtain ⟨x, hx, hxv⟩ := hcov sd hm
    exact List.mem_map.2 ⟨x, hx, hxv⟩

open Gv.EnumFail in
/-- **C08_error_action_needs_error_result** (d): what `@error` means for the method being built.  In an explicit method
without an error result it is the diagnostic `enumErrorNotAllowed` (the state is not touched); in a generated top-level
method without one it succeeds and the method is flagged to return an error (`flagRet`: `returnError`, `dirty`, and its
recorded callers `dirty`); whenever it succeeds, the action wraps as configured and the method returns an error afterwards -/
theorem C08_error_action_needs_error_result (cx : Ctx) (path : List PathElem) (tm : List ConstDecl) (st : GState) :
    (∀ m, st.methods[cx.self]? = some m → m.explicit = true → m.returnError = false →
      enumAction cx path tm "@error".toList st = .error .enumErrorNotAllowed) ∧
    (∀ m, st.methods[cx.self]? = some m → m.explicit = false → m.returnError = false → m.originPath = [] →
      enumAction cx path tm "@error".toList st = .ok (.error (wrapOf cx path), flagRet cx.self st)) ∧
    (∀ m, st.methods[cx.self]? = some m → m.returnError = true →
      enumAction cx path tm "@error".toList st = .ok (.error (wrapOf cx path), st)) ∧
    (∀ a st', enumAction cx path tm "@error".toList st = .ok (a, st') → a = .error (wrapOf cx path) ∧ RetErr cx.self st') := by
  have hact : Settings.isEnumAction "@error".toList = true := by decide
  have h1 : ("@error".toList == "@ignore".toList) = false := by decide
  have h2 : ("@error".toList == "@panic".toList) = false := by decide
  have heq : enumAction cx path tm "@error".toList st =
      match returnError cx st with
      | .error e => .error e
      | .ok (true, s1) => .ok (.error (wrapOf cx path), s1)
      | .ok (false, _) => .error .enumErrorNotAllowed := by
    rw [enumAction_eq]
    simp only [hact, h1, h2, if_true, Bool.false_eq_true, if_false, beq_self_eq_true]
    rfl
  refine ⟨?_, ?_, ?_, ?_⟩
  · intro m hm he hr
    rw [heq, returnError_explicit cx st m hm he hr]
  · intro m hm he hr ho
    rw [heq, returnError_generated cx st m hm he hr ho]
  · intro m hm hr
    rw [heq, returnError_of_RetErr cx st ⟨m, hm, hr⟩]
  · intro a st' h
    rw [heq] at h
    cases hr : returnError cx st with
    | error e => rw [hr] at h; cases h
    | ok v =>
      obtain ⟨b, s1⟩ := v
      cases b with
      | false => rw [hr] at h; cases h
      | true =>
        rw [hr] at h; cases h
        exact ⟨rfl, returnError_true cx st st' hr⟩

open Gv.EnumFail in
/-- at the level of the whole mapping: in an explicit method without an error result, `@error` as the chosen name of a
source member or as `enum:unknown` fails the generation -/
theorem C08_error_action_fails_without_error_result (c : Converter) (cx : Ctx) (s t : Ty) (path : List PathElem) (st : GState)
    (m : GenMethod) (hm : st.methods[cx.self]? = some m) (he : m.explicit = true) (hr : m.returnError = false)
    (sm tm : List ConstDecl) (tmap : List (S × S))
    (hsm : enumMembers c cx.cfg.common s = some sm) (htm : enumMembers c cx.cfg.common t = some tm)
    (htr : enumTransformers c sm tm cx.cfg.transformers [] = .ok tmap)
    (huse : (∃ sd, sd ∈ sm ∧ chooseEnumTarget cx.cfg.enumMap tmap sd.name = "@error".toList) ∨
            cx.cfg.common.enumUnknown = "@error".toList) :
    ∃ e, enumPlan c cx s t path st = .error e := by
  have hno : enumResolves cx st tm "@error".toList = false := by
    unfold enumResolves canReturnError
    rw [returnError_explicit cx st m hm he hr]
    have hact : Settings.isEnumAction "@error".toList = true := by decide
    have h1 : ("@error".toList == "@ignore".toList) = false := by decide
    have h2 : ("@error".toList == "@panic".toList) = false := by decide
    simp only [hact, h1, h2, if_true, Bool.or_self, Bool.false_or, Bool.and_false]
  cases h : enumPlan c cx s t path st with
  | error e => exact ⟨e, rfl⟩
  | ok v =>
    obtain ⟨r, st'⟩ := v
    obtain ⟨sm', tm', tmap', hsm', htm', htr', hres, _, _, hru, _⟩ := (C08_ok_iff c cx s t path st).1 ⟨r, st', h⟩
    rw [hsm] at hsm'; cases hsm'
    rw [htm] at htm'; cases htm'
    rw [htr] at htr'; cases htr'
    rcases huse with ⟨sd, hsd, hch⟩ | hu
    · have := hres sd hsd
      rw [hch, hno] at this; cases this
    · rw [hu, hno] at hru; cases hru

/-! ### non-vacuity: a small converter (Color {Crimson = 0, Red = 0, Teal = 1} → Shade {Blue = 5, Navy = 5, Red = 7}) -/
namespace Ex
open Gv.EnumFail

def color : NamedDecl :=
  { id := "p.Color".toList, pkgPath := "p".toList, pkgName := "p".toList, name := "Color".toList, exported := true,
    underlying := .basic .int, methods := [],
    consts := [⟨"Crimson".toList, true, .int 0⟩, ⟨"Red".toList, true, .int 0⟩, ⟨"Teal".toList, true, .int 1⟩] }
def shade : NamedDecl :=
  { id := "p.Shade".toList, pkgPath := "p".toList, pkgName := "p".toList, name := "Shade".toList, exported := true,
    underlying := .basic .int, methods := [],
    consts := [⟨"Blue".toList, true, .int 5⟩, ⟨"Navy".toList, true, .int 5⟩, ⟨"Red".toList, true, .int 7⟩] }
def tyC : Ty := .named "p.Color".toList
def tyS : Ty := .named "p.Shade".toList
def conv : Converter := { env := [color, shade], common := {}, outputPkg := "out".toList, customs := [], extend := [], orc := {} }
def meth (explicit : Bool) : GenMethod :=
  { name := "Conv".toList, source := tyC, target := tyS, args := [], contexts := [], returnError := false, updateTarget := false,
    explicit := explicit, dirty := false, originPath := [], originName := [], cfg := { common := {} } }
def st0 (explicit : Bool) : GState := { methods := [meth explicit], fileNames := [], seen := [], useCtor := false }
def cx0 (enumMap : List (S × S)) (unknown : S) : Ctx :=
  { self := 0, cfg := { common := { enumUnknown := unknown }, enumMap := enumMap }, confSource := none, confTarget := tyS,
    updateTarget := false, fieldsTarget := tyS, available := [], ctxArgs := [], sigSource := tyC, sigTarget := tyS }

/-- Crimson→Blue, Red→Navy (equal values 5 = 5 agree), Teal→Red -/
def goodMap : List (S × S) :=
  [("Crimson".toList, "Blue".toList), ("Red".toList, "Navy".toList), ("Teal".toList, "Red".toList)]
/-- Crimson→Blue (5) but Red→Red (7): members with value 0 disagree -/
def badMap : List (S × S) := [("Crimson".toList, "Blue".toList), ("Teal".toList, "Red".toList)]

example : enumMembers conv (cx0 [] []).cfg.common tyC = some color.consts := rfl
example : enumMembers conv (cx0 [] []).cfg.common tyS = some shade.consts := rfl

-- (a) without enum:map, `Crimson` has no target: the hypotheses of C08_missing_target_fails hold, and the diagnostic is the stated one
example : ∃ e, enumPlan conv (cx0 [] "@panic".toList) tyC tyS [] (st0 true) = .error e :=
  C08_missing_target_fails conv (cx0 [] "@panic".toList) tyC tyS [] (st0 true) color.consts shade.consts [] rfl rfl rfl
    ⟨"Crimson".toList, true, .int 0⟩ (by simp [color]) (by decide) (by decide)
example : enumPlan conv (cx0 [] "@panic".toList) tyC tyS [] (st0 true) = .error .enumTargetMissing := by rfl

-- (b) enum:unknown missing, all members fine
example : enumPlan conv (cx0 goodMap []) tyC tyS [] (st0 true) = .error .enumUnknownMissing := by rfl

-- (c) equal values must agree; when they do, ONE case is emitted for Crimson and Red
example : enumMismatch shade.consts "Blue".toList "Red".toList = true := by decide
example : enumPlan conv (cx0 badMap "@panic".toList) tyC tyS [] (st0 true) = .error .enumMismatch := by rfl
example : enumPlan conv (cx0 goodMap "@panic".toList) tyC tyS [] (st0 true) =
    .ok (.enumc [("Crimson".toList, .int 0, .member "Blue".toList (.int 5)), ("Teal".toList, .int 1, .member "Red".toList (.int 7))] .panic,
         st0 true) := by rfl

-- (d) `@error` as unknown policy: explicit method without error result fails, generated method is flagged
example : enumPlan conv (cx0 goodMap "@error".toList) tyC tyS [] (st0 true) = .error .enumErrorNotAllowed := by rfl
example : ∃ r, enumPlan conv (cx0 goodMap "@error".toList) tyC tyS [] (st0 false) = .ok (r, flagRet 0 (st0 false)) ∧
    RetErr 0 (flagRet 0 (st0 false)) := ⟨.enumc [("Crimson".toList, .int 0, .member "Blue".toList (.int 5)), ("Teal".toList, .int 1, .member "Red".toList (.int 7))]
      (.error { mode := .none, path := [] }), by rfl, _, rfl, rfl⟩

-- enum:map key that is no member
example : enumPlan conv (cx0 (goodMap ++ [("Pink".toList, "Red".toList)]) "@panic".toList) tyC tyS [] (st0 true) = .error .enumKeyMissing := by
  rfl
example : ∃ e, enumPlan conv (cx0 badMap "@panic".toList) tyC tyS [] (st0 true) = .error e :=
  C08_equal_values_must_agree conv _ tyC tyS [] (st0 true) color.consts shade.consts [] rfl rfl rfl
    ⟨"Crimson".toList, true, .int 0⟩ ⟨"Red".toList, true, .int 0⟩ (by simp [color]) (by simp [color]) rfl (by decide)
example : ∃ e, enumPlan conv (cx0 goodMap "@error".toList) tyC tyS [] (st0 true) = .error e :=
  C08_error_action_fails_without_error_result conv _ tyC tyS [] (st0 true) (meth true) rfl rfl rfl
    color.consts shade.consts [] rfl rfl rfl (.inr rfl)
end Ex
/-! ### end to end: the generated switch at run time (`Gv/Proofs/EnumRun.lean`) -/

open Gv.EnumRun in
/-- **C08_end_to_end**: whatever `enumPlan` generates, for every program, fuel ≥ 1, frame, previous target value and
counter:
(2) on every value that is not the runtime value `.basic (constRepr sd.val)` of a declared source member (another payload,
or not a basic value at all) the switch does exactly what `enum:unknown` prescribes (`RunsAs`: `@ignore` keeps what the
target held – its zero value when fresh, `C08_ignore_zero` –, `@panic` panics, `@error` returns the error wrapped as
configured at this position, KEY yields the runtime value of that target member);
(1) on the runtime value of a declared member `sd` it does exactly what the name chosen for `sd` (`chooseEnumTarget`:
enum:map, else transformers, else the same name) prescribes – also when `sd` shares its value, and so its `case`, with an
earlier member –, provided distinct member values print differently (`constRepr`, by which the switch compares). -/
theorem C08_end_to_end (c : Converter) (cx : Ctx) (s t : Ty) (path : List PathElem) (st st' : GState) (plan : Conv)
    (h : enumPlan c cx s t path st = .ok (plan, st')) :
    ∃ sm tm tmap,
      enumMembers c cx.cfg.common s = some sm ∧ enumMembers c cx.cfg.common t = some tm ∧
      enumTransformers c sm tm cx.cfg.transformers [] = .ok tmap ∧
      (∀ (p : Program) (fuel : Nat) (fr : Frame) (v old : Val) (n : Nat),
        (∀ sd, sd ∈ sm → v ≠ .basic (constRepr sd.val)) →
        RunsAs cx path tm fr old n cx.cfg.common.enumUnknown (evalConv p (fuel + 1) fr plan v old n)) ∧
      ((∀ a b, a ∈ sm → b ∈ sm → constRepr a.val = constRepr b.val → a.val = b.val) →
        ∀ sd, sd ∈ sm → ∀ (p : Program) (fuel : Nat) (fr : Frame) (old : Val) (n : Nat),
          RunsAs cx path tm fr old n (chooseEnumTarget cx.cfg.enumMap tmap sd.name)
            (evalConv p (fuel + 1) fr plan (.basic (constRepr sd.val)) old n)) := by
  obtain ⟨sm, tm, tmap, dflt, hsm, htm, htr, hd, h2, h1⟩ := enumPlan_run c cx s t path st st' plan h
  refine ⟨sm, tm, tmap, hsm, htm, htr, ?_, ?_⟩
  · intro p fuel fr v old n hv
    rw [h2 p fuel fr v old n hv]
    exact actionOf_runsAs cx path tm _ dflt hd fr old n
  · intro hinj sd hsd p fuel fr old n
    obtain ⟨act, hact, hrun⟩ := h1 hinj sd hsd
    rw [hrun p fuel fr old n]
    exact actionOf_runsAs cx path tm _ act hact fr old n

open Gv.EnumRun in
/-- the member ↦ member case spelled out: a source member whose chosen name is the target member `td` converts to `td`'s value -/
theorem C08_member_to_member (c : Converter) (cx : Ctx) (s t : Ty) (path : List PathElem) (st st' : GState) (plan : Conv)
    (h : enumPlan c cx s t path st = .ok (plan, st'))
    (sm tm : List ConstDecl) (tmap : List (S × S))
    (hsm : enumMembers c cx.cfg.common s = some sm) (htm : enumMembers c cx.cfg.common t = some tm)
    (htr : enumTransformers c sm tm cx.cfg.transformers [] = .ok tmap)
    (hinj : ∀ a b, a ∈ sm → b ∈ sm → constRepr a.val = constRepr b.val → a.val = b.val)
    (sd : ConstDecl) (hsd : sd ∈ sm) (td : ConstDecl)
    (hna : Settings.isEnumAction (chooseEnumTarget cx.cfg.enumMap tmap sd.name) = false)
    (htd : tm.find? (·.name == chooseEnumTarget cx.cfg.enumMap tmap sd.name) = some td)
    (p : Program) (fuel : Nat) (fr : Frame) (old : Val) (n : Nat) :
    evalConv p (fuel + 1) fr plan (.basic (constRepr sd.val)) old n = .ok (.basic (constRepr td.val), n) := by
  obtain ⟨sm', tm', tmap', hsm', htm', htr', _, h1⟩ := C08_end_to_end c cx s t path st st' plan h
  rw [hsm] at hsm'; cases hsm'
  rw [htm] at htm'; cases htm'
  rw [htr] at htr'; cases htr'
  have hact : ∀ a : S, Settings.isEnumAction a = true → chooseEnumTarget cx.cfg.enumMap tmap sd.name ≠ a := by
    intro a ha heq; rw [heq, ha] at hna; cases hna
  rcases h1 hinj sd hsd p fuel fr old n with ⟨hn, _⟩ | ⟨hn, _⟩ | ⟨hn, _⟩ | ⟨_, td', htd', hr⟩
  · exact absurd hn (hact _ (by decide))
  · exact absurd hn (hact _ (by decide))
  · exact absurd hn (hact _ (by decide))
  · rw [htd] at htd'; cases htd'; exact hr

/-! non-vacuity of the end-to-end theorem on the Color → Shade converter: a member, an alias member (`Red` shares the value 0
and the `case` of `Crimson`), a non-member, under three unknown policies -/
namespace Ex
open Gv.EnumRun

def casesGood : List (S × ConstVal × EnumAction) :=
  [("Crimson".toList, .int 0, .member "Blue".toList (.int 5)), ("Teal".toList, .int 1, .member "Red".toList (.int 7))]

theorem plan_of (unknown : S) (dflt : EnumAction) (hd : enumAction (cx0 goodMap unknown) [] shade.consts unknown (st0 true) = .ok (dflt, st0 true))
    (hne : unknown.isEmpty = false) :
    enumPlan conv (cx0 goodMap unknown) tyC tyS [] (st0 true) = .ok (.enumc casesGood dflt, st0 true) := by
  rw [EnumFail.enumPlan_eq' conv (cx0 goodMap unknown) tyC tyS [] (st0 true) color.consts shade.consts [] rfl rfl rfl]
  have hc : enumCases (cx0 goodMap unknown) [] shade.consts [] color.consts
      { remaining := if (cx0 goodMap unknown).fieldsTarget == tyS then (cx0 goodMap unknown).cfg.enumMap.map (·.1) else [] } (st0 true) =
      .ok ({ cases := casesGood, seenVals := [(.int 0, "Blue".toList), (.int 1, "Red".toList)], remaining := [] }, st0 true) := by rfl
  rw [hc]
  simp only []
  have : (cx0 goodMap unknown).cfg.common.enumUnknown = unknown := rfl
  rw [this, hne, hd]
  rfl

theorem colorInj : ∀ a b, a ∈ color.consts → b ∈ color.consts → constRepr a.val = constRepr b.val → a.val = b.val := by
  intro a b ha hb
  simp only [color, List.mem_cons, List.not_mem_nil, or_false] at ha hb
  rcases ha with rfl | rfl | rfl <;> rcases hb with rfl | rfl | rfl <;> decide

/-- `Crimson` (0) ↦ `Blue` (5), and the alias `Red` (0, mapped to `Navy` = 5) takes the same case -/
example (p : Program) (fuel : Nat) (fr : Frame) (old : Val) (n : Nat) :
    evalConv p (fuel + 1) fr (.enumc casesGood .panic) (.basic (constRepr (.int 0))) old n = .ok (.basic (constRepr (.int 5)), n) :=
  C08_member_to_member conv (cx0 goodMap "@panic".toList) tyC tyS [] (st0 true) (st0 true) _ (plan_of _ .panic rfl rfl)
    color.consts shade.consts [] rfl rfl rfl colorInj ⟨"Crimson".toList, true, .int 0⟩ (by simp [color])
    ⟨"Blue".toList, true, .int 5⟩ (by decide) rfl p fuel fr old n
example (p : Program) (fuel : Nat) (fr : Frame) (old : Val) (n : Nat) :
    evalConv p (fuel + 1) fr (.enumc casesGood .panic) (.basic (constRepr (.int 0))) old n = .ok (.basic (constRepr (.int 5)), n) :=
  C08_member_to_member conv (cx0 goodMap "@panic".toList) tyC tyS [] (st0 true) (st0 true) _ (plan_of _ .panic rfl rfl)
    color.consts shade.consts [] rfl rfl rfl colorInj ⟨"Red".toList, true, .int 0⟩ (by simp [color])
    ⟨"Navy".toList, true, .int 5⟩ (by decide) rfl p fuel fr old n

/-- 9 is the value of no member -/
theorem nine_unknown : ∀ sd, sd ∈ color.consts → Val.basic "9".toList ≠ .basic (constRepr sd.val) := by
  intro sd hsd
  simp only [color, List.mem_cons, List.not_mem_nil, or_false] at hsd
  rcases hsd with rfl | rfl | rfl <;> (intro h; have := Val.basic.inj h; revert this; decide)

/-- … and follows enum:unknown: `@panic` panics, `@ignore` keeps the target, `Blue` yields 5 -/
example (p : Program) (fuel : Nat) (fr : Frame) (old : Val) (n : Nat) :
    RunsAs (cx0 goodMap "@panic".toList) [] shade.consts fr old n "@panic".toList
      (evalConv p (fuel + 1) fr (.enumc casesGood .panic) (.basic "9".toList) old n) := by
  obtain ⟨sm, tm, tmap, hsm, htm, _, h2, _⟩ :=
    C08_end_to_end conv (cx0 goodMap "@panic".toList) tyC tyS [] (st0 true) (st0 true) _ (plan_of _ .panic rfl rfl)
  cases hsm; cases htm
  exact h2 p fuel fr _ old n nine_unknown
example (p : Program) (fuel : Nat) (fr : Frame) (old : Val) (n : Nat) :
    evalConv p (fuel + 1) fr (.enumc casesGood .panic) (.basic "9".toList) old n = .panic .enumUnknown := by
  obtain ⟨sm, tm, tmap, hsm, htm, _, h2, _⟩ :=
    C08_end_to_end conv (cx0 goodMap "@panic".toList) tyC tyS [] (st0 true) (st0 true) _ (plan_of _ .panic rfl rfl)
  cases hsm; cases htm
  rcases h2 p fuel fr _ old n nine_unknown with ⟨hn, _⟩ | ⟨_, hr⟩ | ⟨hn, _⟩ | ⟨hn, _⟩
  · exact absurd hn (by decide)
  · exact hr
  · exact absurd hn (by decide)
  · exact absurd hn (by decide)
example (p : Program) (fuel : Nat) (fr : Frame) (old : Val) (n : Nat) :
    evalConv p (fuel + 1) fr (.enumc casesGood .ignore) (.basic "9".toList) old n = .ok (old, n) := by
  obtain ⟨sm, tm, tmap, hsm, htm, _, h2, _⟩ :=
    C08_end_to_end conv (cx0 goodMap "@ignore".toList) tyC tyS [] (st0 true) (st0 true) _ (plan_of _ .ignore rfl rfl)
  cases hsm; cases htm
  rcases h2 p fuel fr _ old n nine_unknown with ⟨_, hr⟩ | ⟨hn, _⟩ | ⟨hn, _⟩ | ⟨hn, _⟩
  · exact hr
  · exact absurd hn (by decide)
  · exact absurd hn (by decide)
  · exact absurd hn (by decide)
example (p : Program) (fuel : Nat) (fr : Frame) (old : Val) (n : Nat) :
    evalConv p (fuel + 1) fr (.enumc casesGood (.member "Blue".toList (.int 5))) (.basic "9".toList) old n =
      .ok (.basic (constRepr (.int 5)), n) := by
  obtain ⟨sm, tm, tmap, hsm, htm, _, h2, _⟩ :=
    C08_end_to_end conv (cx0 goodMap "Blue".toList) tyC tyS [] (st0 true) (st0 true) _ (plan_of _ (.member "Blue".toList (.int 5)) rfl rfl)
  cases hsm; cases htm
  rcases h2 p fuel fr _ old n nine_unknown with ⟨hn, _⟩ | ⟨hn, _⟩ | ⟨hn, _⟩ | ⟨_, td, htd, hr⟩
  · exact absurd hn (by decide)
  · exact absurd hn (by decide)
  · exact absurd hn (by decide)
  · have : td = ⟨"Blue".toList, true, .int 5⟩ := by
      have h0 : shade.consts.find? (fun x => x.name == "Blue".toList) = some ⟨"Blue".toList, true, .int 5⟩ := rfl
      have : (cx0 goodMap "Blue".toList).cfg.common.enumUnknown = "Blue".toList := rfl
      rw [this, h0] at htd; cases htd; rfl
    subst this; exact hr

/-- why the printing hypothesis is there: the switch compares printed values, so two members whose DIFFERENT values print
alike (an untyped model artefact: `1` and `"1"`) would share the first case -/
theorem C08_repr_collision_witness (p : Program) (fuel : Nat) (fr : Frame) (old : Val) (n : Nat) :
    evalConv p (fuel + 1) fr
      (.enumc [("A".toList, .int 1, .member "X".toList (.int 10)), ("B".toList, .str "1".toList, .member "Y".toList (.int 20))] .panic)
      (.basic (constRepr (.str "1".toList))) old n = .ok (.basic (constRepr (.int 10)), n) := by
  rw [evalConv_enumc]
  rfl
end Ex
/-! ### round 5: checked hypotheses, one total run-time statement, the remaining exact diagnostics (`Gv/Proofs/EnumCheck.lean`) -/

open Gv.EnumRun Gv.EnumCheck in
/-- **C08_run_total**: the run-time half of C08 as ONE statement over every value, with a checker for its only
hypothesis.  If `enumPlan` succeeds and the checker `reprInjB sm` accepts the source members (members whose values print
alike have equal values; sound and complete: `reprInjB_sound`/`_complete`), then on EVERY source value `v` the generated
switch does what the name `runName cx tmap sm v` prescribes: the chosen name of the source member printing like `v`, else
`enum:unknown` (also for a value that is not basic) -/
theorem C08_run_total (c : Converter) (cx : Ctx) (s t : Ty) (path : List PathElem) (st st' : GState) (plan : Conv)
    (h : enumPlan c cx s t path st = .ok (plan, st')) :
    ∃ sm tm tmap,
      enumMembers c cx.cfg.common s = some sm ∧ enumMembers c cx.cfg.common t = some tm ∧
      enumTransformers c sm tm cx.cfg.transformers [] = .ok tmap ∧
      (reprInjB sm = true →
        ∀ (p : Program) (fuel : Nat) (fr : Frame) (v old : Val) (n : Nat),
          RunsAs cx path tm fr old n (runName cx tmap sm v) (evalConv p (fuel + 1) fr plan v old n)) := by
  obtain ⟨sm, tm, tmap, hsm, htm, htr, h2, h1⟩ := C08_end_to_end c cx s t path st st' plan h
  refine ⟨sm, tm, tmap, hsm, htm, htr, ?_⟩
  intro hinj p fuel fr v old n
  have hnon : ∀ v : Val, (∀ r, v ≠ .basic r) → RunsAs cx path tm fr old n (runName cx tmap sm v) (evalConv p (fuel + 1) fr plan v old n) := by
    intro v hv
    have : runName cx tmap sm v = cx.cfg.common.enumUnknown := by
      cases v <;> first | rfl | exact absurd rfl (hv _)
    rw [this]
    exact h2 p fuel fr v old n (fun sd _ => hv _)
  cases v with
  | basic r =>
    unfold runName
    simp only []
    cases hf : sm.find? (fun sd => constRepr sd.val == r) with
    | some sd =>
      have hm : sd ∈ sm := List.mem_of_find?_eq_some hf
      have hr : constRepr sd.val = r := by simpa using List.find?_some hf
      subst hr
      exact h1 (reprInjB_sound sm hinj) sd hm p fuel fr old n
    | none =>
      refine h2 p fuel fr _ old n ?_
      intro sd hsd heq
      have := (List.find?_eq_none.1 hf) sd hsd
      exact this (by simp [Val.basic.inj heq])
  | nil => exact hnon _ (fun _ h => by cases h)
  | ptr _ _ => exact hnon _ (fun _ h => by cases h)
  | slice _ _ => exact hnon _ (fun _ h => by cases h)
  | arr _ => exact hnon _ (fun _ h => by cases h)
  | map _ _ => exact hnon _ (fun _ h => by cases h)
  | struct _ => exact hnon _ (fun _ h => by cases h)
  | tok _ _ => exact hnon _ (fun _ h => by cases h)
  | absent => exact hnon _ (fun _ h => by cases h)

open Gv.EnumFail Gv.EnumCheck in
/-- exact diagnostic `enumInvalidTarget`: the first failing position (a member after a prefix that went through, or
`enum:unknown` after all members) names an `@…` that is none of the three actions -/
theorem C08_invalid_target_diag_iff (c : Converter) (cx : Ctx) (s t : Ty) (path : List PathElem) (st : GState)
    (sm tm : List ConstDecl) (tmap : List (S × S))
    (hsm : enumMembers c cx.cfg.common s = some sm) (htm : enumMembers c cx.cfg.common t = some tm)
    (htr : enumTransformers c sm tm cx.cfg.transformers [] = .ok tmap) :
    enumPlan c cx s t path st = .error .enumInvalidTarget ↔
      (∃ pre sd post, sm = pre ++ sd :: post ∧ LoopOK cx st tm tmap pre ∧
        Settings.isEnumAction (chooseEnumTarget cx.cfg.enumMap tmap sd.name) = true ∧
        chooseEnumTarget cx.cfg.enumMap tmap sd.name ≠ "@ignore".toList ∧
        chooseEnumTarget cx.cfg.enumMap tmap sd.name ≠ "@panic".toList ∧
        chooseEnumTarget cx.cfg.enumMap tmap sd.name ≠ "@error".toList) ∨
      (LoopOK cx st tm tmap sm ∧ cx.cfg.common.enumUnknown.isEmpty = false ∧
        Settings.isEnumAction cx.cfg.common.enumUnknown = true ∧ cx.cfg.common.enumUnknown ≠ "@ignore".toList ∧
        cx.cfg.common.enumUnknown ≠ "@panic".toList ∧ cx.cfg.common.enumUnknown ≠ "@error".toList) := by
  rw [C08_fail_iff c cx s t path st sm tm tmap hsm htm htr]
  constructor
  · rintro (⟨pre, sd, post, hl, hpre, h | ⟨_, h, _⟩⟩ | ⟨_, _, h⟩ | ⟨hl, hu, h⟩ | ⟨_, _, _, h, _⟩)
    · exact .inl ⟨pre, sd, post, hl, hpre, (enumActionDiag_invalid_iff cx st tm _).1 h⟩
    · cases h
    · cases h
    · exact .inr ⟨hl, hu, (enumActionDiag_invalid_iff cx st tm _).1 h⟩
    · cases h
  · rintro (⟨pre, sd, post, hl, hpre, h⟩ | ⟨hl, hu, h⟩)
    · exact .inl ⟨pre, sd, post, hl, hpre, .inl ((enumActionDiag_invalid_iff cx st tm _).2 h)⟩
    · exact .inr (.inr (.inl ⟨hl, hu, (enumActionDiag_invalid_iff cx st tm _).2 h⟩))

open Gv.EnumFail Gv.EnumCheck in
/-- exact diagnostic `enumErrorNotAllowed`: the first failing position names `@error` and `ReturnError` refuses (some method
on the origin path is explicit without an error result) -/
theorem C08_error_not_allowed_diag_iff (c : Converter) (cx : Ctx) (s t : Ty) (path : List PathElem) (st : GState)
    (sm tm : List ConstDecl) (tmap : List (S × S))
    (hsm : enumMembers c cx.cfg.common s = some sm) (htm : enumMembers c cx.cfg.common t = some tm)
    (htr : enumTransformers c sm tm cx.cfg.transformers [] = .ok tmap) :
    enumPlan c cx s t path st = .error .enumErrorNotAllowed ↔
      (∃ s1, returnError cx st = .ok (false, s1)) ∧
      ((∃ pre sd post, sm = pre ++ sd :: post ∧ LoopOK cx st tm tmap pre ∧
          chooseEnumTarget cx.cfg.enumMap tmap sd.name = "@error".toList) ∨
       (LoopOK cx st tm tmap sm ∧ cx.cfg.common.enumUnknown = "@error".toList)) := by
  rw [C08_fail_iff c cx s t path st sm tm tmap hsm htm htr]
  constructor
  · rintro (⟨pre, sd, post, hl, hpre, h | ⟨_, h, _⟩⟩ | ⟨_, _, h⟩ | ⟨hl, hu, h⟩ | ⟨_, _, _, h, _⟩)
    · obtain ⟨h1, h2⟩ := (enumActionDiag_notAllowed_iff cx st tm _).1 h
      exact ⟨h2, .inl ⟨pre, sd, post, hl, hpre, h1⟩⟩
    · cases h
    · cases h
    · obtain ⟨h1, h2⟩ := (enumActionDiag_notAllowed_iff cx st tm _).1 h
      exact ⟨h2, .inr ⟨hl, h1⟩⟩
    · cases h
  · rintro ⟨hre, ⟨pre, sd, post, hl, hpre, h⟩ | ⟨hl, h⟩⟩
    · exact .inl ⟨pre, sd, post, hl, hpre, .inl ((enumActionDiag_notAllowed_iff cx st tm _).2 ⟨h, hre⟩)⟩
    · refine .inr (.inr (.inl ⟨hl, ?_, (enumActionDiag_notAllowed_iff cx st tm _).2 ⟨h, hre⟩⟩))
      rw [h]; rfl

open Gv.EnumFail in
/-- exact diagnostic `enumKeyMissing`: everything else went through, and an `enum:map` key of the method's own target is no
source member -/
theorem C08_key_missing_diag_iff (c : Converter) (cx : Ctx) (s t : Ty) (path : List PathElem) (st : GState)
    (sm tm : List ConstDecl) (tmap : List (S × S))
    (hsm : enumMembers c cx.cfg.common s = some sm) (htm : enumMembers c cx.cfg.common t = some tm)
    (htr : enumTransformers c sm tm cx.cfg.transformers [] = .ok tmap) :
    enumPlan c cx s t path st = .error .enumKeyMissing ↔
      LoopOK cx st tm tmap sm ∧ cx.cfg.common.enumUnknown.isEmpty = false ∧
      enumResolves cx st tm cx.cfg.common.enumUnknown = true ∧ (cx.fieldsTarget == t) = true ∧
      ∃ k, k ∈ cx.cfg.enumMap.map (·.1) ∧ ∀ sd, sd ∈ sm → sd.name ≠ k := by
  rw [C08_fail_iff c cx s t path st sm tm tmap hsm htm htr]
  constructor
  · rintro (⟨pre, sd, post, hl, hpre, h | ⟨_, h, _⟩⟩ | ⟨_, _, h⟩ | ⟨hl, hu, h⟩ | ⟨hl, hu, hr, _, hft, hk⟩)
    · rcases enumActionDiag_kinds cx st tm _ _ h with h | h | h | h <;> cases h
    · cases h
    · cases h
    · rcases enumActionDiag_kinds cx st tm _ _ h with h | h | h | h <;> cases h
    · exact ⟨hl, hu, hr, hft, hk⟩
  · rintro ⟨hl, hu, hr, hft, hk⟩
    exact .inr (.inr (.inr ⟨hl, hu, hr, rfl, hft, hk⟩))

namespace Ex
open Gv.EnumRun Gv.EnumCheck Gv.EnumFail

example : reprInjB color.consts = true := by decide
/-- which name a value follows: 0 is `Crimson`'s value (↦ `Blue`), 9 is nobody's (↦ enum:unknown) -/
example : runName (cx0 goodMap "@panic".toList) [] color.consts (.basic (constRepr (.int 0))) = "Blue".toList := by decide
example : runName (cx0 goodMap "@panic".toList) [] color.consts (.basic "9".toList) = "@panic".toList := by decide
example : runName (cx0 goodMap "@panic".toList) [] color.consts .nil = "@panic".toList := rfl
/-- the total statement applied: on the value 1 (`Teal` ↦ `Red` = 7) and on a nil value (↦ `@panic`) -/
example (p : Program) (fuel : Nat) (fr : Frame) (v old : Val) (n : Nat) :
    RunsAs (cx0 goodMap "@panic".toList) [] shade.consts fr old n (runName (cx0 goodMap "@panic".toList) [] color.consts v)
      (evalConv p (fuel + 1) fr (.enumc casesGood .panic) v old n) := by
  obtain ⟨sm, tm, tmap, hsm, htm, htr, hrun⟩ :=
    C08_run_total conv (cx0 goodMap "@panic".toList) tyC tyS [] (st0 true) (st0 true) _ (plan_of _ .panic rfl rfl)
  cases hsm; cases htm
  have : tmap = [] := by
    have h0 : enumTransformers conv color.consts shade.consts (cx0 goodMap "@panic".toList).cfg.transformers [] = .ok [] := rfl
    rw [h0] at htr; cases htr; rfl
  subst this
  exact hrun (by decide) p fuel fr v old n

/-- the three diagnostics, on the converter: an unknown `@foo` policy, `@error` in an explicit method, a stray enum:map key -/
example : enumPlan conv (cx0 goodMap "@foo".toList) tyC tyS [] (st0 true) = .error .enumInvalidTarget := by rfl
example : LoopOK (cx0 goodMap "@foo".toList) (st0 true) shade.consts [] color.consts := by
  rcases (C08_invalid_target_diag_iff conv (cx0 goodMap "@foo".toList) tyC tyS [] (st0 true) color.consts shade.consts [] rfl rfl rfl).1
    (by rfl) with ⟨pre, sd, post, hl, _, h1, _, _, _⟩ | ⟨hl, _⟩
  · exfalso
    have hmem : sd ∈ color.consts := by rw [hl]; simp
    simp only [color, List.mem_cons, List.not_mem_nil, or_false] at hmem
    rcases hmem with rfl | rfl | rfl <;> revert h1 <;> decide
  · exact hl
example : ∃ s1, returnError (cx0 goodMap "@error".toList) (st0 true) = .ok (false, s1) :=
  ((C08_error_not_allowed_diag_iff conv (cx0 goodMap "@error".toList) tyC tyS [] (st0 true) color.consts shade.consts [] rfl rfl rfl).1
    (by rfl)).1
example : ∃ k, k ∈ (cx0 (goodMap ++ [("Pink".toList, "Red".toList)]) "@panic".toList).cfg.enumMap.map (·.1) ∧
    ∀ sd, sd ∈ color.consts → sd.name ≠ k :=
  ((C08_key_missing_diag_iff conv (cx0 (goodMap ++ [("Pink".toList, "Red".toList)]) "@panic".toList) tyC tyS [] (st0 true)
    color.consts shade.consts [] rfl rfl rfl).1 (by rfl)).2.2.2.2
end Ex

end Gv.Props.C08
