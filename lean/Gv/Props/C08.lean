/-
C08 – enum conversion is a total name-driven mapping with the set unknown-value policy.

Model: Gv.Gen.enumMembers (detection), Gv.Gen.enumPlan (mapping: enum:map, transformers, same name; duplicate
values; unknown policy) and Gv.Eval (switch semantics).  Tied to the code by facts (kind mask, actions) and by
the C08 campaign (int/uint8/string enums with duplicate-valued members, all policies, four positions, member
and non-member values) and the enum scenarios of the repository.
-/
import Gv.Model.Eval
import Gv.Model.Gen
import Gv.Proofs.EvalLemmas
import Gv.Proofs.EnumLemmas

namespace Gv.Props.C08
open Gv Gv.Str Gv.Eval Gv.Gen

/-! ### static ties -/
theorem tie_enum_kind_mask : Facts.enumKindMask = "(types.IsFloat | types.IsString | types.IsInteger)" := by decide
theorem tie_enum_actions : Facts.enumActions = ["@panic", "@error", "@ignore"] := by decide

/-- the kinds accepted by the mask: every integer kind (incl. uintptr), floats and string — not bool, complex, unsafe.Pointer -/
theorem C08_kinds (k : Kind) :
    k.enumOK = (k ∈ [Kind.int, .int8, .int16, .int32, .int64, .uint, .uint8, .uint16, .uint32, .uint64, .uintptr, .float32, .float64, .string, .byte, .rune]) := by
  cases k <;> decide

/-- **C08_detect**: a type is an enum iff it is a named type of a package, enum detection is enabled, it is not
excluded, its underlying type is of an accepted kind, and at least one constant of exactly that type exists -/
theorem C08_detect (c : Converter) (cfg : Settings.Common) (t : Ty) (ms : List ConstDecl) :
    enumMembers c cfg t = some ms ↔
      ∃ id d k, t = .named id ∧ c.env.find id = some d ∧ d.pkgPath.isEmpty = false ∧ cfg.enumEnabled = true ∧
        cfg.enumExcludes.any (fun (pn : S × S) => c.orc.rxMatch pn.1 d.pkgPath && c.orc.rxMatch pn.2 d.name) = false ∧
        d.underlying = .basic k ∧ k.enumOK = true ∧ d.consts.isEmpty = false ∧ ms = d.consts := by
  constructor
  · intro h
    unfold enumMembers at h
    split at h
    · rename_i id
      split at h
      · cases h
      · rename_i d hd
        split at h
        · cases h
        · rename_i hp
          split at h
          · cases h
          · rename_i he
            split at h
            · cases h
            · rename_i hx
              split at h
              · rename_i k hk
                split at h
                · rename_i hok
                  cases h
                  simp only [Bool.and_eq_true, Bool.not_eq_true'] at hok
                  exact ⟨id, d, k, rfl, hd, by simpa using hp, by simpa using he, by simpa using hx, hk, hok.1, hok.2, rfl⟩
                · cases h
              · cases h
    · cases h
  · rintro ⟨id, d, k, rfl, hd, hp, he, hx, hk, hok, hc, rfl⟩
    simp [enumMembers, hd, hp, he, hx, hk, hok, hc]

/-- only named types can be enums; pointers, slices, structs never are -/
theorem C08_unnamed_never_enum (c : Converter) (cfg : Settings.Common) (t : Ty) (h : t.isNamed = false) :
    enumMembers c cfg t = none := by
  cases t <;> simp_all [enumMembers, Ty.isNamed]

/-- `enum no` switches detection off for every type -/
theorem C08_disabled (c : Converter) (cfg : Settings.Common) (s t : Ty) (h : cfg.enumEnabled = false) :
    isEnumPair c cfg s t = false := by
  simp [isEnumPair, h]

/-! ### run time: the switch -/

variable (p : Program) (fr : Frame)

/-- **C08_runtime (member)**: a declared member value yields the mapped target member's value -/
theorem C08_runtime_member (fuel : Nat) (name tname : S) (v tv : ConstVal) (rest : List (S × ConstVal × EnumAction)) (dflt : EnumAction) (old : Val) (n : Nat) :
    evalConv p (fuel+1) fr (.enumc ((name, v, .member tname tv) :: rest) dflt) (.basic (constRepr v)) old n = .ok (.basic (constRepr tv), n) := by
  simp [evalConv, applyEnumAction, List.find?, pure, StateT.pure]

/-- **C08_runtime (unknown value)**: a value that matches no case follows enum:unknown exactly -/
theorem C08_runtime_unknown (fuel : Nat) (cases : List (S × ConstVal × EnumAction)) (r : S) (old : Val) (n : Nat)
    (hno : cases.find? (fun (x : S × ConstVal × EnumAction) => constRepr x.2.1 == r) = none) :
    (∀ tname tv, evalConv p (fuel+1) fr (.enumc cases (.member tname tv)) (.basic r) old n = .ok (.basic (constRepr tv), n)) ∧
    evalConv p (fuel+1) fr (.enumc cases .ignore) (.basic r) old n = .ok (old, n) ∧
    evalConv p (fuel+1) fr (.enumc cases .panic) (.basic r) old n = .panic .enumUnknown ∧
    (∀ w, evalConv p (fuel+1) fr (.enumc cases (.error w)) (.basic r) old n = .err (wrapErr w fr.idx fr.keys .enumUnknown)) := by
  refine ⟨fun tname tv => ?_, ?_, ?_, fun w => ?_⟩ <;>
    simp [evalConv, applyEnumAction, hno, pure, StateT.pure, panicE, errE]

/-- `@ignore` as unknown policy on a fresh target yields the zero value -/
theorem C08_ignore_zero (fuel : Nat) (cases : List (S × ConstVal × EnumAction)) (r : S) (n : Nat)
    (hno : cases.find? (fun (x : S × ConstVal × EnumAction) => constRepr x.2.1 == r) = none) (k : Kind) :
    evalConv p (fuel+1) fr (.enumc cases .ignore) (.basic r) (.basic (zeroBasic k)) n = .ok (.basic (zeroBasic k), n) :=
  (C08_runtime_unknown p fr fuel cases r _ n hno).2.1

/-! ### which target member a source member is mapped to (builder/enum.go: enum:map, then transformers, then the same name) -/

/-- an explicit `enum:map` entry wins, also when it names the member itself and a transformer maps it elsewhere -/
theorem C08_map_wins (enumMap tmap : List (S × S)) (name x : S) (h : enumMap.lookup name = some x) :
    chooseEnumTarget enumMap tmap name = x := by
  unfold chooseEnumTarget; simp [h]

/-- without an entry, the transformers decide -/
theorem C08_transformer_next (enumMap tmap : List (S × S)) (name y : S) (h1 : enumMap.lookup name = none)
    (h2 : tmap.lookup name = some y) : chooseEnumTarget enumMap tmap name = y := by
  unfold chooseEnumTarget; simp [h1, h2]

/-- without either, the member keeps its name -/
theorem C08_same_name_last (enumMap tmap : List (S × S)) (name : S) (h1 : enumMap.lookup name = none)
    (h2 : tmap.lookup name = none) : chooseEnumTarget enumMap tmap name = name := by
  unfold chooseEnumTarget; simp [h1, h2]

/-- a later transformer overrides an earlier one exactly for the members it maps … -/
theorem C08_later_transformer_overrides (tmap m : List (S × S)) (name y : S) (h : m.lookup name = some y)
    (hk : ∀ k v, (k, v) ∈ tmap → m.any (fun e => e.1 == k) = true ∨ k ≠ name) :
    (mergeTransformer tmap m).lookup name = some y := by
  unfold mergeTransformer
  have hnone : (tmap.filter (fun (e : S × S) => !m.any (fun x => x.1 == e.1))).lookup name = none := by
    induction tmap with
    | nil => rfl
    | cons a t ih =>
      obtain ⟨k, v⟩ := a
      have iht := ih (fun k' v' hm => hk k' v' (List.mem_cons_of_mem _ hm))
      simp only [List.filter_cons]
      cases hany : m.any (fun x => x.1 == k) with
      | true => simpa [hany] using iht
      | false =>
        simp only [hany, Bool.not_false, if_true, List.lookup]
        rcases hk k v (List.mem_cons_self ..) with h1 | h1
        · rw [hany] at h1; cases h1
        · have : (name == k) = false := by
            cases hh : (name == k) with
            | false => rfl
            | true => exact absurd (by simpa using hh : name = k).symm h1
          simpa [this] using iht
  have hfun : (fun (x : S × S) => match x with | (k, _) => !m.any (fun e => e.1 == k)) = (fun (e : S × S) => !m.any (fun x => x.1 == e.1)) := by
    funext x; obtain ⟨a, b⟩ := x; rfl
  rw [hfun]
  rw [List.lookup_append, hnone]
  simpa using h

/-! ### the generated mapping is total and name-driven (`Gv.Gen.enumPlan`) -/

open Gv.EnumLemmas in
/-- what a successful `enumPlan` went through -/
theorem enumPlan_inv (c : Converter) (cx : Ctx) (s t : Ty) (path : List PathElem) (st st' : GState) (r : Conv)
    (h : enumPlan c cx s t path st = .ok (r, st')) :
    ∃ sm tm tmap acc dflt s1 s2 s3,
      enumMembers c cx.cfg.common s = some sm ∧ enumMembers c cx.cfg.common t = some tm ∧
      enumTransformers c sm tm cx.cfg.transformers [] = .ok tmap ∧
      enumCases cx path tm tmap sm { remaining := if cx.fieldsTarget == t then cx.cfg.enumMap.map (·.1) else [] } s1 = .ok (acc, s2) ∧
      cx.cfg.common.enumUnknown.isEmpty = false ∧
      enumAction cx path tm cx.cfg.common.enumUnknown s2 = .ok (dflt, s3) ∧
      acc.remaining.isEmpty = true ∧ r = .enumc acc.cases dflt := by
  unfold enumPlan at h
  cases hsm : enumMembers c cx.cfg.common s with
  | none => rw [hsm] at h; simp only [] at h; exact absurd h (by rw [M_fail_ok]; exact id)
  | some sm =>
    rw [hsm] at h; simp only [] at h
    cases htm : enumMembers c cx.cfg.common t with
    | none => rw [htm] at h; simp only [] at h; exact absurd h (by rw [M_fail_ok]; exact id)
    | some tm =>
      rw [htm] at h; simp only [] at h
      obtain ⟨tmap, s1, h1, h2⟩ := (M_bind_ok _ _ _ _).1 h
      cases htr : enumTransformers c sm tm cx.cfg.transformers [] with
      | error e => rw [htr] at h1; simp only [] at h1; exact absurd h1 (by rw [M_fail_ok]; exact id)
      | ok tmap' =>
        rw [htr] at h1; simp only [] at h1
        have := (M_pure_ok _ _ _).1 h1
        cases this
        obtain ⟨acc, s2, h3, h4⟩ := (M_bind_ok _ _ _ _).1 h2
        split at h4
        · exact absurd h4 (by
            intro h4
            obtain ⟨_, _, hf, _⟩ := (M_bind_ok _ _ _ _).1 h4
            exact (M_fail_ok _ _ _).1 hf)
        · rename_i hunk
          obtain ⟨dflt, s3, h6, h7⟩ := (M_bind_ok _ _ _ _).1 h4
          split at h7
          · exact absurd h7 (by
              intro h7
              obtain ⟨_, _, hf, _⟩ := (M_bind_ok _ _ _ _).1 h7
              exact (M_fail_ok _ _ _).1 hf)
          · rename_i hrem
            have := (M_pure_ok _ _ _).1 h7
            cases this
            exact ⟨sm, tm, tmap, acc, dflt, _, _, _, rfl, rfl, htr, h3, by simpa using hunk, h6, by simpa using hrem, rfl⟩

open Gv.EnumLemmas in
/-- **total**: a generated enum conversion has a case for the value of EVERY declared member of the source enum (members
sharing a value share the case), and a configured unknown policy for everything else -/
theorem C08_total (c : Converter) (cx : Ctx) (s t : Ty) (path : List PathElem) (st st' : GState) (r : Conv)
    (h : enumPlan c cx s t path st = .ok (r, st')) :
    ∃ sm cases dflt, enumMembers c cx.cfg.common s = some sm ∧ r = .enumc cases dflt ∧
      cx.cfg.common.enumUnknown.isEmpty = false ∧ ∀ sd, sd ∈ sm → ∃ x, x ∈ cases ∧ x.2.1 = sd.val := by
  obtain ⟨sm, tm, tmap, acc, dflt, s1, s2, s3, hsm, _, _, hc, hu, _, _, hr⟩ := enumPlan_inv c cx s t path st st' r h
  obtain ⟨_, _, hcov⟩ := enumCases_cover cx path tm tmap sm _ acc s1 s2 hc (by simp [Sync])
  exact ⟨sm, acc.cases, dflt, hsm, hr, hu, hcov⟩

open Gv.EnumLemmas in
/-- **name-driven**: every case belongs to a source member, and its action is what the name chosen for that member
(`chooseEnumTarget`: enum:map, then the transformers, then the same name) means: a member of the target enum with that
name, or one of the three actions -/
theorem C08_name_driven (c : Converter) (cx : Ctx) (s t : Ty) (path : List PathElem) (st st' : GState) (cases : List (S × ConstVal × EnumAction))
    (dflt : EnumAction) (h : enumPlan c cx s t path st = .ok (.enumc cases dflt, st')) :
    ∃ sm tm tmap, enumMembers c cx.cfg.common s = some sm ∧ enumMembers c cx.cfg.common t = some tm ∧
      enumTransformers c sm tm cx.cfg.transformers [] = .ok tmap ∧
      ∀ x, x ∈ cases → ∃ sd, sd ∈ sm ∧ x.1 = sd.name ∧ x.2.1 = sd.val ∧
        ∃ s1 s2, enumAction cx path tm (chooseEnumTarget cx.cfg.enumMap tmap sd.name) s1 = .ok (x.2.2, s2) := by
  obtain ⟨sm, tm, tmap, acc, dflt', s1, s2, s3, hsm, htm, htr, hc, _, _, _, hr⟩ := enumPlan_inv c cx s t path st st' _ h
  cases hr
  refine ⟨sm, tm, tmap, hsm, htm, htr, ?_⟩
  intro x hx
  rcases enumCases_name_driven cx path tm tmap sm _ acc s1 s2 hc x hx with h0 | h1
  · cases h0
  · exact h1

open Gv.EnumLemmas in
/-- an `enum:map KEY …` whose KEY is not a member of the source enum fails the generation -/
theorem C08_map_key_must_be_member (c : Converter) (cx : Ctx) (s t : Ty) (path : List PathElem) (st : GState) (sm : List ConstDecl)
    (hsm : enumMembers c cx.cfg.common s = some sm) (hft : (cx.fieldsTarget == t) = true)
    (k : S) (hk : k ∈ cx.cfg.enumMap.map (·.1)) (hne : ∀ sd, sd ∈ sm → sd.name ≠ k) :
    ∀ r st', enumPlan c cx s t path st ≠ .ok (r, st') := by
  intro r st' h
  obtain ⟨sm', tm, tmap, acc, dflt, s1, s2, s3, hsm', _, _, hc, _, _, hrem, _⟩ := enumPlan_inv c cx s t path st st' r h
  rw [hsm] at hsm'; cases hsm'
  have := enumCases_remaining cx path tm tmap sm _ acc s1 s2 hc k (by simp only [hft, if_true]; exact hk) hne
  cases hacc : acc.remaining with
  | nil => rw [hacc] at this; cases this
  | cons a b => rw [hacc] at hrem; simp at hrem

/-- what a transformer contributes: only pairs (source member, its replaced name) whose replaced name is a member of the target enum -/
theorem C08_transformer_pairs_sound (c : Converter) (pat repl : S) (tm : List ConstDecl) :
    ∀ (sm : List ConstDecl) (m : List (S × S)), transformerPairs c pat repl tm sm = .ok m →
      ∀ n tk, (n, tk) ∈ m → ∃ sd, sd ∈ sm ∧ sd.name = n ∧ c.orc.rxReplace pat repl n = some tk ∧ tm.any (·.name == tk) = true := by
  intro sm
  induction sm with
  | nil => intro m h n tk hm; unfold transformerPairs at h; cases h; cases hm
  | cons sd rest ih =>
    intro m h n tk hm
    unfold transformerPairs at h
    split at h
    · cases h
    · rename_i tk0 hrx
      split at h
      · cases h
      · rename_i m0 hrest
        cases h
        split at hm
        · rename_i hany
          rcases List.mem_cons.1 hm with heq | hin
          · cases heq
            exact ⟨sd, List.mem_cons_self, rfl, hrx, hany⟩
          · obtain ⟨sd', h1, h2, h3, h4⟩ := ih m0 hrest n tk hin
            exact ⟨sd', List.mem_cons_of_mem _ h1, h2, h3, h4⟩
        · obtain ⟨sd', h1, h2, h3, h4⟩ := ih m0 hrest n tk hm
          exact ⟨sd', List.mem_cons_of_mem _ h1, h2, h3, h4⟩

/-- and all of them: a source member whose replaced name is a target member is mapped by the transformer -/
theorem C08_transformer_pairs_complete (c : Converter) (pat repl : S) (tm : List ConstDecl) :
    ∀ (sm : List ConstDecl) (m : List (S × S)), transformerPairs c pat repl tm sm = .ok m →
      ∀ sd tk, sd ∈ sm → c.orc.rxReplace pat repl sd.name = some tk → tm.any (·.name == tk) = true → (sd.name, tk) ∈ m := by
  intro sm
  induction sm with
  | nil => intro m _ sd tk hsd; cases hsd
  | cons sd0 rest ih =>
    intro m h sd tk hsd hrx hany
    unfold transformerPairs at h
    split at h
    · cases h
    · rename_i tk0 hrx0
      split at h
      · cases h
      · rename_i m0 hrest
        cases h
        rcases List.mem_cons.1 hsd with rfl | hin
        · rw [hrx] at hrx0; cases hrx0
          simp [hany]
        · have := ih m0 hrest sd tk hin hrx hany
          split
          · exact List.mem_cons_of_mem _ this
          · exact this

end Gv.Props.C08
