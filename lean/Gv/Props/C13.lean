/-
C13 – goverter never panics or hangs; every input ends in output or a diagnostic.

What is proved here: every `panic(` call of the code base is in a reviewed table (tie re-checked against the
source on every run) and the model-level reason why each is unreachable; `toCodeBasic` covers every typed basic
kind.  Termination of the generator model is proved in Gv.Props.C03 (fuel bound).  Panics outside the
modelled sites (nil dereferences, index errors) can only be observed on the implementation: the C13 campaign
runs the real pipeline under recover() and a deadline over a grammar of types and mutated directives.
-/
import Gv.Model.Facts
import Gv.Model.Types
import Gv.Props.C14
import Gv.Proofs.GenFragment

namespace Gv.Props.C13
open Gv Gv.Signature

/-- why each explicit panic cannot be reached -/
inductive Why
  | errorPathNonEmpty      -- every builder.Error leaving buildMethod is lifted with the source/target element first
  | cliCommandsExhaustive  -- cli.Parse only returns Help, Generate or Version
  | noMultiSource          -- ParamsMultiSource is never enabled, so method.Parse rejects a second source
  | noTargetInCallee       -- custom functions are parsed without `update`; update methods are not in the lookup index
  | noInterfaceInGenerated -- methods to generate are parsed with Converter = nil
  | structChecked          -- every caller checks `.Struct` first
  | typedKindsOnly         -- only untyped/invalid basic kinds, tuples and type parameters fall through
  | chanDirsExhaustive
  deriving Repr, DecidableEq

def reviewed : List (String × Why) := [
  ("builder.ToString:oops that shouldn't happen", .errorPathNonEmpty),
  ("cli.Run:unknown command", .cliCommandsExhaustive),
  ("generator.generator.CallMethod:multi source aren't supported right now. https://github.com/jmattheis/goverter/issues/143", .noMultiSource),
  ("generator.generator.CallMethod:unreachable", .noTargetInCallee),
  ("generator.generator.buildMethod:hopefully unreachable", .noInterfaceInGenerated),
  ("generator.generator.buildMethod:multi source aren't supported right now. https://github.com/jmattheis/goverter/issues/143", .noMultiSource),
  ("generator.generator.delegateMethod:not supported atm", .noMultiSource),
  ("generator.generator.delegateMethod:unreachable", .noTargetInCallee),
  ("xtype.Type.findAllFields:trying to get field of non struct", .structChecked),
  ("xtype.ZeroValue:<dynamic>", .typedKindsOnly),
  ("xtype.ZeroValue:<dynamic>", .typedKindsOnly),
  ("xtype.applyTo:<dynamic>", .typedKindsOnly),
  ("xtype.toChan:<dynamic>", .chanDirsExhaustive),
  ("xtype.toCode:<dynamic>", .typedKindsOnly),
  ("xtype.toCodeBasic:<dynamic>", .typedKindsOnly)]

/-- **tie**: the explicit panics of the code are exactly the reviewed ones -/
theorem tie_panic_sites : Facts.panicSites = reviewed.map (·.1) := by decide

/-- no caller enables multi-source parsing -/
theorem tie_no_multi_source : Facts.multiSourceEnabledSites = [] := by decide

/-- the Go spelling of a kind in go/types (`types.Int` …) -/
def Kind.goConst : Kind → String
  | .bool => "Bool" | .int => "Int" | .int8 => "Int8" | .int16 => "Int16" | .int32 => "Int32" | .int64 => "Int64"
  | .uint => "Uint" | .uint8 => "Uint8" | .uint16 => "Uint16" | .uint32 => "Uint32" | .uint64 => "Uint64" | .uintptr => "Uintptr"
  | .float32 => "Float32" | .float64 => "Float64" | .complex64 => "Complex64" | .complex128 => "Complex128"
  | .string => "String" | .unsafePointer => "UnsafePointer" | .invalid => "Invalid"
  | .byte => "Uint8" | .rune => "Int32"

/-- **typedKindsOnly**: `toCodeBasic` has a case for every typed basic kind a field can have
(since the `fix:` commit for uintptr / unsafe.Pointer) -/
theorem C13_toCodeBasic_covers_typed_kinds (k : Kind) (h : k ≠ .invalid) :
    Kind.goConst k ∈ Facts.toCodeBasicKinds := by
  cases k <;> first | exact absurd rfl h | decide

/-- **noMultiSource**: with multi-source parsing off, no accepted function has an additional-source parameter -/
theorem C13_no_multi_source_arg (o : Opts) (obj : Obj) (d : Def) (h : parse o obj = .ok d) (hs : o.multiSource = false) :
    d.multiSources = [] := by
  obtain ⟨d0, a⟩ := C14.parse_accepted o obj d h
  exact a.single hs

/-- **noInterfaceInGenerated**: without a converter type no parameter is classified as the converter itself -/
theorem C13_no_interface_role (o : Opts) (seen : Bool) (p : Param) (h : p.isConverter = false) :
    roleOf o seen p ≠ .iface := by
  unfold roleOf
  simp only [h, Bool.false_eq_true, if_false]
  split
  · simp
  · split
    · simp
    · split <;> simp

/-- **noTargetInCallee**: without `update ARG` no parameter is classified as update target -/
theorem C13_no_target_role (o : Opts) (seen : Bool) (p : Param) (h : o.updateParam = []) :
    roleOf o seen p ≠ .target := by
  unfold roleOf
  simp only [h, List.isEmpty_nil, Bool.not_true, Bool.false_and, Bool.false_eq_true, if_false]
  split
  · simp
  · split
    · simp
    · split <;> simp

/-! ### an explicit termination bound on the fragment F of unnamed struct-free types

The generator model is fuelled; on F the fuel it needs is bounded by twice the number of type constructors of the pair
(`Gv.Spec.tySize`): above the bound the result is never `outOfFuel` – neither a success nor a failure is an artefact of the
fuel – and it does not depend on the fuel at all. -/

open Gv.Gen Gv.Spec in
/-- **termination bound on F** (one position, `generator.Build`/`Assign`): with fuel ≥ 2·(tySize s + tySize t) the result is
not `outOfFuel`, and any two such fuels give the same result (plan, state and diagnostic) -/
theorem C13_terminates_unnamed_fragment (c : Converter) (cx : Ctx) (st : GState) (z : Bool) (s t : Ty) (path : List PathElem)
    (mode : Mode) (pp : Bool)
    (hs : inF s = true) (ht : inF t = true)
    (hext : c.extend = []) (hms : plainMethods st.methods = true)
    (hu : cx.cfg.common.useUnderlying = false) (hsk : cx.cfg.common.skipCopySameType = false)
    (hz : cx.cfg.common.useZeroValue = z) (hc : st.useCtor = false) :
    (∀ fuel, 2 * (tySize s + tySize t) ≤ fuel → conv c fuel cx mode pp s t path st ≠ .error .outOfFuel) ∧
    (∀ f1 f2, 2 * (tySize s + tySize t) ≤ f1 → 2 * (tySize s + tySize t) ≤ f2 →
      conv c f1 cx mode pp s t path st = conv c f2 cx mode pp s t path st) := by
  have hsim := fun fuel hf =>
    conv_fragment c cx st z s t path fuel mode pp hs ht hf hext (plainMethods_upTo _ _ hms) hu hsk hz hc
  constructor
  · intro fuel hf
    rw [hsim fuel hf]
    cases hg : genF z (asgOf mode) s t with
    | ok q => intro h; cases h
    | error d =>
      intro h
      have hd : d = .outOfFuel := by simpa [ret] using h
      rcases genF_error z (asgOf mode) s t hs ht d hg with h1 | h1 <;> rw [h1] at hd <;> cases hd
  · intro f1 f2 h1 h2
    rw [hsim f1 h1, hsim f2 h2]

open Gv.Gen Gv.Spec in
/-- **termination bound on F** (a whole converter with one declared method on F-types): with fuel above the bound and at least
two rounds of the dirty loop, `generate` never runs out of fuel and its result does not depend on fuel or rounds -/
theorem C13_terminates_unnamed_fragment_generate (c : Converter) (d : Declared) (z : Bool)
    (hup : d.updateTarget = false) (hraw : d.cfg.rawFieldSettings = []) (hctor : d.cfg.constructor = none)
    (hs : inF d.source = true) (ht : inF d.target = true)
    (hext : c.extend = [])
    (hu : d.cfg.common.useUnderlying = false) (hsk : d.cfg.common.skipCopySameType = false)
    (hz : d.cfg.common.useZeroValue = z) :
    (∀ fuel rounds, 2 * (tySize d.source + tySize d.target) < fuel → 2 ≤ rounds →
      generate c [d] fuel rounds ≠ .error .outOfFuel) ∧
    (∀ f1 r1 f2 r2, 2 * (tySize d.source + tySize d.target) < f1 → 2 ≤ r1 →
      2 * (tySize d.source + tySize d.target) < f2 → 2 ≤ r2 →
      generate c [d] f1 r1 = generate c [d] f2 r2) := by
  have hsim := fun fuel rounds hf hr => generate_single c d z fuel rounds hup hraw hctor hs ht hf hr hext hu hsk hz
  constructor
  · intro fuel rounds hf hr
    rw [hsim fuel rounds hf hr]
    cases hg : genF z false d.source d.target with
    | ok q => intro h; cases h
    | error e =>
      intro h
      have hd : e = .outOfFuel := by simpa using h
      rcases genF_error z false d.source d.target hs ht e hg with h1 | h1 <;> rw [h1] at hd <;> cases hd
  · intro f1 r1 f2 r2 h1 hr1 h2 hr2
    rw [hsim f1 r1 h1 hr1, hsim f2 r2 h2 hr2]

open Gv.Gen Gv.Spec in
/-- non-vacuity: `map[string][]*int → map[string][]*int64` (rejected) with the default fuel 200 and with fuel 20 = the bound:
same result, and it is the type mismatch, not a lack of fuel -/
example :
    let c : Converter := { env := [], common := {}, outputPkg := [], customs := [], extend := [], orc := {} }
    let cx : Ctx := { (default : Ctx) with cfg := { common := {} } }
    let st : GState := { methods := [], fileNames := [], seen := [], useCtor := false }
    let s : Ty := .map (.basic .string) (.slice (.ptr (.basic .int)))
    let t : Ty := .map (.basic .string) (.slice (.ptr (.basic .int64)))
    conv c 200 cx .build false s t [] st = conv c 20 cx .build false s t [] st ∧
      conv c 20 cx .build false s t [] st ≠ .error .outOfFuel := by
  intro c cx st s t
  have h := C13_terminates_unnamed_fragment c cx st false s t [] .build false (by decide) (by decide) rfl (by decide) rfl rfl rfl rfl
  exact ⟨h.2 200 20 (by decide) (by decide), h.1 20 (by decide)⟩

open Gv.Gen Gv.Spec in
/-- **termination bound on FS** (with unnamed structs; `tySize` counts one per field on top of the field types): same statement -/
theorem C13_terminates_unnamed_struct_fragment (c : Converter) (cx : Ctx) (st : GState) (z : Bool) (s t : Ty)
    (path : List PathElem) (mode : Mode) (pp : Bool)
    (hs : inFS s = true) (ht : inFS t = true) (hmode : mode.isUpdate = false)
    (hext : c.extend = []) (hms : plainMethodsS st.methods = true)
    (hu : cx.cfg.common.useUnderlying = false) (hsk : cx.cfg.common.skipCopySameType = false)
    (hz : cx.cfg.common.useZeroValue = z) (hc : st.useCtor = false)
    (h1 : cx.cfg.common.matchIgnoreCase = false) (h2 : cx.cfg.common.ignoreMissing = false)
    (h3 : cx.cfg.fields = []) (h4 : cx.cfg.autoMap = []) (h5 : cx.updateTarget = false)
    (h6 : noFieldSettings st.methods = true) :
    (∀ fuel, 2 * (tySize s + tySize t) ≤ fuel → conv c fuel cx mode pp s t path st ≠ .error .outOfFuel) ∧
    (∀ f1 f2, 2 * (tySize s + tySize t) ≤ f1 → 2 * (tySize s + tySize t) ≤ f2 →
      conv c f1 cx mode pp s t path st = conv c f2 cx mode pp s t path st) := by
  have hsim := fun fuel hf =>
    conv_struct_fragment c cx st z s t path fuel mode pp hs ht hf hmode hext (plainMethodsS_upTo _ _ hms) hu hsk hz hc
      (structPlain_of cx st h1 h2 h3 h4 h5 h6)
  constructor
  · intro fuel hf
    rw [hsim fuel hf]
    cases hg : genF z (asgOf mode) s t with
    | ok q => intro h; cases h
    | error d =>
      intro h
      have hd : d = .outOfFuel := by simpa [ret] using h
      rcases genF_error_struct z (asgOf mode) s t d hg with h1 | h1 | h1 <;> rw [h1] at hd <;> cases hd
  · intro f1 f2 h1 h2
    rw [hsim f1 h1, hsim f2 h2]

open Gv.Gen Gv.Spec in
theorem C13_terminates_unnamed_struct_fragment_generate (c : Converter) (d : Declared) (z : Bool)
    (hup : d.updateTarget = false) (hraw : d.cfg.rawFieldSettings = []) (hctor : d.cfg.constructor = none)
    (hs : inFS d.source = true) (ht : inFS d.target = true)
    (hext : c.extend = [])
    (hu : d.cfg.common.useUnderlying = false) (hsk : d.cfg.common.skipCopySameType = false)
    (hz : d.cfg.common.useZeroValue = z)
    (h1 : d.cfg.common.matchIgnoreCase = false) (h2 : d.cfg.common.ignoreMissing = false)
    (h3 : d.cfg.fields = []) (h4 : d.cfg.autoMap = []) :
    (∀ fuel rounds, 2 * (tySize d.source + tySize d.target) < fuel → 2 ≤ rounds →
      generate c [d] fuel rounds ≠ .error .outOfFuel) ∧
    (∀ f1 r1 f2 r2, 2 * (tySize d.source + tySize d.target) < f1 → 2 ≤ r1 →
      2 * (tySize d.source + tySize d.target) < f2 → 2 ≤ r2 →
      generate c [d] f1 r1 = generate c [d] f2 r2) := by
  have hsim := fun fuel rounds hf hr =>
    generate_single_struct c d z fuel rounds hup hraw hctor hs ht hf hr hext hu hsk hz h1 h2 h3 h4
  constructor
  · intro fuel rounds hf hr
    rw [hsim fuel rounds hf hr]
    cases hg : genF z false d.source d.target with
    | ok q => intro h; cases h
    | error e =>
      intro h
      have hd : e = .outOfFuel := by simpa using h
      rcases genF_error_struct z false d.source d.target e hg with h1 | h1 | h1 <;> rw [h1] at hd <;> cases hd
  · intro f1 r1 f2 r2 h1 hr1 h2 hr2
    rw [hsim f1 r1 h1 hr1, hsim f2 r2 h2 hr2]

open Gv.Gen Gv.Spec in
/-- non-vacuity: `struct{A int; B []string} → struct{A int}` with fuel 200 and with the bound 2·(6+3) = 18 -/
example :
    let c : Converter := { env := [], common := {}, outputPkg := [], customs := [], extend := [], orc := {} }
    let cx : Ctx := { (default : Ctx) with cfg := { common := {} }, updateTarget := false }
    let st : GState := { methods := [], fileNames := [], seen := [], useCtor := false }
    let fa : FieldInfo := { name := "A".toList, exported := true, embedded := false, pkg := [] }
    let fb : FieldInfo := { name := "B".toList, exported := true, embedded := false, pkg := [] }
    let s : Ty := .struct (.cons fa (.basic .int) (.cons fb (.slice (.basic .string)) .nil))
    let t : Ty := .struct (.cons fa (.basic .int) .nil)
    conv c 200 cx .build false s t [] st = conv c 18 cx .build false s t [] st ∧
      conv c 18 cx .build false s t [] st ≠ .error .outOfFuel := by
  intro c cx st fa fb s t
  have h := C13_terminates_unnamed_struct_fragment c cx st false s t [] .build false (by decide) (by decide) rfl rfl (by decide)
    rfl rfl rfl rfl rfl rfl rfl rfl rfl (by decide)
  exact ⟨h.2 200 18 (by decide) (by decide), h.1 18 (by decide)⟩

end Gv.Props.C13
