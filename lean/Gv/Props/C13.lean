/-
C13 – goverter never panics or hangs; every input ends in output or a diagnostic.

What is proved here: every `panic(` call of the code base is in a reviewed table (tie re-checked against the
source on every run) and the model-level reason why each is unreachable; `toCodeBasic` covers every typed basic
kind.  Termination of the generator model is proved in Gv.Props.C03 (fuel bound).  Panics outside the
modelled sites (nil dereferences, index errors) can only be observed on the implementation: the C13 campaign
runs the real pipeline under recover() and a deadline over a grammar of types and mutated directives.
-/
import Gv.Model.Facts
import Gv.Model.Types
import Gv.Props.C14

namespace Gv.Props.C13
open Gv Gv.Signature

/-- why each explicit panic cannot be reached -/
inductive Why
  | errorPathNonEmpty      -- every builder.Error leaving buildMethod is lifted with the source/target element first
  | cliCommandsExhaustive  -- cli.Parse only returns Help, Generate or Version
  | noMultiSource          -- ParamsMultiSource is never enabled, so method.Parse rejects a second source
  | noTargetInCallee       -- custom functions are parsed without `update`; update methods are not in the lookup index
  | noInterfaceInGenerated -- methods to generate are parsed with Converter = nil
  | structChecked          -- every caller checks `.Struct` first
  | typedKindsOnly         -- only untyped/invalid basic kinds, tuples and type parameters fall through
  | chanDirsExhaustive
  deriving Repr, DecidableEq

def reviewed : List (String × Why) := [
  ("builder.ToString:oops that shouldn't happen", .errorPathNonEmpty),
  ("cli.Run:unknown command", .cliCommandsExhaustive),
  ("generator.generator.CallMethod:multi source aren't supported right now. https://github.com/jmattheis/goverter/issues/143", .noMultiSource),
  ("generator.generator.CallMethod:unreachable", .noTargetInCallee),
  ("generator.generator.buildMethod:hopefully unreachable", .noInterfaceInGenerated),
  ("generator.generator.buildMethod:multi source aren't supported right now. https://github.com/jmattheis/goverter/issues/143", .noMultiSource),
  ("generator.generator.delegateMethod:not supported atm", .noMultiSource),
  ("generator.generator.delegateMethod:unreachable", .noTargetInCallee),
  ("xtype.Type.findAllFields:trying to get field of non struct", .structChecked),
  ("xtype.ZeroValue:<dynamic>", .typedKindsOnly),
  ("xtype.ZeroValue:<dynamic>", .typedKindsOnly),
  ("xtype.applyTo:<dynamic>", .typedKindsOnly),
  ("xtype.toChan:<dynamic>", .chanDirsExhaustive),
  ("xtype.toCode:<dynamic>", .typedKindsOnly),
  ("xtype.toCodeBasic:<dynamic>", .typedKindsOnly)]

/-- **tie**: the explicit panics of the code are exactly the reviewed ones -/
theorem tie_panic_sites : Facts.panicSites = reviewed.map (·.1) := by decide

/-- no caller enables multi-source parsing -/
theorem tie_no_multi_source : Facts.multiSourceEnabledSites = [] := by decide

/-- the Go spelling of a kind in go/types (`types.Int` …) -/
def Kind.goConst : Kind → String
  | .bool => "Bool" | .int => "Int" | .int8 => "Int8" | .int16 => "Int16" | .int32 => "Int32" | .int64 => "Int64"
  | .uint => "Uint" | .uint8 => "Uint8" | .uint16 => "Uint16" | .uint32 => "Uint32" | .uint64 => "Uint64" | .uintptr => "Uintptr"
  | .float32 => "Float32" | .float64 => "Float64" | .complex64 => "Complex64" | .complex128 => "Complex128"
  | .string => "String" | .unsafePointer => "UnsafePointer" | .invalid => "Invalid"
  | .byte => "Uint8" | .rune => "Int32"

/-- **typedKindsOnly**: `toCodeBasic` has a case for every typed basic kind a field can have
(since the `fix:` commit for uintptr / unsafe.Pointer) -/
theorem C13_toCodeBasic_covers_typed_kinds (k : Kind) (h : k ≠ .invalid) :
    Kind.goConst k ∈ Facts.toCodeBasicKinds := by
  cases k <;> first | exact absurd rfl h | decide

/-- **noMultiSource**: with multi-source parsing off, no accepted function has an additional-source parameter -/
theorem C13_no_multi_source_arg (o : Opts) (obj : Obj) (d : Def) (h : parse o obj = .ok d) (hs : o.multiSource = false) :
    d.multiSources = [] := by
  obtain ⟨d0, a⟩ := C14.parse_accepted o obj d h
  exact a.single hs

/-- **noInterfaceInGenerated**: without a converter type no parameter is classified as the converter itself -/
theorem C13_no_interface_role (o : Opts) (seen : Bool) (p : Param) (h : p.isConverter = false) :
    roleOf o seen p ≠ .iface := by
  unfold roleOf
  simp only [h, Bool.false_eq_true, if_false]
  split
  · simp
  · split
    · simp
    · split <;> simp

/-- **noTargetInCallee**: without `update ARG` no parameter is classified as update target -/
theorem C13_no_target_role (o : Opts) (seen : Bool) (p : Param) (h : o.updateParam = []) :
    roleOf o seen p ≠ .target := by
  unfold roleOf
  simp only [h, List.isEmpty_nil, Bool.not_true, Bool.false_and, Bool.false_eq_true, if_false]
  split
  · simp
  · split
    · simp
    · split <;> simp

end Gv.Props.C13
