/-
C19 – exactly the `goverter:` lines of attached doc comments are settings, in order.

Property theorems only (helper lemmas live in Gv/Proofs).  The model is
Gv.Model.Comments (tied to config/parse/*.go and comments/parse_docs.go by the
C19 campaign and by Facts); the specification is Gv.Spec.Comments.
-/
import Gv.Model.Comments
import Gv.Spec.Comments
import Gv.Proofs.StrLemmas

namespace Gv.Props.C19
open Gv.Str Gv.Comments Gv.Spec.Comments

/-! ### static ties (re-checked against the regenerated Facts on every run) -/

theorem tie_prefix : Facts.settingPrefix = "goverter:" := by decide
theorem tie_markers : Facts.converterMarker = "goverter:converter" ∧ Facts.variablesMarker = "goverter:variables" := by decide
/-- SettingLines scans lines of any length (holds since the `fix:` commit for D12) -/
theorem tie_noScanLimit : Facts.maxScanTokenSize = 0 := by decide
theorem tie_shape : Facts.settingLinesShape = "trim-hasprefix" := by decide

/-! ### a line is a setting iff its trimmed text starts with `goverter:` — for every text -/

theorem settingOf_nil : settingOf [] = none := by decide

theorem settingOf_snoc_space (l : S) (c : Char) (hc : isSpace c = true) :
    settingOf (l ++ [c]) = settingOf l := by
  unfold settingOf
  rw [trimSpace_snoc_space l c hc]

theorem settingOf_dropCR (l : S) : settingOf (dropCR l) = settingOf l := by
  unfold dropCR
  split
  · rename_i h
    have hl : l = l.dropLast ++ ['\r'] := eq_dropLast_append_of_getLast? h
    conv => rhs; rw [hl]
    rw [settingOf_snoc_space _ '\r' (by decide)]
  · rfl

theorem scanTokens_zero (ls : List S) : scanTokens 0 ls = ls.map dropCR := by
  induction ls with
  | nil => rfl
  | cons l ls ih => simp [scanTokens, ih]

theorem filterMap_settingOf_dropCR (ls : List S) :
    (ls.map dropCR).filterMap settingOf = ls.filterMap settingOf := by
  induction ls with
  | nil => rfl
  | cons l ls ih => simp [List.filterMap_cons, settingOf_dropCR, ih]

theorem filterMap_physLines (text : S) :
    (physLines text).filterMap settingOf = (splitOn '\n' text).filterMap settingOf := by
  unfold physLines
  dsimp only
  split
  · rename_i l h
    split
    · rename_i he
      have hl : l = [] := by simpa using he
      subst hl
      have hs : splitOn '\n' text = (splitOn '\n' text).dropLast ++ [[]] :=
        eq_dropLast_append_of_getLast? h
      conv => rhs; rw [hs]
      simp [List.filterMap_append, settingOf_nil]
    · rfl
  · rfl

/-- **C19_setting_iff** (full strength): the settings of a comment text are exactly the physical
lines whose trimmed text starts with `goverter:`, with the prefix removed, in source order. -/
theorem C19_setting_iff (text : S) : settingLines text = specSettingLines text := by
  unfold settingLines scanLines specSettingLines
  rw [tie_noScanLimit, scanTokens_zero, filterMap_settingOf_dropCR, filterMap_physLines]

/-- membership form of the same statement -/
theorem C19_setting_mem (text l : S) :
    l ∈ settingLines text ↔ ∃ line ∈ splitOn '\n' text, settingOf line = some l := by
  rw [C19_setting_iff]; unfold specSettingLines; simp [List.mem_filterMap]

/-- what `settingOf` says: trimmed text starts with the prefix, value = the rest -/
theorem prefixS_eq : prefixS = "goverter:".toList := by decide

theorem settingOf_some (line l : S) :
    settingOf line = some l ↔ hasPrefix (trimSpace line) prefixS = true ∧ l = (trimSpace line).drop prefixS.length := by
  unfold settingOf
  dsimp only
  constructor
  · intro h
    split at h
    · rename_i hpre
      refine ⟨hpre, ?_⟩
      exact (Option.some.inj h).symm
    · cases h
  · intro ⟨h1, h2⟩
    rw [if_pos h1, h2]

/-! ### the three comment forms -/

example : settingLines (commentToString ["// goverter:map A B".toList]) = ["map A B".toList] := by decide
example : settingLines (commentToString ["//goverter:map A B".toList]) = ["map A B".toList] := by decide
example : settingLines (commentToString ["/* goverter:map A B */".toList]) = ["map A B".toList] := by decide
example : settingLines (commentToString ["/*\n\t goverter:map A B  \n   goverter:ignore C\n*/".toList]) = ["map A B".toList, "ignore C".toList] := by decide
example : settingLines (commentToString ["// prose".toList, "//\tgoverter:x".toList, "// more goverter:y".toList]) = ["x".toList] := by decide

/-! ### value = text after the first space -/

theorem cut_spec (c : Char) (v : S) :
    (cut c v).1 = v.takeWhile (· != c) ∧
    (cut c v).2 = (if c ∈ v then some ((v.dropWhile (· != c)).drop 1) else none) := by
  induction v with
  | nil => simp [cut]
  | cons x xs ih =>
    unfold cut
    by_cases hx : x = c
    · subst hx; simp
    · have hne : (x == c) = false := by simpa using hx
      have hne' : (x != c) = true := by simpa using hx
      simp only [hne, Bool.false_eq_true, if_false]
      obtain ⟨ih1, ih2⟩ := ih
      refine ⟨?_, ?_⟩
      · simp [List.takeWhile_cons, hne', ih1]
      · have : (c ∈ x :: xs) ↔ c ∈ xs := by
          simp only [List.mem_cons]
          constructor
          · rintro (h | h)
            · exact absurd h.symm hx
            · exact h
          · exact Or.inr
        simp only [this, List.dropWhile_cons, hne', if_true]
        exact ih2

/-- **C19_command**: the key is the text before the first space, the value the text after it -/
theorem C19_command (v : S) :
    command v = (v.takeWhile (· != ' '), (v.dropWhile (· != ' ')).drop 1) := by
  unfold command
  have h := cut_spec ' ' v
  rcases hc : cut ' ' v with ⟨a, b⟩
  rw [hc] at h
  obtain ⟨h1, h2⟩ := h
  simp only at h1 h2
  cases b with
  | none =>
    simp only
    by_cases hm : ' ' ∈ v
    · simp [hm] at h2
    · have hall : ∀ x ∈ v, (x != ' ') = true := by
        intro x hx
        have : x ≠ ' ' := fun e => hm (e ▸ hx)
        simpa using this
      have hd : v.dropWhile (· != ' ') = [] := dropWhile_eq_nil_of_all v hall
      rw [h1, hd]; rfl
  | some b =>
    simp only
    by_cases hm : ' ' ∈ v
    · simp only [hm, if_true, Option.some.injEq] at h2
      rw [h1, h2]
    · simp [hm] at h2

/-! ### markers -/

/-- no marker anywhere relevant ⇒ the declaration is not a converter -/
theorem C19_no_marker_no_converter (g : GenDecl)
    (h1 : hasVars g.doc = false) (h2 : hasConv g.doc = false)
    (h3 : ∀ sp ∈ g.specs, hasConv sp.doc = false) :
    parseGenDecl g = .ok [] := by
  unfold parseGenDecl
  unfold hasVars at h1; unfold hasConv at h2
  simp only [h1, h2, Bool.false_eq_true, if_false]
  have : ∀ specs : List Spec, (∀ sp ∈ specs, hasConv sp.doc = false) → parseSpecs specs = .ok [] := by
    intro specs
    induction specs with
    | nil => intro _; rfl
    | cons sp sps ih =>
      intro h
      have hsp := h sp (by simp)
      unfold hasConv at hsp
      unfold parseSpecs
      simp only [hsp, Bool.and_false, Bool.false_eq_true, if_false]
      exact ih (fun s hs => h s (by simp [hs]))
  exact this g.specs h3

/-- the variables marker on anything but a `var` block is an error -/
theorem C19_variables_wrong_kind (g : GenDecl) (h : hasVars g.doc = true) (ht : g.tok ≠ .var) :
    parseGenDecl g = .error .variablesNotOnVar := by
  unfold parseGenDecl; unfold hasVars at h
  simp [h, ht]

/-- the converter marker on a block that is not a `type` block is an error -/
theorem C19_converter_wrong_kind (g : GenDecl) (hv : hasVars g.doc = false) (h : hasConv g.doc = true)
    (ht : g.tok ≠ .type) : parseGenDecl g = .error .converterNotOnType := by
  unfold parseGenDecl; unfold hasVars at hv; unfold hasConv at h
  simp [hv, h, ht]

/-- the converter marker on a type block with several specs, or on a non-interface type, is an error -/
theorem C19_converter_not_interface (g : GenDecl) (sp : Spec) (hv : hasVars g.doc = false) (h : hasConv g.doc = true)
    (ht : g.tok = .type) (hs : g.specs = [sp]) (hk : sp.kind ≠ .iface) :
    parseGenDecl g = .error .notInterface := by
  unfold parseGenDecl; unfold hasVars at hv; unfold hasConv at h
  simp [hv, h, ht, hs, parseInterface, hk]
  rfl

theorem C19_converter_multiple (g : GenDecl) (hv : hasVars g.doc = false) (h : hasConv g.doc = true)
    (ht : g.tok = .type) (hs : g.specs.length ≠ 1) :
    parseGenDecl g = .error .multipleSpecs := by
  unfold parseGenDecl; unfold hasVars at hv; unfold hasConv at h
  simp only [hv, h, ht, Bool.false_eq_true, if_false, if_true, ne_eq, not_true_eq_false]
  match hsp : g.specs with
  | [] => rfl
  | [sp] => simp [hsp] at hs
  | _ :: _ :: _ => rfl

/-- a marked interface is a converter whose settings are exactly the `goverter:` lines of its doc -/
theorem C19_marked_interface (g : GenDecl) (sp : Spec) (ms : List (S × List S))
    (hv : hasVars g.doc = false) (h : hasConv g.doc = true) (ht : g.tok = .type) (hs : g.specs = [sp])
    (hk : sp.kind = .iface) (hm : parseInterfaceMethods sp.methods = .ok ms) :
    parseGenDecl g = .ok [{ ifaceName := sp.names.headD [], lines := specSettingLines (commentToString g.doc), methods := ms }] := by
  unfold parseGenDecl; unfold hasVars at hv; unfold hasConv at h
  simp only [hv, h, ht, hs, Bool.false_eq_true, if_false, if_true, ne_eq, not_true_eq_false]
  simp only [parseInterface, hk, ne_eq, not_true_eq_false, if_false, hm, C19_setting_iff]
  rfl

/-- function declarations never contribute: only GenDecls are inspected -/
theorem C19_funcs_ignored (f : FuncDecl) (ds : List Decl) : parseDecls (.func f :: ds) = parseDecls ds := rfl

/-! ### known finding D13: a misplaced marker is ignored, where the statement demands an error -/

def d13Witness : List Decl :=
  [.func { name := "F1".toList, isMethod := false, doc := ["// goverter:converter".toList] }]

/-- the full statement "a marker on the wrong kind of declaration is an error" is FALSE of the model
(and, by the C19 campaign's pinned witness, of the code): -/
theorem C19_D13_witness : parseDecls d13Witness = .ok [] ∧ specIsError d13Witness = true :=
  ⟨rfl, by decide⟩

/-- what does hold: whenever no marker is misplaced, model and statement agree on error-ness -/
theorem C19_marker_error_partial (ds : List Decl) (h : ds.any misplaced = false) :
    specIsError ds = (match parseDecls ds with | .error _ => true | .ok _ => false) := by
  unfold specIsError
  rw [h]
  cases parseDecls ds <;> rfl

end Gv.Props.C19
