/-
C06 – custom functions / declared methods are used wherever their types occur.

Model: Gv.Gen.callExisting / callMethod / requireContext (lookup before any rule, argument assembly by role,
context propagation) and Gv.Eval (what a call node computes).  Tied to the code by the C06 campaign (stamping
custom functions at every depth, 0-1 contexts in either position, converter-typed first argument, errors).
-/
import Gv.Model.Eval
import Gv.Model.Gen
import Gv.Proofs.GenLemmas

namespace Gv.Props.C06
open Gv Gv.Str Gv.Gen Gv.Eval

/-- **C06_custom_first**: an extend function for the pair (with its contexts available) is called — at every
position, before sub-method creation and before any structural rule -/
theorem C06_extend_first (c : Converter) (cx : Ctx) (s t : Ty) (path : List PathElem) (st : GState) (i : Nat) (d : FnDef)
    (hi : indexGet (extendIndex c) s t cx.available = .hit i) (hd : c.customs[i]? = some d) :
    callExisting c cx s t path st = (do let r ← callMethod c cx (.custom i) d (some s) t path; pure (some r) : M (Option Conv)) st := by
  unfold callExisting
  simp [hi, hd, bind, StateT.bind, Except.bind, pure, StateT.pure, Except.pure]

/-- a declared (or already generated) method for the pair is called when no extend function applies -/
theorem C06_declared_first (c : Converter) (cx : Ctx) (s t : Ty) (path : List PathElem) (st : GState) (i : Nat) (m : GenMethod)
    (hx : indexGet (extendIndex c) s t cx.available = .none)
    (hi : indexGet (lookupIndex st.methods) s t cx.available = .hit i) (hm : st.methods[i]? = some m) :
    callExisting c cx s t path st =
      (do let r ← callMethod c cx (.method i) (fnDefOfMethod m) (some s) t path; pure (some r) : M (Option Conv)) st := by
  unfold callExisting
  simp [hx, hi, hm, getMethod, bind, StateT.bind, Except.bind, pure, StateT.pure, Except.pure, get, getThe, MonadStateOf.get, StateT.get]

/-- **C06_missing_ctx**: a function for the pair whose contexts are NOT all available is an error, not a miss
(goverter does not silently fall back to the automatic conversion) -/
theorem C06_unsatisfied_context_fails (c : Converter) (cx : Ctx) (s t : Ty) (path : List PathElem) (st : GState)
    (hi : indexGet (extendIndex c) s t cx.available = .unsatisfied) :
    callExisting c cx s t path st = .error .contextUnsatisfied := by
  unfold callExisting
  simp [hi, fail, bind, StateT.bind, Except.bind, throw, throwThe, MonadExceptOf.throw, StateT.lift]

/-- **C06_eval_uses_f**: a call node yields exactly the custom function's result for the current source and
the caller's context arguments, in the function's declared order -/
theorem C06_eval_call (p : Program) (fr : Frame) (fuel : Nat) (i : Nat) (d : FnDef) (w : Wrap) (src old : Val) (n : Nat)
    (hd : p.conv.customs[i]? = some d) (hc : p.sem.isCtor d.name = false) :
    evalConv p (fuel+1) fr (.call (.custom i) [.source] false w) src old n = .ok (.tok d.name [src], n) := by
  unfold evalConv
  simp [List.filterMapM, List.filterMapM.loop, bind, StateT.bind, pure, StateT.pure, hd, hc]

/-- **C06_context_pass**: a context argument is the caller's argument of that type, unchanged -/
theorem C06_context_pass (p : Program) (fr : Frame) (fuel : Nat) (i : Nat) (d : FnDef) (w : Wrap) (src old cv : Val) (ct : Ty) (n : Nat)
    (hd : p.conv.customs[i]? = some d) (hc : p.sem.isCtor d.name = false) (hctx : lookupCtx fr ct = some cv) :
    evalConv p (fuel+1) fr (.call (.custom i) [.source, .ctx ct] false w) src old n = .ok (.tok d.name [src, cv], n) ∧
    evalConv p (fuel+1) fr (.call (.custom i) [.ctx ct, .source] false w) src old n = .ok (.tok d.name [cv, src], n) := by
  constructor <;>
  · unfold evalConv
    simp [List.filterMapM, List.filterMapM.loop, bind, StateT.bind, pure, StateT.pure, hd, hc, hctx]

/-- a context argument is never used as the conversion source: `source` is the only argument that carries it -/
theorem C06_context_not_source (p : Program) (fr : Frame) (fuel : Nat) (i : Nat) (d : FnDef) (w : Wrap) (src src' old cv : Val) (ct : Ty) (n : Nat)
    (hd : p.conv.customs[i]? = some d) (hc : p.sem.isCtor d.name = false) (hctx : lookupCtx fr ct = some cv) :
    evalConv p (fuel+1) fr (.call (.custom i) [.ctx ct] false w) src old n =
    evalConv p (fuel+1) fr (.call (.custom i) [.ctx ct] false w) src' old n := by
  unfold evalConv
  simp [List.filterMapM, List.filterMapM.loop, bind, StateT.bind, pure, StateT.pure, hd, hc, hctx]

end Gv.Props.C06
