/-
C06 – custom functions / declared methods are used wherever their types occur.

Model: Gv.Gen.callExisting / callMethod / requireContext (lookup before any rule, argument assembly by role,
context propagation) and Gv.Eval (what a call node computes).  Tied to the code by the C06 campaign (stamping
custom functions at every depth, 0-1 contexts in either position, converter-typed first argument, errors).
-/
import Gv.Model.Eval
import Gv.Model.Gen
import Gv.Proofs.GenLemmas
import Gv.Model.Signature
import Gv.Proofs.CustomFirst
import Gv.Proofs.ErrPath

namespace Gv.Props.C06
open Gv Gv.Str Gv.Gen Gv.Eval

/-- **C06_custom_first**: an extend function for the pair (with its contexts available) is called — at every
position, before sub-method creation and before any structural rule -/
theorem C06_extend_first (c : Converter) (cx : Ctx) (s t : Ty) (path : List PathElem) (st : GState) (i : Nat) (d : FnDef)
    (hi : indexGet (extendIndex c) s t cx.available = .hit i) (hd : c.customs[i]? = some d) :
    callExisting c cx s t path st = (do let r ← callMethod c cx (.custom i) d (some s) t path; pure (some r) : M (Option Conv)) st := by
  unfold callExisting
  simp [hi, hd, bind, StateT.bind, Except.bind, pure, StateT.pure, Except.pure]

/-- a declared (or already generated) method for the pair is called when no extend function applies -/
theorem C06_declared_first (c : Converter) (cx : Ctx) (s t : Ty) (path : List PathElem) (st : GState) (i : Nat) (m : GenMethod)
    (hx : indexGet (extendIndex c) s t cx.available = .none)
    (hi : indexGet (lookupIndex st.methods) s t cx.available = .hit i) (hm : st.methods[i]? = some m) :
    callExisting c cx s t path st =
      (do let r ← callMethod c cx (.method i) (fnDefOfMethod m) (some s) t path; pure (some r) : M (Option Conv)) st := by
  unfold callExisting
  simp [hx, hi, hm, getMethod, bind, StateT.bind, Except.bind, pure, StateT.pure, Except.pure, get, getThe, MonadStateOf.get, StateT.get]

/-- **C06_missing_ctx**: a function for the pair whose contexts are NOT all available is an error, not a miss
(goverter does not silently fall back to the automatic conversion) -/
theorem C06_unsatisfied_context_fails (c : Converter) (cx : Ctx) (s t : Ty) (path : List PathElem) (st : GState)
    (hi : indexGet (extendIndex c) s t cx.available = .unsatisfied) :
    callExisting c cx s t path st = .error .contextUnsatisfied := by
  unfold callExisting
  simp [hi, fail, bind, StateT.bind, Except.bind, throw, throwThe, MonadExceptOf.throw, StateT.lift]

/-- **C06_eval_uses_f**: a call node yields exactly the custom function's result for the current source and
the caller's context arguments, in the function's declared order -/
theorem C06_eval_call (p : Program) (fr : Frame) (fuel : Nat) (i : Nat) (d : FnDef) (w : Wrap) (src old : Val) (n : Nat)
    (hd : p.conv.customs[i]? = some d) (hc : p.sem.isCtor d.name = false) :
    evalConv p (fuel+1) fr (.call (.custom i) [.source] false w) src old n = .ok (.tok d.name [src], n) := by
  unfold evalConv
  simp [argOf, List.filterMapM, List.filterMapM.loop, bind, StateT.bind, pure, StateT.pure, hd, hc]

/-- **C06_context_pass**: a context argument is the caller's argument of that type, unchanged -/
theorem C06_context_pass (p : Program) (fr : Frame) (fuel : Nat) (i : Nat) (d : FnDef) (w : Wrap) (src old cv : Val) (ct : Ty) (n : Nat)
    (hd : p.conv.customs[i]? = some d) (hc : p.sem.isCtor d.name = false) (hctx : lookupCtx fr ct = some cv) :
    evalConv p (fuel+1) fr (.call (.custom i) [.source, .ctx ct] false w) src old n = .ok (.tok d.name [src, cv], n) ∧
    evalConv p (fuel+1) fr (.call (.custom i) [.ctx ct, .source] false w) src old n = .ok (.tok d.name [cv, src], n) := by
  constructor <;>
  · unfold evalConv
    simp [argOf, List.filterMapM, List.filterMapM.loop, bind, StateT.bind, pure, StateT.pure, hd, hc, hctx]

/-- a context argument is never used as the conversion source: `source` is the only argument that carries it -/
theorem C06_context_not_source (p : Program) (fr : Frame) (fuel : Nat) (i : Nat) (d : FnDef) (w : Wrap) (src src' old cv : Val) (ct : Ty) (n : Nat)
    (hd : p.conv.customs[i]? = some d) (hc : p.sem.isCtor d.name = false) (hctx : lookupCtx fr ct = some cv) :
    evalConv p (fuel+1) fr (.call (.custom i) [.ctx ct] false w) src old n =
    evalConv p (fuel+1) fr (.call (.custom i) [.ctx ct] false w) src' old n := by
  unfold evalConv
  simp [argOf, List.filterMapM, List.filterMapM.loop, bind, StateT.bind, pure, StateT.pure, hd, hc, hctx]

/-! ### which functions an `extend` setting selects (pkgload.GetMatching) -/

open Gv.Signature in
/-- a pattern selects EVERY fully matching object that is a usable conversion function: none is dropped silently -/
theorem C06_extend_pattern_complete (o : Opts) (lit : S) (cands : List Cand) (names : List S)
    (h : selectExtend false lit o cands = .ok names) (c : Cand) (hc : c ∈ cands) (hm : c.fullMatch = true)
    (hu : usable o c = true) : c.name ∈ names := by
  unfold selectExtend at h
  simp only [Bool.false_eq_true, if_false] at h
  split at h
  · cases h
  · cases h
    exact List.mem_map.2 ⟨c, List.mem_filter.2 ⟨hc, by simp [hm, hu]⟩, rfl⟩

open Gv.Signature in
/-- and nothing else: every selected name is a fully matching usable object, in the order of the package scope -/
theorem C06_extend_pattern_sound (o : Opts) (lit : S) (cands : List Cand) (names : List S)
    (h : selectExtend false lit o cands = .ok names) :
    names = (cands.filter (fun c => c.fullMatch && usable o c)).map (·.name) ∧ names ≠ [] := by
  unfold selectExtend at h
  simp only [Bool.false_eq_true, if_false] at h
  split at h
  · cases h
  · rename_i hne
    cases h
    refine ⟨rfl, ?_⟩
    intro hnil
    apply hne
    simpa using hnil

open Gv.Signature in
/-- a pattern that selects nothing is an error, never an empty selection -/
theorem C06_extend_pattern_nomatch (o : Opts) (lit : S) (cands : List Cand)
    (h : ∀ c, c ∈ cands → (c.fullMatch && usable o c) = false) : selectExtend false lit o cands = .error .noMatch := by
  unfold selectExtend
  simp only [Bool.false_eq_true, if_false]
  have : cands.filter (fun c => c.fullMatch && usable o c) = [] := by
    rw [List.filter_eq_nil_iff]
    intro c hc; simpa using h c hc
  simp [this]

open Gv.Signature in
/-- a literal name selects exactly that function or reports why it cannot be used -/
theorem C06_extend_literal (o : Opts) (lit : S) (cands : List Cand) (c : Cand)
    (hf : cands.find? (fun x => x.name == lit) = some c) :
    (∀ d, parse (candOpts o c) c.obj = .ok d → selectExtend true lit o cands = .ok [c.name]) ∧
    (∀ e, parse (candOpts o c) c.obj = .error e → selectExtend true lit o cands = .error (.parse e)) := by
  constructor
  · intro d hd; unfold selectExtend; simp [hf, hd]
  · intro e he; unfold selectExtend; simp [hf, he]

open Gv.Signature in
/-- a function's own `goverter:context` declarations are in effect however the function was selected: a candidate is
parsed with the consumer's options extended by ITS OWN context names (looked up under the function's name), for a
literal name and for a pattern alike -/
theorem C06_extend_candidate_uses_its_own_context (o : Opts) (c : Cand) :
    (candOpts o c).localContext = o.localContext ++ c.localCtx ∧
    (usable o c = true ↔ ∃ d, parse (candOpts o c) c.obj = .ok d) := by
  refine ⟨rfl, ?_⟩
  unfold usable
  split
  · rename_i d hd; exact ⟨fun _ => ⟨d, hd⟩, fun _ => rfl⟩
  · rename_i e he
    constructor
    · intro h; cases h
    · rintro ⟨d, hd⟩; rw [hd] at he; cases he

open Gv.Signature in
/-- the extend list keeps everything: whatever a name of an extend line selects is in the converter's list, under its own
package (a function of another package with the same identifier does not replace it) -/
theorem C06_extend_list_complete (o : Opts) (es : List ExtEntry) (l : List (S × S)) (h : extendList o es = .ok l)
    (e : ExtEntry) (he : e ∈ es) (names : List S) (hs : selectExtend e.literal e.lit o e.cands = .ok names)
    (n : S) (hn : n ∈ names) : (e.pkg, n) ∈ l := by
  induction es generalizing l with
  | nil => cases he
  | cons x rest ih =>
    unfold extendList at h
    split at h
    · cases h
    · rename_i names' hx
      split at h
      · cases h
      · rename_i more hm
        cases h
        rcases List.mem_cons.1 he with rfl | hr
        · rw [hs] at hx; cases hx
          exact List.mem_append_left _ (List.mem_map.2 ⟨n, hn, rfl⟩)
        · exact List.mem_append_right _ (ih more hm hr)

open Gv.Signature in
/-- and nothing else: every member of the list was selected by one of the names -/
theorem C06_extend_list_sound (o : Opts) (es : List ExtEntry) (l : List (S × S)) (h : extendList o es = .ok l)
    (pk n : S) (hm : (pk, n) ∈ l) :
    ∃ e ∈ es, e.pkg = pk ∧ ∃ names, selectExtend e.literal e.lit o e.cands = .ok names ∧ n ∈ names := by
  induction es generalizing l with
  | nil => unfold extendList at h; cases h; cases hm
  | cons x rest ih =>
    unfold extendList at h
    split at h
    · cases h
    · rename_i names' hx
      split at h
      · cases h
      · rename_i more hmore
        cases h
        rcases List.mem_append.1 hm with h1 | h2
        · obtain ⟨a, ha, hpa⟩ := List.mem_map.1 h1
          cases hpa
          exact ⟨x, List.mem_cons_self, rfl, names', hx, ha⟩
        · obtain ⟨e, he, hp, names, hs, hn⟩ := ih more hmore h2
          exact ⟨e, List.mem_cons_of_mem _ he, hp, names, hs, hn⟩

open Gv.Signature in
/-- a name that selects nothing usable fails the configuration wherever it stands: a valid name after it (on the same line
or a later one) does not hide it -/
theorem C06_extend_list_rejects (o : Opts) (es : List ExtEntry) (e : ExtEntry) (he : e ∈ es) (x : SelErr)
    (hs : selectExtend e.literal e.lit o e.cands = .error x) : ∃ y, extendList o es = .error y := by
  induction es with
  | nil => cases he
  | cons a rest ih =>
    unfold extendList
    rcases List.mem_cons.1 he with rfl | hr
    · rw [hs]; exact ⟨x, rfl⟩
    · split
      · rename_i y _; exact ⟨y, rfl⟩
      · obtain ⟨y, hy⟩ := ih hr
        rw [hy]; exact ⟨y, rfl⟩

/-! ### `map … | FUNC` and `default FUNC` are attached to exactly the configured field / method (`Gv.Settings.parseMethodLine`) -/

theorem beq_comm_false {a b : S} (h : (a == b) = false) : (b == a) = false := by
  cases hb : b == a with
  | false => rfl
  | true =>
    have : b = a := by simpa using hb
    subst this
    simp at h

open Gv.Settings in
theorem lookup_map_upd_ne (t n : S) (g : FieldMapping → FieldMapping) (hn : (n == t) = false) :
    ∀ fs : List (S × FieldMapping),
      (fs.map (fun p => if p.1 == t then (p.1, g p.2) else p)).lookup n = fs.lookup n := by
  intro fs
  induction fs with
  | nil => rfl
  | cons p rest ih =>
    obtain ⟨k, v⟩ := p
    cases hk : k == t with
    | true =>
      have hkt : k = t := by simpa using hk
      subst hkt
      simp only [List.map_cons, hk, if_true, List.lookup_cons, hn]
      exact ih
    | false =>
      simp only [List.map_cons, hk, Bool.false_eq_true, if_false, List.lookup_cons]
      cases hnk : n == k with
      | true => rfl
      | false => exact ih

theorem lookup_append_ne {β} (t n : S) (x : β) (hn : (n == t) = false) :
    ∀ fs : List (S × β), (fs ++ [(t, x)]).lookup n = fs.lookup n := by
  intro fs
  induction fs with
  | nil => simp [List.lookup, hn]
  | cons p rest ih =>
    obtain ⟨k, v⟩ := p
    simp only [List.cons_append, List.lookup_cons]
    cases hnk : n == k with
    | true => rfl
    | false => exact ih

open Gv.Settings in
theorem lookup_map_upd_eq (t : S) (g : FieldMapping → FieldMapping) :
    ∀ fs : List (S × FieldMapping),
      (fs.map (fun p => if p.1 == t then (p.1, g p.2) else p)).lookup t = (fs.lookup t).map g := by
  intro fs
  induction fs with
  | nil => rfl
  | cons p rest ih =>
    obtain ⟨k, v⟩ := p
    cases hk : k == t with
    | true =>
      have hkt : k = t := by simpa using hk
      subst hkt
      simp [List.lookup_cons, hk]
    | false =>
      have htk := beq_comm_false hk
      simp only [List.map_cons, hk, Bool.false_eq_true, if_false, List.lookup_cons, htk]
      exact ih

theorem lookup_none_of_not_any {β} (t : S) :
    ∀ fs : List (S × β), (fs.any (fun p => p.1 == t)) = false → fs.lookup t = none := by
  intro fs
  induction fs with
  | nil => intro _; rfl
  | cons p rest ih =>
    obtain ⟨k, v⟩ := p
    intro h
    simp only [List.any_cons, Bool.or_eq_false_iff] at h
    have htk := beq_comm_false h.1
    simp only [List.lookup_cons, htk]
    exact ih h.2

theorem lookup_append_new {β} (t : S) (x : β) :
    ∀ fs : List (S × β), (fs.any (fun p => p.1 == t)) = false → (fs ++ [(t, x)]).lookup t = some x := by
  intro fs
  induction fs with
  | nil => intro _; simp [List.lookup]
  | cons p rest ih =>
    obtain ⟨k, v⟩ := p
    intro h
    simp only [List.any_cons, Bool.or_eq_false_iff] at h
    have htk := beq_comm_false h.1
    simp only [List.cons_append, List.lookup_cons, htk]
    exact ih h.2

open Gv.Settings in
/-- a field setting written for target field `t` changes the mapping of `t` only: every other field keeps its source, its
ignore mark and its function -/
theorem C06_map_function_only_at_its_field (fs : List (S × FieldMapping)) (t n : S) (g : FieldMapping → FieldMapping)
    (hn : (n == t) = false) : (updField fs t g).lookup n = fs.lookup n := by
  unfold updField
  split
  · exact lookup_map_upd_ne t n g hn fs
  · exact lookup_append_ne t n _ hn fs

open Gv.Settings in
/-- and the mapping of `t` is the updated one (a fresh mapping when the field had none) -/
theorem C06_map_function_at_its_field (fs : List (S × FieldMapping)) (t : S) (g : FieldMapping → FieldMapping) :
    (updField fs t g).lookup t = some (g ((fs.lookup t).getD {})) := by
  unfold updField
  cases hany : fs.any (fun p => p.1 == t) with
  | true =>
    simp only [if_true]
    rw [lookup_map_upd_eq]
    cases hl : fs.lookup t with
    | some v => rfl
    | none =>
      exfalso
      clear g
      induction fs with
      | nil => simp at hany
      | cons p rest ih =>
        obtain ⟨k, v⟩ := p
        simp only [List.any_cons, Bool.or_eq_true] at hany
        simp only [List.lookup_cons] at hl
        cases htk : t == k with
        | true => simp [htk] at hl
        | false =>
          simp only [htk] at hl
          rcases hany with h1 | h2
          · have := beq_comm_false htk; simp [this] at h1
          · exact ih h2 hl
  | false =>
    simp only [Bool.false_eq_true, if_false]
    rw [lookup_none_of_not_any t fs hany, lookup_append_new t _ fs hany]
    rfl

/-! ### Every occurrence, as ONE theorem over whole plans

`CustomCheck.customsFirst p` is a decidable check on the plans (Gv/Model/CustomCheck.lean; the plans of `Gv.Gen` pass it):
it walks every method body with the types of each position.  `Root p gm c s t`: `c : s → t` is the root of the body of
`gm`; `Occ p gm c s t c' s' t'`: the conversion position `c' : s' → t'` occurs strictly below `c`, at any depth (through
pointers, lists, maps, struct fields, underlying types, constructors — Gv/Proofs/CustomFirst.lean).  For ALL checked
programs, methods and positions: -/

open Gv.CustomCheck Gv.Sound

/-- **C06_every_occurrence**: a position whose pair has an extend function (contexts available) IS the call of exactly
that function with the declared argument roles, and evaluates — for every frame, source value and fuel — to that function's
result on the value at the position and the caller's context arguments of the declared types, in declared order; when no
extend function exists but a declared method does, it IS the call of that method and yields that method's result (the
callee receiving the caller's context values of its declared context types); a function whose contexts are not available
never occurs -/
theorem C06_every_occurrence (p : Program) (hp : customsFirst p = true) (m : Nat) (gm : GenMethod) (hm : p.methods[m]? = some gm)
    (c : Conv) (s t : Ty) (hr : Root p gm c s t) (c' : Conv) (s' t' : Ty) (ho : Occ p gm c s t c' s' t') :
    (∀ i, indexGet (extendIndex p.conv) s' t' gm.contexts = .hit i →
      ∃ d args re w, p.conv.customs[i]? = some d ∧ c' = .call (.custom i) args re w ∧ Slots d.args args ∧
        ∀ (fr : Frame) (fuel : Nat) (src old : Val) (n : Nat), ctxAvail fr d.args = true → p.sem.isCtor d.name = false →
          p.sem.failsOn d.name ((declArgVals fr src d.args).headD .nil) = false →
          evalConv p (fuel+1) fr c' src old n = .ok (.tok d.name (declArgVals fr src d.args), n)) ∧
    (∀ j, indexGet (extendIndex p.conv) s' t' gm.contexts = .none → indexGet (declIndex p.methods) s' t' gm.contexts = .hit j →
      ∃ gm' args re w, p.methods[j]? = some gm' ∧ c' = .call (.method j) args re w ∧ Slots gm'.args args ∧
        ∀ (fr : Frame) (fuel : Nat) (src old : Val) (n : Nat) (r : Val × Nat), ctxAvail fr gm'.args = true →
          Eval.callMethod p fuel j src (declCtxVals fr gm'.args) n = .ok r →
          evalConv p (fuel+1) fr c' src old n = .ok r) ∧
    indexGet (extendIndex p.conv) s' t' gm.contexts ≠ .unsatisfied := by
  refine ⟨?_, ?_, every_occurrence_satisfied p hp m gm hm c s t hr c' s' t' ho⟩
  · intro i hi
    obtain ⟨d, args, re, w, hd, rfl, hs⟩ := every_occurrence_custom p hp m gm hm c s t hr c' s' t' ho i hi
    exact ⟨d, args, re, w, hd, rfl, hs, fun fr fuel src old n hctx hc hf => evalCall_custom p fr fuel i d args re w src old n hd hs hctx hc hf⟩
  · intro j hx hj
    obtain ⟨gm', args, re, w, hg, rfl, hs⟩ := every_occurrence_method p hp m gm hm c s t hr c' s' t' ho j hx hj
    refine ⟨gm', args, re, w, hg, rfl, hs, ?_⟩
    intro fr fuel src old n r hctx hcall
    rw [← ctxValsOf_slots fr gm'.args args hs] at hcall
    exact evalCall_method p fr fuel j gm'.args args re w src old n r hs hctx hcall

/-- the root of a body is the one position `buildMethod` does not look up (a method does not call itself for its own
pair); when an extend function exists for the method's own pair, the method is the delegation to it -/
theorem C06_root_delegates (p : Program) (hp : customsFirst p = true) (m : Nat) (gm : GenMethod) (hm : p.methods[m]? = some gm) (i : Nat)
    (hi : indexGet (extendIndex p.conv) gm.source gm.target gm.contexts = .hit i) :
    (∃ args re, gm.body = some (.delegate i args re)) ∨ (∃ sp c, gm.body = some (.update sp c)) :=
  root_delegates p hp m gm hm i hi

/-- **C06_contexts_never_source** (over whole plans): at every occurrence of a pair with an extend function, slot by slot
of the call: the slot of a declared context argument is `ctx` of its declared type, and what it receives is the caller's
context argument whatever the conversion source is; the slot of the declared source argument is `source`, and what it
receives is the value at the position whatever the contexts are — no context is ever passed as a source, no source as a
context -/
theorem C06_contexts_never_source (p : Program) (hp : customsFirst p = true) (m : Nat) (gm : GenMethod) (hm : p.methods[m]? = some gm)
    (c : Conv) (s t : Ty) (hr : Root p gm c s t) (c' : Conv) (s' t' : Ty) (ho : Occ p gm c s t c' s' t') (i : Nat)
    (hi : indexGet (extendIndex p.conv) s' t' gm.contexts = .hit i) :
    ∃ d args re w, p.conv.customs[i]? = some d ∧ c' = .call (.custom i) args re w ∧
      ∀ (k : Nat) (a : Arg) (x : CallArg), d.args[k]? = some a → args[k]? = some x →
        (a.use = .context → x = .ctx a.ty ∧ ∀ (fr : Frame) (src src' : Val), argOf fr src x = argOf fr src' x) ∧
        (a.use = .source → x = .source ∧ ∀ (fr fr' : Frame) (src : Val), argOf fr src x = argOf fr' src x) := by
  obtain ⟨d, args, re, w, hd, hc, hs⟩ := every_occurrence_custom p hp m gm hm c s t hr c' s' t' ho i hi
  exact ⟨d, args, re, w, hd, hc, fun k a x ha hx => slots_routing hs k a x ha hx⟩

/-! non-vacuity: a declared method over a struct with a field, a slice (through a nested generated method) and a map of
the pair (string, int), which has the extend function `Atoi` -/

def exFi (n : String) : FieldInfo := { name := n.toList, exported := true, embedded := false, pkg := [] }
def exNd (id : String) (u : Ty) : NamedDecl :=
  { id := id.toList, pkgPath := "p".toList, pkgName := "p".toList, name := id.toList, exported := true, underlying := u, methods := [], consts := [] }
def exEnv : TEnv := [
  exNd "Item" (.struct (.cons (exFi "V") (.basic .string) .nil)),
  exNd "OItem" (.struct (.cons (exFi "V") (.basic .int) .nil)),
  exNd "In" (.struct (.cons (exFi "Name") (.basic .string) (.cons (exFi "Items") (.slice (.named "Item".toList))
    (.cons (exFi "M") (.map (.basic .string) (.basic .string)) .nil)))),
  exNd "Out" (.struct (.cons (exFi "Name") (.basic .int) (.cons (exFi "Items") (.slice (.named "OItem".toList))
    (.cons (exFi "M") (.map (.basic .int) (.basic .int)) .nil))))]
def exAtoi : FnDef :=
  { name := "Atoi".toList, pkgPath := "p".toList, source := some (.basic .string), target := .basic .int,
    args := [{ name := "s".toList, use := .source, ty := .basic .string }], contexts := [], returnError := false }
def exW : Wrap := { mode := .none, path := [] }
def exAtoiCall : Conv := .call (.custom 0) [.source] false exW
def exField (n : String) (cv : Conv) : FieldPlan := .mapped n.toList [n.toList] [false] false false cv .none
def exOuterBody (name : Conv) : Conv :=
  .structc (.cons (exField "Name" name)
    (.cons (exField "Items" (.list (.named "OItem".toList) true true (.call (.method 1) [.source] false exW)))
      (.cons (exField "M" (.mapc (.basic .int) (.basic .int) exAtoiCall exAtoiCall)) .nil))) false
def exInnerBody : Conv := .structc (.cons (exField "V" exAtoiCall) .nil) false
def exMethod (name : String) (s t : String) (explicit : Bool) (body : Conv) : GenMethod :=
  { name := name.toList, source := .named s.toList, target := .named t.toList,
    args := [{ name := "source".toList, use := .source, ty := .named s.toList }], contexts := [],
    returnError := false, updateTarget := false, explicit := explicit, dirty := false, originPath := [], originName := [],
    cfg := { common := {} }, body := some (.convert body) }
def exProgramWith (name : Conv) : Program :=
  { conv := { env := exEnv, common := {}, outputPkg := "p".toList, customs := [exAtoi], extend := [0], orc := {} },
    methods := [exMethod "Convert" "In" "Out" true (exOuterBody name), exMethod "ItemToOItem" "Item" "OItem" false exInnerBody] }
def exProgram : Program := exProgramWith exAtoiCall

example : customsFirst exProgram = true := by decide
/-- the checker discriminates: the automatic conversion at a position of the pair is rejected -/
example : customsFirst (exProgramWith (.cast .ident)) = false := by decide

def exGm0 : GenMethod := exMethod "Convert" "In" "Out" true (exOuterBody exAtoiCall)

/-- an occurrence at depth 2: the key conversion of the map in field `M` of the outer method, a position of the pair
(string, int) -/
example : Occ exProgram exGm0 (exOuterBody exAtoiCall) (.named "In".toList) (.named "Out".toList) exAtoiCall (.basic .string) (.basic .int) :=
  .step (c1 := .mapc (.basic .int) (.basic .int) exAtoiCall exAtoiCall) (s1 := .map (.basic .string) (.basic .string)) (t1 := .map (.basic .int) (.basic .int))
    (.field (tf := exFi "M") (tfs := (.cons (exFi "Name") (.basic .int) (.cons (exFi "Items") (.slice (.named "OItem".toList))
        (.cons (exFi "M") (.map (.basic .int) (.basic .int)) .nil)))) rfl (.there (.there .here)) rfl rfl)
    (.child (.mapKey (sv := .basic .string) (tv := .basic .int) rfl rfl))

example : Root exProgram exGm0 (exOuterBody exAtoiCall) (.named "In".toList) (.named "Out".toList) := .convert rfl
example : Gen.indexGet (Gen.extendIndex exProgram.conv) (.basic .string) (.basic .int) exGm0.contexts = .hit 0 := rfl

/-- the frame hypothesis of the semantic part: `Atoi` declares no context, so every frame supplies them all -/
example (fr : Frame) : ctxAvail fr exAtoi.args = true := rfl

def exValue : Val :=
  .struct [("Name".toList, .basic "5".toList),
           ("Items".toList, .slice (.src 0) [.struct [("V".toList, .basic "7".toList)]]),
           ("M".toList, .map (.src 1) [(.basic "1".toList, .basic "2".toList)])]

def exTok (s : String) : Val := .tok "Atoi".toList [.basic s.toList]

/-- the stamped results: `Atoi` at depth 1 (field), depth 2 (map key and value) and inside the nested generated method -/
example : Eval.callMethod exProgram 12 0 exValue [] 0 = .ok (.struct [("Name".toList, exTok "5"),
    ("Items".toList, .slice (.fresh 0) [.struct [("V".toList, exTok "7")]]),
    ("M".toList, .map (.fresh 1) [(exTok "1", exTok "2")])], 2) := by
  have hz1 : zeroVal exEnv 64 (Ty.named ['O', 'u', 't']) =
      .struct [("Name".toList, .basic "0".toList), ("Items".toList, .nil), ("M".toList, .nil)] := by
    simp [zeroVal, zeroVal.zeroFields, under, exEnv, TEnv.find, exNd, exFi, Fields.toList, zeroBasic]
  have hz2 : zeroVal exEnv 64 (Ty.named ['O', 'I', 't', 'e', 'm']) = .struct [("V".toList, .basic "0".toList)] := by
    simp [zeroVal, zeroVal.zeroFields, under, exEnv, TEnv.find, exNd, exFi, Fields.toList, zeroBasic]
  unfold Eval.callMethod
  simp [hz1, hz2, exProgram, exProgramWith, exMethod, exOuterBody, exInnerBody, exField, exAtoiCall, exValue, exAtoi, exTok, evalConv, evalConv_list_make,
    evalFields, evalElems, evalEntries, walk, fieldOf, setField, normStruct,
    Val.isAbsent, bind, StateT.bind, pure, StateT.pure, List.lookup, Eval.callMethod, argOf, List.filterMapM,
    List.filterMapM.loop, freshLoc]


end Gv.Props.C06
