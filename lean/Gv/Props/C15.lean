/-
C15 – each converter lands in the configured file and package; nothing else is written.

Model: Gv.Layout + Gv.Path + the output:* cases of Gv.Settings.parseConverterLine, tied to
generator/filemanager.go, config/package.go, config/converter.go, runner.go by Facts and the C15
campaign (goverter binary on scratch modules; direct calls of path/filepath and jennifer).
-/
import Gv.Model.Layout
import Gv.Proofs.SettingsLemmas
import Gv.Proofs.StrLemmas
import Gv.Proofs.PathLemmas

namespace Gv.Props.C15
open Gv.Str Gv.Path Gv.Settings Gv.Layout

/-! ### static ties -/
theorem tie_modes : Facts.writeModes = [("os.MkdirAll", "493"), ("os.WriteFile", "420")] := by decide   -- 0o755, 0o644
theorem tie_default_file : Facts.defaultConfigInterface.lookup "OutputFile" = some "./generated/generated.go" := by decide

/-! ### path resolution -/

/-- an absolute output:file is used in clean form (two spellings of one file are one file: D35); a relative one is resolved
against the declaring file's directory -/
theorem C15_path (declFile f : S) :
    outputPath declFile f = if isAbs f then clean f else join2 (dir declFile) f := rfl

/-- two spellings of one absolute file select one output path -/
theorem C15_abs_spellings (d1 d2 f g : S) (hf : isAbs f = true) (hg : isAbs g = true) (h : clean f = clean g) :
    outputPath d1 f = outputPath d2 g := by
  simp [outputPath, hf, hg, h]

example : outputPath "/w/a/x.go".toList "/w/a/../out/gen.go".toList = outputPath "/w/a/y.go".toList "../out/gen.go".toList := by decide

/-- defaults: ./generated/generated.go for interfaces, <file>.gen.go next to a variables block -/
theorem C15_default_paths (iface varFile pn pp : S) :
    (initConverter false iface varFile pn pp).outputFile = "./generated/generated.go".toList ∧
    (initConverter true iface varFile pn pp).outputFile = varFile := ⟨rfl, rfl⟩

example : defaultOutputFile "/w/p/input.go".toList = "input.gen.go".toList := by decide
example : outputPath "/w/p/input.go".toList "./generated/generated.go".toList = "/w/p/generated/generated.go".toList := by decide
example : outputPath "/w/p/input.go".toList "../x/y.go".toList = "/w/x/y.go".toList := by decide

/-- `output:file @cwd/x` resolves under the working directory (the oracle `cwdFile` is filepath.Abs ∘ Join cwd) -/
theorem C15_cwd_file (env : Env) (c : ConvCfg) (x : S) (hx : fields ("@cwd/".toList ++ x) = ["@cwd/".toList ++ x]) :
    parseConverterLine env c ("output:file ".toList ++ ("@cwd/".toList ++ x)) =
      .ok { c with outputFile := env.cwdFile x } := by
  have hcmd : Comments.command ("output:file ".toList ++ ("@cwd/".toList ++ x)) = ("output:file".toList, "@cwd/".toList ++ x) := by
    simp [Comments.command, cut]
  unfold parseConverterLine
  rw [hcmd]
  have hk : lookupKey converterKeyTable "output:file".toList = some .outputFile := by decide
  simp only [hk, parseString, hx]
  have hp : hasPrefix ("@cwd/".toList ++ x) "@cwd/".toList = true := by simp [hasPrefix]
  have hd : ("@cwd/".toList ++ x).drop 5 = x := by simp
  simp only [bind, Except.bind, pure, Except.pure, hp, if_true, hd]

/-! ### package clause -/

/-- the package clause is the configured/derived name, else the normalised last path element -/
theorem C15_clause (c : ConvCfg) :
    packageClause c = if c.outputPackageName.isEmpty then guessAlias c.outputPackagePath else c.outputPackageName := rfl

/-- an explicit `output:package path:name` / `:name` name is never overridden by an existing package -/
theorem C15_explicit_name_kept (loaded : S → Option S) (declFile declPkg : S) (c : ConvCfg)
    (h : c.outputPackageName.isEmpty = false) :
    (resolveOutputPackage loaded declFile declPkg c).outputPackageName = c.outputPackageName := by
  unfold resolveOutputPackage
  split
  · rfl
  · dsimp only
    split <;> split <;> simp_all

/-- an explicit `output:package path` is never overridden either -/
theorem C15_explicit_path_kept (loaded : S → Option S) (declFile declPkg : S) (c : ConvCfg)
    (h : c.outputPackagePath.isEmpty = false) :
    (resolveOutputPackage loaded declFile declPkg c).outputPackagePath = c.outputPackagePath := by
  unfold resolveOutputPackage
  split
  · rfl
  · dsimp only
    simp only [h, Bool.false_eq_true, if_false]
    split
    · rfl
    · split <;> rfl

/-- without output:package the path is the package of the output directory, and the name is that of
the existing package there (if one was loaded) -/
theorem C15_inferred (loaded : S → Option S) (declFile declPkg : S) (c : ConvCfg) (tp : S)
    (hp : c.outputPackagePath.isEmpty = true) (hn : c.outputPackageName.isEmpty = true)
    (hr : resolvePackage declFile declPkg c.outputFile = some tp) :
    (resolveOutputPackage loaded declFile declPkg c).outputPackagePath = tp ∧
    (resolveOutputPackage loaded declFile declPkg c).outputPackageName = (loaded tp).getD [] := by
  unfold resolveOutputPackage
  simp only [hr, hp, if_true]
  cases hl : loaded tp with
  | none =>
    have : c.outputPackageName = [] := by cases hc : c.outputPackageName <;> simp_all
    simp [this]
  | some n => simp [hn]

/-- the normalised name is a usable package name: non-empty, lower-case alphanumeric, no leading digit -/
theorem C15_guessAlias_wellformed (p : S) :
    guessAlias p ≠ [] ∧ (∀ ch ∈ guessAlias p, ('a' ≤ ch ∧ ch ≤ 'z') ∨ ('0' ≤ ch ∧ ch ≤ '9') ) ∧
    (∀ ch, (guessAlias p).head? = some ch → ¬ ('0' ≤ ch ∧ ch ≤ '9')) := by
  unfold guessAlias
  by_cases hne : (aliasCore p).isEmpty = true
  · simp only [hne, if_true]
    exact ⟨by decide, by decide, by decide⟩
  · simp only [hne, Bool.false_eq_true, if_false]
    refine ⟨by intro h; simp [h] at hne, ?_, ?_⟩
    · intro ch hch
      unfold aliasCore at hch
      have h1 := (List.dropWhile_sublist _).subset hch
      have h2 := (List.mem_filter.mp h1).2
      simpa using h2
    · intro ch hh
      unfold aliasCore at hh
      have := head?_dropWhile_not _ _ _ hh
      simpa using this

example : guessAlias "example.org/m/x/y-z".toList = "yz".toList := by decide
example : guessAlias "example.org/m/9lives".toList = "lives".toList := by decide
example : guessAlias "example.org/m/123".toList = "pkg".toList := by decide

/-! ### one file per path; converters sharing a file agree on the package -/

theorem place_paths_mem (ps : List Placed) : ∀ (fs out : List OutFile), place fs ps = .ok out →
    (∀ f ∈ fs, ∃ g ∈ out, g.path = f.path ∧ g.pkgID = f.pkgID ∧ g.clause = f.clause) ∧
    (∀ p ∈ ps, ∃ g ∈ out, g.path = p.path ∧ g.pkgID = p.pkgID) ∧
    (∀ g ∈ out, (∃ f ∈ fs, f.path = g.path) ∨ (∃ p ∈ ps, p.path = g.path)) := by
  induction ps with
  | nil =>
    intro fs out h; cases h
    exact ⟨fun f hf => ⟨f, hf, rfl, rfl, rfl⟩, by simp, fun g hg => Or.inl ⟨g, hg, rfl⟩⟩
  | cons p ps ih =>
    intro fs out h
    unfold place at h
    split at h
    · rename_i hfind
      obtain ⟨a, b, c⟩ := ih _ _ h
      refine ⟨?_, ?_, ?_⟩
      · intro f hf; exact a f (by simp [hf])
      · intro q hq
        rcases List.mem_cons.mp hq with rfl | hq
        · obtain ⟨g, hg, h1, h2, _⟩ := a { path := q.path, pkgID := q.pkgID, clause := q.clause, converters := [q.name] } (by simp)
          exact ⟨g, hg, h1, h2⟩
        · exact b q hq
      · intro g hg
        rcases c g hg with ⟨f, hf, hp⟩ | ⟨q, hq, hp⟩
        · rcases List.mem_append.mp hf with hf | hf
          · exact Or.inl ⟨f, hf, hp⟩
          · simp at hf; subst hf; exact Or.inr ⟨p, by simp, hp⟩
        · exact Or.inr ⟨q, by simp [hq], hp⟩
    · rename_i f0 hfind
      split at h
      · cases h
      · rename_i hid
        have hid' : f0.pkgID = p.pkgID := by simpa using hid
        have hf0 := List.mem_of_find?_eq_some hfind
        have hp0 : f0.path = p.path := by simpa using List.find?_some hfind
        obtain ⟨a, b, c⟩ := ih _ _ h
        have keep : ∀ f ∈ fs, ∃ g ∈ out, g.path = f.path ∧ g.pkgID = f.pkgID ∧ g.clause = f.clause := by
          intro f hf
          have : (if f.path = p.path then { f with converters := f.converters ++ [p.name] } else f) ∈
              fs.map (fun g => if (g.path == p.path) = true then { g with converters := g.converters ++ [p.name] } else g) := by
            refine List.mem_map.mpr ⟨f, hf, ?_⟩
            by_cases hfp : f.path = p.path <;> simp [hfp]
          obtain ⟨g, hg, h1, h2, h3⟩ := a _ this
          refine ⟨g, hg, ?_, ?_, ?_⟩
          · rw [h1]; split <;> rfl
          · rw [h2]; split <;> rfl
          · rw [h3]; split <;> rfl
        refine ⟨keep, ?_, ?_⟩
        · intro q hq
          rcases List.mem_cons.mp hq with rfl | hq
          · obtain ⟨g, hg, h1, h2, _⟩ := keep f0 hf0
            exact ⟨g, hg, by rw [h1, hp0], by rw [h2, hid']⟩
          · exact b q hq
        · intro g hg
          rcases c g hg with ⟨f, hf, hp⟩ | ⟨q, hq, hp⟩
          · obtain ⟨f', hf', rfl⟩ := List.mem_map.mp hf
            refine Or.inl ⟨f', hf', ?_⟩
            rw [← hp]; split <;> rfl
          · exact Or.inr ⟨q, by simp [hq], hp⟩

/-- **C15_only / C15_same_file (success side)**: the emitted files are exactly the output paths of the
selected converters, and every converter agrees with its file on the package -/
theorem C15_files_exact (ps : List Placed) (out : List OutFile) (h : place [] ps = .ok out) :
    (∀ p ∈ ps, ∃ g ∈ out, g.path = p.path ∧ g.pkgID = p.pkgID) ∧ (∀ g ∈ out, ∃ p ∈ ps, p.path = g.path) := by
  obtain ⟨_, b, c⟩ := place_paths_mem ps [] out h
  refine ⟨b, ?_⟩
  intro g hg
  rcases c g hg with ⟨f, hf, _⟩ | h2
  · cases hf
  · exact h2

/-- **C15_same_file (failure side)**: a converter that selects a file already holding another package is rejected -/
theorem C15_conflict_rejected (fs : List OutFile) (f : OutFile) (p : Placed) (ps : List Placed)
    (hfind : fs.find? (fun g => g.path == p.path) = some f) (hne : f.pkgID ≠ p.pkgID) :
    place fs (p :: ps) = .error (.differentPackages p.path) := by
  unfold place
  simp [hfind, hne]

/-- no two emitted files share a path -/
theorem place_nodup (ps : List Placed) : ∀ (fs out : List OutFile), place fs ps = .ok out →
    (fs.map (·.path)).Nodup → (out.map (·.path)).Nodup := by
  induction ps with
  | nil => intro fs out h hn; cases h; exact hn
  | cons p ps ih =>
    intro fs out h hn
    unfold place at h
    split at h
    · rename_i hfind
      apply ih _ _ h
      rw [List.map_append, List.nodup_append]
      refine ⟨hn, by simp, ?_⟩
      intro a ha b hb
      simp at hb; subst hb
      intro hab; subst hab
      obtain ⟨g, hg, hgp⟩ := List.mem_map.mp ha
      have := List.find?_eq_none.mp hfind g hg
      simp [hgp] at this
    · split at h
      · cases h
      · apply ih _ _ h
        have : (fs.map (fun g => if (g.path == p.path) = true then { g with converters := g.converters ++ [p.name] } else g)).map (·.path) = fs.map (·.path) := by
          rw [List.map_map]; apply List.map_congr_left; intro g _; simp only [Function.comp]; split <;> rfl
        rw [this]; exact hn

theorem C15_one_file_per_path (ps : List Placed) (out : List OutFile) (h : place [] ps = .ok out) :
    (out.map (·.path)).Nodup := place_nodup ps [] out h (by simp)

/-! ### a relative output:file that does not climb above the module root stays below it -/

/-- **C15_output_under_root**: for a converter declared in `r/relDecl` (`r` a normal absolute directory, e.g. the module root)
with a relative `output:file f` such that `dir(relDecl)/f` never climbs above its start, the output path is `r` itself or
`r/k₁/…/kₙ` with normal components `kᵢ` (no "", ".", ".." left): a normal absolute path with prefix `r`; the part after `r`
is a function of `relDecl` and `f` only -/
theorem C15_output_under_root (r relDecl f : S) (hr : NormalAbs r) (hf : isAbs f = false)
    (hne : NoEscape (lastSlashPrefix relDecl ++ f)) :
    ∃ K, Normal K ∧
      outputPath (r ++ '/' :: relDecl) f = r ++ (if K = [] then [] else '/' :: join ['/'] K) ∧
      (if K = [] then [] else '/' :: join ['/'] K) = relTail (lastSlashPrefix relDecl ++ f) ∧
      NormalAbs (outputPath (r ++ '/' :: relDecl) f) := by
  obtain ⟨K, hK, e⟩ := relTail_normal _ hne
  refine ⟨K, hK, ?_, e.symm, ?_⟩
  · rw [outputPath_root r relDecl f hr hf hne, e]
  · rw [outputPath_root r relDecl f hr hf hne]
    exact normalAbs_append_relTail r _ hr hne

/-- non-vacuity -/
example : NormalAbs "/w/mod".toList ∧ isAbs "../x/./y.go".toList = false ∧
    NoEscape (lastSlashPrefix "p/input.go".toList ++ "../x/./y.go".toList) ∧
    outputPath "/w/mod/p/input.go".toList "../x/./y.go".toList = "/w/mod/x/y.go".toList := by decide

/-- `filepath.Clean` is idempotent (a documented law of Go's `path.Clean`), for every path -/
theorem C15_clean_idem (p : S) : clean (clean p) = clean p := clean_idem p

/-- an output:file is always resolved to a path in canonical form (a fixed point of `filepath.Clean`) -/
theorem C15_output_path_canonical (declFile f : S) :
    clean (outputPath declFile f) = outputPath declFile f := by
  cases hf : isAbs f with
  | false => exact outputPath_clean declFile f hf
  | true => simp only [outputPath, hf, if_true]; exact clean_idem f

example : isAbs "a/../../b//c/.".toList = false ∧
    outputPath "x/../y/in.go".toList "a/../../b//c/.".toList = "b/c".toList := by decide

end Gv.Props.C15
