/-
C14 – parameters/results are classified by role; invalid signatures are rejected.

Model: Gv.Signature.parse (tied to method/parse.go Parse by the exhaustive C14
campaign over all signature shapes up to 4 parameters x 3 results x 10 profiles).
-/
import Gv.Model.Signature
import Gv.Proofs.SignatureLemmas
import Gv.Model.Facts

namespace Gv.Props.C14
open Gv.Str Gv.Signature Gv.Settings

/-- **C14_role_rule**: converter-typed ⇒ interface; named by `update` ⇒ target; matched by the context
regex or declared `context` ⇒ context; otherwise a source (the first one) or an additional source. -/
theorem C14_role_rule (o : Opts) (seen : Bool) (p : Param) :
    roleOf o seen p =
      if p.isConverter then .iface
      else if (!o.updateParam.isEmpty && p.name == o.updateParam) then .target
      else if (p.ctxMatch || o.localContext.contains p.name) then .context
      else if !seen then .source else .multiSource := rfl

theorem guard_ok {c : Bool} {e : PErr} (h : chk c e = .ok ()) : c = false := by
  unfold chk at h; cases c <;> simp_all

theorem finishResults_frame {rs : List Result} {d0 d : Def} (h : finishResults rs d0 = .ok d) :
    d.roles = d0.roles ∧ d.source = d0.source ∧ d.multiSources = d0.multiSources ∧ d.updateTarget = d0.updateTarget := by
  unfold finishResults at h
  split at h
  · cases h; exact ⟨rfl, rfl, rfl, rfl⟩
  · split at h
    · cases h; exact ⟨rfl, rfl, rfl, rfl⟩
    · split at h
      · cases h; exact ⟨rfl, rfl, rfl, rfl⟩
      · cases h
    · cases h

/-- everything `parse` checked, once it succeeded -/
structure Accepted (o : Opts) (obj : Obj) (d0 d : Def) : Prop where
  accessible : obj.accessible = true
  isFunc : obj.isFunc = true
  classified : classify o obj.results {} obj.params = .ok d0
  updateArg : d0.updateTarget = false → o.updateParam.isEmpty = true
  finished : finishResults obj.results d0 = .ok d
  generic : obj.typeParams = true → o.allowTypeParams = true
  noneMode : o.params = .none → d.source.isSome = false
  requiredMode : o.params = .required → d.source.isSome = true
  single : o.multiSource = false → d.multiSources = []

theorem parse_accepted (o : Opts) (obj : Obj) (d : Def) (h : parse o obj = .ok d) : ∃ d0, Accepted o obj d0 d := by
  unfold parse at h
  obtain ⟨_, g1, h⟩ := bind_ok h
  obtain ⟨_, g2, h⟩ := bind_ok h
  obtain ⟨d0, hc, h⟩ := bind_ok h
  obtain ⟨_, g3, h⟩ := bind_ok h
  obtain ⟨d1, hf, h⟩ := bind_ok h
  obtain ⟨_, g4, h⟩ := bind_ok h
  obtain ⟨_, g5, h⟩ := bind_ok h
  obtain ⟨_, g6, h⟩ := bind_ok h
  obtain ⟨_, g7, h⟩ := bind_ok h
  cases h
  have g1 := guard_ok g1; have g2 := guard_ok g2; have g3 := guard_ok g3; have g4 := guard_ok g4
  have g5 := guard_ok g5; have g6 := guard_ok g6; have g7 := guard_ok g7
  refine ⟨d0, ⟨by simpa using g1, by simpa using g2, hc, ?_, hf, ?_, ?_, ?_, ?_⟩⟩
  · intro hu; rw [hu] at g3; simpa using g3
  · intro ht; rw [ht] at g4; simpa using g4
  · intro hp; rw [hp] at g5; cases hs : d.source.isSome <;> simp_all
  · intro hp; rw [hp] at g6; cases hs : d.source <;> simp_all
  · intro hm; rw [hm] at g7; cases hs : d.multiSources <;> simp_all

/-- **C14_roles**: an accepted declaration has exactly one role per parameter, in declared order, as
given by the role rule. -/
theorem C14_roles (o : Opts) (obj : Obj) (d : Def) (h : parse o obj = .ok d) :
    d.roles = specRoles o false obj.params ∧ d.roles.length = obj.params.length := by
  obtain ⟨d0, a⟩ := parse_accepted o obj d h
  have hs := classify_spec o obj.results obj.params {} d0 a.classified
  have hf := finishResults_frame a.finished
  have : d.roles = specRoles o false obj.params := by rw [hf.1, hs.1]; rfl
  exact ⟨this, by rw [this, specRoles_length]⟩

/-- **C14_one_source**: with source parameters required (converter methods, extend) there is exactly
one source and no additional one -/
theorem C14_one_source (o : Opts) (obj : Obj) (d : Def) (h : parse o obj = .ok d)
    (hreq : o.params = .required) (hsingle : o.multiSource = false) :
    d.roles.count .source = 1 ∧ d.roles.count .multiSource = 0 := by
  obtain ⟨d0, a⟩ := parse_accepted o obj d h
  obtain ⟨hr, hsrc, hmul⟩ := classify_spec o obj.results obj.params {} d0 a.classified
  have hf := finishResults_frame a.finished
  have hroles : d.roles = specRoles o false obj.params := (C14_roles o obj d h).1
  have h1 := a.requiredMode hreq
  rw [hf.2.1, hsrc] at h1
  have hcontains : (specRoles o false obj.params).contains .source = true := by simpa using h1
  have h2 := a.single hsingle
  rw [hf.2.2.1] at h2
  rw [h2] at hmul
  refine ⟨?_, ?_⟩
  · rw [hroles, specRoles_count_source, hcontains]; rfl
  · rw [hroles]
    have hm' : 0 = 0 + List.count Role.multiSource (specRoles o false obj.params) := hmul
    omega

/-- **C14_no_source**: struct-method sources (`ParamsNone`) have no source parameter at all -/
theorem C14_no_source (o : Opts) (obj : Obj) (d : Def) (h : parse o obj = .ok d) (hnone : o.params = .none) :
    d.roles.count .source = 0 ∧ d.roles.count .multiSource = 0 := by
  obtain ⟨d0, a⟩ := parse_accepted o obj d h
  obtain ⟨hr, hsrc, hmul⟩ := classify_spec o obj.results obj.params {} d0 a.classified
  have hf := finishResults_frame a.finished
  have hroles : d.roles = specRoles o false obj.params := (C14_roles o obj d h).1
  have h1 := a.noneMode hnone
  rw [hf.2.1, hsrc] at h1
  have hcontains : (specRoles o false obj.params).contains .source = false := by simpa using h1
  refine ⟨?_, ?_⟩
  · rw [hroles, specRoles_count_source, hcontains]; rfl
  · rw [hroles]; exact specRoles_seen_all_multi_or_other o obj.params hcontains

/-- **C14_at_most_one_source** (any mode): never two parameters in the source role -/
theorem C14_at_most_one_source (o : Opts) (obj : Obj) (d : Def) (h : parse o obj = .ok d) :
    d.roles.count .source ≤ 1 := by
  rw [(C14_roles o obj d h).1, specRoles_count_source]
  split <;> omega

/-- **C14_results**: a non-update method has one result, or two of which the second is the builtin
`error`; the first result is the target -/
theorem C14_results (o : Opts) (obj : Obj) (d : Def) (h : parse o obj = .ok d) (hu : d.updateTarget = false) :
    (∃ r, obj.results = [r] ∧ d.target = some r.ty) ∨
    (∃ r e, obj.results = [r, e] ∧ e.isError = true ∧ d.target = some r.ty ∧ d.returnError = true) := by
  obtain ⟨d0, a⟩ := parse_accepted o obj d h
  have hf := finishResults_frame a.finished
  have hu0 : d0.updateTarget = false := by rw [← hf.2.2.2]; exact hu
  have hfin := a.finished
  unfold finishResults at hfin
  simp only [hu0, Bool.false_eq_true, if_false] at hfin
  split at hfin
  · rename_i r hres; cases hfin; exact Or.inl ⟨r, hres, rfl⟩
  · rename_i r e hres
    split at hfin
    · rename_i he; cases hfin; exact Or.inr ⟨r, e, hres, he, rfl, rfl⟩
    · cases hfin
  · cases hfin

theorem classify_update (o : Opts) (rs : List Result) (ps : List Param) : ∀ d d' : Def,
    classify o rs d ps = .ok d' → d'.updateTarget = true → d.updateTarget = true ∨ rs = [] ∨ ∃ e, rs = [e] ∧ e.isError = true := by
  induction ps with
  | nil => intro d d' h hu; cases h; exact Or.inl hu
  | cons p ps ih =>
    intro d d' h hu
    unfold classify at h
    split at h
    · have := ih _ _ h hu; exact this
    · split at h
      · exact Or.inr (Or.inl rfl)
      · rename_i r
        split at h
        · rename_i he; exact Or.inr (Or.inr ⟨r, rfl, he⟩)
        · cases h
      · cases h
    · have := ih _ _ h hu; exact this
    · have := ih _ _ h hu; exact this
    · have := ih _ _ h hu; exact this

/-- **C14_update_results**: an update method returns nothing or exactly `error` -/
theorem C14_update_results (o : Opts) (obj : Obj) (d : Def) (h : parse o obj = .ok d) (hu : d.updateTarget = true) :
    obj.results = [] ∨ ∃ e, obj.results = [e] ∧ e.isError = true := by
  obtain ⟨d0, a⟩ := parse_accepted o obj d h
  have hf := finishResults_frame a.finished
  have hu0 : d0.updateTarget = true := by rw [← hf.2.2.2]; exact hu
  rcases classify_update o obj.results obj.params {} d0 a.classified hu0 with h1 | h1 | h1
  · cases h1
  · exact Or.inl h1
  · exact Or.inr h1

/-- **C14_rejects**: inaccessible objects, non-functions and (unless allowed) generic functions are rejected -/
theorem C14_reject_inaccessible (o : Opts) (obj : Obj) (h : obj.accessible = false) : parse o obj = .error .notExported := by
  simp [parse, chk, h, bind, Except.bind]

theorem C14_reject_nonfunc (o : Opts) (obj : Obj) (ha : obj.accessible = true) (h : obj.isFunc = false) :
    parse o obj = .error .notFunction := by
  simp [parse, chk, ha, h, bind, Except.bind]

theorem C14_reject_generic (o : Opts) (obj : Obj) (d : Def) (h : parse o obj = .ok d) :
    obj.typeParams = true → o.allowTypeParams = true := by
  obtain ⟨d0, a⟩ := parse_accepted o obj d h
  exact a.generic

/-- `update ARG` naming no parameter is rejected -/
theorem C14_update_arg_must_exist (o : Opts) (obj : Obj) (d : Def) (h : parse o obj = .ok d)
    (hup : o.updateParam.isEmpty = false) : d.updateTarget = true := by
  obtain ⟨d0, a⟩ := parse_accepted o obj d h
  have hf := finishResults_frame a.finished
  cases hu : d0.updateTarget
  · have := a.updateArg hu; rw [hup] at this; cases this
  · rw [hf.2.2.2, hu]

/-- non-vacuity: a plain `func(source In) (Out, error)` is accepted with the expected roles -/
def exampleObj : Obj :=
  { accessible := true, isFunc := true, typeParams := false,
    params := [{ name := "source".toList, ty := "In".toList, isConverter := false, ctxMatch := false }],
    results := [{ ty := "Out".toList, isError := false }, { ty := "error".toList, isError := true }] }

example : (parse {} exampleObj).toOption.map (fun d => (d.roles, d.returnError, d.updateTarget)) =
    some ([Role.source], true, false) := by rfl


/-! ### Every consumer of a signature parses it with the profile of the model (regenerated tie) -/

set_option maxRecDepth 20000 in
/-- the `method.ParseOpts` literals of the source tree are exactly the five consumers of the model, each with the
parameter mode, the level of `arg:context:regex`, and the converter/update/type-parameter switches of `consumerOpts` -/
theorem C14_consumers_match_source :
    Gv.Facts.parseOptsSites = (allConsumers.map Consumer.site) ∧
    Gv.Facts.structMethodContextRegex = ".*" ∧ Gv.Facts.multiSourceEnabledSites = [] := by decide

/-- the context pattern of the method's own signature, of its constructor and of its `map … | FUNC` functions
is resolved once, at method level: the same in all three places -/
theorem C14_context_pattern_same_everywhere_in_method (cli conv meth : Option S) :
    effPattern .converterMethod cli conv meth = effPattern .dflt cli conv meth ∧
    effPattern .converterMethod cli conv meth = effPattern .mapFunc cli conv meth := ⟨rfl, rfl⟩

/-- inheritance of the pattern: a method-level value wins, then the converter's, then the command line's -/
theorem C14_context_pattern_inherits (cli conv meth : Option S) :
    (∀ m, meth = some m → effPattern .converterMethod cli conv meth = some m) ∧
    (∀ c, meth = none → conv = some c → effPattern .converterMethod cli conv meth = some c) ∧
    (meth = none → conv = none → effPattern .converterMethod cli conv meth = cli) ∧
    (∀ c, conv = some c → effPattern .extend cli conv meth = some c) ∧
    (conv = none → effPattern .extend cli conv meth = cli) := by
  refine ⟨?_, ?_, ?_, ?_, ?_⟩
  · intro m h; subst h; rfl
  · intro c h1 h2; subst h1; subst h2; rfl
  · intro h1 h2; subst h1; subst h2; cases cli <;> rfl
  · intro c h; subst h; rfl
  · intro h; subst h; cases cli <;> rfl

end Gv.Props.C14
