/-
C11 – pointer mismatches and default constructors follow the documented semantics.

Model: Gv.Gen (rules 4–7 and targetVar) and Gv.Eval (tgtPtr, srcPtr, withCtor, ctorUpdate).  Tied to the code
by the C11 campaign: default constructors (value/pointer result, with/without source and error) over the four
pointer shapes with default:update at both levels, plus the structural pointer matrix.
-/
import Gv.Model.Eval
import Gv.Model.Gen
import Gv.Proofs.EvalLemmas
import Gv.Props.C02
import Gv.Props.C03

namespace Gv.Props.C11
open Gv Gv.Str Gv.Eval Gv.Gen

variable (p : Program) (fr : Frame)

/-- **C11_value_to_ptr**: `T → *U` yields a non-nil pointer to the conversion of the value -/
theorem C11_value_to_ptr (fuel : Nat) (te : Ty) (inner : Conv) (src old v : Val) (n n' : Nat)
    (h : evalConv p fuel { fr with parent := none } inner src (zeroVal p.conv.env 64 te) n = .ok (v, n')) :
    evalConv p (fuel+1) fr (.tgtPtr te inner) src old n = .ok (.ptr (.fresh n') v, n' + 1) :=
  C02.C02_value_to_ptr_nonnil p fr fuel te inner src old v n n' h

/-- **C11_ptr_to_value**: `*T → U` is generated only with useZeroValueOnPointerInconsistency … -/
theorem C11_ptr_to_value_needs_flag (c : Converter) (fuel : Nat) (cx : Ctx) (mode : Mode) (pp : Bool) (path : List PathElem) (st : GState)
    (se : Ty) (fs : Fields)
    (hu : cx.cfg.common.useUnderlying = false) (hs : cx.cfg.common.skipCopySameType = false) (hz : cx.cfg.common.useZeroValue = false) :
    noLookup c (fuel+1) cx mode pp (.ptr se) (.struct fs) path st = .error .typeMismatchPtr :=
  C03.C03_ptr_to_struct_needs_flag c fuel cx mode pp path st se fs hu hs hz

/-- … and then nil yields the zero value of U (the target variable is left as declared) … -/
theorem C11_ptr_to_value_nil (fuel : Nat) (t : Ty) (inner : Conv) (n : Nat) :
    evalConv p (fuel+1) fr (.srcPtr t inner) .nil (zeroVal p.conv.env 64 t) n = .ok (zeroVal p.conv.env 64 t, n) :=
  C02.C02_srcptr_nil p fr fuel t inner _ n

/-- … and a non-nil pointer the conversion of the pointee -/
theorem C11_ptr_to_value_nonnil (fuel : Nat) (t : Ty) (inner : Conv) (l : Loc) (x old : Val) (n : Nat) :
    evalConv p (fuel+1) fr (.srcPtr t inner) (.ptr l x) old n =
    evalConv p fuel { fr with parent := some (.ptr l x) } inner x (zeroVal p.conv.env 64 t) n := by
  simp [evalConv]

/-- **C11_default_nil**: with `default FUNC`, a nil source pointer returns FUNC's result unchanged -/
theorem C11_default_nil (fuel : Nat) (te : Ty) (ctor inner : Conv) (cv : Val) (n n' : Nat)
    (hc : evalConv p (fuel+1) fr ctor .nil .nil n = .ok (cv, n')) :
    evalConv p (fuel+2) fr (.withCtor ctor false (.ptrPtr te inner)) .nil .nil n = .ok (cv, n') := by
  unfold evalConv
  simp only [Bool.false_eq_true, if_false]
  apply (E_bind_ok _ _ _ _).mpr
  refine ⟨cv, n', hc, ?_⟩
  apply (E_bind_ok _ _ _ _).mpr
  refine ⟨cv, n', by simp [pure, StateT.pure], ?_⟩
  simp [evalConv, pure, StateT.pure]

/-- **C11_default_update (nil)**: with default:update a nil source also returns FUNC's result -/
theorem C11_default_update_nil (fuel : Nat) (ctor inner : Conv) (cv : Val) (n n' : Nat) (tgtIsPtr : Bool)
    (hc : evalConv p fuel fr ctor .nil .nil n = .ok (cv, n')) :
    evalConv p (fuel+1) fr (.ctorUpdate ctor false true tgtIsPtr inner) .nil .nil n = .ok (cv, n') := by
  unfold evalConv
  simp only [Bool.false_eq_true, if_false, if_true]
  apply (E_bind_ok _ _ _ _).mpr
  refine ⟨cv, n', hc, ?_⟩
  apply (E_bind_ok _ _ _ _).mpr
  exact ⟨cv, n', by simp [pure, StateT.pure], by simp [pure, StateT.pure]⟩

/-- **C11_default_keep**: fields that are not assigned keep FUNC's values (the struct is assigned on top of it) -/
theorem C11_default_keep (fuel : Nat) (t : S) (rest : FieldPlans) (src ctorVal : Val) (n : Nat) :
    evalFields p (fuel+1) fr (.cons (.skip t) rest) src ctorVal n = evalFields p fuel fr rest src ctorVal n := by
  simp [evalFields]

end Gv.Props.C11
