/-
C11 – pointer mismatches and default constructors follow the documented semantics.

Model: Gv.Gen (rules 4–7 and targetVar) and Gv.Eval (tgtPtr, srcPtr, withCtor, ctorUpdate).  Tied to the code
by the C11 campaign: default constructors (value/pointer result, with/without source and error) over the four
pointer shapes with default:update at both levels, plus the structural pointer matrix.
-/
import Gv.Model.Eval
import Gv.Model.Gen
import Gv.Proofs.EvalLemmas
import Gv.Proofs.UpdateSound
import Gv.Proofs.PlanCheckUSound
import Gv.Props.C02
import Gv.Props.C03
import Gv.Props.C02

namespace Gv.Props.C11
open Gv Gv.Str Gv.Eval Gv.Gen

variable (p : Program) (fr : Frame)

/-- **C11_value_to_ptr**: `T → *U` yields a non-nil pointer to the conversion of the value -/
theorem C11_value_to_ptr (fuel : Nat) (te : Ty) (inner : Conv) (src old v : Val) (n n' : Nat)
    (h : evalConv p fuel { fr with parent := none } inner src (zeroVal p.conv.env 64 te) n = .ok (v, n')) :
    evalConv p (fuel+1) fr (.tgtPtr te inner) src old n = .ok (.ptr (.fresh n') v, n' + 1) :=
  C02.C02_value_to_ptr_nonnil p fr fuel te inner src old v n n' h

/-- **C11_ptr_to_value**: `*T → U` is generated only with useZeroValueOnPointerInconsistency … -/
theorem C11_ptr_to_value_needs_flag (c : Converter) (fuel : Nat) (cx : Ctx) (mode : Mode) (pp : Bool) (path : List PathElem) (st : GState)
    (se : Ty) (fs : Fields)
    (hu : cx.cfg.common.useUnderlying = false) (hs : cx.cfg.common.skipCopySameType = false) (hz : cx.cfg.common.useZeroValue = false) :
    noLookup c (fuel+1) cx mode pp (.ptr se) (.struct fs) path st = .error .typeMismatchPtr :=
  C03.C03_ptr_to_struct_needs_flag c fuel cx mode pp path st se fs hu hs hz

/-- … and then nil yields the zero value of U (the target variable is left as declared) … -/
theorem C11_ptr_to_value_nil (fuel : Nat) (t : Ty) (inner : Conv) (n : Nat) :
    evalConv p (fuel+1) fr (.srcPtr t inner) .nil (zeroVal p.conv.env 64 t) n = .ok (zeroVal p.conv.env 64 t, n) :=
  C02.C02_srcptr_nil p fr fuel t inner _ n

/-- … and a non-nil pointer the conversion of the pointee -/
theorem C11_ptr_to_value_nonnil (fuel : Nat) (t : Ty) (inner : Conv) (l : Loc) (x old : Val) (n : Nat) :
    evalConv p (fuel+1) fr (.srcPtr t inner) (.ptr l x) old n =
    evalConv p fuel { fr with parent := some (.ptr l x) } inner x (zeroVal p.conv.env 64 t) n := by
  simp [evalConv]

/-- **C11_default_nil**: with `default FUNC`, a nil source pointer returns FUNC's result unchanged -/
theorem C11_default_nil (fuel : Nat) (te : Ty) (ctor inner : Conv) (cv : Val) (n n' : Nat)
    (hc : evalConv p (fuel+1) fr ctor .nil .nil n = .ok (cv, n')) :
    evalConv p (fuel+2) fr (.withCtor ctor false (.ptrPtr te inner)) .nil .nil n = .ok (cv, n') := by
  unfold evalConv
  simp only [Bool.false_eq_true, if_false]
  apply (E_bind_ok _ _ _ _).mpr
  refine ⟨cv, n', hc, ?_⟩
  apply (E_bind_ok _ _ _ _).mpr
  refine ⟨cv, n', by simp [pure, StateT.pure], ?_⟩
  simp [evalConv, pure, StateT.pure]

/-- **C11_default_update (nil)**: with default:update a nil source also returns FUNC's result -/
theorem C11_default_update_nil (fuel : Nat) (ctor inner : Conv) (cv : Val) (n n' : Nat) (tgtIsPtr : Bool)
    (hc : evalConv p fuel fr ctor .nil .nil n = .ok (cv, n')) :
    evalConv p (fuel+1) fr (.ctorUpdate ctor false true tgtIsPtr inner) .nil .nil n = .ok (cv, n') := by
  unfold evalConv
  simp only [Bool.false_eq_true, if_false, if_true]
  apply (E_bind_ok _ _ _ _).mpr
  refine ⟨cv, n', hc, ?_⟩
  apply (E_bind_ok _ _ _ _).mpr
  exact ⟨cv, n', by simp [pure, StateT.pure], by simp [pure, StateT.pure]⟩

/-- **C11_default_keep**: fields that are not assigned keep FUNC's values (the struct is assigned on top of it) -/
theorem C11_default_keep (fuel : Nat) (t : S) (rest : FieldPlans) (src ctorVal : Val) (n : Nat) :
    evalFields p (fuel+1) fr (.cons (.skip t) rest) src ctorVal n = evalFields p fuel fr rest src ctorVal n := by
  simp [evalFields]

/-! ### Pointer mismatches inside the composite theorem of C02

`C02_composite` covers plans with `*T → U` positions (generated only with useZeroValueOnPointerInconsistency) and
`T → *U` positions. Read off the relation `Spec.Img`, for every checked program, every well-typed source of any shape: -/

open Gv.Spec in
/-- `*T → U`, nil: the result is the zero value of `U` (never a panic, never garbage) -/
theorem C11_img_nil_pointer_to_value {env : TEnv} {s t se : Ty} {w : Val} (hs : under env s = .ptr se)
    (ht : ∀ e, under env t ≠ .ptr e) (h : Img env s t .nil w) : IsZeroOf env t w := by
  cases h with
  | ptrNil _ h2 => exact absurd h2 (ht _)
  | toPtr h1 _ _ => exact absurd hs (h1 se)
  | srcNil _ _ hz => exact hz
  | sliceNil h1 _ => rw [hs] at h1; cases h1
  | mapNil h1 _ => rw [hs] at h1; cases h1

open Gv.Spec in
/-- `*T → U`, non-nil: the result is the image of the pointee -/
theorem C11_img_pointer_to_value {env : TEnv} {s t se : Ty} {l : Loc} {x w : Val} (hs : under env s = .ptr se)
    (ht : ∀ e, under env t ≠ .ptr e) (h : Img env s t (.ptr l x) w) : Img env se t x w := by
  cases h with
  | ptrPtr _ h2 _ => exact absurd h2 (ht _)
  | toPtr h1 _ _ => exact absurd hs (h1 se)
  | srcPtr h1 _ hi => rw [hs] at h1; cases h1; exact hi

open Gv.Spec in
/-- `T → *U`: always a non-nil pointer to the image of the value (restated from C02) -/
theorem C11_img_value_to_pointer {env : TEnv} {s t te : Ty} {v w : Val} (hs : ∀ e, under env s ≠ .ptr e)
    (ht : under env t = .ptr te) (h : Img env s t v w) : ∃ y, w = .ptr .none y ∧ Img env s te v y :=
  Gv.Props.C02.C02_img_value_to_ptr_nonnil hs ht h

/-! ### The composite theorems: methods with a default constructor

`PlanCheck.checkProgU` accepts conversion methods whose body starts from a default constructor (`withCtor` / `ctorUpdate`
around the constructor call `Gen.targetVar` emits, the rest in the structural fragment with ignored fields / zero guards).
For every program that passes, every such method, every well-typed source value and every fuel, `init` being what FUNC
returned (`IsCtorOf`: `ctorVal` of the target type, behind a pointer — the first location the call allocates — when the
target is a pointer): -/

open Gv.Typing Gv.Spec Gv.Sound in
/-- **plain `default FUNC`**: the result is the conversion of the source ONTO FUNC's result (`Spec.ImgOnto` with
`old = init`: ignored fields keep FUNC's values, mapped fields hold the images), and a nil source pointer returns FUNC's
result itself, unchanged (the same object, not a copy) -/
theorem C11_composite_default (p : Program) (hchk : PlanCheck.checkProgU p = true)
    (fuel m : Nat) (gm : GenMethod) (ctor : Conv) (tp : Bool) (rest : Conv)
    (hm : p.methods[m]? = some gm) (hb : gm.body = some (.convert (.withCtor ctor tp rest)))
    (v : Val) (hwt : WT p.conv.env v gm.source) (cs : List Val) (n : Nat) (v' : Val) (n' : Nat)
    (hev : Eval.callMethod p fuel m v cs n = .ok (v', n')) :
    ∃ init, IsCtorOf p.conv.env gm.target (erase init) ∧
      (∀ te, under p.conv.env gm.target = .ptr te → ∃ tv, init = .ptr (.fresh n) tv) ∧
      ImgOnto p.conv.env (CtorSig p) gm.source gm.target v (erase init) (erase v') ∧
      (∀ se, under p.conv.env gm.source = .ptr se → v = .nil → v' = init) :=
  default_method_onto p (checkProgU_sound p hchk) fuel m gm ctor tp rest hm hb v hwt cs n v' n' hev

open Gv.Typing Gv.Spec Gv.Sound in
/-- plain `default FUNC` on a struct → struct method, field by field (`Spec.FieldOutcome` with FUNC's field values as the
previous values): an ignored field holds FUNC's value, a mapped field the conversion of its source field -/
theorem C11_composite_default_fields (p : Program) (hchk : PlanCheck.checkProgU p = true)
    (fuel m : Nat) (gm : GenMethod) (ctor : Conv) (tp : Bool) (plans : FieldPlans) (upd : Bool)
    (hm : p.methods[m]? = some gm) (hb : gm.body = some (.convert (.withCtor ctor tp (.structc plans upd))))
    (sfs tfs : Fields) (hs : under p.conv.env gm.source = .struct sfs) (ht : under p.conv.env gm.target = .struct tfs)
    (fs : List (S × Val)) (hwt : WT p.conv.env (.struct fs) gm.source) (cs : List Val) (n : Nat) (v' : Val) (n' : Nat)
    (hev : Eval.callMethod p fuel m (.struct fs) cs n = .ok (v', n')) :
    ∃ ws, v' = .struct ws ∧
      ∀ (i : Nat) (tf : FieldInfo) (tty : Ty), tfs.toList[i]? = some (tf, tty) →
        ∃ f, plans.toList[i]? = some f ∧
          FieldOutcome p.conv.env (CtorSig p) gm.source (.struct fs) tf tty
            (erase.eraseFields (ctorVal.ctorFields p.conv.env 63 tfs.toList)) (erase.eraseFields ws) f := by
  obtain ⟨ws, hv', himg⟩ := default_struct_onto p (checkProgU_sound p hchk) fuel m gm ctor tp plans upd hm hb sfs tfs hs ht fs hwt
    cs n v' n' hev
  exact ⟨ws, hv', fun i tf tty hi => himg.outcome i tf tty hi⟩

open Gv.Typing Gv.Spec Gv.Sound in
/-- **`default FUNC` with default:update**: the result is FUNC's result with the source applied on top (`Spec.CtorImg … true`:
nil source pointer ⇒ FUNC's result; `*S → *T` / `S → *T` ⇒ FUNC's pointer with its pointee updated from the source;
`*S → T` ⇒ FUNC's value updated from the pointee); for a pointer target the pointer returned IS FUNC's pointer (unerased:
the first location the call allocates), and a nil source pointer returns FUNC's result itself -/
theorem C11_composite_default_update (p : Program) (hchk : PlanCheck.checkProgU p = true)
    (fuel m : Nat) (gm : GenMethod) (ctor : Conv) (tp sp tz : Bool) (inner : Conv)
    (hm : p.methods[m]? = some gm) (hb : gm.body = some (.convert (.ctorUpdate ctor tp sp tz inner)))
    (v : Val) (hwt : WT p.conv.env v gm.source) (cs : List Val) (n : Nat) (v' : Val) (n' : Nat)
    (hev : Eval.callMethod p fuel m v cs n = .ok (v', n')) :
    ∃ init, IsCtorOf p.conv.env gm.target (erase init) ∧
      CtorImg p.conv.env (CtorSig p) true gm.source gm.target v (erase init) (erase v') ∧
      (tz = true → ∃ tv nv, init = .ptr (.fresh n) tv ∧ v' = .ptr (.fresh n) nv) ∧
      (sp = true → v = .nil → v' = init) :=
  default_update_method_onto p (checkProgU_sound p hchk) fuel m gm ctor tp sp tz inner hm hb v hwt cs n v' n' hev

/-! what `Spec.CtorImg … true` says at each shape (by inversion) -/

open Gv.Spec in
theorem C11_update_nil {env : TEnv} {K : Ty → Ty → Bool → Prop} {s t se : Ty} {c w : Val} (hs : under env s = .ptr se)
    (h : CtorImg env K true s t .nil c w) : w = c := by
  cases h with
  | updNil _ => rfl
  | updTgtPtr h1 _ _ => exact absurd hs (h1 se)

open Gv.Spec in
theorem C11_update_ptr_ptr {env : TEnv} {K : Ty → Ty → Bool → Prop} {s t se te : Ty} {l : Loc} {x c w : Val}
    (hs : under env s = .ptr se) (ht : under env t = .ptr te) (h : CtorImg env K true s t (.ptr l x) c w) :
    ∃ o y, c = .ptr .none o ∧ w = .ptr .none y ∧ ImgOnto env K se te x o y := by
  cases h with
  | updPtrPtr h1 h2 hi => rw [hs] at h1; cases h1; rw [ht] at h2; cases h2; exact ⟨_, _, rfl, rfl, hi⟩
  | updSrcPtr _ h2 _ => exact absurd ht (h2 te)
  | updTgtPtr h1 _ _ => exact absurd hs (h1 se)

open Gv.Spec in
theorem C11_update_value_to_ptr {env : TEnv} {K : Ty → Ty → Bool → Prop} {s t te : Ty} {v c w : Val}
    (hs : ∀ e, under env s ≠ .ptr e) (ht : under env t = .ptr te) (h : CtorImg env K true s t v c w) :
    ∃ o y, c = .ptr .none o ∧ w = .ptr .none y ∧ ImgOnto env K s te v o y := by
  cases h with
  | updNil h1 => exact absurd h1 (hs _)
  | updPtrPtr h1 _ _ => exact absurd h1 (hs _)
  | updSrcPtr h1 _ _ => exact absurd h1 (hs _)
  | updTgtPtr _ h2 hi => rw [ht] at h2; cases h2; exact ⟨_, _, rfl, rfl, hi⟩

/-! non-vacuity: concrete programs with a constructor custom function (`NewD`, marked as constructor by `sem`) -/

def dFields : Fields :=
  .cons { name := "A".toList, exported := true, embedded := false, pkg := [] } (.basic .int)
    (.cons { name := "K".toList, exported := true, embedded := false, pkg := [] } (.basic .int) .nil)

def dPlans : FieldPlans :=
  .cons (.mapped "A".toList ["A".toList] [false] false false .ident .none) (.cons (.skip "K".toList) .nil)

def dCtorFn : FnDef :=
  { name := "NewD".toList, pkgPath := [], source := none, target := .struct dFields, args := [], contexts := [],
    returnError := false }

def dCtorCall : Conv := .call (.custom 0) [] false { mode := .none, path := [] }

def dConv : Gen.Converter := { env := [], common := {}, outputPkg := [], customs := [dCtorFn], extend := [], orc := {} }

def dSem : CustomSem := { isCtor := fun fn => "New".toList.isPrefixOf fn }

def dMethod : GenMethod :=
  { name := "Convert".toList, source := .struct dFields, target := .struct dFields, args := [], contexts := [],
    returnError := false, updateTarget := false, explicit := true, dirty := false, originPath := [], originName := [],
    cfg := { common := {} }, body := some (.convert (.withCtor dCtorCall false (.structc dPlans false))) }

def dProgram : Program := { conv := dConv, methods := [dMethod], sem := dSem }

def dSrc : List (S × Val) := [("A".toList, .basic "5".toList), ("K".toList, .basic "1".toList)]

example : PlanCheck.checkProgU dProgram = true := by decide

/-- `A` is mapped (5), the ignored `K` keeps the constructor's 7 -/
example : Eval.callMethod dProgram 10 0 (.struct dSrc) [] 0 =
    .ok (.struct [("A".toList, .basic "5".toList), ("K".toList, .basic "7".toList)], 0) := by
  unfold Eval.callMethod
  simp [dProgram, dMethod, dPlans, dSrc, dFields, dCtorCall, dConv, dCtorFn, dSem, evalConv, evalFields, walk, fieldOf, setField,
    normStruct, ctorVal, ctorVal.ctorFields, isPtr, under, Fields.toList, Val.isAbsent, pure, StateT.pure, bind, StateT.bind,
    List.lookup, List.filterMapM, List.filterMapM.loop, List.isPrefixOf]

open Gv.Typing in
example : WT dProgram.conv.env (.struct dSrc) (.struct dFields) :=
  WT_struct_of_basics (tfs := dFields) rfl
    (by intro q hq; simp [dSrc] at hq; rcases hq with rfl | rfl <;> exact ⟨_, rfl⟩)
    (by intro q hq; simp [dFields, Fields.toList] at hq; rcases hq with rfl | rfl <;> exact ⟨_, rfl⟩)

/-! `*D → *D` with default:update: the constructor returns a `D`, wrapped into a pointer (`toPointer`) -/

def dMethodU : GenMethod :=
  { dMethod with source := .ptr (.struct dFields), target := .ptr (.struct dFields),
                 body := some (.convert (.ctorUpdate dCtorCall true true true (.structc dPlans true))) }

def dProgramU : Program := { dProgram with methods := [dMethodU] }

example : PlanCheck.checkProgU dProgramU = true := by decide

/-- non-nil source: the constructor's pointer (`fresh 0`), `A` overwritten by the source, `K` keeping the constructor's 7 -/
example : Eval.callMethod dProgramU 10 0 (.ptr (.src 1) (.struct dSrc)) [] 0 =
    .ok (.ptr (.fresh 0) (.struct [("A".toList, .basic "5".toList), ("K".toList, .basic "7".toList)]), 1) := by
  unfold Eval.callMethod
  simp [dProgramU, dProgram, dMethodU, dMethod, dPlans, dSrc, dFields, dCtorCall, dConv, dCtorFn, dSem, evalConv, evalFields, walk,
    fieldOf, setField, normStruct, ctorVal, ctorVal.ctorFields, isPtr, under, Fields.toList, Val.isAbsent, pure, StateT.pure, bind,
    StateT.bind, freshLoc, List.lookup, List.filterMapM, List.filterMapM.loop, List.isPrefixOf]

/-- nil source: the constructor's result, untouched -/
example : Eval.callMethod dProgramU 10 0 .nil [] 0 =
    .ok (.ptr (.fresh 0) (.struct [("A".toList, .basic "7".toList), ("K".toList, .basic "7".toList)]), 1) := by
  unfold Eval.callMethod
  simp [dProgramU, dProgram, dMethodU, dMethod, dFields, dCtorCall, dConv, dCtorFn, dSem, evalConv,
    ctorVal, ctorVal.ctorFields, isPtr, under, Fields.toList, pure, StateT.pure, bind,
    StateT.bind, freshLoc, List.filterMapM, List.filterMapM.loop, List.isPrefixOf]

open Gv.Typing in
example : WT dProgramU.conv.env (.ptr (.src 1) (.struct dSrc)) (.ptr (.struct dFields)) :=
  .ptr (e := .struct dFields) rfl
    (WT_struct_of_basics (tfs := dFields) rfl
      (by intro q hq; simp [dSrc] at hq; rcases hq with rfl | rfl <;> exact ⟨_, rfl⟩)
      (by intro q hq; simp [dFields, Fields.toList] at hq; rcases hq with rfl | rfl <;> exact ⟨_, rfl⟩))

end Gv.Props.C11
