/-
C11 – pointer mismatches and default constructors follow the documented semantics.

Model: Gv.Gen (rules 4–7 and targetVar) and Gv.Eval (tgtPtr, srcPtr, withCtor, ctorUpdate).  Tied to the code
by the C11 campaign: default constructors (value/pointer result, with/without source and error) over the four
pointer shapes with default:update at both levels, plus the structural pointer matrix.
-/
import Gv.Model.Eval
import Gv.Model.Gen
import Gv.Proofs.EvalLemmas
import Gv.Props.C02
import Gv.Props.C03
import Gv.Props.C02

namespace Gv.Props.C11
open Gv Gv.Str Gv.Eval Gv.Gen

variable (p : Program) (fr : Frame)

/-- **C11_value_to_ptr**: `T → *U` yields a non-nil pointer to the conversion of the value -/
theorem C11_value_to_ptr (fuel : Nat) (te : Ty) (inner : Conv) (src old v : Val) (n n' : Nat)
    (h : evalConv p fuel { fr with parent := none } inner src (zeroVal p.conv.env 64 te) n = .ok (v, n')) :
    evalConv p (fuel+1) fr (.tgtPtr te inner) src old n = .ok (.ptr (.fresh n') v, n' + 1) :=
  C02.C02_value_to_ptr_nonnil p fr fuel te inner src old v n n' h

/-- **C11_ptr_to_value**: `*T → U` is generated only with useZeroValueOnPointerInconsistency … -/
theorem C11_ptr_to_value_needs_flag (c : Converter) (fuel : Nat) (cx : Ctx) (mode : Mode) (pp : Bool) (path : List PathElem) (st : GState)
    (se : Ty) (fs : Fields)
    (hu : cx.cfg.common.useUnderlying = false) (hs : cx.cfg.common.skipCopySameType = false) (hz : cx.cfg.common.useZeroValue = false) :
    noLookup c (fuel+1) cx mode pp (.ptr se) (.struct fs) path st = .error .typeMismatchPtr :=
  C03.C03_ptr_to_struct_needs_flag c fuel cx mode pp path st se fs hu hs hz

/-- … and then nil yields the zero value of U (the target variable is left as declared) … -/
theorem C11_ptr_to_value_nil (fuel : Nat) (t : Ty) (inner : Conv) (n : Nat) :
    evalConv p (fuel+1) fr (.srcPtr t inner) .nil (zeroVal p.conv.env 64 t) n = .ok (zeroVal p.conv.env 64 t, n) :=
  C02.C02_srcptr_nil p fr fuel t inner _ n

/-- … and a non-nil pointer the conversion of the pointee -/
theorem C11_ptr_to_value_nonnil (fuel : Nat) (t : Ty) (inner : Conv) (l : Loc) (x old : Val) (n : Nat) :
    evalConv p (fuel+1) fr (.srcPtr t inner) (.ptr l x) old n =
    evalConv p fuel { fr with parent := some (.ptr l x) } inner x (zeroVal p.conv.env 64 t) n := by
  simp [evalConv]

/-- **C11_default_nil**: with `default FUNC`, a nil source pointer returns FUNC's result unchanged -/
theorem C11_default_nil (fuel : Nat) (te : Ty) (ctor inner : Conv) (cv : Val) (n n' : Nat)
    (hc : evalConv p (fuel+1) fr ctor .nil .nil n = .ok (cv, n')) :
    evalConv p (fuel+2) fr (.withCtor ctor false (.ptrPtr te inner)) .nil .nil n = .ok (cv, n') := by
  unfold evalConv
  simp only [Bool.false_eq_true, if_false]
  apply (E_bind_ok _ _ _ _).mpr
  refine ⟨cv, n', hc, ?_⟩
  apply (E_bind_ok _ _ _ _).mpr
  refine ⟨cv, n', by simp [pure, StateT.pure], ?_⟩
  simp [evalConv, pure, StateT.pure]

/-- **C11_default_update (nil)**: with default:update a nil source also returns FUNC's result -/
theorem C11_default_update_nil (fuel : Nat) (ctor inner : Conv) (cv : Val) (n n' : Nat) (tgtIsPtr : Bool)
    (hc : evalConv p fuel fr ctor .nil .nil n = .ok (cv, n')) :
    evalConv p (fuel+1) fr (.ctorUpdate ctor false true tgtIsPtr inner) .nil .nil n = .ok (cv, n') := by
  unfold evalConv
  simp only [Bool.false_eq_true, if_false, if_true]
  apply (E_bind_ok _ _ _ _).mpr
  refine ⟨cv, n', hc, ?_⟩
  apply (E_bind_ok _ _ _ _).mpr
  exact ⟨cv, n', by simp [pure, StateT.pure], by simp [pure, StateT.pure]⟩

/-- **C11_default_keep**: fields that are not assigned keep FUNC's values (the struct is assigned on top of it) -/
theorem C11_default_keep (fuel : Nat) (t : S) (rest : FieldPlans) (src ctorVal : Val) (n : Nat) :
    evalFields p (fuel+1) fr (.cons (.skip t) rest) src ctorVal n = evalFields p fuel fr rest src ctorVal n := by
  simp [evalFields]

/-! ### Pointer mismatches inside the composite theorem of C02

`C02_composite` covers plans with `*T → U` positions (generated only with useZeroValueOnPointerInconsistency) and
`T → *U` positions. Read off the relation `Spec.Img`, for every checked program, every well-typed source of any shape: -/

open Gv.Spec in
/-- `*T → U`, nil: the result is the zero value of `U` (never a panic, never garbage) -/
theorem C11_img_nil_pointer_to_value {env : TEnv} {s t se : Ty} {w : Val} (hs : under env s = .ptr se)
    (ht : ∀ e, under env t ≠ .ptr e) (h : Img env s t .nil w) : IsZeroOf env t w := by
  cases h with
  | ptrNil _ h2 => exact absurd h2 (ht _)
  | toPtr h1 _ _ => exact absurd hs (h1 se)
  | srcNil _ _ hz => exact hz
  | sliceNil h1 _ => rw [hs] at h1; cases h1
  | mapNil h1 _ => rw [hs] at h1; cases h1

open Gv.Spec in
/-- `*T → U`, non-nil: the result is the image of the pointee -/
theorem C11_img_pointer_to_value {env : TEnv} {s t se : Ty} {l : Loc} {x w : Val} (hs : under env s = .ptr se)
    (ht : ∀ e, under env t ≠ .ptr e) (h : Img env s t (.ptr l x) w) : Img env se t x w := by
  cases h with
  | ptrPtr _ h2 _ => exact absurd h2 (ht _)
  | toPtr h1 _ _ => exact absurd hs (h1 se)
  | srcPtr h1 _ hi => rw [hs] at h1; cases h1; exact hi

open Gv.Spec in
/-- `T → *U`: always a non-nil pointer to the image of the value (restated from C02) -/
theorem C11_img_value_to_pointer {env : TEnv} {s t te : Ty} {v w : Val} (hs : ∀ e, under env s ≠ .ptr e)
    (ht : under env t = .ptr te) (h : Img env s t v w) : ∃ y, w = .ptr .none y ∧ Img env s te v y :=
  Gv.Props.C02.C02_img_value_to_ptr_nonnil hs ht h

end Gv.Props.C11
