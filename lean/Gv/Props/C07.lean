/-
C07 – errors from custom functions always propagate with an accurate location path.

Model: Gv.Eval (call nodes, wrapErr) and Gv.Gen.returnError (refusal to drop an error); tied to the code by
the C07 campaign: fallible custom functions at every depth, single and multiple faults, three wrapping modes,
with a recording Wrap/Field/Index/Key package.
-/
import Gv.Model.Eval
import Gv.Model.Gen
import Gv.Proofs.EvalLemmas
import Gv.Proofs.GenLemmas
import Gv.Proofs.RootCause

namespace Gv.Props.C07
open Gv Gv.Str Gv.Eval

/-! ### wrapping -/

/-- no wrapping configured: the error is returned as it is -/
theorem C07_wrap_none (path : List PathElem) (idx : List Nat) (keys : List Val) (e : ErrV) :
    wrapErr { mode := .none, path := path } idx keys e = e := rfl

/-- wrapErrorsUsing: one Wrap call carrying the whole path of the call site -/
theorem C07_wrap_using (pkg : S) (path : List PathElem) (idx : List Nat) (keys : List Val) (e : ErrV) :
    wrapErr { mode := .using pkg, path := path } idx keys e = .wrap (renderErrPath path idx keys) e := rfl

/-- the rendered path is the call site's path, element by element: field names literally, list positions
with the value of the loop index, map positions with the SOURCE key -/
theorem C07_path_field (n : S) (rest : List PathElem) (idx : List Nat) (keys : List Val) :
    renderErrPath (.field n :: rest) idx keys = ("Field", .basic n) :: renderErrPath rest idx keys := by
  simp [renderErrPath, renderErrPath.go]

theorem C07_path_index (rest : List PathElem) (i : Nat) (idx : List Nat) (keys : List Val) :
    renderErrPath (.index :: rest) (i :: idx) keys = ("Index", .basic (toString i).toList) :: renderErrPath rest idx keys := by
  simp [renderErrPath, renderErrPath.go]

theorem C07_path_key (rest : List PathElem) (k : Val) (idx : List Nat) (keys : List Val) :
    renderErrPath (.key :: rest) idx (k :: keys) = ("Key", k) :: renderErrPath rest idx keys := by
  simp [renderErrPath, renderErrPath.go]

/-- wrapErrors: each method adds exactly the innermost element it was setting, if that is a field or an index -/
theorem C07_wrapErrors_field (path : List PathElem) (n : S) (idx : List Nat) (keys : List Val) (e : ErrV) :
    wrapErr { mode := .wrapErrors, path := path ++ [.field n] } idx keys e = .field n e := by
  simp [wrapErr]

theorem C07_wrapErrors_index (path : List PathElem) (idx : List Nat) (i : Nat) (keys : List Val) (e : ErrV) :
    wrapErr { mode := .wrapErrors, path := path ++ [.index] } (idx ++ [i]) keys e = .index i e := by
  simp [wrapErr]

/-- below a map key nothing is added (the reading of the statement recorded in DESIGN.md) -/
theorem C07_wrapErrors_key (path : List PathElem) (idx : List Nat) (keys : List Val) (e : ErrV) :
    wrapErr { mode := .wrapErrors, path := path ++ [.key] } idx keys e = e := by
  simp [wrapErr]

theorem C07_wrapErrors_toplevel (idx : List Nat) (keys : List Val) (e : ErrV) :
    wrapErr { mode := .wrapErrors, path := [] } idx keys e = e := by
  simp [wrapErr]

/-! ### propagation -/

/-- **C07_propagates**: a failing custom function makes the call node return an error whose root is that
function's error, wrapped as configured — never a value -/
theorem C07_propagates (p : Program) (fr : Frame) (fuel : Nat) (i : Nat) (d : FnDef) (w : Wrap) (src old : Val) (n : Nat)
    (hd : p.conv.customs[i]? = some d) (hf : p.sem.failsOn d.name src = true) :
    evalConv p (fuel+1) fr (.call (.custom i) [.source] true w) src old n = .err (wrapErr w fr.idx fr.keys (.boom d.name)) := by
  unfold evalConv
  simp [argOf, List.filterMapM, List.filterMapM.loop, bind, StateT.bind, pure, StateT.pure, hd, hf, errE]

/-- **C07_no_error_ok**: if it does not fail, the call yields the function's result and no error -/
theorem C07_no_error_ok (p : Program) (fr : Frame) (fuel : Nat) (i : Nat) (d : FnDef) (w : Wrap) (src old : Val) (n : Nat)
    (hd : p.conv.customs[i]? = some d) (hf : p.sem.failsOn d.name src = false) (hc : p.sem.isCtor d.name = false) :
    evalConv p (fuel+1) fr (.call (.custom i) [.source] true w) src old n = .ok (.tok d.name [src], n) := by
  unfold evalConv
  simp [argOf, List.filterMapM, List.filterMapM.loop, bind, StateT.bind, pure, StateT.pure, hd, hf, hc]

/-! ### goverter refuses to drop an error -/

/-- an explicit method without error result cannot host an error-returning callee: `returnError` answers false
and changes nothing -/
theorem C07_refuse_to_drop (cx : Gen.Ctx) (st : Gen.GState) (m : GenMethod)
    (hm : st.methods[cx.self]? = some m) (he : m.explicit = true) (hr : m.returnError = false) :
    Gen.returnError cx st = .ok (false, st) := by
  unfold Gen.returnError
  simp [Gen.getMethod, hm, bind, StateT.bind, Except.bind, get, getThe, MonadStateOf.get, StateT.get, pure, StateT.pure, Except.pure, hr,
    Gen.returnError.walk, he]

/-! ### The error returned is, or wraps, a custom function's error (for ALL plans)

Whatever plan the generator produced (any nesting of pointers, lists, maps, structs, enums, constructors, custom and
generated methods), whatever the source value and the fuel: an error result, with the location wrappers
(`error setting field …`, `error setting index …`, `Wrap(err, path…)`) stripped, is the error of a failing custom
function or source-struct method, or the `unexpected enum element` error of an `@error` enum action. Errors are never
fabricated, replaced or emptied on the way up. -/

open Gv.Sound in
theorem C07_root_cause (p : Program) (fuel m : Nat) (v : Val) (cs : List Val) (n : Nat) (e : ErrV)
    (h : callMethod p fuel m v cs n = .err e) :
    (∃ fn, rootCause e = .boom fn) ∨ rootCause e = .enumUnknown :=
  callMethod_root_cause p fuel m v cs n e h

open Gv.Sound in
/-- the wrappers keep the cause: wrapping in any mode, at any path, with any loop indices and keys -/
theorem C07_wrap_keeps_cause (w : Wrap) (idx : List Nat) (keys : List Val) (e : ErrV) :
    rootCause (wrapErr w idx keys e) = rootCause e := rootCause_wrapErr w idx keys e

end Gv.Props.C07
