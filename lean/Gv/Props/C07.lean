/-
C07 – errors from custom functions always propagate with an accurate location path.

Model: Gv.Eval (call nodes, wrapErr) and Gv.Gen.returnError (refusal to drop an error); tied to the code by
the C07 campaign: fallible custom functions at every depth, single and multiple faults, three wrapping modes,
with a recording Wrap/Field/Index/Key package.
-/
import Gv.Model.Eval
import Gv.Model.Gen
import Gv.Proofs.EvalLemmas
import Gv.Proofs.GenLemmas
import Gv.Proofs.RootCause
import Gv.Proofs.ErrPath
import Gv.Proofs.ErrUp
import Gv.Proofs.ErrRun

namespace Gv.Props.C07
open Gv Gv.Str Gv.Eval

/-! ### wrapping -/

/-- no wrapping configured: the error is returned as it is -/
theorem C07_wrap_none (path : List PathElem) (idx : List Nat) (keys : List Val) (e : ErrV) :
    wrapErr { mode := .none, path := path } idx keys e = e := rfl

/-- wrapErrorsUsing: one Wrap call carrying the whole path of the call site -/
theorem C07_wrap_using (pkg : S) (path : List PathElem) (idx : List Nat) (keys : List Val) (e : ErrV) :
    wrapErr { mode := .using pkg, path := path } idx keys e = .wrap (renderErrPath path idx keys) e := rfl

/-- the rendered path is the call site's path, element by element: field names literally, list positions
with the value of the loop index, map positions with the SOURCE key -/
theorem C07_path_field (n : S) (rest : List PathElem) (idx : List Nat) (keys : List Val) :
    renderErrPath (.field n :: rest) idx keys = ("Field", .basic n) :: renderErrPath rest idx keys := by
  simp [renderErrPath, renderErrPath.go]

theorem C07_path_index (rest : List PathElem) (i : Nat) (idx : List Nat) (keys : List Val) :
    renderErrPath (.index :: rest) (i :: idx) keys = ("Index", .basic (toString i).toList) :: renderErrPath rest idx keys := by
  simp [renderErrPath, renderErrPath.go]

theorem C07_path_key (rest : List PathElem) (k : Val) (idx : List Nat) (keys : List Val) :
    renderErrPath (.key :: rest) idx (k :: keys) = ("Key", k) :: renderErrPath rest idx keys := by
  simp [renderErrPath, renderErrPath.go]

/-- wrapErrors: each method adds exactly the innermost element it was setting, if that is a field or an index -/
theorem C07_wrapErrors_field (path : List PathElem) (n : S) (idx : List Nat) (keys : List Val) (e : ErrV) :
    wrapErr { mode := .wrapErrors, path := path ++ [.field n] } idx keys e = .field n e := by
  simp [wrapErr]

theorem C07_wrapErrors_index (path : List PathElem) (idx : List Nat) (i : Nat) (keys : List Val) (e : ErrV) :
    wrapErr { mode := .wrapErrors, path := path ++ [.index] } (idx ++ [i]) keys e = .index i e := by
  simp [wrapErr]

/-- below a map key nothing is added (the reading of the statement recorded in DESIGN.md) -/
theorem C07_wrapErrors_key (path : List PathElem) (idx : List Nat) (keys : List Val) (e : ErrV) :
    wrapErr { mode := .wrapErrors, path := path ++ [.key] } idx keys e = e := by
  simp [wrapErr]

theorem C07_wrapErrors_toplevel (idx : List Nat) (keys : List Val) (e : ErrV) :
    wrapErr { mode := .wrapErrors, path := [] } idx keys e = e := by
  simp [wrapErr]

/-! ### propagation -/

/-- **C07_propagates**: a failing custom function makes the call node return an error whose root is that
function's error, wrapped as configured — never a value -/
theorem C07_propagates (p : Program) (fr : Frame) (fuel : Nat) (i : Nat) (d : FnDef) (w : Wrap) (src old : Val) (n : Nat)
    (hd : p.conv.customs[i]? = some d) (hf : p.sem.failsOn d.name src = true) :
    evalConv p (fuel+1) fr (.call (.custom i) [.source] true w) src old n = .err (wrapErr w fr.idx fr.keys (.boom d.name)) := by
  unfold evalConv
  simp [argOf, List.filterMapM, List.filterMapM.loop, bind, StateT.bind, pure, StateT.pure, hd, hf, errE]

/-- **C07_no_error_ok**: if it does not fail, the call yields the function's result and no error -/
theorem C07_no_error_ok (p : Program) (fr : Frame) (fuel : Nat) (i : Nat) (d : FnDef) (w : Wrap) (src old : Val) (n : Nat)
    (hd : p.conv.customs[i]? = some d) (hf : p.sem.failsOn d.name src = false) (hc : p.sem.isCtor d.name = false) :
    evalConv p (fuel+1) fr (.call (.custom i) [.source] true w) src old n = .ok (.tok d.name [src], n) := by
  unfold evalConv
  simp [argOf, List.filterMapM, List.filterMapM.loop, bind, StateT.bind, pure, StateT.pure, hd, hf, hc]

/-! ### goverter refuses to drop an error -/

/-- an explicit method without error result cannot host an error-returning callee: `returnError` answers false
and changes nothing -/
theorem C07_refuse_to_drop (cx : Gen.Ctx) (st : Gen.GState) (m : GenMethod)
    (hm : st.methods[cx.self]? = some m) (he : m.explicit = true) (hr : m.returnError = false) :
    Gen.returnError cx st = .ok (false, st) := by
  unfold Gen.returnError
  simp [Gen.getMethod, hm, bind, StateT.bind, Except.bind, get, getThe, MonadStateOf.get, StateT.get, pure, StateT.pure, Except.pure, hr,
    Gen.returnError.walk, he]

/-! ### The error returned is, or wraps, a custom function's error (for ALL plans)

Whatever plan the generator produced (any nesting of pointers, lists, maps, structs, enums, constructors, custom and
generated methods), whatever the source value and the fuel: an error result, with the location wrappers
(`error setting field …`, `error setting index …`, `Wrap(err, path…)`) stripped, is the error of a failing custom
function or source-struct method, or the `unexpected enum element` error of an `@error` enum action. Errors are never
fabricated, replaced or emptied on the way up. -/

open Gv.Sound in
theorem C07_root_cause (p : Program) (fuel m : Nat) (v : Val) (cs : List Val) (n : Nat) (e : ErrV)
    (h : callMethod p fuel m v cs n = .err e) :
    (∃ fn, rootCause e = .boom fn) ∨ rootCause e = .enumUnknown :=
  callMethod_root_cause p fuel m v cs n e h

open Gv.Sound in
/-- the wrappers keep the cause: wrapping in any mode, at any path, with any loop indices and keys -/
theorem C07_wrap_keeps_cause (w : Wrap) (idx : List Nat) (keys : List Val) (e : ErrV) :
    rootCause (wrapErr w idx keys e) = rootCause e := rootCause_wrapErr w idx keys e

/-! ### Composition through nested methods: the reported location is the position of the failing call

`PathCheck.pathsOK p` is a decidable check on the plans (`Gv/Model/PathCheck.lean`): every call site and `@error` action
records, as its error path, the positions enclosing it inside its method body (target fields, list loops, map loops),
with the wrapping mode of its method.  The plans of `Gv.Gen` pass it.  Under it, for ALL programs, methods, source
values and fuel, an error returned by a method is `build chain root`: `chain` lists, per method on the call chain
(outermost first), the method's wrapping mode and the positions inside its body; the positions are a walk (`Fails` /
`Leads`, Gv/Proofs/ErrPath.lean) through the plans and the INPUT VALUE — field names are target fields of the struct
node passed, indices are positions `< length` of the slice being converted, keys are keys of the source map being
converted, a nested method starts at the value reached — that ends at a call that fails for the value reached (or at
the `@error` action selected by it); `build` applies per method what `generator.wrap` emits. -/

open Gv.Sound Gv.PathCheck

/-- **C07_path_is_position** -/
theorem C07_path_is_position (p : Program) (hp : pathsOK p = true) (fuel m : Nat) (v : Val) (cs : List Val) (n : Nat) (e : ErrV)
    (h : callMethod p fuel m v cs n = .err e) :
    ∃ chain root, Fails p m v chain root ∧ e = build chain root ∧ ((∃ fn, root = .boom fn) ∨ root = .enumUnknown) := by
  obtain ⟨chain, root, hf, he⟩ := callMethod_position p hp fuel m v cs n e h
  exact ⟨chain, root, hf, he, hf.root_cause⟩

/-- **C07_path_using**: with `wrapErrorsUsing` (in every method), the concatenation of the arguments of all `Wrap` calls,
outermost first, is exactly the rendered position (`Field(name)`, `Index(i)`, `Key(source key)`) of the failing call -/
theorem C07_path_using (p : Program) (hp : pathsOK p = true) (hu : allUsing p = true) (fuel m : Nat) (v : Val)
    (cs : List Val) (n : Nat) (e : ErrV) (h : callMethod p fuel m v cs n = .err e) :
    ∃ chain root, Fails p m v chain root ∧ fullPath e = (chainPath chain).map RElem.render :=
  callMethod_using_location p hp hu fuel m v cs n e h

/-- **C07_path_wrapErrors**: with `wrapErrors` (in every method), the `error setting field / index` layers are, method by
method along the call chain, the innermost element of that method's path to the failing call if that is a field or an
index; a method whose path is empty or ends below a map key adds nothing -/
theorem C07_path_wrapErrors (p : Program) (hp : pathsOK p = true) (hu : allWrapErrors p = true) (fuel m : Nat) (v : Val)
    (cs : List Val) (n : Nat) (e : ErrV) (h : callMethod p fuel m v cs n = .err e) :
    ∃ chain root, Fails p m v chain root ∧ errLayers e = chain.filterMap (fun x => lastFI x.2) :=
  callMethod_wrapErrors_layers p hp hu fuel m v cs n e h

/-- the walk is a walk through the VALUE: below a list node it continues at an existing position of the slice, … -/
theorem C07_index_in_range (p : Program) (te : Ty) (hm hg : Bool) (elem : Conv) (l : Loc) (vs : List Val) (rp : List RElem)
    (tl : List (WrapMode × List RElem)) (root : ErrV) (h : Leads p (.list te hm hg elem) (.slice l vs) rp tl root) :
    ∃ i x rp', rp = .index i :: rp' ∧ vs[i]? = some x ∧ i < vs.length ∧ Leads p elem x rp' tl root := h.index_lt

/-- … below a map node at a key of the source map (with the key or the value of that entry), … -/
theorem C07_key_in_map (p : Program) (tk tv : Ty) (key val : Conv) (l : Loc) (kvs : List (Val × Val)) (rp : List RElem)
    (tl : List (WrapMode × List RElem)) (root : ErrV) (h : Leads p (.mapc tk tv key val) (.map l kvs) rp tl root) :
    ∃ k x rp', rp = .key k :: rp' ∧ (k, x) ∈ kvs ∧ (Leads p key k rp' tl root ∨ Leads p val x rp' tl root) := h.key_mem

/-- … below a struct node at the target field of one of its field plans -/
theorem C07_field_is_target (p : Program) (fields : FieldPlans) (u : Bool) (src : Val) (rp : List RElem)
    (tl : List (WrapMode × List RElem)) (root : ErrV) (h : Leads p (.structc fields u) src rp tl root) :
    ∃ fp rp', fp ∈ fields.toList ∧ rp = .field (Sound.FieldPlan.target fp) :: rp' := h.field_target

/-- **C07_nested_concat**: a call of a generated / declared method fails exactly when the callee fails, and the error is
the callee's error wrapped once more with the path of the call site: the location is the caller's path followed by the
callee's location -/
theorem C07_nested_concat (p : Program) (fuel : Nat) (fr : Frame) (m : Nat) (args : List CallArg) (retErr : Bool) (pkg : S)
    (pa : List PathElem) (v old : Val) (n : Nat) (e : ErrV)
    (h : evalConv p (fuel + 1) fr (.call (.method m) args retErr { mode := .using pkg, path := pa }) v old n = .err e) :
    ∃ cs n1 e', callMethod p fuel m v cs n1 = .err e' ∧ e = .wrap (renderErrPath pa fr.idx fr.keys) e' ∧
      fullPath e = renderErrPath pa fr.idx fr.keys ++ fullPath e' := by
  obtain ⟨_, cs, n1, e', hc, he⟩ := call_method_err p fuel fr m args retErr _ v old n e h
  refine ⟨cs, n1, e', hc, he, ?_⟩
  rw [he]; rfl

/-- the same under `wrapErrors`: the caller adds the innermost element of the call site's path if that is a field or an
index (of the innermost enclosing loop), and nothing below a map key or at the top of its body -/
theorem C07_nested_wrapErrors (p : Program) (fuel : Nat) (fr : Frame) (m : Nat) (args : List CallArg) (retErr : Bool)
    (pa : List PathElem) (v old : Val) (n : Nat) (e : ErrV) (hc : Cons pa fr.idx fr.keys)
    (h : evalConv p (fuel + 1) fr (.call (.method m) args retErr { mode := .wrapErrors, path := pa }) v old n = .err e) :
    ∃ cs n1 e', callMethod p fuel m v cs n1 = .err e' ∧
      e = (match (renderR pa fr.idx fr.keys).getLast? with
           | some (.field f) => .field f e'
           | some (.index i) => .index i e'
           | _ => e') := by
  obtain ⟨_, cs, n1, e', hcm, he⟩ := call_method_err p fuel fr m args retErr _ v old n e h
  refine ⟨cs, n1, e', hcm, ?_⟩
  rw [he, wrapErr_eq_layer _ _ _ _ _ hc]; rfl

/-- explicit methods run on their arguments, update methods included: the same decomposition (for an update method the
walk goes through its body, starting at the source argument) -/
theorem C07_path_is_position_run (p : Program) (hp : pathsOK p = true) (m : Nat) (argVals : List Val) (fuel : Nat) (e : ErrV)
    (h : runMethod p m argVals fuel = .err e) :
    ∃ gm, p.methods[m]? = some gm ∧
      ((∃ chain root, Fails p m (srcOf gm argVals) chain root ∧ e = build chain root) ∨
       (∃ sp c rp tl root, gm.body = some (.update sp c) ∧ Leads p c (updSource sp (srcOf gm argVals)) rp tl root ∧
          e = build ((methodMode gm, rp) :: tl) root)) :=
  runMethod_position p hp m argVals fuel e h

/-- the generator records, at every call site and `@error` action, the mode of the method's configuration and the path
it was given (`Gen.conv` / `noLookup` / `structFields` extend that path by `.index`, `.key`, `.field F` exactly as
`PathCheck.okConv` expects) -/
theorem C07_wrapOf (cx : Gen.Ctx) (path : List PathElem) :
    (Gen.wrapOf cx path).mode = modeOf cx.cfg.common ∧ (Gen.wrapOf cx path).path = path := wrapOf_mode_path cx path

/-! non-vacuity: a method converting a slice of structs through a sub-method whose field conversion calls a fallible
function; the second element fails -/

def exInner (md : WrapMode) : Conv :=
  .structc (.cons (.mapped "V".toList ["V".toList] [false] false false
    (.call (.custom 0) [.source] true { mode := md, path := [.field "V".toList] }) .none) .nil) false

def exOuter (md : WrapMode) : Conv :=
  .structc (.cons (.mapped "Items".toList ["Items".toList] [false] false false
    (.list (.named "OItem".toList) true true
      (.call (.method 1) [.source] true { mode := md, path := [.field "Items".toList, .index] })) .none) .nil) false

def exMethod (name : String) (c : Settings.Common) (body : Conv) : GenMethod :=
  { name := name.toList, source := .named "In".toList, target := .named "Out".toList, args := [], contexts := [],
    returnError := true, updateTarget := false, explicit := true, dirty := false, originPath := [], originName := [],
    cfg := { common := c }, body := some (.convert body) }

def exAtoi : FnDef :=
  { name := "Atoi".toList, pkgPath := [], source := some (.basic .string), target := .basic .int, args := [], contexts := [], returnError := true }

def exProgram (c : Settings.Common) : Program :=
  { conv := { env := [], common := c, outputPkg := [], customs := [exAtoi], extend := [], orc := {} },
    methods := [exMethod "Convert" c (exOuter (modeOf c)), exMethod "ItemToOItem" c (exInner (modeOf c))],
    sem := { failsOn := fun _ v => match v with | .basic r => r == "x".toList | _ => false } }

def exUsing : Settings.Common := { wrapErrorsUsing := "w".toList }
def exWrapErrors : Settings.Common := { wrapErrors := true }

def exValue : Val :=
  .struct [("Items".toList, .slice (.src 0) [.struct [("V".toList, .basic "1".toList)], .struct [("V".toList, .basic "x".toList)]])]

example : pathsOK (exProgram exUsing) = true := by decide
example : allUsing (exProgram exUsing) = true := by decide
example : pathsOK (exProgram exWrapErrors) = true := by decide
example : allWrapErrors (exProgram exWrapErrors) = true := by decide

/-- the hypothesis `callMethod … = .err e` is met, and the location is `Field(Items), Index(1)` from the outer method
followed by `Field(V)` from the inner one -/
example : callMethod (exProgram exUsing) 12 0 exValue [] 0 =
    .err (.wrap [("Field", .basic "Items".toList), ("Index", .basic "1".toList)] (.wrap [("Field", .basic "V".toList)] (.boom "Atoi".toList))) := by
  unfold callMethod
  simp [exProgram, exMethod, exOuter, exInner, exValue, exAtoi, exUsing, modeOf, evalConv, evalConv_list_make, evalFields, evalElems, walk, fieldOf, setField, normStruct,
    Val.isAbsent, bind, StateT.bind, pure, StateT.pure, List.lookup, callMethod, argOf, List.filterMapM,
    List.filterMapM.loop, errE, wrapErr, renderErrPath, renderErrPath.go]
  rfl

example : fullPath (.wrap [("Field", .basic "Items".toList), ("Index", .basic "1".toList)] (.wrap [("Field", .basic "V".toList)] (.boom "Atoi".toList)))
    = [RElem.field "Items".toList, .index 1, .field "V".toList].map RElem.render := by
  rfl

/-- with `wrapErrors`: the outer method adds the index (the innermost element of `Items[1]`), the inner one the field -/
example : callMethod (exProgram exWrapErrors) 12 0 exValue [] 0 = .err (.index 1 (.field "V".toList (.boom "Atoi".toList))) := by
  unfold callMethod
  simp [exProgram, exMethod, exOuter, exInner, exValue, exAtoi, exWrapErrors, modeOf, evalConv, evalConv_list_make, evalFields, evalElems, walk, fieldOf, setField, normStruct,
    Val.isAbsent, bind, StateT.bind, pure, StateT.pure, List.lookup, callMethod, argOf, List.filterMapM,
    List.filterMapM.loop, errE, wrapErr]

example : errLayers (.index 1 (.field "V".toList (.boom "Atoi".toList))) =
    [(WrapMode.wrapErrors, [RElem.field "Items".toList, .index 1]), (.wrapErrors, [.field "V".toList])].filterMap (fun x => lastFI x.2) := by
  rfl

/-- the frame hypothesis of `C07_nested_wrapErrors`: one loop index for the one enclosing list of the call site -/
example : Cons [.field "Items".toList, .index] [1] [] := ⟨rfl, rfl⟩

/-- the walk of that failure -/
example : Fails (exProgram exUsing) 0 exValue
    [(.using "w".toList, [.field "Items".toList, .index 1]), (.using "w".toList, [.field "V".toList])] (.boom "Atoi".toList) := by
  refine .convert (gm := exMethod "Convert" exUsing (exOuter (modeOf exUsing))) (c := exOuter (modeOf exUsing)) rfl rfl ?_
  refine .mapped (lf := some (.slice (.src 0) [.struct [("V".toList, .basic "1".toList)], .struct [("V".toList, .basic "x".toList)]]))
    (List.mem_cons_self) ?_ (.inl rfl) ?_
  · simp [exValue, walk, fieldOf, List.lookup]
  refine .slice (i := 1) (x := .struct [("V".toList, .basic "x".toList)]) rfl ?_
  refine .method (gm := exMethod "ItemToOItem" exUsing (exInner (modeOf exUsing))) (c := exInner (modeOf exUsing)) rfl rfl ?_
  refine .mapped (lf := some (.basic "x".toList)) (List.mem_cons_self) ?_ (.inl rfl) ?_
  · simp [walk, fieldOf, List.lookup]
  exact .custom (d := exAtoi) (a := .basic "x".toList) rfl rfl (fun _ => rfl)

/-! ### Only real failures come up, and every failure comes up (the first sentence of C07, over whole plans)

All statements here hold for ALL programs, plans, values and fuel, without any checker hypothesis. -/

/-- **C07_root_fails**: an error returned by a method is rooted in a function that really fails on some argument, or in the
`@error` action of an enum switch -/
theorem C07_root_fails (p : Program) (fuel m : Nat) (v : Val) (cs : List Val) (n : Nat) (e : ErrV)
    (h : callMethod p fuel m v cs n = .err e) :
    (∃ fn a, rootCause e = .boom fn ∧ p.sem.failsOn fn a = true) ∨ rootCause e = .enumUnknown :=
  callMethod_caused_by p fuel m v cs n e h

/-- **C07_no_failure_no_error**: if no custom function and no source-struct method fails on anything, a method never
returns an error made of a function failure: the only error left is the configured `@error` enum action -/
theorem C07_no_failure_no_error (p : Program) (hno : ∀ name v, p.sem.failsOn name v = false) (fuel m : Nat) (v : Val)
    (cs : List Val) (n : Nat) (e : ErrV) (h : callMethod p fuel m v cs n = .err e) : rootCause e = .enumUnknown := by
  rcases callMethod_caused_by p fuel m v cs n e h with ⟨fn, a, _, hf⟩ | h2
  · rw [hno fn a] at hf; cases hf
  · exact h2

/-- **C07_never_swallowed**: `ErrIn p fuel fr n task e root` (Gv/Proofs/ErrUp.lean) says that the evaluation of `task`
reaches — after earlier elements, map entries, fields and constructors that evaluate without an error — a custom function
or source-struct method that fails (or an `@error` action): `root`.  Then the evaluator returns an error, exactly that
failure wrapped by every call site on the way up; nothing on the way (cast, pointer, list, map, struct field, constructor,
nested method with error result) drops or replaces it. -/
theorem C07_never_swallowed (p : Program) (fuel : Nat) (fr : Frame) (n m : Nat) (v : Val) (cs : List Val) (e root : ErrV)
    (h : ErrIn p fuel fr n (.call m v cs) e root) : callMethod p fuel m v cs n = .err e ∧ rootCause e = root :=
  errIn_sound h

/-- the same for a plan node in any frame -/
theorem C07_never_swallowed_node (p : Program) (fuel : Nat) (fr : Frame) (n : Nat) (c : Conv) (v old : Val) (e root : ErrV)
    (h : ErrIn p fuel fr n (.conv c v old) e root) : evalConv p fuel fr c v old n = .err e ∧ rootCause e = root :=
  errIn_sound h

/-- **C07_error_iff_first_failure**: both directions at once — a method returns the error `e` EXACTLY when its evaluation
reaches, after siblings that evaluate without an error, a failing function / source-struct method / `@error` action, and
`e` is that failure wrapped by the call sites on the way up (so `ErrIn` is neither too strong nor too weak) -/
theorem C07_error_iff_first_failure (p : Program) (fuel : Nat) (fr : Frame) (m : Nat) (v : Val) (cs : List Val) (n : Nat) (e : ErrV) :
    callMethod p fuel m v cs n = .err e ↔ ∃ root, ErrIn p fuel fr n (.call m v cs) e root :=
  callMethod_err_iff p fuel fr m v cs n e

/-- the same for a plan node in any frame -/
theorem C07_error_iff_first_failure_node (p : Program) (fuel : Nat) (fr : Frame) (c : Conv) (v old : Val) (n : Nat) (e : ErrV) :
    evalConv p fuel fr c v old n = .err e ↔ ∃ root, ErrIn p fuel fr n (.conv c v old) e root :=
  evalConv_err_iff p fuel fr c v old n e

/-- one step of it, for the nested call: the callee's error comes back wrapped with the path of the call site … -/
theorem C07_callee_error_propagates (p : Program) (fuel : Nat) (fr : Frame) (m : Nat) (args : List CallArg) (w : Wrap) (v old : Val)
    (n n1 : Nat) (argVals : List Val) (e : ErrV) (ha : args.filterMapM (argOf fr v) n = .ok (argVals, n1))
    (h : callMethod p fuel m v (ctxValsOf fr args) n1 = .err e) :
    evalConv p (fuel+1) fr (.call (.method m) args true w) v old n = .err (wrapErr w fr.idx fr.keys e) :=
  up_method p fuel fr m args w v old n n1 argVals e ha h

/-- … and a call node built without an error result never turns the callee's error into a value: the model has no result
there (the generator refuses to build such a node, `C07_refuse_to_drop`) -/
theorem C07_callee_error_not_dropped (p : Program) (fuel : Nat) (fr : Frame) (m : Nat) (args : List CallArg) (w : Wrap) (v old : Val)
    (n n1 : Nat) (argVals : List Val) (e : ErrV) (ha : args.filterMapM (argOf fr v) n = .ok (argVals, n1))
    (h : callMethod p fuel m v (ctxValsOf fr args) n1 = .err e) :
    evalConv p (fuel+1) fr (.call (.method m) args false w) v old n = .stuck "error from a callee that returns none" :=
  up_method_no_drop p fuel fr m args w v old n n1 argVals e ha h

/-- one step for a list: the error of an element after successful earlier elements is the error of the loop -/
theorem C07_element_error_propagates (p : Program) (fuel : Nat) (fr : Frame) (te : Ty) (elem : Conv) (v x : Val) (vs : List Val)
    (i n n1 : Nat) (e : ErrV)
    (h1 : evalConv p fuel { fr with idx := fr.idx ++ [i], parent := none } elem v (zeroVal p.conv.env 64 te) n = .ok (x, n1))
    (h2 : evalElems p fuel fr te elem vs (i + 1) n1 = .err e) : evalElems p (fuel+1) fr te elem (v :: vs) i n = .err e :=
  up_elems_there p fuel fr te elem v x vs i n n1 e h1 h2

/-- one step for a struct: the error of a later field after successfully processed earlier ones is the error of the struct -/
theorem C07_field_error_propagates (p : Program) (fuel : Nat) (fr : Frame) (f : FieldPlan) (rest : FieldPlans) (src old old' : Val)
    (n n' : Nat) (e : ErrV) (h1 : FieldDone p fuel fr f src old n old' n') (h2 : evalFields p fuel fr rest src old' n' = .err e) :
    evalFields p (fuel+1) fr (.cons f rest) src old n = .err e :=
  up_fields_there p fuel fr f rest src old old' n n' e h1 h2

/-! non-vacuity -/

/-- the hypothesis of `C07_no_failure_no_error` holds for the default semantics (no function fails) -/
example : ∀ name v, ({} : CustomSem).failsOn name v = false := fun _ _ => rfl

/-- `exProgram`: the failing element at index 1 of `Items` (the first element converts without an error, then `Atoi`
fails inside the sub-method) makes the whole `Convert` return that error, with its location -/
example (fr : Frame) : callMethod (exProgram exUsing) 12 0 exValue [] 0 =
      .err (.wrap [("Field", .basic "Items".toList), ("Index", .basic "1".toList)] (.wrap [("Field", .basic "V".toList)] (.boom "Atoi".toList))) ∧
    rootCause (.wrap [("Field", .basic "Items".toList), ("Index", .basic "1".toList)] (.wrap [("Field", .basic "V".toList)] (.boom "Atoi".toList)))
      = .boom "Atoi".toList := by
  let exItem : String → Val := fun s => .struct [("V".toList, .basic s.toList)]
  have exElem0 : ∀ (fr : Frame) (old : Val), evalConv (exProgram exUsing) 7 fr (.call (.method 1) [.source] true
        { mode := modeOf exUsing, path := [.field "Items".toList, .index] }) (exItem "1") old 0 =
      .ok (.struct [("V".toList, .tok "Atoi".toList [.basic "1".toList])], 0) := by
    intro fr old
    unfold evalConv
    simp [exItem, exProgram, exMethod, exInner, exAtoi, exUsing, modeOf, evalConv, evalFields, walk, fieldOf, setField, normStruct,
      zeroVal, under, TEnv.find, Val.isAbsent, bind, StateT.bind, pure, StateT.pure, List.lookup, callMethod, argOf, List.filterMapM,
      List.filterMapM.loop]
  refine C07_never_swallowed _ 12 fr 0 0 _ _ _ _ ?_
  refine .callConvert (gm := exMethod "Convert" exUsing (exOuter (modeOf exUsing))) (c := exOuter (modeOf exUsing)) rfl rfl ?_
  refine .struct ?_
  refine .fieldMapped (lf := some (.slice (.src 0) [exItem "1", exItem "x"])) (by simp [exItem, exValue, walk, fieldOf, List.lookup]) rfl ?_
  refine .listMake (vs := [exItem "1", exItem "x"]) rfl ?_
  refine .elemsThere (exElem0 _ _) ?_
  refine .elemsHere ?_
  refine .method (argVals := [exItem "x"]) (n1 := 0) (fr' := fr) (e := .wrap [("Field", .basic "V".toList)] (.boom "Atoi".toList)) ?_ ?_
  · rfl
  refine .callConvert (gm := exMethod "ItemToOItem" exUsing (exInner (modeOf exUsing))) (c := exInner (modeOf exUsing)) rfl rfl ?_
  refine .struct ?_
  refine .fieldMapped (lf := some (.basic "x".toList)) (by simp [exItem, walk, fieldOf, List.lookup]) rfl ?_
  refine .custom (d := exAtoi) (argVals := [.basic "x".toList]) (n1 := 0) ?_ ?_ ?_ <;> rfl

/-! ### The first sentence for explicit methods run on their arguments (`Eval.runMethod`), update methods included -/

/-- **C07_root_fails_run**: whatever error an explicit method returns — a converting, a delegating or an UPDATE method — is
rooted in a function that really fails on some argument, or in the `@error` enum action -/
theorem C07_root_fails_run (p : Program) (m : Nat) (argVals : List Val) (fuel : Nat) (e : ErrV)
    (h : runMethod p m argVals fuel = .err e) :
    (∃ fn a, rootCause e = .boom fn ∧ p.sem.failsOn fn a = true) ∨ rootCause e = .enumUnknown :=
  runMethod_caused_by p m argVals fuel e h

theorem C07_no_failure_no_error_run (p : Program) (hno : ∀ name v, p.sem.failsOn name v = false) (m : Nat) (argVals : List Val)
    (fuel : Nat) (e : ErrV) (h : runMethod p m argVals fuel = .err e) : rootCause e = .enumUnknown := by
  rcases runMethod_caused_by p m argVals fuel e h with ⟨fn, a, _, hf⟩ | h2
  · rw [hno fn a] at hf; cases hf
  · exact h2

/-- **C07_update_error_iff_first_failure**: an update method returns the error `e` EXACTLY when it has a (non-skipped)
source and a pointer / nil target and its body — run on the source (`updSource`), onto what the target points to, in the
frame of the method (`updFrame`, with the source pointer as parent) — reaches, after error-free earlier fields, a failing
call whose failure wrapped on the way up is `e`; the root cause of `e` is that failure -/
theorem C07_update_error_iff_first_failure (p : Program) (m : Nat) (gm : GenMethod) (sp : Bool) (c : Conv) (argVals : List Val)
    (fuel : Nat) (e : ErrV) (hm : p.methods[m]? = some gm) (hb : gm.body = some (.update sp c)) :
    runMethod p m argVals fuel = .err e ↔
      ∃ old0 root, updOld (tgtOf gm argVals) = some old0 ∧ updSkips sp (srcOf gm argVals) = false ∧
        ErrIn p fuel (updFrame m gm argVals sp) 0 (.conv c (updSource sp (srcOf gm argVals)) old0) e root :=
  runMethod_update_err_iff p m gm sp c argVals fuel e hm hb

/-- the same for converting / delegating explicit methods, on the source and context arguments in declared order -/
theorem C07_run_error_iff_first_failure (p : Program) (m : Nat) (gm : GenMethod) (argVals : List Val) (fuel : Nat) (fr : Frame)
    (e : ErrV) (hm : p.methods[m]? = some gm) (hb : ∀ sp c, gm.body ≠ some (.update sp c)) :
    runMethod p m argVals fuel = .err e ↔
      ∃ root, ErrIn p fuel fr 0 (.call m (srcOf gm argVals) (ctxOf gm argVals)) e root :=
  runMethod_call_err_iff p m gm argVals fuel fr e hm hb

/-! non-vacuity: the same plan as the body of an update method `Update(source In, target *Out)` -/

def exUpdMethod (c : Settings.Common) : GenMethod :=
  { name := "Update".toList, source := .named "In".toList, target := .ptr (.named "Out".toList),
    args := [{ name := "source".toList, use := .source, ty := .named "In".toList },
             { name := "target".toList, use := .target, ty := .ptr (.named "Out".toList) }], contexts := [],
    returnError := true, updateTarget := true, explicit := true, dirty := false, originPath := [], originName := [],
    cfg := { common := c }, body := some (.update false (exOuter (modeOf c))) }

def exUpdProgram (c : Settings.Common) : Program :=
  { exProgram c with methods := [exUpdMethod c, exMethod "ItemToOItem" c (exInner (modeOf c))] }

/-- the update method returns the error of the failing element at index 1 of `Items`, with its location -/
example : runMethod (exUpdProgram exUsing) 0 [exValue, .ptr (.src 9) (.struct [])] 11 =
    .err (.wrap [("Field", .basic "Items".toList), ("Index", .basic "1".toList)] (.wrap [("Field", .basic "V".toList)] (.boom "Atoi".toList))) := by
  let exItem : String → Val := fun s => .struct [("V".toList, .basic s.toList)]
  have exElem0 : ∀ (fr : Frame) (old : Val), evalConv (exUpdProgram exUsing) 7 fr (.call (.method 1) [.source] true
        { mode := modeOf exUsing, path := [.field "Items".toList, .index] }) (exItem "1") old 0 =
      .ok (.struct [("V".toList, .tok "Atoi".toList [.basic "1".toList])], 0) := by
    intro fr old
    unfold evalConv
    simp [exItem, exUpdProgram, exProgram, exMethod, exInner, exAtoi, exUsing, modeOf, evalConv, evalFields, walk, fieldOf, setField, normStruct,
      zeroVal, under, TEnv.find, Val.isAbsent, bind, StateT.bind, pure, StateT.pure, List.lookup, callMethod, argOf, List.filterMapM,
      List.filterMapM.loop]
  refine (C07_update_error_iff_first_failure _ 0 (exUpdMethod exUsing) false (exOuter (modeOf exUsing)) _ 11 _ rfl rfl).2
    ⟨.struct [], .boom "Atoi".toList, rfl, rfl, ?_⟩
  refine .struct ?_
  refine .fieldMapped (lf := some (.slice (.src 0) [exItem "1", exItem "x"])) (by simp [exItem, exValue, srcOf, exUpdMethod, updSource, walk, fieldOf, List.lookup]) rfl ?_
  refine .listMake (vs := [exItem "1", exItem "x"]) rfl ?_
  refine .elemsThere (exElem0 _ _) ?_
  refine .elemsHere ?_
  refine .method (argVals := [exItem "x"]) (n1 := 0) (fr' := default) (e := .wrap [("Field", .basic "V".toList)] (.boom "Atoi".toList)) ?_ ?_
  · rfl
  refine .callConvert (gm := exMethod "ItemToOItem" exUsing (exInner (modeOf exUsing))) (c := exInner (modeOf exUsing)) rfl rfl ?_
  refine .struct ?_
  refine .fieldMapped (lf := some (.basic "x".toList)) (by simp [exItem, walk, fieldOf, List.lookup]) rfl ?_
  refine .custom (d := exAtoi) (argVals := [.basic "x".toList]) (n1 := 0) ?_ ?_ ?_ <;> rfl

end Gv.Props.C07
