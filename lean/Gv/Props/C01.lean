/-
C01 – successful generation yields code that compiles and implements the declared API.

A mechanised Go type checker is out of reach (said so in DESIGN.md): whole-file type correctness is validated per
output by compiling every emitted file with the user's packages in the executed-code campaigns and in the C01
campaign (naming / layout stress, API assertion files).  What is proved here is the identifier allocator
(namer/namer.go), which is what keeps emitted identifiers from being declared twice or shadowing the receiver.
-/
import Gv.Model.Namer
import Gv.Model.Gen

namespace Gv.Props.C01
open Gv.Str Gv.Namer

/-! ### static ties -/
theorem tie_index_vars : Facts.indexVars = ["i", "j", "k", "l", "m", "n", "o", "p", "q", "r", "s", "t", "u", "v", "w", "x", "y", "z"] := by decide
theorem tie_this_var : Facts.thisVar = "c" := by decide

/-! ### every allocation is fresh -/

theorem nameAux_fresh (n : Namer) (base : S) : ∀ (fuel i : Nat) (c : S), nameAux n base fuel i = some c → n.used.contains c = false := by
  intro fuel
  induction fuel with
  | zero => intro i c h; simp [nameAux] at h
  | succ fuel ih =>
    intro i c h
    unfold nameAux at h
    split at h
    · exact ih (i+1) c h
    · rename_i hc; cases h; simpa using hc

/-- **Name**: the identifier returned was not in use, is in use afterwards, and nothing else changes -/
theorem C01_name_fresh (n n' : Namer) (base c : S) (h : name n base = some (c, n')) :
    n.used.contains c = false ∧ n'.used = n.used ++ [c] := by
  unfold name at h
  split at h
  · rename_i c' hc
    cases h
    exact ⟨nameAux_fresh n base _ _ _ hc, rfl⟩
  · cases h

theorem indexAux_fresh (n : Namer) : ∀ (fuel r : Nat) (c : S), indexAux n fuel r = some c → n.used.contains c = false := by
  intro fuel
  induction fuel with
  | zero => intro r c h; simp [indexAux] at h
  | succ fuel ih =>
    intro r c h
    unfold indexAux at h
    split at h
    · rename_i c' hf
      cases h
      have := List.find?_some hf
      simpa using this
    · exact ih (r+1) c h

/-- **Index** -/
theorem C01_index_fresh (n n' : Namer) (c : S) (h : index n = some (c, n')) :
    n.used.contains c = false ∧ n'.used = n.used ++ [c] := by
  unfold index at h
  split at h
  · rename_i c' hc
    cases h
    exact ⟨indexAux_fresh n _ _ _ hc, rfl⟩
  · cases h

theorem mapAux_fresh (n : Namer) : ∀ (fuel i : Nat) (k v : S), mapAux n fuel i = some (k, v) →
    n.used.contains k = false ∧ n.used.contains v = false := by
  intro fuel
  induction fuel with
  | zero => intro i k v h; simp [mapAux] at h
  | succ fuel ih =>
    intro i k v h
    unfold mapAux at h
    dsimp only at h
    split at h
    · rename_i hc
      cases h
      simpa using hc
    · exact ih (i+1) k v h

/-- **Map**: both names are fresh -/
theorem C01_map_fresh (n n' : Namer) (k v : S) (h : mapKV n = some ((k, v), n')) :
    n.used.contains k = false ∧ n.used.contains v = false ∧ n'.used = n.used ++ [k, v] := by
  unfold mapKV at h
  split at h
  · rename_i k' v' hc
    cases h
    obtain ⟨h1, h2⟩ := mapAux_fresh n _ _ _ _ hc
    exact ⟨h1, h2, rfl⟩
  · cases h

/-- two successive allocations never return the same identifier: no emitted local is declared twice -/
theorem C01_successive_names_distinct (n n1 n2 : Namer) (b1 b2 c1 c2 : S)
    (h1 : name n b1 = some (c1, n1)) (h2 : name n1 b2 = some (c2, n2)) : c1 ≠ c2 := by
  obtain ⟨_, hu⟩ := C01_name_fresh n n1 b1 c1 h1
  obtain ⟨hf, _⟩ := C01_name_fresh n1 n2 b2 c2 h2
  intro e
  subst e
  rw [hu] at hf
  simp at hf

/-- the receiver name `c` is reserved from the start and can never be handed out -/
theorem C01_receiver_reserved (base c : S) (n' : Namer) (h : name new base = some (c, n')) : c ≠ "c".toList := by
  obtain ⟨hf, _⟩ := C01_name_fresh new n' base c h
  intro e
  subst e
  have : new.used.contains "c".toList = true := by decide
  rw [this] at hf
  cases hf

example : (name new "c".toList).map (·.1) = some "c2".toList := by decide
example : (index new).map (·.1) = some "i".toList := by decide
example : (mapKV new).map (·.1) = some ("key".toList, "value".toList) := by decide

/-! ### the rebuild of callers (fix 7c4d1f2, mirrored by `Gen.markDirty`)

A generated method whose signature changes (error result, context argument) must not leave a method behind that was
built with a call of the old signature: every recorded caller is flagged for a rebuild, nothing else about the table
changes. -/
open Gv.Gen

theorem markDirty_length (callers : List (Nat × Nat)) (callee : Nat) (ms : List GenMethod) :
    (markDirty callers callee ms).length = ms.length := by
  unfold markDirty
  induction callers generalizing ms with
  | nil => rfl
  | cons p rest ih =>
    simp only [List.foldl_cons]
    rw [ih]
    split <;> simp

/-- once flagged, a method stays flagged -/
theorem markDirty_keeps (callers : List (Nat × Nat)) (callee : Nat) (ms : List GenMethod) (k : Nat) (m : GenMethod)
    (h : ms[k]? = some m) (hd : m.dirty = true) :
    ∃ m', (markDirty callers callee ms)[k]? = some m' ∧ m'.dirty = true := by
  unfold markDirty
  induction callers generalizing ms m with
  | nil => exact ⟨m, h, hd⟩
  | cons p rest ih =>
    simp only [List.foldl_cons]
    split
    · by_cases hk : p.2 = k
      · subst hk
        apply ih _ { m with dirty := true }
        · simp [List.getElem?_modify, h]
        · rfl
      · apply ih _ m
        · simp [List.getElem?_modify, hk, h]
        · exact hd
    · exact ih ms m h hd

/-- **every recorded caller of the changed method is rebuilt** -/
theorem C01_callers_are_rebuilt (callers : List (Nat × Nat)) (callee caller : Nat) (ms : List GenMethod)
    (hc : (callee, caller) ∈ callers) (hk : caller < ms.length) :
    ∃ m', (markDirty callers callee ms)[caller]? = some m' ∧ m'.dirty = true := by
  induction callers generalizing ms with
  | nil => cases hc
  | cons p rest ih =>
    rcases List.mem_cons.1 hc with rfl | hr
    · -- this entry flags the caller; the rest keeps the flag
      have hstep : markDirty ((callee, caller) :: rest) callee ms =
          markDirty rest callee (ms.modify caller (fun m => { m with dirty := true })) := by
        simp [markDirty]
      rw [hstep]
      obtain ⟨m, hm⟩ : ∃ m, ms[caller]? = some m := ⟨ms[caller], by simp [hk]⟩
      apply markDirty_keeps rest callee _ caller { m with dirty := true }
      · simp [List.getElem?_modify, hm]
      · rfl
    · have hstep : markDirty (p :: rest) callee ms =
          markDirty rest callee (if p.1 == callee then ms.modify p.2 (fun m => { m with dirty := true }) else ms) := by
        simp [markDirty]
      rw [hstep]
      apply ih _ hr
      split <;> simp [hk]

/-- methods that are not callers of the changed method are left exactly as they were -/
theorem C01_only_callers_are_touched (callers : List (Nat × Nat)) (callee k : Nat) (ms : List GenMethod)
    (hn : ∀ p ∈ callers, p.1 = callee → p.2 ≠ k) : (markDirty callers callee ms)[k]? = ms[k]? := by
  unfold markDirty
  induction callers generalizing ms with
  | nil => rfl
  | cons p rest ih =>
    simp only [List.foldl_cons]
    rw [ih _ (fun q hq => hn q (List.mem_cons_of_mem _ hq))]
    split
    · rename_i hp
      have : p.2 ≠ k := hn p (List.mem_cons_self ..) (by simpa using hp)
      simp [List.getElem?_modify, this]
    · rfl

/-- non-vacuity: a pointer helper (index 2) recorded as caller of the struct helper (index 1) -/
example : ∃ m', (markDirty [(1, 2), (0, 1)] 1 [default, default, default])[2]? = some m' ∧ m'.dirty = true :=
  C01_callers_are_rebuilt _ 1 2 _ (by simp) (by simp)


end Gv.Props.C01
