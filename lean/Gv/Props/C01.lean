/-
C01 – successful generation yields code that compiles and implements the declared API.

A mechanised Go type checker is out of reach (said so in DESIGN.md): whole-file type correctness is validated per
output by compiling every emitted file with the user's packages in the executed-code campaigns and in the C01
campaign (naming / layout stress, API assertion files).  What is proved here is the identifier allocator
(namer/namer.go), which is what keeps emitted identifiers from being declared twice or shadowing the receiver.
-/
import Gv.Model.Namer

namespace Gv.Props.C01
open Gv.Str Gv.Namer

/-! ### static ties -/
theorem tie_index_vars : Facts.indexVars = ["i", "j", "k", "l", "m", "n", "o", "p", "q", "r", "s", "t", "u", "v", "w", "x", "y", "z"] := by decide
theorem tie_this_var : Facts.thisVar = "c" := by decide

/-! ### every allocation is fresh -/

theorem nameAux_fresh (n : Namer) (base : S) : ∀ (fuel i : Nat) (c : S), nameAux n base fuel i = some c → n.used.contains c = false := by
  intro fuel
  induction fuel with
  | zero => intro i c h; simp [nameAux] at h
  | succ fuel ih =>
    intro i c h
    unfold nameAux at h
    split at h
    · exact ih (i+1) c h
    · rename_i hc; cases h; simpa using hc

/-- **Name**: the identifier returned was not in use, is in use afterwards, and nothing else changes -/
theorem C01_name_fresh (n n' : Namer) (base c : S) (h : name n base = some (c, n')) :
    n.used.contains c = false ∧ n'.used = n.used ++ [c] := by
  unfold name at h
  split at h
  · rename_i c' hc
    cases h
    exact ⟨nameAux_fresh n base _ _ _ hc, rfl⟩
  · cases h

theorem indexAux_fresh (n : Namer) : ∀ (fuel r : Nat) (c : S), indexAux n fuel r = some c → n.used.contains c = false := by
  intro fuel
  induction fuel with
  | zero => intro r c h; simp [indexAux] at h
  | succ fuel ih =>
    intro r c h
    unfold indexAux at h
    split at h
    · rename_i c' hf
      cases h
      have := List.find?_some hf
      simpa using this
    · exact ih (r+1) c h

/-- **Index** -/
theorem C01_index_fresh (n n' : Namer) (c : S) (h : index n = some (c, n')) :
    n.used.contains c = false ∧ n'.used = n.used ++ [c] := by
  unfold index at h
  split at h
  · rename_i c' hc
    cases h
    exact ⟨indexAux_fresh n _ _ _ hc, rfl⟩
  · cases h

theorem mapAux_fresh (n : Namer) : ∀ (fuel i : Nat) (k v : S), mapAux n fuel i = some (k, v) →
    n.used.contains k = false ∧ n.used.contains v = false := by
  intro fuel
  induction fuel with
  | zero => intro i k v h; simp [mapAux] at h
  | succ fuel ih =>
    intro i k v h
    unfold mapAux at h
    dsimp only at h
    split at h
    · rename_i hc
      cases h
      simpa using hc
    · exact ih (i+1) k v h

/-- **Map**: both names are fresh -/
theorem C01_map_fresh (n n' : Namer) (k v : S) (h : mapKV n = some ((k, v), n')) :
    n.used.contains k = false ∧ n.used.contains v = false ∧ n'.used = n.used ++ [k, v] := by
  unfold mapKV at h
  split at h
  · rename_i k' v' hc
    cases h
    obtain ⟨h1, h2⟩ := mapAux_fresh n _ _ _ _ hc
    exact ⟨h1, h2, rfl⟩
  · cases h

/-- two successive allocations never return the same identifier: no emitted local is declared twice -/
theorem C01_successive_names_distinct (n n1 n2 : Namer) (b1 b2 c1 c2 : S)
    (h1 : name n b1 = some (c1, n1)) (h2 : name n1 b2 = some (c2, n2)) : c1 ≠ c2 := by
  obtain ⟨_, hu⟩ := C01_name_fresh n n1 b1 c1 h1
  obtain ⟨hf, _⟩ := C01_name_fresh n1 n2 b2 c2 h2
  intro e
  subst e
  rw [hu] at hf
  simp at hf

/-- the receiver name `c` is reserved from the start and can never be handed out -/
theorem C01_receiver_reserved (base c : S) (n' : Namer) (h : name new base = some (c, n')) : c ≠ "c".toList := by
  obtain ⟨hf, _⟩ := C01_name_fresh new n' base c h
  intro e
  subst e
  have : new.used.contains "c".toList = true := by decide
  rw [this] at hf
  cases hf

example : (name new "c".toList).map (·.1) = some "c2".toList := by decide
example : (index new).map (·.1) = some "i".toList := by decide
example : (mapKV new).map (·.1) = some ("key".toList, "value".toList) := by decide

end Gv.Props.C01
