/-
C03 – generation fails early exactly when no lossless rule-defined conversion exists.

Model: Gv.Gen (the generator), tied to generator/ and builder/ by Facts (rule order, Matches predicates)
and by the C03 campaign (scenario corpus, all ordered pairs of small types, random pairs with settings:
same outcome class and same table of generated methods).  Here: the rule order tie and the named
rejection / acceptance lemmas of the statement, for all types of the given shapes.
-/
import Gv.Model.Gen

namespace Gv.Props.C03
open Gv Gv.Gen

/-! ### static ties -/

/-- the rule cascade of the model is the code's `BuildSteps`, in order -/
theorem tie_build_steps : Facts.buildSteps =
    ["UseUnderlyingTypeMethods", "SkipCopy", "Enum", "BasicTargetPointerRule", "Pointer", "SourcePointer", "TargetPointer", "Basic", "Struct", "List", "Map"] := by
  decide

/-- the `Matches` predicate of every builder, as written in the code -/
theorem tie_matches : Facts.builderMatches = [
    ("Basic", "source.Basic && target.Basic && source.BasicType.Kind() == target.BasicType.Kind()"),
    ("BasicTargetPointerRule", "source.Basic && target.Pointer && target.PointerInner.Basic"),
    ("Enum", "isEnum(ctx, source, target)"),
    ("List", "source.List && target.List && !target.ListFixed"),
    ("Map", "source.Map && target.Map"),
    ("Pointer", "source.Pointer && target.Pointer"),
    ("SkipCopy", "ctx.Conf.SkipCopySameType && source.String == target.String"),
    ("SourcePointer", "ctx.Conf.UseZeroValueOnPointerInconsistency && source.Pointer && !target.Pointer"),
    ("Struct", "source.Struct && target.Struct"),
    ("TargetPointer", "!source.Pointer && target.Pointer"),
    ("UseUnderlyingTypeMethods", "<complex>")] := by decide

section
variable (c : Converter) (fuel : Nat) (cx : Ctx) (mode : Mode) (pp : Bool) (path : List PathElem) (st : GState)

macro "unfold_rules" : tactic => `(tactic|
  simp [isStruct, isPtr, isBasic, isList, isMap, under, isEnumPair, enumMembers, typeMismatch, fail, bind, StateT.bind, Except.bind,
    pure, Except.pure, StateT.pure, get, getThe, MonadStateOf.get, StateT.get, throw, throwThe, MonadExceptOf.throw, StateT.lift, Ty.isNamed, *])

/-- different basic kinds (int vs int64, string vs int …) are never converted -/
theorem C03_basic_kind_mismatch (k k' : Kind) (hk : (k.canon == k'.canon) = false)
    (hu : cx.cfg.common.useUnderlying = false) (hs : cx.cfg.common.skipCopySameType = false) :
    noLookup c (fuel+1) cx mode pp (.basic k) (.basic k') path st = .error .typeMismatch := by
  unfold noLookup; unfold_rules

/-- identical basic kinds are converted by assignment -/
theorem C03_basic_same_kind (k : Kind)
    (hu : cx.cfg.common.useUnderlying = false) (hs : cx.cfg.common.skipCopySameType = false) :
    noLookup c (fuel+1) cx mode pp (.basic k) (.basic k) path st = .ok (.ident, st) := by
  unfold noLookup; unfold_rules

/-- `*T → U` (U not a pointer) is rejected with the dedicated hint unless useZeroValueOnPointerInconsistency is set -/
theorem C03_ptr_to_value_needs_flag (se : Ty) (k : Kind)
    (hu : cx.cfg.common.useUnderlying = false) (hs : cx.cfg.common.skipCopySameType = false)
    (hz : cx.cfg.common.useZeroValue = false) :
    noLookup c (fuel+1) cx mode pp (.ptr se) (.basic k) path st = .error .typeMismatchPtr := by
  unfold noLookup; unfold_rules

theorem C03_ptr_to_struct_needs_flag (se : Ty) (fs : Fields)
    (hu : cx.cfg.common.useUnderlying = false) (hs : cx.cfg.common.skipCopySameType = false)
    (hz : cx.cfg.common.useZeroValue = false) :
    noLookup c (fuel+1) cx mode pp (.ptr se) (.struct fs) path st = .error .typeMismatchPtr := by
  unfold noLookup; unfold_rules

/-- a slice (or array) is never converted to an array -/
theorem C03_slice_to_array_none (se te : Ty) (n : Nat)
    (hu : cx.cfg.common.useUnderlying = false) (hs : cx.cfg.common.skipCopySameType = false) :
    noLookup c (fuel+1) cx mode pp (.slice se) (.array n te) path st = .error .typeMismatch := by
  unfold noLookup; unfold_rules

/-- a struct is never converted to a map -/
theorem C03_struct_to_map_none (fs : Fields) (k v : Ty)
    (hu : cx.cfg.common.useUnderlying = false) (hs : cx.cfg.common.skipCopySameType = false) :
    noLookup c (fuel+1) cx mode pp (.struct fs) (.map k v) path st = .error .typeMismatch := by
  unfold noLookup; unfold_rules

/-- interfaces, funcs and chans have no rule of their own … -/
theorem C03_opaque_needs_identity_or_custom (k k' : OKind) (s s' : Str.S)
    (hu : cx.cfg.common.useUnderlying = false) (hs : cx.cfg.common.skipCopySameType = false) :
    noLookup c (fuel+1) cx mode pp (.opaque k s) (.opaque k' s') path st = .error .typeMismatch := by
  unfold noLookup; unfold_rules

/-- … except the opt-in: identical types with skipCopySameType are passed through -/
theorem C03_opaque_identical_with_skipcopy (k : OKind) (s : Str.S)
    (hu : cx.cfg.common.useUnderlying = false) (hs : cx.cfg.common.skipCopySameType = true) :
    noLookup c (fuel+1) cx mode pp (.opaque k s) (.opaque k s) path st = .ok (.ident, st) := by
  unfold noLookup
  have : (Ty.opaque k s == Ty.opaque k s) = true := by
    show Ty.beq _ _ = true
    simp [Ty.beq]
  unfold_rules

/-- **no rule ⇒ rejected, for ALL types**: when no custom function or existing method applies (the caller of `noLookup` has
checked that) and none of the eleven rules matches the pair — not both structs, `useUnderlyingTypeMethods` off, not identical
under `skipCopySameType`, not an enum pair, the target not a pointer, the source not a pointer with
`useZeroValueOnPointerInconsistency`, not basic types of one kind, not list → slice, not map → map — generation fails at this
position with the type mismatch diagnostic, whatever the types are. -/
theorem C03_no_rule_rejects (s t : Ty)
    (hu : cx.cfg.common.useUnderlying = false)
    (hsk : (cx.cfg.common.skipCopySameType && s == t) = false)
    (hen : isEnumPair c cx.cfg.common s t = false)
    (hst : ((isStruct c.env s).isSome && (isStruct c.env t).isSome) = false)
    (htp : isPtr c.env t = none)
    (hsp : (cx.cfg.common.useZeroValue && (isPtr c.env s).isSome) = false)
    (hb : isBasic c.env s = none ∨ isBasic c.env t = none ∨
          ∃ a b, isBasic c.env s = some a ∧ isBasic c.env t = some b ∧ (a.canon == b.canon) = false)
    (hl : isList c.env s = none ∨ isList c.env t = none ∨ ∃ te n, isList c.env t = some (te, some n))
    (hm : isMap c.env s = none ∨ isMap c.env t = none) :
    noLookup c (fuel+1) cx mode pp s t path st = .error (typeMismatch c s t) := by
  unfold noLookup
  have hst' : ¬ ((isStruct c.env s).isSome = true ∧ (isStruct c.env t).isSome = true) := by
    intro h; simp [h.1, h.2] at hst
  have hsp' : ¬ (cx.cfg.common.useZeroValue = true ∧ (isPtr c.env s).isSome = true) := by
    intro h; simp [h.1, h.2] at hsp
  simp [fail, bind, StateT.bind, Except.bind, pure, Except.pure, StateT.pure, get, getThe, MonadStateOf.get, StateT.get, throw, throwThe,
    MonadExceptOf.throw, StateT.lift, hu, htp, hst', hsp', hsk, hen]
  have hcond : ∀ a b, isBasic c.env s = some a → isBasic c.env t = some b → (a.canon == b.canon) = false := by
    intro a b h1 h2
    rcases hb with hb | hb | ⟨a', b', hb1, hb2, hb3⟩
    · rw [hb] at h1; cases h1
    · rw [hb] at h2; cases h2
    · rw [hb1] at h1; rw [hb2] at h2; cases h1; cases h2; exact hb3
  have hlist : ∀ se sf te, isList c.env s = some (se, sf) → isList c.env t = some (te, none) → False := by
    intro se sf te h1 h2
    rcases hl with hl | hl | ⟨te', n, hl⟩
    · rw [hl] at h1; cases h1
    · rw [hl] at h2; cases h2
    · rw [hl] at h2; cases h2
  have hmap : ∀ a b, isMap c.env s = some a → isMap c.env t = some b → False := by
    intro a b h1 h2
    rcases hm with hm | hm
    · rw [hm] at h1; cases h1
    · rw [hm] at h2; cases h2
  clear hb hl hm
  have hc2 : ∀ a b, isBasic c.env s = some a → isBasic c.env t = some b → ¬ (a.canon = b.canon) := by
    intro a b h1 h2 h3; have := hcond a b h1 h2; simp [h3] at this
  have hl2 : ∀ se sf te, isList c.env s = some (se, sf) → ¬ isList c.env t = some (te, none) :=
    fun se sf te h1 h2 => hlist se sf te h1 h2
  have hm2 : ∀ a b, isMap c.env s = some a → ¬ isMap c.env t = some b := fun a b h1 h2 => hmap a b h1 h2
  clear hcond hlist hmap hst hsp hsk hen
  cases hs0 : isBasic c.env s <;> cases hs0' : isBasic c.env t <;>
    rcases hl1 : isList c.env s with _ | ⟨se, sf⟩ <;> rcases hl3 : isList c.env t with _ | ⟨te, _ | n⟩ <;>
    rcases hm1 : isMap c.env s with _ | ⟨sk, sv⟩ <;> rcases hm3 : isMap c.env t with _ | ⟨tk, tv⟩ <;>
    simp_all [StateT.lift] <;> (try rfl)

/-- the hypotheses of `C03_no_rule_rejects` are met by real shapes: a slice never becomes an array, whatever the elements -/
example (se te : Ty) (n : Nat)
    (hu : cx.cfg.common.useUnderlying = false) (hs : cx.cfg.common.skipCopySameType = false) :
    noLookup c (fuel+1) cx mode pp (.slice se) (.array n te) path st = .error (typeMismatch c (.slice se) (.array n te)) := by
  apply C03_no_rule_rejects <;> simp [hu, hs, isEnumPair, enumMembers, isStruct, isPtr, isBasic, isList, isMap, under]

end

/-- a failing generation yields no method table at all (hence no file: C17) -/
theorem C03_error_emits_nothing (c : Converter) (ds : List Declared) (d : Diag) (h : generate c ds = .error d) :
    ∀ ms, generate c ds ≠ .ok ms := by
  intro ms h2; rw [h] at h2; cases h2

end Gv.Props.C03
