/-
C03 – generation fails early exactly when no lossless rule-defined conversion exists.

Model: Gv.Gen (the generator), tied to generator/ and builder/ by Facts (rule order, Matches predicates)
and by the C03 campaign (scenario corpus, all ordered pairs of small types, random pairs with settings:
same outcome class and same table of generated methods).  Here: the rule order tie and the named
rejection / acceptance lemmas of the statement, for all types of the given shapes.
-/
import Gv.Model.Gen
import Gv.Proofs.GenFragment

namespace Gv.Props.C03
open Gv Gv.Gen

/-! ### static ties -/

/-- the rule cascade of the model is the code's `BuildSteps`, in order -/
theorem tie_build_steps : Facts.buildSteps =
    ["UseUnderlyingTypeMethods", "SkipCopy", "Enum", "BasicTargetPointerRule", "Pointer", "SourcePointer", "TargetPointer", "Basic", "Struct", "List", "Map"] := by
  decide

/-- the `Matches` predicate of every builder, as written in the code -/
theorem tie_matches : Facts.builderMatches = [
    ("Basic", "source.Basic && target.Basic && source.BasicType.Kind() == target.BasicType.Kind()"),
    ("BasicTargetPointerRule", "source.Basic && target.Pointer && target.PointerInner.Basic"),
    ("Enum", "isEnum(ctx, source, target)"),
    ("List", "source.List && target.List && !target.ListFixed"),
    ("Map", "source.Map && target.Map"),
    ("Pointer", "source.Pointer && target.Pointer"),
    ("SkipCopy", "ctx.Conf.SkipCopySameType && source.String == target.String"),
    ("SourcePointer", "ctx.Conf.UseZeroValueOnPointerInconsistency && source.Pointer && !target.Pointer"),
    ("Struct", "source.Struct && target.Struct"),
    ("TargetPointer", "!source.Pointer && target.Pointer"),
    ("UseUnderlyingTypeMethods", "<complex>")] := by decide

section
variable (c : Converter) (fuel : Nat) (cx : Ctx) (mode : Mode) (pp : Bool) (path : List PathElem) (st : GState)

macro "unfold_rules" : tactic => `(tactic|
  simp [isStruct, isPtr, isBasic, isList, isMap, under, isEnumPair, enumMembers, typeMismatch, fail, bind, StateT.bind, Except.bind,
    pure, Except.pure, StateT.pure, get, getThe, MonadStateOf.get, StateT.get, throw, throwThe, MonadExceptOf.throw, StateT.lift, Ty.isNamed, *])

/-- different basic kinds (int vs int64, string vs int …) are never converted -/
theorem C03_basic_kind_mismatch (k k' : Kind) (hk : (k.canon == k'.canon) = false)
    (hu : cx.cfg.common.useUnderlying = false) (hs : cx.cfg.common.skipCopySameType = false) :
    noLookup c (fuel+1) cx mode pp (.basic k) (.basic k') path st = .error .typeMismatch := by
  unfold noLookup; unfold_rules

/-- identical basic kinds are converted by assignment -/
theorem C03_basic_same_kind (k : Kind)
    (hu : cx.cfg.common.useUnderlying = false) (hs : cx.cfg.common.skipCopySameType = false) :
    noLookup c (fuel+1) cx mode pp (.basic k) (.basic k) path st = .ok (.ident, st) := by
  unfold noLookup; unfold_rules

/-- `*T → U` (U not a pointer) is rejected with the dedicated hint unless useZeroValueOnPointerInconsistency is set -/
theorem C03_ptr_to_value_needs_flag (se : Ty) (k : Kind)
    (hu : cx.cfg.common.useUnderlying = false) (hs : cx.cfg.common.skipCopySameType = false)
    (hz : cx.cfg.common.useZeroValue = false) :
    noLookup c (fuel+1) cx mode pp (.ptr se) (.basic k) path st = .error .typeMismatchPtr := by
  unfold noLookup; unfold_rules

theorem C03_ptr_to_struct_needs_flag (se : Ty) (fs : Fields)
    (hu : cx.cfg.common.useUnderlying = false) (hs : cx.cfg.common.skipCopySameType = false)
    (hz : cx.cfg.common.useZeroValue = false) :
    noLookup c (fuel+1) cx mode pp (.ptr se) (.struct fs) path st = .error .typeMismatchPtr := by
  unfold noLookup; unfold_rules

/-- a slice (or array) is never converted to an array -/
theorem C03_slice_to_array_none (se te : Ty) (n : Nat)
    (hu : cx.cfg.common.useUnderlying = false) (hs : cx.cfg.common.skipCopySameType = false) :
    noLookup c (fuel+1) cx mode pp (.slice se) (.array n te) path st = .error .typeMismatch := by
  unfold noLookup; unfold_rules

/-- a struct is never converted to a map -/
theorem C03_struct_to_map_none (fs : Fields) (k v : Ty)
    (hu : cx.cfg.common.useUnderlying = false) (hs : cx.cfg.common.skipCopySameType = false) :
    noLookup c (fuel+1) cx mode pp (.struct fs) (.map k v) path st = .error .typeMismatch := by
  unfold noLookup; unfold_rules

/-- interfaces, funcs and chans have no rule of their own … -/
theorem C03_opaque_needs_identity_or_custom (k k' : OKind) (s s' : Str.S)
    (hu : cx.cfg.common.useUnderlying = false) (hs : cx.cfg.common.skipCopySameType = false) :
    noLookup c (fuel+1) cx mode pp (.opaque k s) (.opaque k' s') path st = .error .typeMismatch := by
  unfold noLookup; unfold_rules

/-- … except the opt-in: identical types with skipCopySameType are passed through -/
theorem C03_opaque_identical_with_skipcopy (k : OKind) (s : Str.S)
    (hu : cx.cfg.common.useUnderlying = false) (hs : cx.cfg.common.skipCopySameType = true) :
    noLookup c (fuel+1) cx mode pp (.opaque k s) (.opaque k s) path st = .ok (.ident, st) := by
  unfold noLookup
  have : (Ty.opaque k s == Ty.opaque k s) = true := by
    show Ty.beq _ _ = true
    simp [Ty.beq]
  unfold_rules

/-- **no rule ⇒ rejected, for ALL types**: when no custom function or existing method applies (the caller of `noLookup` has
checked that) and none of the eleven rules matches the pair — not both structs, `useUnderlyingTypeMethods` off, not identical
under `skipCopySameType`, not an enum pair, the target not a pointer, the source not a pointer with
`useZeroValueOnPointerInconsistency`, not basic types of one kind, not list → slice, not map → map — generation fails at this
position with the type mismatch diagnostic, whatever the types are. -/
theorem C03_no_rule_rejects (s t : Ty)
    (hu : cx.cfg.common.useUnderlying = false)
    (hsk : (cx.cfg.common.skipCopySameType && s == t) = false)
    (hen : isEnumPair c cx.cfg.common s t = false)
    (hst : ((isStruct c.env s).isSome && (isStruct c.env t).isSome) = false)
    (htp : isPtr c.env t = none)
    (hsp : (cx.cfg.common.useZeroValue && (isPtr c.env s).isSome) = false)
    (hb : isBasic c.env s = none ∨ isBasic c.env t = none ∨
          ∃ a b, isBasic c.env s = some a ∧ isBasic c.env t = some b ∧ (a.canon == b.canon) = false)
    (hl : isList c.env s = none ∨ isList c.env t = none ∨ ∃ te n, isList c.env t = some (te, some n))
    (hm : isMap c.env s = none ∨ isMap c.env t = none) :
    noLookup c (fuel+1) cx mode pp s t path st = .error (typeMismatch c s t) := by
  unfold noLookup
  have hst' : ¬ ((isStruct c.env s).isSome = true ∧ (isStruct c.env t).isSome = true) := by
    intro h; simp [h.1, h.2] at hst
  have hsp' : ¬ (cx.cfg.common.useZeroValue = true ∧ (isPtr c.env s).isSome = true) := by
    intro h; simp [h.1, h.2] at hsp
  simp [fail, bind, StateT.bind, Except.bind, pure, Except.pure, StateT.pure, get, getThe, MonadStateOf.get, StateT.get, throw, throwThe,
    MonadExceptOf.throw, StateT.lift, hu, htp, hst', hsp', hsk, hen]
  have hcond : ∀ a b, isBasic c.env s = some a → isBasic c.env t = some b → (a.canon == b.canon) = false := by
    intro a b h1 h2
    rcases hb with hb | hb | ⟨a', b', hb1, hb2, hb3⟩
    · rw [hb] at h1; cases h1
    · rw [hb] at h2; cases h2
    · rw [hb1] at h1; rw [hb2] at h2; cases h1; cases h2; exact hb3
  have hlist : ∀ se sf te, isList c.env s = some (se, sf) → isList c.env t = some (te, none) → False := by
    intro se sf te h1 h2
    rcases hl with hl | hl | ⟨te', n, hl⟩
    · rw [hl] at h1; cases h1
    · rw [hl] at h2; cases h2
    · rw [hl] at h2; cases h2
  have hmap : ∀ a b, isMap c.env s = some a → isMap c.env t = some b → False := by
    intro a b h1 h2
    rcases hm with hm | hm
    · rw [hm] at h1; cases h1
    · rw [hm] at h2; cases h2
  clear hb hl hm
  have hc2 : ∀ a b, isBasic c.env s = some a → isBasic c.env t = some b → ¬ (a.canon = b.canon) := by
    intro a b h1 h2 h3; have := hcond a b h1 h2; simp [h3] at this
  have hl2 : ∀ se sf te, isList c.env s = some (se, sf) → ¬ isList c.env t = some (te, none) :=
    fun se sf te h1 h2 => hlist se sf te h1 h2
  have hm2 : ∀ a b, isMap c.env s = some a → ¬ isMap c.env t = some b := fun a b h1 h2 => hmap a b h1 h2
  clear hcond hlist hmap hst hsp hsk hen
  cases hs0 : isBasic c.env s <;> cases hs0' : isBasic c.env t <;>
    rcases hl1 : isList c.env s with _ | ⟨se, sf⟩ <;> rcases hl3 : isList c.env t with _ | ⟨te, _ | n⟩ <;>
    rcases hm1 : isMap c.env s with _ | ⟨sk, sv⟩ <;> rcases hm3 : isMap c.env t with _ | ⟨tk, tv⟩ <;>
    simp_all [StateT.lift] <;> (try rfl)

/-- the hypotheses of `C03_no_rule_rejects` are met by real shapes: a slice never becomes an array, whatever the elements -/
example (se te : Ty) (n : Nat)
    (hu : cx.cfg.common.useUnderlying = false) (hs : cx.cfg.common.skipCopySameType = false) :
    noLookup c (fuel+1) cx mode pp (.slice se) (.array n te) path st = .error (typeMismatch c (.slice se) (.array n te)) := by
  apply C03_no_rule_rejects <;> simp [hu, hs, isEnumPair, enumMembers, isStruct, isPtr, isBasic, isList, isMap, under]

end

/-- a failing generation yields no method table at all (hence no file: C17) -/
theorem C03_error_emits_nothing (c : Converter) (ds : List Declared) (d : Diag) (h : generate c ds = .error d) :
    ∀ ms, generate c ds ≠ .ok ms := by
  intro ms h2; rw [h] at h2; cases h2

/-! ### ok ⇔ Convertible, at ALL depths, on the fragment F of unnamed struct-free types

    F ::= basic k | *F | []F | [n]F | map[F]F                     (`Gv.Spec.inF`)

`Gv.Spec.Convertible z` is the documented rule set as an inductive predicate (one constructor per rule, no rule order),
`Gv.Spec.convertibleB` its decision procedure, `Gv.Gen.genF` the reference generator (the plan or the first diagnostic,
by recursion on the pair of types).  Hypotheses ("plain" situation): no extend function; no declared or generated
non-update method whose signature lies in F (`plainMethods`); `useUnderlyingTypeMethods` and `skipCopySameType` off;
`z` = `useZeroValueOnPointerInconsistency`; no pending `default` constructor.  Enum detection may be on or off (unnamed
types are never enums, C08).  The fuel bound is explicit: two units per type constructor of the pair. -/

open Gv.Spec in
/-- **C03 on F, all depths.**  For every pair of F-types, every mode (Build / Assign), every state and path:
 1. generation of the position succeeds iff the documented rules cover the pair (`Convertible`), iff `convertibleB`;
 2. on success the generator state is UNCHANGED (no method created, none marked dirty, nothing seen), the plan is exactly
    the reference plan `genF`, and – for alias-free kinds and no array directly inside a list – the plan passes the plan
    checker of C02 for EVERY program (so `C02_composite` applies to it: L-B on F);
 3. otherwise it fails with a type-mismatch diagnostic (never out of fuel, never another diagnostic). -/
theorem C03_iff_unnamed_fragment (c : Converter) (cx : Ctx) (st : GState) (z : Bool) (s t : Ty) (path : List PathElem)
    (fuel : Nat) (mode : Mode) (pp : Bool)
    (hs : inF s = true) (ht : inF t = true)
    (hfuel : 2 * (tySize s + tySize t) ≤ fuel)
    (hext : c.extend = []) (hms : plainMethods st.methods = true)
    (hu : cx.cfg.common.useUnderlying = false) (hsk : cx.cfg.common.skipCopySameType = false)
    (hz : cx.cfg.common.useZeroValue = z) (hc : st.useCtor = false) :
    ((∃ plan st', conv c fuel cx mode pp s t path st = .ok (plan, st')) ↔ Convertible z s t) ∧
    (Convertible z s t ↔ convertibleB z s t = true) ∧
    (∀ plan st', conv c fuel cx mode pp s t path st = .ok (plan, st') →
        st' = st ∧ genF z (asgOf mode) s t = .ok plan ∧
        (aliasFree s = true → aliasFree t = true → arrayElemFree (asgOf mode) s = true →
          ∀ p : Eval.Program, PlanCheck.checkTy p plan s t = true)) ∧
    (¬ Convertible z s t →
        ∃ d, conv c fuel cx mode pp s t path st = .error d ∧ (d = .typeMismatch ∨ d = .typeMismatchPtr)) := by
  have hsim := conv_fragment c cx st z s t path fuel mode pp hs ht hfuel hext (plainMethods_upTo _ _ hms) hu hsk hz hc
  rw [hsim]
  refine ⟨?_, (convertibleB_iff z s t hs ht).symm, ?_, ?_⟩
  · rw [← genF_ok_iff z (asgOf mode) s t]
    constructor
    · rintro ⟨plan, st', h⟩
      cases hg : genF z (asgOf mode) s t with
      | ok q => exact ⟨q, rfl⟩
      | error d => rw [hg] at h; cases h
    · rintro ⟨q, hq⟩; exact ⟨q, st, by rw [hq]; rfl⟩
  · intro plan st' h
    cases hg : genF z (asgOf mode) s t with
    | error d => rw [hg] at h; cases h
    | ok q =>
      rw [hg] at h
      obtain ⟨rfl, rfl⟩ : q = plan ∧ st = st' := by simpa [ret] using h
      exact ⟨rfl, rfl, fun ha1 ha2 ha3 p => genF_checked p z (asgOf mode) s t q hg hs ht ha1 ha2 ha3⟩
  · intro hn
    cases hg : genF z (asgOf mode) s t with
    | ok q => exact absurd ((genF_ok_iff z (asgOf mode) s t).mp ⟨q, hg⟩) hn
    | error d => exact ⟨d, rfl, genF_error z (asgOf mode) s t hs ht d hg⟩

open Gv.Spec in
/-- the same at the entry of a METHOD BODY (`buildNoLookup` on the method's own signature, as `buildMethod` calls it): the
method table may contain the method being built – only non-update methods with a strictly smaller F-signature are excluded -/
theorem C03_iff_unnamed_fragment_method (c : Converter) (cx : Ctx) (st : GState) (z : Bool) (s t : Ty) (path : List PathElem)
    (fuel : Nat) (mode : Mode) (pp : Bool)
    (hs : inF s = true) (ht : inF t = true)
    (hfuel : 2 * (tySize s + tySize t) ≤ fuel)
    (hext : c.extend = []) (hms : plainMethodsUpTo (tySize s + tySize t - 1) st.methods = true)
    (hu : cx.cfg.common.useUnderlying = false) (hsk : cx.cfg.common.skipCopySameType = false)
    (hz : cx.cfg.common.useZeroValue = z) (hc : st.useCtor = false) :
    noLookup c fuel cx mode pp s t path st = ret (genF z (asgNL mode) s t) st ∧
    ((∃ plan, noLookup c fuel cx mode pp s t path st = .ok (plan, st)) ↔ Convertible z s t) := by
  have hsim := noLookup_fragment c cx st z s t path fuel mode pp hs ht hfuel hext hms hu hsk hz hc
  refine ⟨hsim, ?_⟩
  rw [hsim, ← genF_ok_iff z (asgNL mode) s t]
  constructor
  · rintro ⟨plan, h⟩
    cases hg : genF z (asgNL mode) s t with
    | ok q => exact ⟨q, rfl⟩
    | error d => rw [hg] at h; cases h
  · rintro ⟨q, hq⟩; exact ⟨q, by rw [hq]; rfl⟩

open Gv.Spec in
/-- **C03 for a whole converter with one declared method on F-types** (e.g. `Convert([]*int) []*int`): `generate` – setup,
validation, the dirty loop, `buildMethod` – succeeds iff the documented rules cover the signature; on success the method table
is the declared method with body `return <reference plan>` and nothing else (no sub-method is generated), and – alias-free
kinds, no array directly inside a list – the whole program passes `PlanCheck.checkProg`, so `C02_composite` applies to it for
every value; otherwise the run fails with a type-mismatch diagnostic and emits nothing. -/
theorem C03_iff_unnamed_fragment_generate (c : Converter) (d : Declared) (z : Bool) (fuel rounds : Nat)
    (hup : d.updateTarget = false) (hraw : d.cfg.rawFieldSettings = []) (hctor : d.cfg.constructor = none)
    (hs : inF d.source = true) (ht : inF d.target = true)
    (hfuel : 2 * (tySize d.source + tySize d.target) < fuel) (hrounds : 2 ≤ rounds)
    (hext : c.extend = [])
    (hu : d.cfg.common.useUnderlying = false) (hsk : d.cfg.common.skipCopySameType = false)
    (hz : d.cfg.common.useZeroValue = z) :
    ((∃ ms, generate c [d] fuel rounds = .ok ms) ↔ Convertible z d.source d.target) ∧
    (∀ ms, generate c [d] fuel rounds = .ok ms →
        ∃ plan, genF z false d.source d.target = .ok plan ∧
          ms = [{ declaredMethod d with dirty := false, body := some (.convert plan) }] ∧
          (aliasFree d.source = true → aliasFree d.target = true → arrayElemFree false d.source = true →
            PlanCheck.checkProg { conv := c, methods := ms } = true)) ∧
    (¬ Convertible z d.source d.target →
        ∃ e, generate c [d] fuel rounds = .error e ∧ (e = .typeMismatch ∨ e = .typeMismatchPtr)) := by
  rw [generate_single c d z fuel rounds hup hraw hctor hs ht hfuel hrounds hext hu hsk hz,
    ← genF_ok_iff z false d.source d.target]
  refine ⟨?_, ?_, ?_⟩
  · constructor
    · rintro ⟨ms, h⟩
      cases hg : genF z false d.source d.target with
      | ok q => exact ⟨q, rfl⟩
      | error e => rw [hg] at h; cases h
    · rintro ⟨q, hq⟩; exact ⟨_, by rw [hq]⟩
  · intro ms h
    cases hg : genF z false d.source d.target with
    | error e => rw [hg] at h; cases h
    | ok q =>
      rw [hg] at h
      simp only [Except.ok.injEq] at h
      refine ⟨q, rfl, h.symm, fun ha1 ha2 ha3 => ?_⟩
      subst h
      simp [PlanCheck.checkProg, declaredMethod, genF_checked _ z false d.source d.target q hg hs ht ha1 ha2 ha3]
  · intro hn
    cases hg : genF z false d.source d.target with
    | ok q => exact absurd ⟨q, hg⟩ hn
    | error e => exact ⟨e, rfl, genF_error z false d.source d.target hs ht e hg⟩

/-! non-vacuity: a concrete converter, a state whose method table holds a declared method (on named types), and the pairs
`map[string][]*int → map[string][]*int` (accepted, with its plan) and `… → map[string][]*int64` (rejected) -/

def exConverter : Converter := { env := [], common := {}, outputPkg := [], customs := [], extend := [], orc := {} }
def exDeclared : GenMethod :=
  { name := "Convert".toList, source := .named "pkg.In".toList, target := .named "pkg.Out".toList,
    args := [{ name := "source".toList, use := .source, ty := .named "pkg.In".toList }], contexts := [], returnError := false,
    updateTarget := false, explicit := true, dirty := true, originPath := [], originName := "Convert".toList, cfg := { common := {} } }
def exState : GState := { methods := [exDeclared], fileNames := [], seen := ["pkg.In".toList], useCtor := false }
def exCtx : Ctx :=
  { self := 0, cfg := { common := {} }, confSource := some (.named "pkg.In".toList), confTarget := .named "pkg.Out".toList,
    updateTarget := false, fieldsTarget := .named "pkg.Out".toList, available := [], ctxArgs := [],
    sigSource := .named "pkg.In".toList, sigTarget := .named "pkg.Out".toList }
def exS : Ty := .map (.basic .string) (.slice (.ptr (.basic .int)))
def exT : Ty := .map (.basic .string) (.slice (.ptr (.basic .int)))
def exT' : Ty := .map (.basic .string) (.slice (.ptr (.basic .int64)))

open Gv.Spec in
/-- the hypotheses hold for the example, the pair is convertible, so the theorem yields success with the unchanged state and a
checked plan -/
example : ∃ plan, conv exConverter 100 exCtx .build false exS exT [] exState = .ok (plan, exState) ∧
    ∀ p : Eval.Program, PlanCheck.checkTy p plan exS exT = true := by
  have h := C03_iff_unnamed_fragment exConverter exCtx exState false exS exT [] 100 .build false
    (by decide) (by decide) (by decide) rfl (by decide) rfl rfl rfl rfl
  have hc : Convertible false exS exT := .map (.basic rfl) (.slice (.ptrPtr (.basic rfl)))
  obtain ⟨plan, st', hok⟩ := h.1.mpr hc
  obtain ⟨rfl, _, hchk⟩ := h.2.2.1 plan st' hok
  exact ⟨plan, hok, hchk (by decide) (by decide) (by decide)⟩

open Gv.Spec in
/-- … and the rejected pair fails with a type mismatch -/
example : ∃ d, conv exConverter 100 exCtx .build false exS exT' [] exState = .error d ∧ (d = .typeMismatch ∨ d = .typeMismatchPtr) := by
  have h := C03_iff_unnamed_fragment exConverter exCtx exState false exS exT' [] 100 .build false
    (by decide) (by decide) (by decide) rfl (by decide) rfl rfl rfl rfl
  apply h.2.2.2
  rw [h.2.1]
  simp [convertibleB, exS, exT', Kind.canon]

open Gv.Spec in
/-- `*int → int` flips with the flag: rejected without `useZeroValueOnPointerInconsistency`, accepted with it -/
example : ¬ Convertible false (.ptr (.basic .int)) (.basic .int) ∧ Convertible true (.ptr (.basic .int)) (.basic .int) := by
  refine ⟨?_, .srcPtr rfl rfl (.basic rfl)⟩
  rw [← convertibleB_iff _ _ _ (by decide) (by decide)]
  simp [convertibleB]

/-- a whole converter: `Convert(map[string][]*int) map[string][]*int` is generated, with `map[string][]*int64` it is rejected -/
def exDecl (t : Ty) : Declared :=
  { name := "Convert".toList, source := exS, target := t, args := [{ name := "source".toList, use := .source, ty := exS }],
    contexts := [], returnError := false, updateTarget := false, cfg := { common := {} } }

open Gv.Spec in
example : (∃ ms, generate exConverter [exDecl exT] = .ok ms ∧ PlanCheck.checkProg { conv := exConverter, methods := ms } = true) ∧
    (∃ e, generate exConverter [exDecl exT'] = .error e) := by
  have h := C03_iff_unnamed_fragment_generate exConverter (exDecl exT) false 200 64 rfl rfl rfl (by decide) (by decide) (by decide)
    (by decide) rfl rfl rfl rfl
  have h' := C03_iff_unnamed_fragment_generate exConverter (exDecl exT') false 200 64 rfl rfl rfl (by decide) (by decide) (by decide)
    (by decide) rfl rfl rfl rfl
  constructor
  · obtain ⟨ms, hms⟩ := h.1.mpr (.map (.basic rfl) (.slice (.ptrPtr (.basic rfl))))
    obtain ⟨plan, _, _, hchk⟩ := h.2.1 ms hms
    exact ⟨ms, hms, hchk (by decide) (by decide) (by decide)⟩
  · have hn : ¬ Convertible false (exDecl exT').source (exDecl exT').target := by
      rw [← convertibleB_iff _ _ _ (by decide) (by decide)]
      simp [convertibleB, exDecl, exS, exT', Kind.canon]
    obtain ⟨e, he, _⟩ := h'.2.2 hn
    exact ⟨e, he⟩

/-! ### second stage: the fragment FS = F + unnamed structs with exported fields (the Struct rule without settings)

`Gv.Spec.inFS`; `Convertible` has the constructor `struct` (every target field has a source field of the same name whose pair of
types is convertible; extra source fields are ignored; a target struct without fields is always convertible).  Additional
hypotheses: no field settings at all (`matchIgnoreCase`, `ignoreMissing` off, no `map`/`ignore` lines for the method, no
`autoMap`, no method of the table with raw field settings – the overlapping-definitions check), not an update method / update
position.  Unnamed structs never create sub-methods, so the state is still untouched.  The possible diagnostics are the two
type mismatches and `noMatch` (a target field without a source field). -/

open Gv.Spec in
/-- **C03 on FS, all depths**: as `C03_iff_unnamed_fragment`, with unnamed structs.  The plan-check conclusion additionally needs
every target struct to have at least one field and no field name twice (`structsOK`: the `Nodup` side condition of the checker,
and no position where the generator short-cuts two EMPTY structs to a plain assignment – a plan shape the checker does not cover). -/
theorem C03_iff_unnamed_struct_fragment (c : Converter) (cx : Ctx) (st : GState) (z : Bool) (s t : Ty) (path : List PathElem)
    (fuel : Nat) (mode : Mode) (pp : Bool)
    (hs : inFS s = true) (ht : inFS t = true)
    (hfuel : 2 * (tySize s + tySize t) ≤ fuel) (hmode : mode.isUpdate = false)
    (hext : c.extend = []) (hms : plainMethodsS st.methods = true)
    (hu : cx.cfg.common.useUnderlying = false) (hsk : cx.cfg.common.skipCopySameType = false)
    (hz : cx.cfg.common.useZeroValue = z) (hc : st.useCtor = false)
    (h1 : cx.cfg.common.matchIgnoreCase = false) (h2 : cx.cfg.common.ignoreMissing = false)
    (h3 : cx.cfg.fields = []) (h4 : cx.cfg.autoMap = []) (h5 : cx.updateTarget = false)
    (h6 : noFieldSettings st.methods = true) :
    ((∃ plan st', conv c fuel cx mode pp s t path st = .ok (plan, st')) ↔ Convertible z s t) ∧
    (Convertible z s t ↔ convertibleB z s t = true) ∧
    (∀ plan st', conv c fuel cx mode pp s t path st = .ok (plan, st') →
        st' = st ∧ genF z (asgOf mode) s t = .ok plan ∧
        (aliasFree s = true → aliasFree t = true → arrayElemFree (asgOf mode) s = true → structsOK t = true →
          ∀ p : Eval.Program, PlanCheck.checkTy p plan s t = true)) ∧
    (¬ Convertible z s t →
        ∃ d, conv c fuel cx mode pp s t path st = .error d ∧ (d = .typeMismatch ∨ d = .typeMismatchPtr ∨ d = .noMatch)) := by
  have hsim := conv_struct_fragment c cx st z s t path fuel mode pp hs ht hfuel hmode hext (plainMethodsS_upTo _ _ hms) hu hsk hz hc
    (structPlain_of cx st h1 h2 h3 h4 h5 h6)
  rw [hsim]
  refine ⟨?_, (convertibleB_iff_struct z s t hs ht).symm, ?_, ?_⟩
  · rw [← genF_ok_iff z (asgOf mode) s t]
    constructor
    · rintro ⟨plan, st', h⟩
      cases hg : genF z (asgOf mode) s t with
      | ok q => exact ⟨q, rfl⟩
      | error d => rw [hg] at h; cases h
    · rintro ⟨q, hq⟩; exact ⟨q, st, by rw [hq]; rfl⟩
  · intro plan st' h
    cases hg : genF z (asgOf mode) s t with
    | error d => rw [hg] at h; cases h
    | ok q =>
      rw [hg] at h
      obtain ⟨rfl, rfl⟩ : q = plan ∧ st = st' := by simpa [ret] using h
      exact ⟨rfl, rfl, fun ha1 ha2 ha3 ha4 p => genF_checked_struct p z (asgOf mode) s t q hg hs ht ha1 ha2 ha3 ha4⟩
  · intro hn
    cases hg : genF z (asgOf mode) s t with
    | ok q => exact absurd ((genF_ok_iff z (asgOf mode) s t).mp ⟨q, hg⟩) hn
    | error d => exact ⟨d, rfl, genF_error_struct z (asgOf mode) s t d hg⟩

open Gv.Spec in
/-- the same at the entry of a METHOD BODY (`buildNoLookup` on the method's own signature): only non-update methods with a
strictly smaller FS-signature are excluded from the table -/
theorem C03_iff_unnamed_struct_fragment_method (c : Converter) (cx : Ctx) (st : GState) (z : Bool) (s t : Ty)
    (path : List PathElem) (fuel : Nat) (mode : Mode) (pp : Bool)
    (hs : inFS s = true) (ht : inFS t = true)
    (hfuel : 2 * (tySize s + tySize t) ≤ fuel) (hmode : mode.isUpdate = false)
    (hext : c.extend = []) (hms : plainMethodsSUpTo (tySize s + tySize t - 1) st.methods = true)
    (hu : cx.cfg.common.useUnderlying = false) (hsk : cx.cfg.common.skipCopySameType = false)
    (hz : cx.cfg.common.useZeroValue = z) (hc : st.useCtor = false)
    (h1 : cx.cfg.common.matchIgnoreCase = false) (h2 : cx.cfg.common.ignoreMissing = false)
    (h3 : cx.cfg.fields = []) (h4 : cx.cfg.autoMap = []) (h5 : cx.updateTarget = false)
    (h6 : noFieldSettings st.methods = true) :
    noLookup c fuel cx mode pp s t path st = ret (genF z (asgNL mode) s t) st ∧
    ((∃ plan, noLookup c fuel cx mode pp s t path st = .ok (plan, st)) ↔ Convertible z s t) := by
  have hsim := noLookup_struct_fragment c cx st z s t path fuel mode pp hs ht hfuel hmode hext hms hu hsk hz hc
    (structPlain_of cx st h1 h2 h3 h4 h5 h6)
  refine ⟨hsim, ?_⟩
  rw [hsim, ← genF_ok_iff z (asgNL mode) s t]
  constructor
  · rintro ⟨plan, h⟩
    cases hg : genF z (asgNL mode) s t with
    | ok q => exact ⟨q, rfl⟩
    | error d => rw [hg] at h; cases h
  · rintro ⟨q, hq⟩; exact ⟨q, by rw [hq]; rfl⟩

open Gv.Spec in
/-- **C03 for a whole converter with one declared method on FS-types** (e.g. `Convert(struct{A int; B []string}) struct{A int}`):
`generate` succeeds iff the documented rules cover the signature; the table is then the declared method with body
`return <reference plan>` (no sub-method), and – side conditions as above – the program passes `PlanCheck.checkProg`;
otherwise the run fails with a type mismatch or `noMatch` and emits nothing. -/
theorem C03_iff_unnamed_struct_fragment_generate (c : Converter) (d : Declared) (z : Bool) (fuel rounds : Nat)
    (hup : d.updateTarget = false) (hraw : d.cfg.rawFieldSettings = []) (hctor : d.cfg.constructor = none)
    (hs : inFS d.source = true) (ht : inFS d.target = true)
    (hfuel : 2 * (tySize d.source + tySize d.target) < fuel) (hrounds : 2 ≤ rounds)
    (hext : c.extend = [])
    (hu : d.cfg.common.useUnderlying = false) (hsk : d.cfg.common.skipCopySameType = false)
    (hz : d.cfg.common.useZeroValue = z)
    (h1 : d.cfg.common.matchIgnoreCase = false) (h2 : d.cfg.common.ignoreMissing = false)
    (h3 : d.cfg.fields = []) (h4 : d.cfg.autoMap = []) :
    ((∃ ms, generate c [d] fuel rounds = .ok ms) ↔ Convertible z d.source d.target) ∧
    (∀ ms, generate c [d] fuel rounds = .ok ms →
        ∃ plan, genF z false d.source d.target = .ok plan ∧
          ms = [{ declaredMethod d with dirty := false, body := some (.convert plan) }] ∧
          (aliasFree d.source = true → aliasFree d.target = true → arrayElemFree false d.source = true →
            structsOK d.target = true → PlanCheck.checkProg { conv := c, methods := ms } = true)) ∧
    (¬ Convertible z d.source d.target →
        ∃ e, generate c [d] fuel rounds = .error e ∧ (e = .typeMismatch ∨ e = .typeMismatchPtr ∨ e = .noMatch)) := by
  rw [generate_single_struct c d z fuel rounds hup hraw hctor hs ht hfuel hrounds hext hu hsk hz h1 h2 h3 h4,
    ← genF_ok_iff z false d.source d.target]
  refine ⟨?_, ?_, ?_⟩
  · constructor
    · rintro ⟨ms, h⟩
      cases hg : genF z false d.source d.target with
      | ok q => exact ⟨q, rfl⟩
      | error e => rw [hg] at h; cases h
    · rintro ⟨q, hq⟩; exact ⟨_, by rw [hq]⟩
  · intro ms h
    cases hg : genF z false d.source d.target with
    | error e => rw [hg] at h; cases h
    | ok q =>
      rw [hg] at h
      simp only [Except.ok.injEq] at h
      refine ⟨q, rfl, h.symm, fun ha1 ha2 ha3 ha4 => ?_⟩
      subst h
      simp [PlanCheck.checkProg, declaredMethod, genF_checked_struct _ z false d.source d.target q hg hs ht ha1 ha2 ha3 ha4]
  · intro hn
    cases hg : genF z false d.source d.target with
    | ok q => exact absurd ⟨q, hg⟩ hn
    | error e => exact ⟨e, rfl, genF_error_struct z false d.source d.target e hg⟩

/-! non-vacuity: `struct{A int; B []string; C bool} → struct{A int; B []string}` is generated (the extra source field is
ignored) and checked; with a target field `D` that the source lacks it fails with `noMatch`; with `B []int` it is a type mismatch -/

def fld (n : String) : FieldInfo := { name := n.toList, exported := true, embedded := false, pkg := [] }
def exStructS : Ty := .struct (.cons (fld "A") (.basic .int) (.cons (fld "B") (.slice (.basic .string)) (.cons (fld "C") (.basic .bool) .nil)))
def exStructT : Ty := .struct (.cons (fld "A") (.basic .int) (.cons (fld "B") (.slice (.basic .string)) .nil))
def exStructT1 : Ty := .struct (.cons (fld "A") (.basic .int) (.cons (fld "D") (.basic .int) .nil))
def exStructT2 : Ty := .struct (.cons (fld "A") (.basic .int) (.cons (fld "B") (.slice (.basic .int)) .nil))
def exDeclS (t : Ty) : Declared :=
  { name := "Convert".toList, source := exStructS, target := t, args := [{ name := "source".toList, use := .source, ty := exStructS }],
    contexts := [], returnError := false, updateTarget := false, cfg := { common := {} } }

open Gv.Spec in
example :
    (∃ ms, generate exConverter [exDeclS exStructT] = .ok ms ∧ PlanCheck.checkProg { conv := exConverter, methods := ms } = true) ∧
    generate exConverter [exDeclS exStructT1] = .error .noMatch ∧
    generate exConverter [exDeclS exStructT2] = .error .typeMismatch := by
  refine ⟨?_, ?_, ?_⟩
  · have h := C03_iff_unnamed_struct_fragment_generate exConverter (exDeclS exStructT) false 200 64 rfl rfl rfl (by decide) (by decide)
      (by decide) (by decide) rfl rfl rfl rfl rfl rfl rfl rfl
    obtain ⟨ms, hms⟩ := h.1.mpr
      (.struct (.cons (sty := .basic .int) (by simp [fieldTy, fld]) (.basic rfl)
        (.cons (sty := .slice (.basic .string)) (by simp [fieldTy, fld]) (.slice (.basic rfl)) .nil)))
    obtain ⟨plan, _, _, hchk⟩ := h.2.1 ms hms
    exact ⟨ms, hms, hchk (by decide) (by decide) (by decide) (by decide)⟩
  · have hg : genF false false exStructS exStructT1 = .error .noMatch := by
      simp [exStructS, exStructT1, genF_struct, genFields_cons, genF_basic, fieldTy, fld, Fields.length, Except.map]
    rw [generate_single_struct exConverter (exDeclS exStructT1) false 200 64 rfl rfl rfl (by decide) (by decide) (by decide) (by decide)
      rfl rfl rfl rfl rfl rfl rfl rfl]
    show (match genF false false exStructS exStructT1 with | .ok plan => _ | .error e => _) = _
    rw [hg]
  · have hg : genF false false exStructS exStructT2 = .error .typeMismatch := by
      simp [exStructS, exStructT2, genF_struct, genFields_cons, genF_basic, genF_slice, fieldTy, fld, Fields.length, Kind.canon,
        Except.map]
    rw [generate_single_struct exConverter (exDeclS exStructT2) false 200 64 rfl rfl rfl (by decide) (by decide) (by decide) (by decide)
      rfl rfl rfl rfl rfl rfl rfl rfl]
    show (match genF false false exStructS exStructT2 with | .ok plan => _ | .error e => _) = _
    rw [hg]

end Gv.Props.C03
