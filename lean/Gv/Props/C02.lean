/-
C02 – generated conversions preserve values and nil-ness structurally and never panic.

Model: Gv.Eval (semantics of the plans produced by Gv.Gen; tied to the emitted code by the C02 campaign,
which compiles and executes the real output on systematic values) and Gv.Spec.specMap (the structural
mapping, written from the statement).  Here: what every structural plan node does, for all values.
-/
import Gv.Model.Eval
import Gv.Spec.Structural
import Gv.Proofs.EvalLemmas
import Gv.Proofs.StructuralSound
import Gv.Proofs.PlanCheckSound
import Gv.Proofs.Safety
import Gv.Proofs.GenSound

namespace Gv.Props.C02
open Gv Gv.Str Gv.Eval

variable (p : Program) (fr : Frame)

/-! ### basic values are unchanged -/

theorem C02_ident (fuel : Nat) (src old : Val) (n : Nat) :
    evalConv p (fuel+1) fr .ident src old n = .ok (src, n) := by
  simp [evalConv, pure, StateT.pure]

theorem C02_cast_ident (fuel : Nat) (src old : Val) (n : Nat) :
    evalConv p (fuel+2) fr (.cast .ident) src old n = .ok (src, n) := by
  simp [evalConv, pure, StateT.pure]

/-! ### pointers: nil ↦ (old =) nil; non-nil ↦ a non-nil pointer to a FRESH location holding the image of the pointee -/

theorem C02_ptr_nil (fuel : Nat) (te : Ty) (inner : Conv) (old : Val) (n : Nat) :
    evalConv p (fuel+1) fr (.ptrPtr te inner) .nil old n = .ok (old, n) := by
  simp [evalConv, pure, StateT.pure]

theorem C02_ptr_nonnil (fuel : Nat) (te : Ty) (inner : Conv) (l : Loc) (x old v : Val) (n n' : Nat)
    (h : evalConv p fuel { fr with parent := some (.ptr l x) } inner x (zeroVal p.conv.env 64 te) n = .ok (v, n')) :
    evalConv p (fuel+1) fr (.ptrPtr te inner) (.ptr l x) old n = .ok (.ptr (.fresh n') v, n' + 1) := by
  simp [evalConv, bind, StateT.bind, h, freshLoc, pure, StateT.pure]

/-- a value converted to a pointer type is never nil -/
theorem C02_value_to_ptr_nonnil (fuel : Nat) (te : Ty) (inner : Conv) (src old v : Val) (n n' : Nat)
    (h : evalConv p fuel { fr with parent := none } inner src (zeroVal p.conv.env 64 te) n = .ok (v, n')) :
    evalConv p (fuel+1) fr (.tgtPtr te inner) src old n = .ok (.ptr (.fresh n') v, n' + 1) := by
  simp [evalConv, bind, StateT.bind, h, freshLoc, pure, StateT.pure]

/-- pointer to value (useZeroValueOnPointerInconsistency): nil keeps the target's zero value -/
theorem C02_srcptr_nil (fuel : Nat) (t : Ty) (inner : Conv) (old : Val) (n : Nat) :
    evalConv p (fuel+1) fr (.srcPtr t inner) .nil old n = .ok (old, n) := by
  simp [evalConv, pure, StateT.pure]

/-! ### slices: nil ↦ nil, empty ↦ empty non-nil, otherwise same length and order -/

theorem C02_slice_nil (fuel : Nat) (te : Ty) (elem : Conv) (old : Val) (n : Nat) :
    evalConv p (fuel+1) fr (.list te true true elem) .nil old n = .ok (old, n) := by
  unfold evalConv
  simp [pure, StateT.pure]

theorem C02_slice_empty (fuel : Nat) (te : Ty) (elem : Conv) (l : Loc) (old : Val) (n : Nat) :
    evalConv p (fuel+2) fr (.list te true true elem) (.slice l []) old n = .ok (.slice .none [], n) := by
  unfold evalConv
  simp [evalElems, bind, StateT.bind, pure, StateT.pure]

/-- element-wise: the i-th output is the image of the i-th input, with the index recorded for error paths -/
theorem evalElems_spec (fuel : Nat) (te : Ty) (elem : Conv) : ∀ (vs out : List Val) (i n n' : Nat),
    evalElems p fuel fr te elem vs i n = .ok (out, n') →
    out.length = vs.length ∧
    ∀ k (hk : k < vs.length), ∃ m m', ∃ hk' : k < out.length,
      evalConv p (fuel - 1 - k) { fr with idx := fr.idx ++ [i + k], parent := none } elem vs[k] (zeroVal p.conv.env 64 te) m = .ok (out[k], m') := by
  induction fuel with
  | zero => intro vs out i n n' h; simp [evalElems, stuckE] at h
  | succ fuel ih =>
    intro vs out i n n' h
    cases vs with
    | nil =>
      simp [evalElems, pure, StateT.pure] at h
      obtain ⟨rfl, _⟩ := h
      exact ⟨rfl, fun k hk => absurd hk (by simp)⟩
    | cons v vs =>
      unfold evalElems at h
      obtain ⟨x, n1, h1, h⟩ := (E_bind_ok _ _ _ _).mp h
      obtain ⟨rest, n2, h2, h⟩ := (E_bind_ok _ _ _ _).mp h
      have := (E_pure_ok _ _ _).mp h
      cases this
      obtain ⟨hl, hk⟩ := ih vs rest (i + 1) n1 _ h2
      refine ⟨by simp [hl], ?_⟩
      intro k hk'
      cases k with
      | zero => exact ⟨n, n1, by simp, by simpa using h1⟩
      | succ k =>
        obtain ⟨m, m', hk2, he⟩ := hk k (by simpa using hk')
        refine ⟨m, m', by simpa using hk2, ?_⟩
        have e1 : fuel + 1 - 1 - (k + 1) = fuel - 1 - k := by omega
        have hi : i + (k + 1) = i + 1 + k := by omega
        simp only [e1, hi, List.getElem_cons_succ]
        exact he

/-- **length and order are preserved** by every slice conversion that completes -/
theorem C02_slice_length (fuel : Nat) (te : Ty) (elem : Conv) (l : Loc) (v : Val) (vs : List Val) (old res : Val) (n n' : Nat)
    (h : evalConv p (fuel+1) fr (.list te true true elem) (.slice l (v :: vs)) old n = .ok (res, n')) :
    ∃ l' out, res = .slice l' out ∧ out.length = (v :: vs).length := by
  unfold evalConv at h
  simp only [List.isEmpty_cons, Bool.false_eq_true, if_false] at h
  obtain ⟨out, n1, h1, h⟩ := (E_bind_ok _ _ _ _).mp h
  obtain ⟨l', n2, h2, h⟩ := (E_bind_ok _ _ _ _).mp h
  have := (E_pure_ok _ _ _).mp h
  cases this
  exact ⟨l', out, rfl, (evalElems_spec p fr fuel te elem (v :: vs) out 0 n n1 h1).1⟩

/-- arrays become slices of the same length (Build position: `make(len)`) -/
theorem C02_array_length (fuel : Nat) (te : Ty) (elem : Conv) (v : Val) (vs : List Val) (old res : Val) (n n' : Nat)
    (h : evalConv p (fuel+1) fr (.list te true false elem) (.arr (v :: vs)) old n = .ok (res, n')) :
    ∃ l' out, res = .slice l' out ∧ out.length = (v :: vs).length := by
  unfold evalConv at h
  simp only [List.isEmpty_cons, Bool.false_eq_true, if_false] at h
  obtain ⟨out, n1, h1, h⟩ := (E_bind_ok _ _ _ _).mp h
  obtain ⟨l', n2, h2, h⟩ := (E_bind_ok _ _ _ _).mp h
  have := (E_pure_ok _ _ _).mp h
  cases this
  exact ⟨l', out, rfl, (evalElems_spec p fr fuel te elem (v :: vs) out 0 n n1 h1).1⟩

/-! ### maps: nil ↦ nil, otherwise one image entry per entry -/

theorem C02_map_nil (fuel : Nat) (tk tv : Ty) (key val : Conv) (old : Val) (n : Nat) :
    evalConv p (fuel+1) fr (.mapc tk tv key val) .nil old n = .ok (old, n) := by
  simp [evalConv, pure, StateT.pure]

theorem evalEntries_length (fuel : Nat) (tk tv : Ty) (key val : Conv) : ∀ (kvs out : List (Val × Val)) (n n' : Nat),
    evalEntries p fuel fr tk tv key val kvs n = .ok (out, n') → out.length = kvs.length := by
  induction fuel with
  | zero => intro kvs out n n' h; simp [evalEntries, stuckE] at h
  | succ fuel ih =>
    intro kvs out n n' h
    cases kvs with
    | nil => simp [evalEntries, pure, StateT.pure] at h; simp [h.1]
    | cons kv kvs =>
      obtain ⟨k, v⟩ := kv
      unfold evalEntries at h
      obtain ⟨k', n1, _, h⟩ := (E_bind_ok _ _ _ _).mp h
      obtain ⟨v', n2, _, h⟩ := (E_bind_ok _ _ _ _).mp h
      obtain ⟨more, n3, h3, h⟩ := (E_bind_ok _ _ _ _).mp h
      have := (E_pure_ok _ _ _).mp h
      cases this
      simp [ih kvs more n2 _ h3]

theorem C02_map_count (fuel : Nat) (tk tv : Ty) (key val : Conv) (l : Loc) (kvs : List (Val × Val)) (old res : Val) (n n' : Nat)
    (h : evalConv p (fuel+1) fr (.mapc tk tv key val) (.map l kvs) old n = .ok (res, n')) :
    ∃ l' out, res = .map l' out ∧ out.length = kvs.length := by
  unfold evalConv at h
  obtain ⟨out, n1, h1, h⟩ := (E_bind_ok _ _ _ _).mp h
  obtain ⟨l', n2, _, h⟩ := (E_bind_ok _ _ _ _).mp h
  have := (E_pure_ok _ _ _).mp h
  cases this
  exact ⟨l', out, rfl, evalEntries_length p fr fuel tk tv key val kvs out n n1 h1⟩

/-! ### the known finding: an array source in an assignment position (no `make`) -/

def d9Program : Program := { conv := { env := [], common := {}, outputPkg := [], customs := [], extend := [], orc := {} }, methods := [] }

/-- the full statement ("never panics") is FALSE of the model, as of the code (scenario struct_slice_array):
assigning a non-empty array element-wise into a nil slice panics -/
theorem C02_D9_witness :
    evalConv d9Program 5 default (.list (.basic .int) false false .ident) (.arr [.basic "1".toList]) .nil 0 = .panic .indexOutOfRange := by
  unfold evalConv
  simp [evalElemsOld, evalConv, bind, StateT.bind, pure, StateT.pure, panicE, Val.isAbsent]

/-! ### The composite theorem: a checked structural program maps every value to its structural image

`PlanCheck.checkProg` is a decidable test on the plans `Gv.Gen.generate` produced (the driver evaluates it for every
converter of the C02 campaign and the evidence counts how many pass); `Spec.Img` is the structural mapping as a relation,
written from the statement.  For every program that passes, every method, every well-typed source value of any size and
depth and any fuel: whatever the plan semantics returns is the structural image of the source. -/

open Gv.Typing Gv.Spec Gv.Sound in
theorem C02_composite (p : Program) (hchk : PlanCheck.checkProg p = true)
    (fuel m : Nat) (s t : Ty) (v : Val) (n : Nat) (v' : Val) (n' : Nat)
    (hsig : sigOf p m = some (s, t)) (hwt : WT p.conv.env v s)
    (hev : callMethod p fuel m v [] n = .ok (v', n')) :
    Img p.conv.env s t v (erase v') :=
  callMethod_structural p (checkProg_sound p hchk) fuel m s t v n v' n' hsig hwt hev

/-! what the relation says at each shape (corollaries by inversion) -/

open Gv.Spec in
theorem C02_img_basic {env : TEnv} {s t : Ty} {r : S} {w : Val} {k : Kind} (ht : under env t = .basic k)
    (h : Img env s t (.basic r) w) : w = .basic r := by
  cases h with
  | basic _ _ => rfl
  | toPtr _ h2 _ => rw [ht] at h2; cases h2

open Gv.Spec in
theorem C02_img_nil_ptr {env : TEnv} {s t se te : Ty} {w : Val} (hs : under env s = .ptr se) (ht : under env t = .ptr te)
    (h : Img env s t .nil w) : w = .nil := by
  cases h with
  | ptrNil _ _ => rfl
  | toPtr h1 _ _ => exact absurd hs (h1 se)
  | srcNil _ h2 _ => exact absurd ht (h2 te)
  | sliceNil _ _ => rfl
  | mapNil _ _ => rfl

open Gv.Spec in
theorem C02_img_slice_length {env : TEnv} {s t se te : Ty} {l : Loc} {vs : List Val} {w : Val}
    (hs : under env s = .slice se) (ht : under env t = .slice te) (h : Img env s t (.slice l vs) w) :
    ∃ ws, w = .slice .none ws ∧ ws.length = vs.length := by
  cases h with
  | toPtr _ h2 _ => rw [ht] at h2; cases h2
  | slice _ _ hl => exact ⟨_, rfl, (ImgList.length_eq hl).symm⟩

open Gv.Spec in
theorem C02_img_map_count {env : TEnv} {s t sk sv tk tv : Ty} {l : Loc} {kvs : List (Val × Val)} {w : Val}
    (hs : under env s = .map sk sv) (ht : under env t = .map tk tv) (h : Img env s t (.map l kvs) w) :
    ∃ ws, w = .map .none ws ∧ ws.length = kvs.length := by
  cases h with
  | toPtr _ h2 _ => rw [ht] at h2; cases h2
  | map _ _ hl => exact ⟨_, rfl, (ImgEntries.length_eq hl).symm⟩

open Gv.Spec in
theorem C02_img_value_to_ptr_nonnil {env : TEnv} {s t te : Ty} {v w : Val} (hs : ∀ e, under env s ≠ .ptr e)
    (ht : under env t = .ptr te) (h : Img env s t v w) : ∃ y, w = .ptr .none y ∧ Img env s te v y := by
  cases h with
  | basic _ h2 => rw [ht] at h2; cases h2
  | ptrNil h1 _ => exact absurd h1 (hs _)
  | ptrPtr h1 _ _ => exact absurd h1 (hs _)
  | toPtr _ h2 hi => rw [ht] at h2; cases h2; exact ⟨_, rfl, hi⟩
  | srcNil h1 _ _ => exact absurd h1 (hs _)
  | srcPtr h1 _ _ => exact absurd h1 (hs _)
  | sliceNil _ h2 => rw [ht] at h2; cases h2
  | slice _ h2 _ => rw [ht] at h2; cases h2
  | array _ h2 _ => rw [ht] at h2; cases h2
  | mapNil _ h2 => rw [ht] at h2; cases h2
  | map _ h2 _ => rw [ht] at h2; cases h2
  | struct _ h2 _ => rw [ht] at h2; cases h2

/-! non-vacuity: a concrete program passes the check, and a concrete well-typed value is converted -/

def exFields : Fields :=
  .cons { name := "A".toList, exported := true, embedded := false, pkg := [] } (.basic .int)
    (.cons { name := "P".toList, exported := true, embedded := false, pkg := [] } (.ptr (.basic .string))
      (.cons { name := "L".toList, exported := true, embedded := false, pkg := [] } (.slice (.basic .int)) .nil))

def exPlan : Conv :=
  .structc (.cons (.mapped "A".toList ["A".toList] [false] false false .ident .none)
    (.cons (.mapped "P".toList ["P".toList] [false] false true (.ptrPtr (.basic .string) .ident) .none)
      (.cons (.mapped "L".toList ["L".toList] [false] false false (.list (.basic .int) true true .ident) .none) .nil))) false

def exMethod : GenMethod :=
  { name := "Convert".toList, source := .struct exFields, target := .struct exFields, args := [], contexts := [],
    returnError := false, updateTarget := false, explicit := true, dirty := false, originPath := [], originName := [],
    cfg := { common := {} }, body := some (.convert exPlan) }

def exProgram : Program :=
  { conv := { env := [], common := {}, outputPkg := [], customs := [], extend := [], orc := {} }, methods := [exMethod] }

example : PlanCheck.checkProg exProgram = true := by decide

def exValue : Val :=
  .struct [("A".toList, .basic "5".toList), ("P".toList, .ptr (.src 1) (.basic "x".toList)),
           ("L".toList, .slice (.src 2) [.basic "1".toList, .basic "2".toList])]

def exResult : Val :=
  .struct [("A".toList, .basic "5".toList), ("P".toList, .ptr (.fresh 0) (.basic "x".toList)),
           ("L".toList, .slice (.fresh 1) [.basic "1".toList, .basic "2".toList])]

/-- the conversion of `exValue` succeeds (so the hypothesis `… = .ok _` of the composite theorem is met) -/
example : callMethod exProgram 10 0 exValue [] 0 = .ok (exResult, 2) := by
  unfold callMethod
  simp [exProgram, exMethod, exPlan, exValue, exResult, exFields, evalConv, evalFields, evalElems, walk, fieldOf, setField, normStruct,
    zeroVal, zeroVal.zeroFields, under, Fields.toList, Val.isAbsent, bind, StateT.bind, pure, StateT.pure, freshLoc, List.lookup]

open Gv.Typing in
/-- `exValue` is a well-typed value of the source type (the other hypothesis of the composite theorem) -/
example : WT [] exValue (.struct exFields) := by
  refine .struct (tfs := exFields) rfl ?_
  intro name x f ty hl hf
  by_cases hA : name = "A".toList
  · subst hA
    simp [exValue, List.lookup] at hl
    simp [exFields, Fields.toList, List.find?] at hf
    obtain ⟨_, rfl⟩ := hf; subst hl
    exact .basic (k := .int) rfl
  · by_cases hP : name = "P".toList
    · subst hP
      simp [exValue, List.lookup] at hl
      simp [exFields, Fields.toList, List.find?] at hf
      obtain ⟨_, rfl⟩ := hf; subst hl
      exact .ptr (e := .basic .string) rfl (.basic (k := .string) rfl)
    · by_cases hL : name = "L".toList
      · subst hL
        simp [exValue, List.lookup] at hl
        simp [exFields, Fields.toList, List.find?] at hf
        obtain ⟨_, rfl⟩ := hf; subst hl
        refine .slice (e := .basic .int) rfl ?_
        intro v hv
        simp at hv
        rcases hv with rfl | rfl <;> exact .basic (k := .int) rfl
      · exfalso
        have h1 : (name == ['A']) = false := by simpa using hA
        have h2 : (name == ['P']) = false := by simpa using hP
        have h3 : (name == ['L']) = false := by simpa using hL
        simp [exValue, List.lookup] at hl
        simp [h1, h2, h3] at hl

/-! ### The call terminates without panicking (`Gv/Proofs/Safety.lean`)

`WTC` is complete well-typedness: `Typing.WT` plus "every declared field of a struct value is present", at every depth
(`WT` alone does not exclude a struct value that lacks a field, on which the field read is stuck: `C02_WT_not_enough`). -/

open Gv.Typing Gv.Safety Gv.Sound in
/-- **C02_no_panic**: for a checked program, every method, every completely well-typed source value – nil at any depth
included –, every fuel, every context values and counter: the call returns a value or runs out of fuel.  It never panics,
never returns an error, and is never stuck for another reason (missing field, pointer expected, bad index, …). -/
theorem C02_no_panic (p : Program) (hchk : PlanCheck.checkProg p = true)
    (fuel m : Nat) (s t : Ty) (v : Val) (cs : List Val) (n : Nat)
    (hsig : sigOf p m = some (s, t)) (hwt : WTC p.conv.env v s) :
    (∃ w n', callMethod p fuel m v cs n = .ok (w, n')) ∨ callMethod p fuel m v cs n = .stuck "fuel" := by
  rcases (safe_all p (checkProg_sound p hchk) fuel).2.1 m s t v cs n hsig hwt with ⟨⟨w, n'⟩, h⟩ | h
  · exact .inl ⟨w, n', h⟩
  · exact .inr h

open Gv.Typing Gv.Safety Gv.Sound in
/-- the same for every checked node, in any frame and over any previous target value -/
theorem C02_no_panic_node (p : Program) (hchk : PlanCheck.checkProg p = true)
    (fuel : Nat) (fr : Frame) (c : Conv) (s t : Ty) (v old : Val) (n : Nat)
    (hc : PlanCheck.checkTy p c s t = true) (hwt : WTC p.conv.env v s) :
    (∃ w n', evalConv p fuel fr c v old n = .ok (w, n')) ∨ evalConv p fuel fr c v old n = .stuck "fuel" := by
  rcases (safe_all p (checkProg_sound p hchk) fuel).1 fr c s t v old n (checkTy_sound p c s t hc) hwt with ⟨⟨w, n'⟩, h⟩ | h
  · exact .inl ⟨w, n', h⟩
  · exact .inr h

open Gv.Typing Gv.Safety in
/-- spelled out: no panic, no error, no other stuck -/
theorem C02_never_panics (p : Program) (hchk : PlanCheck.checkProg p = true)
    (fuel m : Nat) (s t : Ty) (v : Val) (cs : List Val) (n : Nat)
    (hsig : sigOf p m = some (s, t)) (hwt : WTC p.conv.env v s) :
    (∀ k, callMethod p fuel m v cs n ≠ .panic k) ∧ (∀ e, callMethod p fuel m v cs n ≠ .err e) ∧
    (∀ why, callMethod p fuel m v cs n = .stuck why → why = "fuel") := by
  rcases C02_no_panic p hchk fuel m s t v cs n hsig hwt with ⟨w, n', h⟩ | h
  · rw [h]; exact ⟨fun _ h => (by cases h), fun _ h => (by cases h), fun _ h => (by cases h)⟩
  · rw [h]; exact ⟨fun _ h => (by cases h), fun _ h => (by cases h), fun _ h => (by cases h; rfl)⟩

open Gv.Typing Gv.Safety Gv.Sound in
/-- **C02_fuel_monotone**: once the call of a checked program has returned a value, more fuel returns the same value (and
the same counter) -/
theorem C02_fuel_monotone (p : Program) (hchk : PlanCheck.checkProg p = true)
    (fuel fuel' m : Nat) (s t : Ty) (v : Val) (cs : List Val) (n : Nat) (w : Val) (n' : Nat)
    (hsig : sigOf p m = some (s, t)) (hwt : WTC p.conv.env v s)
    (hev : callMethod p fuel m v cs n = .ok (w, n')) (hle : fuel ≤ fuel') :
    callMethod p fuel' m v cs n = .ok (w, n') :=
  callMethod_mono p (checkProg_sound p hchk) m s t v cs n (w, n') hsig hwt fuel hev fuel' hle

open Gv.Typing Gv.Safety Gv.Sound in
theorem C02_fuel_monotone_node (p : Program) (hchk : PlanCheck.checkProg p = true)
    (fuel fuel' : Nat) (fr : Frame) (c : Conv) (s t : Ty) (v old : Val) (n : Nat) (w : Val) (n' : Nat)
    (hc : PlanCheck.checkTy p c s t = true) (hwt : WTC p.conv.env v s)
    (hev : evalConv p fuel fr c v old n = .ok (w, n')) (hle : fuel ≤ fuel') :
    evalConv p fuel' fr c v old n = .ok (w, n') :=
  evalConv_mono p (checkProg_sound p hchk) fr c s t v old n (w, n') (checkTy_sound p c s t hc) hwt fuel hev fuel' hle

open Gv.Typing Gv.Safety Gv.Sound in
/-- **C02_total**: if the call structure descends (`callsDescend p rank`: in the body of method `m`, every call of a method
on the SAME value – not below a pointer dereference, a list/map element or a struct field – goes to a method of smaller
`rank`), every completely well-typed value has a fuel bound from which the call returns a value -/
theorem C02_total (p : Program) (hchk : PlanCheck.checkProg p = true) (rank : Nat → Nat) (hdesc : callsDescend p rank = true)
    (m : Nat) (s t : Ty) (v : Val) (hsig : sigOf p m = some (s, t)) (hwt : WTC p.conv.env v s) :
    ∃ N, ∀ fuel, N ≤ fuel → ∀ (cs : List Val) (n : Nat), ∃ w n', callMethod p fuel m v cs n = .ok (w, n') := by
  obtain ⟨N, hN⟩ := term_call p (checkProg_sound p hchk) rank hdesc m s t v hsig hwt
  refine ⟨N, ?_⟩
  intro fuel hf cs n
  obtain ⟨⟨w, n'⟩, h⟩ := hN fuel hf cs n
  exact ⟨w, n', h⟩

open Gv.Typing Gv.Safety Gv.Sound in
theorem C02_total_node (p : Program) (hchk : PlanCheck.checkProg p = true) (rank : Nat → Nat) (hdesc : callsDescend p rank = true)
    (c : Conv) (s t : Ty) (v : Val) (hc : PlanCheck.checkTy p c s t = true) (hwt : WTC p.conv.env v s) :
    ∃ N, ∀ fuel, N ≤ fuel → ∀ (fr : Frame) (old : Val) (n : Nat), ∃ w n', evalConv p fuel fr c v old n = .ok (w, n') := by
  obtain ⟨N, hN⟩ := term_any p (checkProg_sound p hchk) rank hdesc v c s t (checkTy_sound p c s t hc) hwt
  refine ⟨N, ?_⟩
  intro fuel hf fr old n
  obtain ⟨⟨w, n'⟩, h⟩ := hN fuel hf fr old n
  exact ⟨w, n', h⟩

open Gv.Typing Gv.Safety Gv.Spec in
/-- both halves of C02 together: from some fuel on, the call returns a value, and that value is the structural image -/
theorem C02_terminates_with_image (p : Program) (hchk : PlanCheck.checkProg p = true) (rank : Nat → Nat)
    (hdesc : callsDescend p rank = true) (m : Nat) (s t : Ty) (v : Val) (hsig : sigOf p m = some (s, t)) (hwt : WTC p.conv.env v s) :
    ∃ N, ∀ fuel, N ≤ fuel → ∀ n, ∃ w n', callMethod p fuel m v [] n = .ok (w, n') ∧ Img p.conv.env s t v (erase w) := by
  obtain ⟨N, hN⟩ := C02_total p hchk rank hdesc m s t v hsig hwt
  refine ⟨N, ?_⟩
  intro fuel hf n
  obtain ⟨w, n', h⟩ := hN fuel hf [] n
  exact ⟨w, n', h, C02_composite p hchk fuel m s t v n w n' hsig hwt.toWT h⟩

/-! non-vacuity: the recursive list type `type L struct { V int; Next *L }`, converted by two mutually recursive methods
(`L → L`: struct with the field `Next` delegated to `*L → *L`, which dereferences and calls `L → L`), as Gen emits them -/
namespace ExL
open Gv.Typing Gv.Safety
set_option linter.unusedSimpArgs false

def fV : FieldInfo := { name := "V".toList, exported := true, embedded := false, pkg := [] }
def fNext : FieldInfo := { name := "Next".toList, exported := true, embedded := false, pkg := [] }
def tyL : Ty := .named "p.L".toList
def lFields : Fields := .cons fV (.basic .int) (.cons fNext (.ptr tyL) .nil)
def declL : NamedDecl :=
  { id := "p.L".toList, pkgPath := "p".toList, pkgName := "p".toList, name := "L".toList, exported := true,
    underlying := .struct lFields, methods := [], consts := [] }
def w0 : Wrap := { mode := .none, path := [] }
def planL : Conv :=
  .structc (.cons (.mapped "V".toList ["V".toList] [false] false false .ident .none)
    (.cons (.mapped "Next".toList ["Next".toList] [false] false true (.call (.method 1) [.source] false w0) .none) .nil)) false
def planP : Conv := .ptrPtr tyL (.call (.method 0) [.source] false w0)
def mk (name : String) (s t : Ty) (c : Conv) : GenMethod :=
  { name := name.toList, source := s, target := t, args := [], contexts := [], returnError := false, updateTarget := false,
    explicit := false, dirty := false, originPath := [], originName := [], cfg := { common := {} }, body := some (.convert c) }
def prog : Program :=
  { conv := { env := [declL], common := {}, outputPkg := [], customs := [], extend := [], orc := {} },
    methods := [mk "Convert" tyL tyL planL, mk "pLToPL" (.ptr tyL) (.ptr tyL) planP] }

example : PlanCheck.checkProg prog = true := by decide
/-- every call sits below a struct field or a pointer dereference: any ranking does -/
example : callsDescend prog (fun _ => 0) = true := by decide

def node (r : String) (next : Val) : Val := .struct [("V".toList, .basic r.toList), ("Next".toList, next)]
/-- 1 → 2 → 3 → nil -/
def l3 : Val := node "1" (.ptr (.src 1) (node "2" (.ptr (.src 2) (node "3" .nil))))

theorem wtc_node (r : String) (next : Val) (h : WTC prog.conv.env next (.ptr tyL)) : WTC prog.conv.env (node r next) tyL := by
  refine .struct (tfs := lFields) rfl ?_ ?_
  · intro f ty hm
    simp only [lFields, Fields.toList, List.mem_cons, Prod.mk.injEq, List.not_mem_nil, or_false] at hm
    rcases hm with ⟨rfl, _⟩ | ⟨rfl, _⟩ <;> rfl
  · intro name x f ty hl hf
    by_cases hV : name = "V".toList
    · subst hV
      simp [node, List.lookup] at hl
      simp [lFields, Fields.toList, List.find?, fV] at hf
      obtain ⟨_, rfl⟩ := hf; subst hl
      exact .basic (k := .int) rfl
    · by_cases hN : name = "Next".toList
      · subst hN
        simp [node, List.lookup] at hl
        simp [lFields, Fields.toList, List.find?, fV, fNext] at hf
        obtain ⟨_, rfl⟩ := hf; subst hl
        exact h
      · exfalso
        have h1 : (name == ['V']) = false := by simpa using hV
        have h2 : (name == ['N', 'e', 'x', 't']) = false := by simpa using hN
        simp [node, List.lookup] at hl
        simp [h1, h2] at hl

theorem wtc_l3 : WTC prog.conv.env l3 tyL :=
  wtc_node "1" _ (.ptr (e := tyL) rfl (wtc_node "2" _ (.ptr (e := tyL) rfl (wtc_node "3" _ (.nilPtr (e := tyL) rfl)))))

def isOk {α} : Outcome α → Bool
  | .ok _ => true
  | _ => false

/-- the three-element list (nil at depth 3) converts with fuel 40, and is out of fuel with 5 -/
example : isOk (callMethod prog 40 0 l3 [] 0) = true := by
  simp [callMethod, prog, mk, planL, planP, l3, node, tyL, declL, lFields, fV, fNext, w0, evalConv, evalFields, walk, fieldOf, setField,
    normStruct, zeroVal, zeroVal.zeroFields, under, TEnv.find, Fields.toList, Val.isAbsent, bind, StateT.bind, pure, StateT.pure, freshLoc,
    List.lookup, List.filterMapM, List.filterMapM.loop, argOf, isOk, zeroBasic, stuckE]
example : callMethod prog 5 0 l3 [] 0 = .stuck "fuel" := by
  simp [callMethod, prog, mk, planL, planP, l3, node, tyL, declL, lFields, fV, fNext, w0, evalConv, evalFields, walk, fieldOf, setField,
    normStruct, zeroVal, zeroVal.zeroFields, under, TEnv.find, Fields.toList, Val.isAbsent, bind, StateT.bind, pure, StateT.pure, freshLoc,
    List.lookup, List.filterMapM, List.filterMapM.loop, argOf, isOk, zeroBasic, stuckE]
/-- nil at the top of the pointer method -/
example : callMethod prog 3 1 .nil [] 0 = .ok (.nil, 0) := by
  simp [callMethod, prog, mk, planL, planP, l3, node, tyL, declL, lFields, fV, fNext, w0, evalConv, evalFields, walk, fieldOf, setField,
    normStruct, zeroVal, zeroVal.zeroFields, under, TEnv.find, Fields.toList, Val.isAbsent, bind, StateT.bind, pure, StateT.pure, freshLoc,
    List.lookup, List.filterMapM, List.filterMapM.loop, argOf, isOk, zeroBasic, stuckE]

/-- the theorems apply to it -/
example (fuel : Nat) :
    (∃ w n', callMethod prog fuel 0 l3 [] 0 = .ok (w, n')) ∨ callMethod prog fuel 0 l3 [] 0 = .stuck "fuel" :=
  C02_no_panic prog (by decide) fuel 0 tyL tyL l3 [] 0 rfl wtc_l3
example : ∃ N, ∀ fuel, N ≤ fuel → ∀ (cs : List Val) (n : Nat), ∃ w n', callMethod prog fuel 0 l3 cs n = .ok (w, n') :=
  C02_total prog (by decide) (fun _ => 0) (by decide) 0 tyL tyL l3 rfl wtc_l3

/-- `Typing.WT` is not enough for safety: a struct value without its `Next` field is `WT`, and reading the field is stuck -/
theorem C02_WT_not_enough :
    PlanCheck.checkProg prog = true ∧ WT prog.conv.env (.struct [("V".toList, .basic "1".toList)]) tyL ∧
    callMethod prog 40 0 (.struct [("V".toList, .basic "1".toList)]) [] 0 = .stuck "walk: no such field" := by
  refine ⟨by decide, ?_, by
    simp [callMethod, prog, mk, planL, planP, l3, node, tyL, declL, lFields, fV, fNext, w0, evalConv, evalFields, walk, fieldOf, setField,
    normStruct, zeroVal, zeroVal.zeroFields, under, TEnv.find, Fields.toList, Val.isAbsent, bind, StateT.bind, pure, StateT.pure, freshLoc,
    List.lookup, List.filterMapM, List.filterMapM.loop, argOf, isOk, zeroBasic, stuckE]⟩
  refine .struct (tfs := lFields) rfl ?_
  intro name x f ty hl hf
  by_cases hV : name = "V".toList
  · subst hV
    simp [List.lookup] at hl
    simp [lFields, Fields.toList, List.find?, fV] at hf
    obtain ⟨_, rfl⟩ := hf; subst hl
    exact .basic (k := .int) rfl
  · exfalso
    have h1 : (name == ['V']) = false := by simpa using hV
    simp [List.lookup, h1] at hl
end ExL
/-! the ranking at work, and why the descent hypothesis is there -/
namespace ExRank
open Gv.Typing Gv.Safety ExL

/-- a third method `L → *L` whose body calls `L → L` on the SAME value (no dereference in between) -/
def prog3 : Program :=
  { prog with methods := prog.methods ++ [mk "LToPL" tyL (.ptr tyL) (.tgtPtr tyL (.call (.method 0) [.source] false w0))] }

example : PlanCheck.checkProg prog3 = true := by decide
example : callsDescend prog3 (fun m => if m == 2 then 1 else 0) = true := by decide
example : callsDescend prog3 (fun _ => 0) = false := by decide

/-- a method that calls itself on the same value passes the plan check, has no ranking, and indeed never returns -/
def loopProg : Program :=
  { conv := { env := [], common := {}, outputPkg := [], customs := [], extend := [], orc := {} },
    methods := [mk "Loop" (.basic .int) (.basic .int) (.call (.method 0) [.source] false w0)] }

theorem C02_total_needs_descent :
    PlanCheck.checkProg loopProg = true ∧ (∀ rank, callsDescend loopProg rank = false) ∧
    WTC loopProg.conv.env (.basic "1".toList) (.basic .int) ∧
    ∀ fuel n, callMethod loopProg fuel 0 (.basic "1".toList) [] n = .stuck "fuel" := by
  refine ⟨by decide, ?_, .basic (k := .int) rfl, ?_⟩
  · intro rank
    simp [callsDescend, loopProg, mk, descB]
  · have hm : loopProg.methods[0]? = some (mk "Loop" (.basic .int) (.basic .int) (.call (.method 0) [.source] false w0)) := rfl
    have step : ∀ fuel n, callMethod loopProg fuel 0 (.basic "1".toList) [] n = .stuck "fuel" →
        callMethod loopProg (fuel + 2) 0 (.basic "1".toList) [] n = .stuck "fuel" := by
      intro fuel n h
      rw [callMethod_convert loopProg (fuel + 1) 0 _ _ _ [] n hm rfl, evalConv_call, h]
    have base1 : ∀ n, callMethod loopProg 1 0 (.basic "1".toList) [] n = .stuck "fuel" := by
      intro n
      rw [callMethod_convert loopProg 0 0 _ _ _ [] n hm rfl, evalConv_zero]
    have both : ∀ fuel, (∀ n, callMethod loopProg fuel 0 (.basic "1".toList) [] n = .stuck "fuel") ∧
        (∀ n, callMethod loopProg (fuel + 1) 0 (.basic "1".toList) [] n = .stuck "fuel") := by
      intro fuel
      induction fuel with
      | zero => exact ⟨fun n => callMethod_zero loopProg 0 _ [] n, base1⟩
      | succ k ih => exact ⟨ih.2, fun n => step k n (ih.1 n)⟩
    intro fuel n
    exact (both fuel).1 n
end ExRank

/-! ### end to end on the unnamed (struct) fragment: from `generate` to the values, without the run-time plan check

For a converter with one declared method whose signature lies in the fragment FS of `C03_iff_unnamed_struct_fragment` (unnamed
types, structs with exported fields, no settings; kinds alias-free, no array directly inside a list or field, target structs
non-empty with distinct names), `checkProg` of the GENERATED table is a theorem (`Gv.Gen.generate_sound_struct_fragment`), so
both halves of C02 hold for whatever `generate` returns, for all values. -/

open Gv.Typing Gv.Safety Gv.Spec Gv.Gen in
/-- **C02 end to end on FS.**  If `generate` succeeds, then for the generated method, every well-typed source value and every fuel:
 1. whatever the call returns is the structural image of the source (`Img`);
 2. the call never panics, never returns an error, and is stuck only for lack of fuel;
 3. for a completely well-typed value there is a fuel bound from which it returns a value, which is the image. -/
theorem C02_end_to_end_unnamed_struct_fragment (c : Converter) (d : Declared) (z : Bool) (fuel rounds : Nat)
    (hup : d.updateTarget = false) (hraw : d.cfg.rawFieldSettings = []) (hctor : d.cfg.constructor = none)
    (hs : inFS d.source = true) (ht : inFS d.target = true)
    (hfuel : 2 * (tySize d.source + tySize d.target) < fuel) (hrounds : 2 ≤ rounds)
    (hext : c.extend = [])
    (hu : d.cfg.common.useUnderlying = false) (hsk : d.cfg.common.skipCopySameType = false)
    (hz : d.cfg.common.useZeroValue = z)
    (h1 : d.cfg.common.matchIgnoreCase = false) (h2 : d.cfg.common.ignoreMissing = false)
    (h3 : d.cfg.fields = []) (h4 : d.cfg.autoMap = [])
    (ha1 : aliasFree d.source = true) (ha2 : aliasFree d.target = true) (ha3 : arrayElemFree false d.source = true)
    (ha4 : structsOK d.target = true)
    (ms : List GenMethod) (hgen : generate c [d] fuel rounds = .ok ms) :
    (∀ (efuel : Nat) (v : Val) (n : Nat) (v' : Val) (n' : Nat), WT c.env v d.source →
      callMethod { conv := c, methods := ms } efuel 0 v [] n = .ok (v', n') → Img c.env d.source d.target v (erase v')) ∧
    (∀ (efuel : Nat) (v : Val) (cs : List Val) (n : Nat), WTC c.env v d.source →
      (∀ k, callMethod { conv := c, methods := ms } efuel 0 v cs n ≠ .panic k) ∧
      (∀ e, callMethod { conv := c, methods := ms } efuel 0 v cs n ≠ .err e) ∧
      (∀ why, callMethod { conv := c, methods := ms } efuel 0 v cs n = .stuck why → why = "fuel")) ∧
    (∀ (v : Val), WTC c.env v d.source →
      ∃ N, ∀ efuel, N ≤ efuel → ∀ n, ∃ w n', callMethod { conv := c, methods := ms } efuel 0 v [] n = .ok (w, n') ∧
        Img c.env d.source d.target v (erase w)) := by
  obtain ⟨hchk, hsig, hdesc⟩ := generate_sound_struct_fragment c d z fuel rounds hup hraw hctor hs ht hfuel hrounds hext hu hsk hz
    h1 h2 h3 h4 ha1 ha2 ha3 ha4 ms hgen
  refine ⟨?_, ?_, ?_⟩
  · intro efuel v n v' n' hwt hev
    exact C02_composite { conv := c, methods := ms } hchk efuel 0 d.source d.target v n v' n' hsig hwt hev
  · intro efuel v cs n hwt
    exact C02_never_panics { conv := c, methods := ms } hchk efuel 0 d.source d.target v cs n hsig hwt
  · intro v hwt
    exact C02_terminates_with_image { conv := c, methods := ms } hchk (fun _ => 0) (hdesc _) 0 d.source d.target v hsig hwt

/-! non-vacuity: `Convert(struct{A int; B []*string}) struct{A int; B []*string}` meets every hypothesis and is generated -/

namespace ExE2E
open Gv.Gen Gv.Spec

def fld (n : String) : FieldInfo := { name := n.toList, exported := true, embedded := false, pkg := [] }
def eTy : Ty := .struct (.cons (fld "A") (.basic .int) (.cons (fld "B") (.slice (.ptr (.basic .string))) .nil))
def eConv : Converter := { env := [], common := {}, outputPkg := [], customs := [], extend := [], orc := {} }
def eDecl : Declared :=
  { name := "Convert".toList, source := eTy, target := eTy, args := [{ name := "source".toList, use := .source, ty := eTy }],
    contexts := [], returnError := false, updateTarget := false, cfg := { common := {} } }

example : inFS eDecl.source = true ∧ aliasFree eDecl.source = true ∧ arrayElemFree false eDecl.source = true ∧
    structsOK eDecl.target = true ∧ 2 * (tySize eDecl.source + tySize eDecl.target) < 200 ∧
    ∃ ms, generate eConv [eDecl] = .ok ms := by
  refine ⟨by decide, by decide, by decide, by decide, by decide, ?_⟩
  rw [generate_single_struct eConv eDecl false 200 64 rfl rfl rfl (by decide) (by decide) (by decide) (by decide) rfl rfl rfl rfl rfl rfl
    rfl rfl]
  have hc : Convertible false eDecl.source eDecl.target :=
    .struct (.cons (sty := .basic .int) (by simp [fieldTy, fld]) (.basic rfl)
      (.cons (sty := .slice (.ptr (.basic .string))) (by simp [fieldTy, fld]) (.slice (.ptrPtr (.basic rfl))) .nil))
  obtain ⟨plan, hp⟩ := convertible_genF_ok false hc false
  exact ⟨_, by rw [hp]⟩

end ExE2E

end Gv.Props.C02
