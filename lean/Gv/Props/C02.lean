/-
C02 – generated conversions preserve values and nil-ness structurally and never panic.

Model: Gv.Eval (semantics of the plans produced by Gv.Gen; tied to the emitted code by the C02 campaign,
which compiles and executes the real output on systematic values) and Gv.Spec.specMap (the structural
mapping, written from the statement).  Here: what every structural plan node does, for all values.
-/
import Gv.Model.Eval
import Gv.Spec.Structural
import Gv.Proofs.EvalLemmas

namespace Gv.Props.C02
open Gv Gv.Str Gv.Eval

variable (p : Program) (fr : Frame)

/-! ### basic values are unchanged -/

theorem C02_ident (fuel : Nat) (src old : Val) (n : Nat) :
    evalConv p (fuel+1) fr .ident src old n = .ok (src, n) := by
  simp [evalConv, pure, StateT.pure]

theorem C02_cast_ident (fuel : Nat) (src old : Val) (n : Nat) :
    evalConv p (fuel+2) fr (.cast .ident) src old n = .ok (src, n) := by
  simp [evalConv, pure, StateT.pure]

/-! ### pointers: nil ↦ (old =) nil; non-nil ↦ a non-nil pointer to a FRESH location holding the image of the pointee -/

theorem C02_ptr_nil (fuel : Nat) (te : Ty) (inner : Conv) (old : Val) (n : Nat) :
    evalConv p (fuel+1) fr (.ptrPtr te inner) .nil old n = .ok (old, n) := by
  simp [evalConv, pure, StateT.pure]

theorem C02_ptr_nonnil (fuel : Nat) (te : Ty) (inner : Conv) (l : Loc) (x old v : Val) (n n' : Nat)
    (h : evalConv p fuel { fr with parent := some (.ptr l x) } inner x (zeroVal p.conv.env 64 te) n = .ok (v, n')) :
    evalConv p (fuel+1) fr (.ptrPtr te inner) (.ptr l x) old n = .ok (.ptr (.fresh n') v, n' + 1) := by
  simp [evalConv, bind, StateT.bind, h, freshLoc, pure, StateT.pure]

/-- a value converted to a pointer type is never nil -/
theorem C02_value_to_ptr_nonnil (fuel : Nat) (te : Ty) (inner : Conv) (src old v : Val) (n n' : Nat)
    (h : evalConv p fuel { fr with parent := none } inner src (zeroVal p.conv.env 64 te) n = .ok (v, n')) :
    evalConv p (fuel+1) fr (.tgtPtr te inner) src old n = .ok (.ptr (.fresh n') v, n' + 1) := by
  simp [evalConv, bind, StateT.bind, h, freshLoc, pure, StateT.pure]

/-- pointer to value (useZeroValueOnPointerInconsistency): nil keeps the target's zero value -/
theorem C02_srcptr_nil (fuel : Nat) (t : Ty) (inner : Conv) (old : Val) (n : Nat) :
    evalConv p (fuel+1) fr (.srcPtr t inner) .nil old n = .ok (old, n) := by
  simp [evalConv, pure, StateT.pure]

/-! ### slices: nil ↦ nil, empty ↦ empty non-nil, otherwise same length and order -/

theorem C02_slice_nil (fuel : Nat) (te : Ty) (elem : Conv) (old : Val) (n : Nat) :
    evalConv p (fuel+1) fr (.list te true true elem) .nil old n = .ok (old, n) := by
  unfold evalConv
  simp [pure, StateT.pure]

theorem C02_slice_empty (fuel : Nat) (te : Ty) (elem : Conv) (l : Loc) (old : Val) (n : Nat) :
    evalConv p (fuel+2) fr (.list te true true elem) (.slice l []) old n = .ok (.slice .none [], n) := by
  unfold evalConv
  simp [evalElems, bind, StateT.bind, pure, StateT.pure]

/-- element-wise: the i-th output is the image of the i-th input, with the index recorded for error paths -/
theorem evalElems_spec (fuel : Nat) (te : Ty) (elem : Conv) : ∀ (vs out : List Val) (i n n' : Nat),
    evalElems p fuel fr te elem vs i n = .ok (out, n') →
    out.length = vs.length ∧
    ∀ k (hk : k < vs.length), ∃ m m', ∃ hk' : k < out.length,
      evalConv p (fuel - 1 - k) { fr with idx := fr.idx ++ [i + k], parent := none } elem vs[k] (zeroVal p.conv.env 64 te) m = .ok (out[k], m') := by
  induction fuel with
  | zero => intro vs out i n n' h; simp [evalElems, stuckE] at h
  | succ fuel ih =>
    intro vs out i n n' h
    cases vs with
    | nil =>
      simp [evalElems, pure, StateT.pure] at h
      obtain ⟨rfl, _⟩ := h
      exact ⟨rfl, fun k hk => absurd hk (by simp)⟩
    | cons v vs =>
      unfold evalElems at h
      obtain ⟨x, n1, h1, h⟩ := (E_bind_ok _ _ _ _).mp h
      obtain ⟨rest, n2, h2, h⟩ := (E_bind_ok _ _ _ _).mp h
      have := (E_pure_ok _ _ _).mp h
      cases this
      obtain ⟨hl, hk⟩ := ih vs rest (i + 1) n1 _ h2
      refine ⟨by simp [hl], ?_⟩
      intro k hk'
      cases k with
      | zero => exact ⟨n, n1, by simp, by simpa using h1⟩
      | succ k =>
        obtain ⟨m, m', hk2, he⟩ := hk k (by simpa using hk')
        refine ⟨m, m', by simpa using hk2, ?_⟩
        have e1 : fuel + 1 - 1 - (k + 1) = fuel - 1 - k := by omega
        have hi : i + (k + 1) = i + 1 + k := by omega
        simp only [e1, hi, List.getElem_cons_succ]
        exact he

/-- **length and order are preserved** by every slice conversion that completes -/
theorem C02_slice_length (fuel : Nat) (te : Ty) (elem : Conv) (l : Loc) (v : Val) (vs : List Val) (old res : Val) (n n' : Nat)
    (h : evalConv p (fuel+1) fr (.list te true true elem) (.slice l (v :: vs)) old n = .ok (res, n')) :
    ∃ l' out, res = .slice l' out ∧ out.length = (v :: vs).length := by
  unfold evalConv at h
  simp only [List.isEmpty_cons, Bool.false_eq_true, if_false] at h
  obtain ⟨out, n1, h1, h⟩ := (E_bind_ok _ _ _ _).mp h
  obtain ⟨l', n2, h2, h⟩ := (E_bind_ok _ _ _ _).mp h
  have := (E_pure_ok _ _ _).mp h
  cases this
  exact ⟨l', out, rfl, (evalElems_spec p fr fuel te elem (v :: vs) out 0 n n1 h1).1⟩

/-- arrays become slices of the same length (Build position: `make(len)`) -/
theorem C02_array_length (fuel : Nat) (te : Ty) (elem : Conv) (v : Val) (vs : List Val) (old res : Val) (n n' : Nat)
    (h : evalConv p (fuel+1) fr (.list te true false elem) (.arr (v :: vs)) old n = .ok (res, n')) :
    ∃ l' out, res = .slice l' out ∧ out.length = (v :: vs).length := by
  unfold evalConv at h
  simp only [List.isEmpty_cons, Bool.false_eq_true, if_false] at h
  obtain ⟨out, n1, h1, h⟩ := (E_bind_ok _ _ _ _).mp h
  obtain ⟨l', n2, h2, h⟩ := (E_bind_ok _ _ _ _).mp h
  have := (E_pure_ok _ _ _).mp h
  cases this
  exact ⟨l', out, rfl, (evalElems_spec p fr fuel te elem (v :: vs) out 0 n n1 h1).1⟩

/-! ### maps: nil ↦ nil, otherwise one image entry per entry -/

theorem C02_map_nil (fuel : Nat) (tk tv : Ty) (key val : Conv) (old : Val) (n : Nat) :
    evalConv p (fuel+1) fr (.mapc tk tv key val) .nil old n = .ok (old, n) := by
  simp [evalConv, pure, StateT.pure]

theorem evalEntries_length (fuel : Nat) (tk tv : Ty) (key val : Conv) : ∀ (kvs out : List (Val × Val)) (n n' : Nat),
    evalEntries p fuel fr tk tv key val kvs n = .ok (out, n') → out.length = kvs.length := by
  induction fuel with
  | zero => intro kvs out n n' h; simp [evalEntries, stuckE] at h
  | succ fuel ih =>
    intro kvs out n n' h
    cases kvs with
    | nil => simp [evalEntries, pure, StateT.pure] at h; simp [h.1]
    | cons kv kvs =>
      obtain ⟨k, v⟩ := kv
      unfold evalEntries at h
      obtain ⟨k', n1, _, h⟩ := (E_bind_ok _ _ _ _).mp h
      obtain ⟨v', n2, _, h⟩ := (E_bind_ok _ _ _ _).mp h
      obtain ⟨more, n3, h3, h⟩ := (E_bind_ok _ _ _ _).mp h
      have := (E_pure_ok _ _ _).mp h
      cases this
      simp [ih kvs more n2 _ h3]

theorem C02_map_count (fuel : Nat) (tk tv : Ty) (key val : Conv) (l : Loc) (kvs : List (Val × Val)) (old res : Val) (n n' : Nat)
    (h : evalConv p (fuel+1) fr (.mapc tk tv key val) (.map l kvs) old n = .ok (res, n')) :
    ∃ l' out, res = .map l' out ∧ out.length = kvs.length := by
  unfold evalConv at h
  obtain ⟨out, n1, h1, h⟩ := (E_bind_ok _ _ _ _).mp h
  obtain ⟨l', n2, _, h⟩ := (E_bind_ok _ _ _ _).mp h
  have := (E_pure_ok _ _ _).mp h
  cases this
  exact ⟨l', out, rfl, evalEntries_length p fr fuel tk tv key val kvs out n n1 h1⟩

/-! ### the known finding: an array source in an assignment position (no `make`) -/

def d9Program : Program := { conv := { env := [], common := {}, outputPkg := [], customs := [], extend := [], orc := {} }, methods := [] }

/-- the full statement ("never panics") is FALSE of the model, as of the code (scenario struct_slice_array):
assigning a non-empty array element-wise into a nil slice panics -/
theorem C02_D9_witness :
    evalConv d9Program 5 default (.list (.basic .int) false false .ident) (.arr [.basic "1".toList]) .nil 0 = .panic .indexOutOfRange := by
  unfold evalConv
  simp [evalElemsOld, evalConv, bind, StateT.bind, pure, StateT.pure, panicE, Val.isAbsent]

end Gv.Props.C02
