/-
C02 – generated conversions preserve values and nil-ness structurally and never panic.

Model: Gv.Eval (semantics of the plans produced by Gv.Gen; tied to the emitted code by the C02 campaign,
which compiles and executes the real output on systematic values) and Gv.Spec.specMap (the structural
mapping, written from the statement).  Here: what every structural plan node does, for all values.
-/
import Gv.Model.Eval
import Gv.Spec.Structural
import Gv.Proofs.EvalLemmas
import Gv.Proofs.StructuralSound
import Gv.Proofs.PlanCheckSound

namespace Gv.Props.C02
open Gv Gv.Str Gv.Eval

variable (p : Program) (fr : Frame)

/-! ### basic values are unchanged -/

theorem C02_ident (fuel : Nat) (src old : Val) (n : Nat) :
    evalConv p (fuel+1) fr .ident src old n = .ok (src, n) := by
  simp [evalConv, pure, StateT.pure]

theorem C02_cast_ident (fuel : Nat) (src old : Val) (n : Nat) :
    evalConv p (fuel+2) fr (.cast .ident) src old n = .ok (src, n) := by
  simp [evalConv, pure, StateT.pure]

/-! ### pointers: nil ↦ (old =) nil; non-nil ↦ a non-nil pointer to a FRESH location holding the image of the pointee -/

theorem C02_ptr_nil (fuel : Nat) (te : Ty) (inner : Conv) (old : Val) (n : Nat) :
    evalConv p (fuel+1) fr (.ptrPtr te inner) .nil old n = .ok (old, n) := by
  simp [evalConv, pure, StateT.pure]

theorem C02_ptr_nonnil (fuel : Nat) (te : Ty) (inner : Conv) (l : Loc) (x old v : Val) (n n' : Nat)
    (h : evalConv p fuel { fr with parent := some (.ptr l x) } inner x (zeroVal p.conv.env 64 te) n = .ok (v, n')) :
    evalConv p (fuel+1) fr (.ptrPtr te inner) (.ptr l x) old n = .ok (.ptr (.fresh n') v, n' + 1) := by
  simp [evalConv, bind, StateT.bind, h, freshLoc, pure, StateT.pure]

/-- a value converted to a pointer type is never nil -/
theorem C02_value_to_ptr_nonnil (fuel : Nat) (te : Ty) (inner : Conv) (src old v : Val) (n n' : Nat)
    (h : evalConv p fuel { fr with parent := none } inner src (zeroVal p.conv.env 64 te) n = .ok (v, n')) :
    evalConv p (fuel+1) fr (.tgtPtr te inner) src old n = .ok (.ptr (.fresh n') v, n' + 1) := by
  simp [evalConv, bind, StateT.bind, h, freshLoc, pure, StateT.pure]

/-- pointer to value (useZeroValueOnPointerInconsistency): nil keeps the target's zero value -/
theorem C02_srcptr_nil (fuel : Nat) (t : Ty) (inner : Conv) (old : Val) (n : Nat) :
    evalConv p (fuel+1) fr (.srcPtr t inner) .nil old n = .ok (old, n) := by
  simp [evalConv, pure, StateT.pure]

/-! ### slices: nil ↦ nil, empty ↦ empty non-nil, otherwise same length and order -/

theorem C02_slice_nil (fuel : Nat) (te : Ty) (elem : Conv) (old : Val) (n : Nat) :
    evalConv p (fuel+1) fr (.list te true true elem) .nil old n = .ok (old, n) := by
  unfold evalConv
  simp [pure, StateT.pure]

theorem C02_slice_empty (fuel : Nat) (te : Ty) (elem : Conv) (l : Loc) (old : Val) (n : Nat) :
    evalConv p (fuel+2) fr (.list te true true elem) (.slice l []) old n = .ok (.slice .none [], n) := by
  unfold evalConv
  simp [evalElems, bind, StateT.bind, pure, StateT.pure]

/-- element-wise: the i-th output is the image of the i-th input, with the index recorded for error paths -/
theorem evalElems_spec (fuel : Nat) (te : Ty) (elem : Conv) : ∀ (vs out : List Val) (i n n' : Nat),
    evalElems p fuel fr te elem vs i n = .ok (out, n') →
    out.length = vs.length ∧
    ∀ k (hk : k < vs.length), ∃ m m', ∃ hk' : k < out.length,
      evalConv p (fuel - 1 - k) { fr with idx := fr.idx ++ [i + k], parent := none } elem vs[k] (zeroVal p.conv.env 64 te) m = .ok (out[k], m') := by
  induction fuel with
  | zero => intro vs out i n n' h; simp [evalElems, stuckE] at h
  | succ fuel ih =>
    intro vs out i n n' h
    cases vs with
    | nil =>
      simp [evalElems, pure, StateT.pure] at h
      obtain ⟨rfl, _⟩ := h
      exact ⟨rfl, fun k hk => absurd hk (by simp)⟩
    | cons v vs =>
      unfold evalElems at h
      obtain ⟨x, n1, h1, h⟩ := (E_bind_ok _ _ _ _).mp h
      obtain ⟨rest, n2, h2, h⟩ := (E_bind_ok _ _ _ _).mp h
      have := (E_pure_ok _ _ _).mp h
      cases this
      obtain ⟨hl, hk⟩ := ih vs rest (i + 1) n1 _ h2
      refine ⟨by simp [hl], ?_⟩
      intro k hk'
      cases k with
      | zero => exact ⟨n, n1, by simp, by simpa using h1⟩
      | succ k =>
        obtain ⟨m, m', hk2, he⟩ := hk k (by simpa using hk')
        refine ⟨m, m', by simpa using hk2, ?_⟩
        have e1 : fuel + 1 - 1 - (k + 1) = fuel - 1 - k := by omega
        have hi : i + (k + 1) = i + 1 + k := by omega
        simp only [e1, hi, List.getElem_cons_succ]
        exact he

/-- **length and order are preserved** by every slice conversion that completes -/
theorem C02_slice_length (fuel : Nat) (te : Ty) (elem : Conv) (l : Loc) (v : Val) (vs : List Val) (old res : Val) (n n' : Nat)
    (h : evalConv p (fuel+1) fr (.list te true true elem) (.slice l (v :: vs)) old n = .ok (res, n')) :
    ∃ l' out, res = .slice l' out ∧ out.length = (v :: vs).length := by
  unfold evalConv at h
  simp only [List.isEmpty_cons, Bool.false_eq_true, if_false] at h
  obtain ⟨out, n1, h1, h⟩ := (E_bind_ok _ _ _ _).mp h
  obtain ⟨l', n2, h2, h⟩ := (E_bind_ok _ _ _ _).mp h
  have := (E_pure_ok _ _ _).mp h
  cases this
  exact ⟨l', out, rfl, (evalElems_spec p fr fuel te elem (v :: vs) out 0 n n1 h1).1⟩

/-- arrays become slices of the same length (Build position: `make(len)`) -/
theorem C02_array_length (fuel : Nat) (te : Ty) (elem : Conv) (v : Val) (vs : List Val) (old res : Val) (n n' : Nat)
    (h : evalConv p (fuel+1) fr (.list te true false elem) (.arr (v :: vs)) old n = .ok (res, n')) :
    ∃ l' out, res = .slice l' out ∧ out.length = (v :: vs).length := by
  unfold evalConv at h
  simp only [List.isEmpty_cons, Bool.false_eq_true, if_false] at h
  obtain ⟨out, n1, h1, h⟩ := (E_bind_ok _ _ _ _).mp h
  obtain ⟨l', n2, h2, h⟩ := (E_bind_ok _ _ _ _).mp h
  have := (E_pure_ok _ _ _).mp h
  cases this
  exact ⟨l', out, rfl, (evalElems_spec p fr fuel te elem (v :: vs) out 0 n n1 h1).1⟩

/-! ### maps: nil ↦ nil, otherwise one image entry per entry -/

theorem C02_map_nil (fuel : Nat) (tk tv : Ty) (key val : Conv) (old : Val) (n : Nat) :
    evalConv p (fuel+1) fr (.mapc tk tv key val) .nil old n = .ok (old, n) := by
  simp [evalConv, pure, StateT.pure]

theorem evalEntries_length (fuel : Nat) (tk tv : Ty) (key val : Conv) : ∀ (kvs out : List (Val × Val)) (n n' : Nat),
    evalEntries p fuel fr tk tv key val kvs n = .ok (out, n') → out.length = kvs.length := by
  induction fuel with
  | zero => intro kvs out n n' h; simp [evalEntries, stuckE] at h
  | succ fuel ih =>
    intro kvs out n n' h
    cases kvs with
    | nil => simp [evalEntries, pure, StateT.pure] at h; simp [h.1]
    | cons kv kvs =>
      obtain ⟨k, v⟩ := kv
      unfold evalEntries at h
      obtain ⟨k', n1, _, h⟩ := (E_bind_ok _ _ _ _).mp h
      obtain ⟨v', n2, _, h⟩ := (E_bind_ok _ _ _ _).mp h
      obtain ⟨more, n3, h3, h⟩ := (E_bind_ok _ _ _ _).mp h
      have := (E_pure_ok _ _ _).mp h
      cases this
      simp [ih kvs more n2 _ h3]

theorem C02_map_count (fuel : Nat) (tk tv : Ty) (key val : Conv) (l : Loc) (kvs : List (Val × Val)) (old res : Val) (n n' : Nat)
    (h : evalConv p (fuel+1) fr (.mapc tk tv key val) (.map l kvs) old n = .ok (res, n')) :
    ∃ l' out, res = .map l' out ∧ out.length = kvs.length := by
  unfold evalConv at h
  obtain ⟨out, n1, h1, h⟩ := (E_bind_ok _ _ _ _).mp h
  obtain ⟨l', n2, _, h⟩ := (E_bind_ok _ _ _ _).mp h
  have := (E_pure_ok _ _ _).mp h
  cases this
  exact ⟨l', out, rfl, evalEntries_length p fr fuel tk tv key val kvs out n n1 h1⟩

/-! ### the known finding: an array source in an assignment position (no `make`) -/

def d9Program : Program := { conv := { env := [], common := {}, outputPkg := [], customs := [], extend := [], orc := {} }, methods := [] }

/-- the full statement ("never panics") is FALSE of the model, as of the code (scenario struct_slice_array):
assigning a non-empty array element-wise into a nil slice panics -/
theorem C02_D9_witness :
    evalConv d9Program 5 default (.list (.basic .int) false false .ident) (.arr [.basic "1".toList]) .nil 0 = .panic .indexOutOfRange := by
  unfold evalConv
  simp [evalElemsOld, evalConv, bind, StateT.bind, pure, StateT.pure, panicE, Val.isAbsent]

/-! ### The composite theorem: a checked structural program maps every value to its structural image

`PlanCheck.checkProg` is a decidable test on the plans `Gv.Gen.generate` produced (the driver evaluates it for every
converter of the C02 campaign and the evidence counts how many pass); `Spec.Img` is the structural mapping as a relation,
written from the statement.  For every program that passes, every method, every well-typed source value of any size and
depth and any fuel: whatever the plan semantics returns is the structural image of the source. -/

open Gv.Typing Gv.Spec Gv.Sound in
theorem C02_composite (p : Program) (hchk : PlanCheck.checkProg p = true)
    (fuel m : Nat) (s t : Ty) (v : Val) (n : Nat) (v' : Val) (n' : Nat)
    (hsig : sigOf p m = some (s, t)) (hwt : WT p.conv.env v s)
    (hev : callMethod p fuel m v [] n = .ok (v', n')) :
    Img p.conv.env s t v (erase v') :=
  callMethod_structural p (checkProg_sound p hchk) fuel m s t v n v' n' hsig hwt hev

/-! what the relation says at each shape (corollaries by inversion) -/

open Gv.Spec in
theorem C02_img_basic {env : TEnv} {s t : Ty} {r : S} {w : Val} {k : Kind} (ht : under env t = .basic k)
    (h : Img env s t (.basic r) w) : w = .basic r := by
  cases h with
  | basic _ _ => rfl
  | toPtr _ h2 _ => rw [ht] at h2; cases h2

open Gv.Spec in
theorem C02_img_nil_ptr {env : TEnv} {s t se te : Ty} {w : Val} (hs : under env s = .ptr se) (ht : under env t = .ptr te)
    (h : Img env s t .nil w) : w = .nil := by
  cases h with
  | ptrNil _ _ => rfl
  | toPtr h1 _ _ => exact absurd hs (h1 se)
  | srcNil _ h2 _ => exact absurd ht (h2 te)
  | sliceNil _ _ => rfl
  | mapNil _ _ => rfl

open Gv.Spec in
theorem C02_img_slice_length {env : TEnv} {s t se te : Ty} {l : Loc} {vs : List Val} {w : Val}
    (hs : under env s = .slice se) (ht : under env t = .slice te) (h : Img env s t (.slice l vs) w) :
    ∃ ws, w = .slice .none ws ∧ ws.length = vs.length := by
  cases h with
  | toPtr _ h2 _ => rw [ht] at h2; cases h2
  | slice _ _ hl => exact ⟨_, rfl, (ImgList.length_eq hl).symm⟩

open Gv.Spec in
theorem C02_img_map_count {env : TEnv} {s t sk sv tk tv : Ty} {l : Loc} {kvs : List (Val × Val)} {w : Val}
    (hs : under env s = .map sk sv) (ht : under env t = .map tk tv) (h : Img env s t (.map l kvs) w) :
    ∃ ws, w = .map .none ws ∧ ws.length = kvs.length := by
  cases h with
  | toPtr _ h2 _ => rw [ht] at h2; cases h2
  | map _ _ hl => exact ⟨_, rfl, (ImgEntries.length_eq hl).symm⟩

open Gv.Spec in
theorem C02_img_value_to_ptr_nonnil {env : TEnv} {s t te : Ty} {v w : Val} (hs : ∀ e, under env s ≠ .ptr e)
    (ht : under env t = .ptr te) (h : Img env s t v w) : ∃ y, w = .ptr .none y ∧ Img env s te v y := by
  cases h with
  | basic _ h2 => rw [ht] at h2; cases h2
  | ptrNil h1 _ => exact absurd h1 (hs _)
  | ptrPtr h1 _ _ => exact absurd h1 (hs _)
  | toPtr _ h2 hi => rw [ht] at h2; cases h2; exact ⟨_, rfl, hi⟩
  | srcNil h1 _ _ => exact absurd h1 (hs _)
  | srcPtr h1 _ _ => exact absurd h1 (hs _)
  | sliceNil _ h2 => rw [ht] at h2; cases h2
  | slice _ h2 _ => rw [ht] at h2; cases h2
  | array _ h2 _ => rw [ht] at h2; cases h2
  | mapNil _ h2 => rw [ht] at h2; cases h2
  | map _ h2 _ => rw [ht] at h2; cases h2
  | struct _ h2 _ => rw [ht] at h2; cases h2

/-! non-vacuity: a concrete program passes the check, and a concrete well-typed value is converted -/

def exFields : Fields :=
  .cons { name := "A".toList, exported := true, embedded := false, pkg := [] } (.basic .int)
    (.cons { name := "P".toList, exported := true, embedded := false, pkg := [] } (.ptr (.basic .string))
      (.cons { name := "L".toList, exported := true, embedded := false, pkg := [] } (.slice (.basic .int)) .nil))

def exPlan : Conv :=
  .structc (.cons (.mapped "A".toList ["A".toList] [false] false false .ident .none)
    (.cons (.mapped "P".toList ["P".toList] [false] false true (.ptrPtr (.basic .string) .ident) .none)
      (.cons (.mapped "L".toList ["L".toList] [false] false false (.list (.basic .int) true true .ident) .none) .nil))) false

def exMethod : GenMethod :=
  { name := "Convert".toList, source := .struct exFields, target := .struct exFields, args := [], contexts := [],
    returnError := false, updateTarget := false, explicit := true, dirty := false, originPath := [], originName := [],
    cfg := { common := {} }, body := some (.convert exPlan) }

def exProgram : Program :=
  { conv := { env := [], common := {}, outputPkg := [], customs := [], extend := [], orc := {} }, methods := [exMethod] }

example : PlanCheck.checkProg exProgram = true := by decide

def exValue : Val :=
  .struct [("A".toList, .basic "5".toList), ("P".toList, .ptr (.src 1) (.basic "x".toList)),
           ("L".toList, .slice (.src 2) [.basic "1".toList, .basic "2".toList])]

def exResult : Val :=
  .struct [("A".toList, .basic "5".toList), ("P".toList, .ptr (.fresh 0) (.basic "x".toList)),
           ("L".toList, .slice (.fresh 1) [.basic "1".toList, .basic "2".toList])]

/-- the conversion of `exValue` succeeds (so the hypothesis `… = .ok _` of the composite theorem is met) -/
example : callMethod exProgram 10 0 exValue [] 0 = .ok (exResult, 2) := by
  unfold callMethod
  simp [exProgram, exMethod, exPlan, exValue, exResult, exFields, evalConv, evalFields, evalElems, walk, fieldOf, setField, normStruct,
    zeroVal, zeroVal.zeroFields, under, Fields.toList, Val.isAbsent, bind, StateT.bind, pure, StateT.pure, freshLoc, List.lookup]

open Gv.Typing in
/-- `exValue` is a well-typed value of the source type (the other hypothesis of the composite theorem) -/
example : WT [] exValue (.struct exFields) := by
  refine .struct (tfs := exFields) rfl ?_
  intro name x f ty hl hf
  by_cases hA : name = "A".toList
  · subst hA
    simp [exValue, List.lookup] at hl
    simp [exFields, Fields.toList, List.find?] at hf
    obtain ⟨_, rfl⟩ := hf; subst hl
    exact .basic (k := .int) rfl
  · by_cases hP : name = "P".toList
    · subst hP
      simp [exValue, List.lookup] at hl
      simp [exFields, Fields.toList, List.find?] at hf
      obtain ⟨_, rfl⟩ := hf; subst hl
      exact .ptr (e := .basic .string) rfl (.basic (k := .string) rfl)
    · by_cases hL : name = "L".toList
      · subst hL
        simp [exValue, List.lookup] at hl
        simp [exFields, Fields.toList, List.find?] at hf
        obtain ⟨_, rfl⟩ := hf; subst hl
        refine .slice (e := .basic .int) rfl ?_
        intro v hv
        simp at hv
        rcases hv with rfl | rfl <;> exact .basic (k := .int) rfl
      · exfalso
        have h1 : (name == ['A']) = false := by simpa using hA
        have h2 : (name == ['P']) = false := by simpa using hP
        have h3 : (name == ['L']) = false := by simpa using hL
        simp [exValue, List.lookup] at hl
        simp [h1, h2, h3] at hl

end Gv.Props.C02
