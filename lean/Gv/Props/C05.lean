/-
C05 – field settings select sources as documented and are never silently dropped.

Model: Gv.Gen.findAllFields / findField (xtype.FindField), walkPath / mapField (builder/struct.go mapField),
structFields (Struct.Assign), Gv.Eval.walk (nil-guarded path evaluation).  Tied to the code by the C05
campaign (renamed, re-cased, flattened, pointer-nested, dropped and added fields; settings on methods that are
reused from sibling methods; unknown fields) and by the field-related scenarios of the repository.
-/
import Gv.Model.Eval
import Gv.Model.Gen
import Gv.Proofs.GenLemmas
import Gv.Proofs.UpdateSound
import Gv.Proofs.PlanCheckUSound

namespace Gv.Props.C05
open Gv Gv.Str Gv.Gen Gv.Eval

/-! ### which source feeds a target field -/

/-- scanning a struct: an exact name match wins over every case-insensitive candidate, whatever the flag -/
theorem scan_exact (name : S) (ic : Bool) (pre : List FieldHit) (h : FieldHit) (post acc : List FieldHit)
    (nameOf : FieldHit → S) (hh : nameOf h = name) (hpre : ∀ x ∈ pre, nameOf x ≠ name) :
    ∃ acc', findAllFields.scan name ic nameOf (pre ++ h :: post) acc = (some h, acc') := by
  induction pre generalizing acc with
  | nil => exact ⟨acc, by simp [findAllFields.scan, hh]⟩
  | cons x xs ih =>
    have hx : (nameOf x == name) = false := by simpa using hpre x (by simp)
    simp only [List.cons_append, findAllFields.scan, hx, Bool.false_eq_true, if_false]
    split
    · exact ih (acc ++ [x]) (fun y hy => hpre y (by simp [hy]))
    · exact ih acc (fun y hy => hpre y (by simp [hy]))

/-- no candidate at all ⇒ "does not exist" (which `ignoreMissing` may turn into "leave unassigned") -/
theorem scan_none (name : S) (ic : Bool) (l acc : List FieldHit) (nameOf : FieldHit → S)
    (h : ∀ x ∈ l, nameOf x ≠ name ∧ (ic = true → equalFold (nameOf x) name = false)) :
    findAllFields.scan name ic nameOf l acc = (none, acc) := by
  induction l generalizing acc with
  | nil => rfl
  | cons x xs ih =>
    obtain ⟨h1, h2⟩ := h x (by simp)
    have hx : (nameOf x == name) = false := by simpa using h1
    simp only [findAllFields.scan, hx, Bool.false_eq_true, if_false]
    cases ic with
    | false => simpa using ih acc (fun y hy => h y (by simp [hy]))
    | true =>
      simp only [h2 rfl, Bool.and_false, Bool.false_eq_true, if_false]
      exact ih acc (fun y hy => h y (by simp [hy]))

/-- **C05_findField (uniqueness rule)**: exactly one match ⇒ it; none ⇒ NoMatch; several ⇒ ambiguous, with exact
matches (over the struct and all autoMap sources) taking precedence over case-insensitive ones -/
theorem C05_findField_rule (c : Converter) (name : S) (ic : Bool) (source : Ty) (extra : List (List S × Ty)) :
    ∃ exact icm : List (List S × FieldHit),
      findField c name ic source extra =
        (match (if exact.isEmpty then icm else exact) with
         | [(p, h)] => .one p h
         | [] => .noMatch
         | _ => .ambiguous) := by
  unfold findField
  exact ⟨_, _, rfl⟩

/-! ### dotted paths with nil intermediate pointers -/

/-- **C05_map_path_value (nil)**: a nil pointer on the path yields "no value" (the target receives nil) instead of a panic -/
theorem C05_path_nil_pointer (f : S) (rest : List S) (ds : List Bool) :
    walk (f :: rest) (true :: ds) .nil = .ok none := by
  simp [walk]

/-- a non-nil pointer on the path is dereferenced and the walk continues inside the pointee -/
theorem C05_path_through_pointer (f : S) (rest : List S) (ds : List Bool) (l : Loc) (fs : List (S × Val)) (x : Val)
    (hf : fs.lookup f = some x) :
    walk (f :: rest) (true :: ds) (.ptr l (.struct fs)) = walk rest ds x := by
  simp [walk, fieldOf, hf]

/-- a plain field step -/
theorem C05_path_field (f : S) (rest : List S) (ds : List Bool) (fs : List (S × Val)) (x : Val) (hf : fs.lookup f = some x) :
    walk (f :: rest) (false :: ds) (.struct fs) = walk rest ds x := by
  simp [walk, fieldOf, hf]

/-- `map . Target`: the empty path is the whole source -/
theorem C05_path_whole_source (v : Val) : walk [] [] v = .ok (some v) := by simp [walk]

/-! ### settings are scoped to the method's own target struct -/

/-- field settings apply only when the struct being built is the method's FieldsTarget … -/
theorem C05_scope (cx : Ctx) (target : Ty) (name : S) (h : (cx.fieldsTarget == target) = false) :
    fieldCfgOf cx target name = {} := by
  simp [fieldCfgOf, h]

/-- … and then they are the ones written on that method -/
theorem C05_scope_own (cx : Ctx) (name : S) (fc : FieldCfg) (ht : (cx.fieldsTarget == cx.fieldsTarget) = true)
    (h : cx.cfg.fields.lookup name = some fc) : fieldCfgOf cx cx.fieldsTarget name = fc := by
  simp [fieldCfgOf, ht, h]

/-! ### ignore leaves the field unassigned; unknown fields are reported -/

/-- **C05_ignore_unassigned**: an ignored target field produces no assignment -/
theorem C05_ignore_unassigned (c : Converter) (fuel : Nat) (cx : Ctx) (iu pp : Bool) (s t : Ty) (path : List PathElem)
    (extra : List (List S × Ty)) (f : FieldInfo) (fty : Ty) (rest : List (FieldInfo × Ty)) (st : GState)
    (hi : (fieldCfgOf cx t f.name).ignore = true) :
    structFields c (fuel+1) cx iu pp s t path extra ((f, fty) :: rest) st =
      (do let more ← structFields c fuel cx iu pp s t path extra rest; pure (FieldPlan.skip f.name :: more) : M (List FieldPlan)) st := by
  simp [structFields, hi, bind, StateT.bind, Except.bind, pure, StateT.pure, Except.pure]

/-- **C05_never_dropped**: a setting that names a field the target does not have makes generation fail -/
theorem C05_unknown_field_rejected (c : Converter) (fuel : Nat) (cx : Ctx) (iu pp : Bool) (s t : Ty) (path : List PathElem) (st : GState)
    (name : S) (fc : FieldCfg) (tfs : Fields) (plans : List FieldPlan) (st' : GState)
    (hauto : parseAutoMap c cx s = .ok [])
    (hts : isStruct c.env t = some tfs)
    (hft : (cx.fieldsTarget == t) = true) (hfields : cx.cfg.fields = [(name, fc)])
    (hno : tfs.toList.any (fun x => x.1.name == name) = false)
    (hplans : structFields c fuel cx iu pp s t path [] tfs.toList st = .ok (plans, st')) :
    structAssign c (fuel+1) cx iu pp s t path st = .error .unknownField := by
  unfold structAssign
  simp [hauto, hts, bind, StateT.bind, Except.bind, pure, StateT.pure, Except.pure, hplans, hft, hfields, hno, fail, throw, throwThe,
    MonadExceptOf.throw, StateT.lift]

/-! ### The composite theorem: ignored fields of a conversion are left unassigned, the others hold the images

`PlanCheck.checkProgU` is the decidable fragment test (structural plans + ignored fields + zero-value guards + update
methods).  For every program that passes, every conversion method `m` whose body is the struct conversion `plans`, every
well-typed source struct and every fuel: the result is a struct, and for the `i`-th target field `tf : tty` with plan `f`:
  * `f = .skip _` (goverter:ignore, ignoreMissing without match, ignoreUnexported): the field holds the zero value of `tty`
    — it is left unassigned in the freshly declared result variable;
  * `f = .mapped …`: the field holds the conversion of the same-named source field (`Spec.FieldOutcome`, the previous value
    being the zero value).  (Locations erased.) -/

open Gv.Typing Gv.Spec Gv.Sound in
theorem C05_composite_ignored_unassigned (p : Program) (hchk : PlanCheck.checkProgU p = true)
    (fuel m : Nat) (gm : GenMethod) (plans : FieldPlans) (upd : Bool)
    (hm : p.methods[m]? = some gm) (hb : gm.body = some (.convert (.structc plans upd)))
    (sfs tfs : Fields) (hs : under p.conv.env gm.source = .struct sfs) (ht : under p.conv.env gm.target = .struct tfs)
    (fs : List (S × Val)) (hwt : WT p.conv.env (.struct fs) gm.source) (cs : List Val) (n : Nat) (v' : Val) (n' : Nat)
    (hev : Eval.callMethod p fuel m (.struct fs) cs n = .ok (v', n')) :
    ∃ ws, v' = .struct ws ∧
      ∀ (i : Nat) (tf : FieldInfo) (tty : Ty), tfs.toList[i]? = some (tf, tty) →
        ∃ f, plans.toList[i]? = some f ∧
          (∀ nm, f = .skip nm → (erase.eraseFields ws).lookup tf.name = some (erase (zeroVal p.conv.env 63 tty))) ∧
          FieldOutcome p.conv.env (CtorSig p) gm.source (.struct fs) tf tty
            (erase.eraseFields (zeroVal.zeroFields p.conv.env 63 tfs.toList)) (erase.eraseFields ws) f := by
  obtain ⟨hnd, ws, hv', himg⟩ := convert_struct_onto p (checkProgU_sound p hchk) fuel m gm plans upd hm hb sfs tfs hs ht fs hwt
    cs n v' n' hev
  refine ⟨ws, hv', fun i tf tty hi => ?_⟩
  obtain ⟨f, hf, hout⟩ := himg.outcome i tf tty hi
  refine ⟨f, hf, fun nm hnm => ?_, hout⟩
  rw [hout.1 nm hnm, lookup_eraseFields, zeroFields_lookup_at _ 63 tfs.toList i tf tty hnd hi]
  rfl

/-! non-vacuity: a concrete conversion with an ignored field passes the check and is computed: `K` is left at zero -/

def iFields : Fields :=
  .cons { name := "A".toList, exported := true, embedded := false, pkg := [] } (.basic .int)
    (.cons { name := "K".toList, exported := true, embedded := false, pkg := [] } (.basic .int) .nil)

def iPlans : FieldPlans :=
  .cons (.mapped "A".toList ["A".toList] [false] false false .ident .none) (.cons (.skip "K".toList) .nil)

def iMethod : GenMethod :=
  { name := "Convert".toList, source := .struct iFields, target := .struct iFields, args := [], contexts := [],
    returnError := false, updateTarget := false, explicit := true, dirty := false, originPath := [], originName := [],
    cfg := { common := {} }, body := some (.convert (.structc iPlans false)) }

def iProgram : Program :=
  { conv := { env := [], common := {}, outputPkg := [], customs := [], extend := [], orc := {} }, methods := [iMethod] }

def iSrc : List (S × Val) := [("A".toList, .basic "5".toList), ("K".toList, .basic "1".toList)]

example : PlanCheck.checkProgU iProgram = true := by decide

example : Eval.callMethod iProgram 10 0 (.struct iSrc) [] 0 =
    .ok (.struct [("A".toList, .basic "5".toList), ("K".toList, .basic "0".toList)], 0) := by
  unfold Eval.callMethod
  simp [iProgram, iMethod, iPlans, iSrc, iFields, evalConv, evalFields, walk, fieldOf, setField, normStruct,
    zeroVal, zeroVal.zeroFields, zeroBasic, under, Fields.toList, Val.isAbsent, pure, StateT.pure, List.lookup]

open Gv.Typing in
example : WT iProgram.conv.env (.struct iSrc) (.struct iFields) :=
  WT_struct_of_basics (tfs := iFields) rfl
    (by intro q hq; simp [iSrc] at hq; rcases hq with rfl | rfl <;> exact ⟨_, rfl⟩)
    (by intro q hq; simp [iFields, Fields.toList] at hq; rcases hq with rfl | rfl <;> exact ⟨_, rfl⟩)

/-! ### The composite theorem for goverter:map paths

`checkProgU` accepts mapped fields whose source is an arbitrary path of field names (`goverter:map A.B.C Target`, `.` = the
empty path = the whole source) that type-checks from the source struct type (`PlanCheck.walkTy`), with the nil guards,
the guard flag and the leaf-is-pointer flag the types dictate.  `Spec.PathVal v path r` is the statement's notion of "the
value named by the path": following the field names through structs, dereferencing pointers on the way, `none` as soon as
a pointer on the way is nil.  For every checked program, every struct conversion method, every well-typed source and fuel,
the `i`-th target field `tf : tty`, mapped to `path`, receives a value `a : sty` (`Spec.FieldSrc`) such that
 (a) a nil pointer on the way (`PathVal src path none`) ⇒ `a = nil`;
 (b) the path names `x` (`PathVal src path (some x)`) ⇒ `a = x`, or — pointers crossed, `x` not a pointer — `a` is a pointer to `x`;
and the field holds the conversion of `a` to the field type (onto the zero value), unless a zero-value guard applies and `a`
is zero (then the field keeps the zero value).  (For update methods the same clauses are in `C10_composite`, with the
previous value of the field in place of the zero value.) -/

open Gv.Typing Gv.Spec Gv.Sound in
theorem C05_composite_paths (p : Program) (hchk : PlanCheck.checkProgU p = true)
    (fuel m : Nat) (gm : GenMethod) (plans : FieldPlans) (upd : Bool)
    (hm : p.methods[m]? = some gm) (hb : gm.body = some (.convert (.structc plans upd)))
    (sfs tfs : Fields) (hs : under p.conv.env gm.source = .struct sfs) (ht : under p.conv.env gm.target = .struct tfs)
    (fs : List (S × Val)) (hwt : WT p.conv.env (.struct fs) gm.source) (cs : List Val) (n : Nat) (v' : Val) (n' : Nat)
    (hev : Eval.callMethod p fuel m (.struct fs) cs n = .ok (v', n'))
    (i : Nat) (tf : FieldInfo) (tty : Ty) (hi : tfs.toList[i]? = some (tf, tty))
    (tg : S) (path : List S) (derefs : List Bool) (guarded leafIsPtr : Bool) (cv : Conv) (zero : ZeroCheck)
    (hf : plans.toList[i]? = some (.mapped tg path derefs guarded leafIsPtr cv zero)) :
    ∃ ws sty a, v' = .struct ws ∧ FieldSrc p.conv.env gm.source (.struct fs) path sty a ∧
      (PathVal (.struct fs) path none → a = .nil) ∧
      (∀ x, PathVal (.struct fs) path (some x) → a = x ∨ ∃ l, a = .ptr l x) ∧
      ((zero = .none ∨ ¬ IsZeroValue a) →
        ∃ y, (erase.eraseFields ws).lookup tf.name = some y ∧
          ImgOnto p.conv.env (CtorSig p) sty tty a (erase (zeroVal p.conv.env 63 tty)) y) ∧
      ((zero = .check ∧ IsZeroValue a) →
        (erase.eraseFields ws).lookup tf.name = some (erase (zeroVal p.conv.env 63 tty))) := by
  obtain ⟨hnd, ws, hv', himg⟩ := convert_struct_onto p (checkProgU_sound p hchk) fuel m gm plans upd hm hb sfs tfs hs ht fs hwt
    cs n v' n' hev
  obtain ⟨f, hf', hout⟩ := himg.outcome i tf tty hi
  rw [hf] at hf'
  cases hf'
  obtain ⟨sty, a, hfs, h1, h2⟩ := hout.2 tg path derefs guarded leafIsPtr cv zero rfl
  have hz : (erase.eraseFields (zeroVal.zeroFields p.conv.env 63 tfs.toList)).lookup tf.name =
      some (erase (zeroVal p.conv.env 63 tty)) := by
    rw [lookup_eraseFields, zeroFields_lookup_at _ 63 tfs.toList i tf tty hnd hi]; rfl
  rw [hz] at h1 h2
  exact ⟨ws, sty, a, hv', hfs, hfs.of_none, fun x hx => hfs.of_some hx, h1, h2⟩

/-! non-vacuity: `goverter:map Nested.Inner.Name Name` with `Nested` a pointer; the leaf `Name` is a string behind a nil
guard, so the field conversion receives a `*string` (nil when `Nested` is nil) -/

def pInner : Fields := .cons { name := "Name".toList, exported := true, embedded := false, pkg := [] } (.basic .string) .nil
def pNested : Fields := .cons { name := "Inner".toList, exported := true, embedded := false, pkg := [] } (.struct pInner) .nil
def pSource : Fields := .cons { name := "Nested".toList, exported := true, embedded := false, pkg := [] } (.ptr (.struct pNested)) .nil
def pTarget : Fields := .cons { name := "Name".toList, exported := true, embedded := false, pkg := [] } (.ptr (.basic .string)) .nil

def pPlans : FieldPlans :=
  .cons (.mapped "Name".toList ["Nested".toList, "Inner".toList, "Name".toList] [false, true, false] true false
    (.ptrPtr (.basic .string) .ident) .none) .nil

def pMethod : GenMethod :=
  { name := "Convert".toList, source := .struct pSource, target := .struct pTarget, args := [], contexts := [],
    returnError := false, updateTarget := false, explicit := true, dirty := false, originPath := [], originName := [],
    cfg := { common := {} }, body := some (.convert (.structc pPlans false)) }

def pProgram : Program :=
  { conv := { env := [], common := {}, outputPkg := [], customs := [], extend := [], orc := {} }, methods := [pMethod] }

example : PlanCheck.checkProgU pProgram = true := by decide

def pSrcNil : List (S × Val) := [("Nested".toList, .nil)]
def pSrcSome : List (S × Val) :=
  [("Nested".toList, .ptr (.src 1) (.struct [("Inner".toList, .struct [("Name".toList, .basic "x".toList)])]))]

/-- nil `Nested`: the field is nil -/
example : Eval.callMethod pProgram 10 0 (.struct pSrcNil) [] 0 = .ok (.struct [("Name".toList, .nil)], 0) := by
  unfold Eval.callMethod
  simp [pProgram, pMethod, pPlans, pSrcNil, pTarget, evalConv, evalFields, walk, fieldOf, setField, normStruct,
    zeroVal, zeroVal.zeroFields, under, Fields.toList, Val.isAbsent, pure, StateT.pure, List.lookup]

/-- non-nil `Nested`: the field is a (new) pointer to the name -/
example : Eval.callMethod pProgram 10 0 (.struct pSrcSome) [] 0 =
    .ok (.struct [("Name".toList, .ptr (.fresh 1) (.basic "x".toList))], 2) := by
  unfold Eval.callMethod
  simp [pProgram, pMethod, pPlans, pSrcSome, pTarget, evalConv, evalFields, walk, fieldOf, setField, normStruct,
    zeroVal, zeroVal.zeroFields, under, Fields.toList, Val.isAbsent, pure, StateT.pure, bind, StateT.bind, freshLoc, List.lookup]

open Gv.Spec in
example : PathVal (.struct pSrcNil) ["Nested".toList, "Inner".toList, "Name".toList] none :=
  .field (x := .nil) rfl .ptrNil

open Gv.Spec in
example : PathVal (.struct pSrcSome) ["Nested".toList, "Inner".toList, "Name".toList] (some (.basic "x".toList)) :=
  .field (x := .ptr (.src 1) (.struct [("Inner".toList, .struct [("Name".toList, .basic "x".toList)])])) rfl
    (.ptrField (x := .struct [("Name".toList, .basic "x".toList)]) rfl (.field (x := .basic "x".toList) rfl .here))

open Gv.Typing in
example : WT pProgram.conv.env (.struct pSrcNil) (.struct pSource) :=
  WT_struct_one (tfs := pSource) rfl (by
    intro f ty hf
    simp [pSource, Fields.toList] at hf
    obtain ⟨_, rfl⟩ := hf
    exact .nilPtr (e := .struct pNested) rfl)

open Gv.Typing in
example : WT pProgram.conv.env (.struct pSrcSome) (.struct pSource) :=
  WT_struct_one (tfs := pSource) rfl (by
    intro f ty hf
    simp [pSource, Fields.toList] at hf
    obtain ⟨_, rfl⟩ := hf
    refine .ptr (e := .struct pNested) rfl (WT_struct_one (tfs := pNested) rfl ?_)
    intro f ty hf
    simp [pNested, Fields.toList] at hf
    obtain ⟨_, rfl⟩ := hf
    refine WT_struct_one (tfs := pInner) rfl ?_
    intro f ty hf
    simp [pInner, Fields.toList] at hf
    obtain ⟨_, rfl⟩ := hf
    exact .basic (k := .string) rfl)

end Gv.Props.C05
