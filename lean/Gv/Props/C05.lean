/-
C05 – field settings select sources as documented and are never silently dropped.

Model: Gv.Gen.findAllFields / findField (xtype.FindField), walkPath / mapField (builder/struct.go mapField),
structFields (Struct.Assign), Gv.Eval.walk (nil-guarded path evaluation).  Tied to the code by the C05
campaign (renamed, re-cased, flattened, pointer-nested, dropped and added fields; settings on methods that are
reused from sibling methods; unknown fields) and by the field-related scenarios of the repository.
-/
import Gv.Model.Eval
import Gv.Model.Gen
import Gv.Proofs.GenLemmas
import Gv.Proofs.UpdateSound
import Gv.Proofs.PlanCheckUSound
import Gv.Proofs.GenFields

namespace Gv.Props.C05
open Gv Gv.Str Gv.Gen Gv.Eval

/-! ### which source feeds a target field -/

/-- scanning a struct: an exact name match wins over every case-insensitive candidate, whatever the flag -/
theorem scan_exact (name : S) (ic : Bool) (pre : List FieldHit) (h : FieldHit) (post acc : List FieldHit)
    (nameOf : FieldHit → S) (hh : nameOf h = name) (hpre : ∀ x ∈ pre, nameOf x ≠ name) :
    ∃ acc', findAllFields.scan name ic nameOf (pre ++ h :: post) acc = (some h, acc') := by
  induction pre generalizing acc with
  | nil => exact ⟨acc, by simp [findAllFields.scan, hh]⟩
  | cons x xs ih =>
    have hx : (nameOf x == name) = false := by simpa using hpre x (by simp)
    simp only [List.cons_append, findAllFields.scan, hx, Bool.false_eq_true, if_false]
    split
    · exact ih (acc ++ [x]) (fun y hy => hpre y (by simp [hy]))
    · exact ih acc (fun y hy => hpre y (by simp [hy]))

/-- no candidate at all ⇒ "does not exist" (which `ignoreMissing` may turn into "leave unassigned") -/
theorem scan_none (name : S) (ic : Bool) (l acc : List FieldHit) (nameOf : FieldHit → S)
    (h : ∀ x ∈ l, nameOf x ≠ name ∧ (ic = true → equalFold (nameOf x) name = false)) :
    findAllFields.scan name ic nameOf l acc = (none, acc) := by
  induction l generalizing acc with
  | nil => rfl
  | cons x xs ih =>
    obtain ⟨h1, h2⟩ := h x (by simp)
    have hx : (nameOf x == name) = false := by simpa using h1
    simp only [findAllFields.scan, hx, Bool.false_eq_true, if_false]
    cases ic with
    | false => simpa using ih acc (fun y hy => h y (by simp [hy]))
    | true =>
      simp only [h2 rfl, Bool.and_false, Bool.false_eq_true, if_false]
      exact ih acc (fun y hy => h y (by simp [hy]))

/-- **C05_findField (uniqueness rule)**: exactly one match ⇒ it; none ⇒ NoMatch; several ⇒ ambiguous, with exact
matches (over the struct and all autoMap sources) taking precedence over case-insensitive ones -/
theorem C05_findField_rule (c : Converter) (name : S) (ic : Bool) (source : Ty) (extra : List (List S × Ty)) :
    ∃ exact icm : List (List S × FieldHit),
      findField c name ic source extra =
        (match (if exact.isEmpty then icm else exact) with
         | [(p, h)] => .one p h
         | [] => .noMatch
         | _ => .ambiguous) := by
  unfold findField
  exact ⟨_, _, rfl⟩

/-! ### dotted paths with nil intermediate pointers -/

/-- **C05_map_path_value (nil)**: a nil pointer on the path yields "no value" (the target receives nil) instead of a panic -/
theorem C05_path_nil_pointer (f : S) (rest : List S) (ds : List Bool) :
    walk (f :: rest) (true :: ds) .nil = .ok none := by
  simp [walk]

/-- a non-nil pointer on the path is dereferenced and the walk continues inside the pointee -/
theorem C05_path_through_pointer (f : S) (rest : List S) (ds : List Bool) (l : Loc) (fs : List (S × Val)) (x : Val)
    (hf : fs.lookup f = some x) :
    walk (f :: rest) (true :: ds) (.ptr l (.struct fs)) = walk rest ds x := by
  simp [walk, fieldOf, hf]

/-- a plain field step -/
theorem C05_path_field (f : S) (rest : List S) (ds : List Bool) (fs : List (S × Val)) (x : Val) (hf : fs.lookup f = some x) :
    walk (f :: rest) (false :: ds) (.struct fs) = walk rest ds x := by
  simp [walk, fieldOf, hf]

/-- `map . Target`: the empty path is the whole source -/
theorem C05_path_whole_source (v : Val) : walk [] [] v = .ok (some v) := by simp [walk]

/-! ### settings are scoped to the method's own target struct -/

/-- field settings apply only when the struct being built is the method's FieldsTarget … -/
theorem C05_scope (cx : Ctx) (target : Ty) (name : S) (h : (cx.fieldsTarget == target) = false) :
    fieldCfgOf cx target name = {} := by
  simp [fieldCfgOf, h]

/-- … and then they are the ones written on that method -/
theorem C05_scope_own (cx : Ctx) (name : S) (fc : FieldCfg) (ht : (cx.fieldsTarget == cx.fieldsTarget) = true)
    (h : cx.cfg.fields.lookup name = some fc) : fieldCfgOf cx cx.fieldsTarget name = fc := by
  simp [fieldCfgOf, ht, h]

/-! ### ignore leaves the field unassigned; unknown fields are reported -/

/-- **C05_ignore_unassigned**: an ignored target field produces no assignment -/
theorem C05_ignore_unassigned (c : Converter) (fuel : Nat) (cx : Ctx) (iu pp : Bool) (s t : Ty) (path : List PathElem)
    (extra : List (List S × Ty)) (f : FieldInfo) (fty : Ty) (rest : List (FieldInfo × Ty)) (st : GState)
    (hi : (fieldCfgOf cx t f.name).ignore = true) :
    structFields c (fuel+1) cx iu pp s t path extra ((f, fty) :: rest) st =
      (do let more ← structFields c fuel cx iu pp s t path extra rest; pure (FieldPlan.skip f.name :: more) : M (List FieldPlan)) st := by
  simp [structFields, hi, bind, StateT.bind, Except.bind, pure, StateT.pure, Except.pure]

/-- **C05_never_dropped**: a setting that names a field the target does not have makes generation fail -/
theorem C05_unknown_field_rejected (c : Converter) (fuel : Nat) (cx : Ctx) (iu pp : Bool) (s t : Ty) (path : List PathElem) (st : GState)
    (name : S) (fc : FieldCfg) (tfs : Fields) (plans : List FieldPlan) (st' : GState)
    (hauto : parseAutoMap c cx s = .ok [])
    (hts : isStruct c.env t = some tfs)
    (hft : (cx.fieldsTarget == t) = true) (hfields : cx.cfg.fields = [(name, fc)])
    (hno : tfs.toList.any (fun x => x.1.name == name) = false)
    (hplans : structFields c fuel cx iu pp s t path [] tfs.toList st = .ok (plans, st')) :
    structAssign c (fuel+1) cx iu pp s t path st = .error .unknownField := by
  unfold structAssign
  simp [hauto, hts, bind, StateT.bind, Except.bind, pure, StateT.pure, Except.pure, hplans, hft, hfields, hno, fail, throw, throwThe,
    MonadExceptOf.throw, StateT.lift]

/-! ### The composite theorem: ignored fields of a conversion are left unassigned, the others hold the images

`PlanCheck.checkProgU` is the decidable fragment test (structural plans + ignored fields + zero-value guards + update
methods).  For every program that passes, every conversion method `m` whose body is the struct conversion `plans`, every
well-typed source struct and every fuel: the result is a struct, and for the `i`-th target field `tf : tty` with plan `f`:
  * `f = .skip _` (goverter:ignore, ignoreMissing without match, ignoreUnexported): the field holds the zero value of `tty`
    — it is left unassigned in the freshly declared result variable;
  * `f = .mapped …`: the field holds the conversion of the same-named source field (`Spec.FieldOutcome`, the previous value
    being the zero value).  (Locations erased.) -/

open Gv.Typing Gv.Spec Gv.Sound in
theorem C05_composite_ignored_unassigned (p : Program) (hchk : PlanCheck.checkProgU p = true)
    (fuel m : Nat) (gm : GenMethod) (plans : FieldPlans) (upd : Bool)
    (hm : p.methods[m]? = some gm) (hb : gm.body = some (.convert (.structc plans upd)))
    (sfs tfs : Fields) (hs : under p.conv.env gm.source = .struct sfs) (ht : under p.conv.env gm.target = .struct tfs)
    (fs : List (S × Val)) (hwt : WT p.conv.env (.struct fs) gm.source) (cs : List Val) (n : Nat) (v' : Val) (n' : Nat)
    (hev : Eval.callMethod p fuel m (.struct fs) cs n = .ok (v', n')) :
    ∃ ws, v' = .struct ws ∧
      ∀ (i : Nat) (tf : FieldInfo) (tty : Ty), tfs.toList[i]? = some (tf, tty) →
        ∃ f, plans.toList[i]? = some f ∧
          (∀ nm, f = .skip nm → (erase.eraseFields ws).lookup tf.name = some (erase (zeroVal p.conv.env 63 tty))) ∧
          FieldOutcome p.conv.env (CtorSig p) gm.source (.struct fs) tf tty
            (erase.eraseFields (zeroVal.zeroFields p.conv.env 63 tfs.toList)) (erase.eraseFields ws) f := by
  obtain ⟨hnd, ws, hv', himg⟩ := convert_struct_onto p (checkProgU_sound p hchk) fuel m gm plans upd hm hb sfs tfs hs ht fs hwt
    cs n v' n' hev
  refine ⟨ws, hv', fun i tf tty hi => ?_⟩
  obtain ⟨f, hf, hout⟩ := himg.outcome i tf tty hi
  refine ⟨f, hf, fun nm hnm => ?_, hout⟩
  rw [hout.1 nm hnm, lookup_eraseFields, zeroFields_lookup_at _ 63 tfs.toList i tf tty hnd hi]
  rfl

/-! non-vacuity: a concrete conversion with an ignored field passes the check and is computed: `K` is left at zero -/

def iFields : Fields :=
  .cons { name := "A".toList, exported := true, embedded := false, pkg := [] } (.basic .int)
    (.cons { name := "K".toList, exported := true, embedded := false, pkg := [] } (.basic .int) .nil)

def iPlans : FieldPlans :=
  .cons (.mapped "A".toList ["A".toList] [false] false false .ident .none) (.cons (.skip "K".toList) .nil)

def iMethod : GenMethod :=
  { name := "Convert".toList, source := .struct iFields, target := .struct iFields, args := [], contexts := [],
    returnError := false, updateTarget := false, explicit := true, dirty := false, originPath := [], originName := [],
    cfg := { common := {} }, body := some (.convert (.structc iPlans false)) }

def iProgram : Program :=
  { conv := { env := [], common := {}, outputPkg := [], customs := [], extend := [], orc := {} }, methods := [iMethod] }

def iSrc : List (S × Val) := [("A".toList, .basic "5".toList), ("K".toList, .basic "1".toList)]

example : PlanCheck.checkProgU iProgram = true := by decide

example : Eval.callMethod iProgram 10 0 (.struct iSrc) [] 0 =
    .ok (.struct [("A".toList, .basic "5".toList), ("K".toList, .basic "0".toList)], 0) := by
  unfold Eval.callMethod
  simp [iProgram, iMethod, iPlans, iSrc, iFields, evalConv, evalFields, walk, fieldOf, setField, normStruct,
    zeroVal, zeroVal.zeroFields, zeroBasic, under, Fields.toList, Val.isAbsent, pure, StateT.pure, List.lookup]

open Gv.Typing in
example : WT iProgram.conv.env (.struct iSrc) (.struct iFields) :=
  WT_struct_of_basics (tfs := iFields) rfl
    (by intro q hq; simp [iSrc] at hq; rcases hq with rfl | rfl <;> exact ⟨_, rfl⟩)
    (by intro q hq; simp [iFields, Fields.toList] at hq; rcases hq with rfl | rfl <;> exact ⟨_, rfl⟩)

/-! ### The composite theorem for goverter:map paths

`checkProgU` accepts mapped fields whose source is an arbitrary path of field names (`goverter:map A.B.C Target`, `.` = the
empty path = the whole source) that type-checks from the source struct type (`PlanCheck.walkTy`), with the nil guards,
the guard flag and the leaf-is-pointer flag the types dictate.  `Spec.PathVal v path r` is the statement's notion of "the
value named by the path": following the field names through structs, dereferencing pointers on the way, `none` as soon as
a pointer on the way is nil.  For every checked program, every struct conversion method, every well-typed source and fuel,
the `i`-th target field `tf : tty`, mapped to `path`, receives a value `a : sty` (`Spec.FieldSrc`) such that
 (a) a nil pointer on the way (`PathVal src path none`) ⇒ `a = nil`;
 (b) the path names `x` (`PathVal src path (some x)`) ⇒ `a = x`, or — pointers crossed, `x` not a pointer — `a` is a pointer to `x`;
and the field holds the conversion of `a` to the field type (onto the zero value), unless a zero-value guard applies and `a`
is zero (then the field keeps the zero value).  (For update methods the same clauses are in `C10_composite`, with the
previous value of the field in place of the zero value.) -/

open Gv.Typing Gv.Spec Gv.Sound in
theorem C05_composite_paths (p : Program) (hchk : PlanCheck.checkProgU p = true)
    (fuel m : Nat) (gm : GenMethod) (plans : FieldPlans) (upd : Bool)
    (hm : p.methods[m]? = some gm) (hb : gm.body = some (.convert (.structc plans upd)))
    (sfs tfs : Fields) (hs : under p.conv.env gm.source = .struct sfs) (ht : under p.conv.env gm.target = .struct tfs)
    (fs : List (S × Val)) (hwt : WT p.conv.env (.struct fs) gm.source) (cs : List Val) (n : Nat) (v' : Val) (n' : Nat)
    (hev : Eval.callMethod p fuel m (.struct fs) cs n = .ok (v', n'))
    (i : Nat) (tf : FieldInfo) (tty : Ty) (hi : tfs.toList[i]? = some (tf, tty))
    (tg : S) (path : List S) (derefs : List Bool) (guarded leafIsPtr : Bool) (cv : Conv) (zero : ZeroCheck)
    (hf : plans.toList[i]? = some (.mapped tg path derefs guarded leafIsPtr cv zero)) :
    ∃ ws sty a, v' = .struct ws ∧ FieldSrc p.conv.env gm.source (.struct fs) path sty a ∧
      (PathVal (.struct fs) path none → a = .nil) ∧
      (∀ x, PathVal (.struct fs) path (some x) → a = x ∨ ∃ l, a = .ptr l x) ∧
      ((zero = .none ∨ ¬ IsZeroValue a) →
        ∃ y, (erase.eraseFields ws).lookup tf.name = some y ∧
          ImgOnto p.conv.env (CtorSig p) sty tty a (erase (zeroVal p.conv.env 63 tty)) y) ∧
      ((zero = .check ∧ IsZeroValue a) →
        (erase.eraseFields ws).lookup tf.name = some (erase (zeroVal p.conv.env 63 tty))) := by
  obtain ⟨hnd, ws, hv', himg⟩ := convert_struct_onto p (checkProgU_sound p hchk) fuel m gm plans upd hm hb sfs tfs hs ht fs hwt
    cs n v' n' hev
  obtain ⟨f, hf', hout⟩ := himg.outcome i tf tty hi
  rw [hf] at hf'
  cases hf'
  obtain ⟨sty, a, hfs, h1, h2⟩ := hout.2 tg path derefs guarded leafIsPtr cv zero rfl
  have hz : (erase.eraseFields (zeroVal.zeroFields p.conv.env 63 tfs.toList)).lookup tf.name =
      some (erase (zeroVal p.conv.env 63 tty)) := by
    rw [lookup_eraseFields, zeroFields_lookup_at _ 63 tfs.toList i tf tty hnd hi]; rfl
  rw [hz] at h1 h2
  exact ⟨ws, sty, a, hv', hfs, hfs.of_none, fun x hx => hfs.of_some hx, h1, h2⟩

/-! non-vacuity: `goverter:map Nested.Inner.Name Name` with `Nested` a pointer; the leaf `Name` is a string behind a nil
guard, so the field conversion receives a `*string` (nil when `Nested` is nil) -/

def pInner : Fields := .cons { name := "Name".toList, exported := true, embedded := false, pkg := [] } (.basic .string) .nil
def pNested : Fields := .cons { name := "Inner".toList, exported := true, embedded := false, pkg := [] } (.struct pInner) .nil
def pSource : Fields := .cons { name := "Nested".toList, exported := true, embedded := false, pkg := [] } (.ptr (.struct pNested)) .nil
def pTarget : Fields := .cons { name := "Name".toList, exported := true, embedded := false, pkg := [] } (.ptr (.basic .string)) .nil

def pPlans : FieldPlans :=
  .cons (.mapped "Name".toList ["Nested".toList, "Inner".toList, "Name".toList] [false, true, false] true false
    (.ptrPtr (.basic .string) .ident) .none) .nil

def pMethod : GenMethod :=
  { name := "Convert".toList, source := .struct pSource, target := .struct pTarget, args := [], contexts := [],
    returnError := false, updateTarget := false, explicit := true, dirty := false, originPath := [], originName := [],
    cfg := { common := {} }, body := some (.convert (.structc pPlans false)) }

def pProgram : Program :=
  { conv := { env := [], common := {}, outputPkg := [], customs := [], extend := [], orc := {} }, methods := [pMethod] }

example : PlanCheck.checkProgU pProgram = true := by decide

def pSrcNil : List (S × Val) := [("Nested".toList, .nil)]
def pSrcSome : List (S × Val) :=
  [("Nested".toList, .ptr (.src 1) (.struct [("Inner".toList, .struct [("Name".toList, .basic "x".toList)])]))]

/-- nil `Nested`: the field is nil -/
example : Eval.callMethod pProgram 10 0 (.struct pSrcNil) [] 0 = .ok (.struct [("Name".toList, .nil)], 0) := by
  unfold Eval.callMethod
  simp [pProgram, pMethod, pPlans, pSrcNil, pTarget, evalConv, evalFields, walk, fieldOf, setField, normStruct,
    zeroVal, zeroVal.zeroFields, under, Fields.toList, Val.isAbsent, pure, StateT.pure, List.lookup]

/-- non-nil `Nested`: the field is a (new) pointer to the name -/
example : Eval.callMethod pProgram 10 0 (.struct pSrcSome) [] 0 =
    .ok (.struct [("Name".toList, .ptr (.fresh 1) (.basic "x".toList))], 2) := by
  unfold Eval.callMethod
  simp [pProgram, pMethod, pPlans, pSrcSome, pTarget, evalConv, evalFields, walk, fieldOf, setField, normStruct,
    zeroVal, zeroVal.zeroFields, under, Fields.toList, Val.isAbsent, pure, StateT.pure, bind, StateT.bind, freshLoc, List.lookup]

open Gv.Spec in
example : PathVal (.struct pSrcNil) ["Nested".toList, "Inner".toList, "Name".toList] none :=
  .field (x := .nil) rfl .ptrNil

open Gv.Spec in
example : PathVal (.struct pSrcSome) ["Nested".toList, "Inner".toList, "Name".toList] (some (.basic "x".toList)) :=
  .field (x := .ptr (.src 1) (.struct [("Inner".toList, .struct [("Name".toList, .basic "x".toList)])])) rfl
    (.ptrField (x := .struct [("Name".toList, .basic "x".toList)]) rfl (.field (x := .basic "x".toList) rfl .here))

open Gv.Typing in
example : WT pProgram.conv.env (.struct pSrcNil) (.struct pSource) :=
  WT_struct_one (tfs := pSource) rfl (by
    intro f ty hf
    simp [pSource, Fields.toList] at hf
    obtain ⟨_, rfl⟩ := hf
    exact .nilPtr (e := .struct pNested) rfl)

open Gv.Typing in
example : WT pProgram.conv.env (.struct pSrcSome) (.struct pSource) :=
  WT_struct_one (tfs := pSource) rfl (by
    intro f ty hf
    simp [pSource, Fields.toList] at hf
    obtain ⟨_, rfl⟩ := hf
    refine .ptr (e := .struct pNested) rfl (WT_struct_one (tfs := pNested) rfl ?_)
    intro f ty hf
    simp [pNested, Fields.toList] at hf
    obtain ⟨_, rfl⟩ := hf
    refine WT_struct_one (tfs := pInner) rfl ?_
    intro f ty hf
    simp [pInner, Fields.toList] at hf
    obtain ⟨_, rfl⟩ := hf
    exact .basic (k := .string) rfl)

/-! ### settings → generated plan → runtime behaviour, on the fragment of unnamed structs (all depths below the root)

The ROOT struct pair `struct sfs → struct tfs` of a method (`cx.fieldsTarget = struct tfs`) whose own settings are SIMPLE
(`Gv.Spec.simpleCfg`): `goverter:ignore F`, or `goverter:map Src F` with a single source field name.  The field types are in the
fragment FS of `C03_iff_unnamed_struct_fragment` (unnamed, exported fields, nested structs – which have NO settings: they are
scoped to `FieldsTarget`, and a nested target is smaller than the root target, hence a different type).  Otherwise the
hypotheses of the struct fragment.  `Gv.Spec.ConvertibleCfg` is the documented reading, `Gv.Gen.genFCfg` the reference plan. -/

open Gv.Spec in
/-- **C05 on the fragment: the generator honours the field settings exactly.**  At the method root,
 1. generation succeeds iff every target field is ignored or covered by the source field its `map` setting (else its own name)
    names, with a convertible pair of types, and every configured name is a target field (`ConvertibleCfg`);
 2. on success the state is untouched and the plan is exactly `genFCfg`: `.skip` for an ignored field,
    `.mapped tname [sname] [false] false _ cv .none` for the others, in target order; it passes the generalised plan checker
    `checkTyU` (which accepts skipped fields and renamed single-step paths);
 3. otherwise it fails with a type mismatch below the root, `noMatch` (a target field without source), `cannotFind` (a `map`
    naming a source field that does not exist) or `unknownField` (a setting for a field the target does not have).
The hypothesis `hcorner` excludes two EMPTY structs in build position, where the Struct rule returns before looking at any
setting (builder/struct.go, "Optimization for golang sets"). -/
theorem C05_fields_fragment (c : Converter) (cx : Ctx) (st : GState) (z : Bool) (sfs tfs : Fields) (path : List PathElem)
    (fuel : Nat) (mode : Mode) (pp : Bool)
    (hs : inFSFields sfs = true) (ht : inFSFields tfs = true)
    (hfuel : 2 * (tySize (.struct sfs) + tySize (.struct tfs)) ≤ fuel) (hmode : mode.isUpdate = false)
    (hcorner : (!asgNL mode && sfs.length == 0 && tfs.length == 0) = false)
    (hext : c.extend = [])
    (hms : plainMethodsSUpTo (tySize (.struct sfs) + tySize (.struct tfs) - 1) st.methods = true)
    (hu : cx.cfg.common.useUnderlying = false) (hsk : cx.cfg.common.skipCopySameType = false)
    (hz : cx.cfg.common.useZeroValue = z) (hc : st.useCtor = false)
    (h1 : cx.cfg.common.matchIgnoreCase = false) (h2 : cx.cfg.common.ignoreMissing = false)
    (h4 : cx.cfg.autoMap = []) (h5 : cx.updateTarget = false)
    (h6 : ∀ m ∈ st.methods, m.cfg.rawFieldSettings = [] ∨ (isPtrTy m.source = false ∧ isPtrTy m.target = false))
    (hft : cx.fieldsTarget = .struct tfs) (hsimple : simpleCfg cx.cfg.fields = true) :
    ((∃ plan st', noLookup c fuel cx mode pp (.struct sfs) (.struct tfs) path st = .ok (plan, st')) ↔
      ConvertibleCfg z cx.cfg.fields sfs tfs) ∧
    (∀ plan st', noLookup c fuel cx mode pp (.struct sfs) (.struct tfs) path st = .ok (plan, st') →
        st' = st ∧ genFCfg z cx.cfg.fields (asgNL mode) sfs tfs = .ok plan ∧
        (aliasFreeFields sfs = true → aliasFreeFields tfs = true →
          arrayElemFreeFields sfs = true → structsOK (.struct tfs) = true →
          ∀ p : Eval.Program, PlanCheck.checkTyU p plan (.struct sfs) (.struct tfs) = true)) ∧
    (¬ ConvertibleCfg z cx.cfg.fields sfs tfs →
        ∃ d, noLookup c fuel cx mode pp (.struct sfs) (.struct tfs) path st = .error d ∧
          (d = .typeMismatch ∨ d = .typeMismatchPtr ∨ d = .noMatch ∨ d = .cannotFind ∨ d = .unknownField)) := by
  have hsim := noLookup_cfg_root c cx st z sfs tfs path fuel mode pp hs ht hfuel hmode hext hms hu hsk hz hc
    { noIgnoreCase := h1, noIgnoreMissing := h2, autoMap := h4, noUpdate := h5, noRaw := h6 } hft hsimple
  rw [hsim]
  refine ⟨?_, ?_, ?_⟩
  · rw [← genFCfg_ok_iff z cx.cfg.fields (asgNL mode) sfs tfs hcorner]
    constructor
    · rintro ⟨plan, st', h⟩
      cases hg : genFCfg z cx.cfg.fields (asgNL mode) sfs tfs with
      | ok q => exact ⟨q, rfl⟩
      | error d => rw [hg] at h; cases h
    · rintro ⟨q, hq⟩; exact ⟨q, st, by rw [hq]; rfl⟩
  · intro plan st' h
    cases hg : genFCfg z cx.cfg.fields (asgNL mode) sfs tfs with
    | error d => rw [hg] at h; cases h
    | ok q =>
      rw [hg] at h
      obtain ⟨rfl, rfl⟩ : q = plan ∧ st = st' := by simpa [ret] using h
      exact ⟨rfl, rfl, fun ha1 ha2 ha3 ha4 p => genFCfg_checkedU p z _ _ sfs tfs q hg hs ht ha1 ha2 ha3 ha4⟩
  · intro hn
    cases hg : genFCfg z cx.cfg.fields (asgNL mode) sfs tfs with
    | ok q => exact absurd ((genFCfg_ok_iff z _ _ sfs tfs hcorner).mp ⟨q, hg⟩) hn
    | error d => exact ⟨d, rfl, genFCfg_error z _ _ sfs tfs d hg⟩

open Gv.Spec in
/-- **the same for a whole converter with one declared `struct → struct` method carrying the settings**: `generate` (setup and
validation of the field settings, the dirty loop, `buildMethod`) succeeds iff `ConvertibleCfg`; the table is then the declared
method with body `return <genFCfg plan>`; otherwise the run fails with one of the five diagnostics and emits nothing. -/
theorem C05_fields_fragment_generate (c : Converter) (d : Declared) (z : Bool) (fuel rounds : Nat) (sfs tfs : Fields)
    (hup : d.updateTarget = false) (hctor : d.cfg.constructor = none)
    (hsrc : d.source = .struct sfs) (htgt : d.target = .struct tfs)
    (hs : inFSFields sfs = true) (ht : inFSFields tfs = true)
    (hfuel : 2 * (tySize (.struct sfs) + tySize (.struct tfs)) < fuel) (hrounds : 2 ≤ rounds)
    (hcorner : (sfs.length == 0 && tfs.length == 0) = false)
    (hext : c.extend = [])
    (hu : d.cfg.common.useUnderlying = false) (hsk : d.cfg.common.skipCopySameType = false)
    (hz : d.cfg.common.useZeroValue = z)
    (h1 : d.cfg.common.matchIgnoreCase = false) (h2 : d.cfg.common.ignoreMissing = false)
    (h4 : d.cfg.autoMap = []) (hsimple : simpleCfg d.cfg.fields = true) :
    ((∃ ms, generate c [d] fuel rounds = .ok ms) ↔ ConvertibleCfg z d.cfg.fields sfs tfs) ∧
    (∀ ms, generate c [d] fuel rounds = .ok ms →
        ∃ plan, genFCfg z d.cfg.fields false sfs tfs = .ok plan ∧
          ms = [{ declaredMethod d with dirty := false, body := some (.convert plan) }] ∧
          (aliasFreeFields sfs = true → aliasFreeFields tfs = true →
            arrayElemFreeFields sfs = true → structsOK (.struct tfs) = true →
            PlanCheck.checkProgU { conv := c, methods := ms } = true)) ∧
    (¬ ConvertibleCfg z d.cfg.fields sfs tfs →
        ∃ e, generate c [d] fuel rounds = .error e ∧
          (e = .typeMismatch ∨ e = .typeMismatchPtr ∨ e = .noMatch ∨ e = .cannotFind ∨ e = .unknownField)) := by
  have hcorner' : (!false && sfs.length == 0 && tfs.length == 0) = false := by simpa using hcorner
  rw [generate_single_cfg c d z fuel rounds sfs tfs hup hctor hsrc htgt hs ht hfuel hrounds hext hu hsk hz h1 h2 h4 hsimple,
    ← genFCfg_ok_iff z d.cfg.fields false sfs tfs hcorner']
  refine ⟨?_, ?_, ?_⟩
  · constructor
    · rintro ⟨ms, h⟩
      cases hg : genFCfg z d.cfg.fields false sfs tfs with
      | ok q => exact ⟨q, rfl⟩
      | error e => rw [hg] at h; cases h
    · rintro ⟨q, hq⟩; exact ⟨_, by rw [hq]⟩
  · intro ms h
    cases hg : genFCfg z d.cfg.fields false sfs tfs with
    | error e => rw [hg] at h; cases h
    | ok q =>
      rw [hg] at h
      simp only [Except.ok.injEq] at h
      refine ⟨q, rfl, h.symm, fun ha1 ha2 ha3 ha4 => ?_⟩
      subst h
      have hq := genFCfg_checkedU { conv := c, methods := [{ declaredMethod d with dirty := false, body := some (.convert q) }] }
        z _ false sfs tfs q hg hs ht ha1 ha2 ha3 ha4
      have hshape : ∃ plans, q = .structc plans false := by
        unfold genFCfg at hg
        simp only [hcorner', Bool.false_eq_true, if_false] at hg
        cases hgf : genFieldsCfg z d.cfg.fields sfs tfs with
        | error e => rw [hgf] at hg; cases hg
        | ok ps =>
          simp only [hgf] at hg
          split at hg
          · cases hg; exact ⟨_, rfl⟩
          · cases hg
      obtain ⟨plans, rfl⟩ := hshape
      simp [PlanCheck.checkProgU, PlanCheck.checkBodyU, PlanCheck.checkConvertU, declaredMethod, hsrc, htgt]
      simpa [declaredMethod, hsrc, htgt] using hq
  · intro hn
    cases hg : genFCfg z d.cfg.fields false sfs tfs with
    | ok q => exact absurd ⟨q, hg⟩ hn
    | error e => exact ⟨e, rfl, genFCfg_error z _ _ sfs tfs e hg⟩

open Gv.Typing Gv.Spec Gv.Sound in
/-- **C05 end to end on the fragment: from the settings (`ignore`, plain `map` renames) to the runtime behaviour, for all values.**
If `generate` succeeds for a converter with one declared `struct → struct` method with simple settings (field types anywhere in
FS; kinds alias-free, no array directly inside a list or field, every target struct non-empty with distinct field names), then
for EVERY well-typed source struct, every fuel and every outcome of evaluating the generated method the result is a struct
in which
 * every target field that the settings IGNORE holds the zero value of its type (it is left unassigned);
 * every other target field `F : tty` holds the image `y` of a value `a : sty` (`ImgOnto`, onto the zero value), where `a` is
   the value the one-step path `[Src]` names in the source (`FieldSrc`) and `Src` is the source field named by
   `goverter:map Src F`, else `F` itself;
 * in general `FieldOutcome` holds for the field's plan, which is the one `genFieldsCfg` lists. -/
theorem C05_fields_end_to_end (c : Converter) (d : Declared) (z : Bool) (fuel rounds : Nat) (sfs tfs : Fields)
    (hup : d.updateTarget = false) (hctor : d.cfg.constructor = none)
    (hsrc : d.source = .struct sfs) (htgt : d.target = .struct tfs)
    (hs : inFSFields sfs = true) (ht : inFSFields tfs = true)
    (hfuel : 2 * (tySize (.struct sfs) + tySize (.struct tfs)) < fuel) (hrounds : 2 ≤ rounds)
    (hext : c.extend = [])
    (hu : d.cfg.common.useUnderlying = false) (hsk : d.cfg.common.skipCopySameType = false)
    (hz : d.cfg.common.useZeroValue = z)
    (h1 : d.cfg.common.matchIgnoreCase = false) (h2 : d.cfg.common.ignoreMissing = false)
    (h4 : d.cfg.autoMap = []) (hsimple : simpleCfg d.cfg.fields = true)
    (ha1 : aliasFreeFields sfs = true) (ha2 : aliasFreeFields tfs = true) (ha3 : arrayElemFreeFields sfs = true)
    (ha4 : structsOK (.struct tfs) = true)
    (ms : List GenMethod) (hgen : generate c [d] fuel rounds = .ok ms) :
    ∃ ps, genFieldsCfg z d.cfg.fields sfs tfs = .ok ps ∧
      ∀ (efuel : Nat) (fs : List (S × Val)) (_ : WT c.env (.struct fs) (.struct sfs)) (cs : List Val) (n : Nat) (v' : Val) (n' : Nat),
        Eval.callMethod { conv := c, methods := ms } efuel 0 (.struct fs) cs n = .ok (v', n') →
        ∃ ws, v' = .struct ws ∧
          ∀ (i : Nat) (tf : FieldInfo) (tty : Ty), tfs.toList[i]? = some (tf, tty) →
            ((cfgOf d.cfg.fields tf.name).ignore = true →
              (erase.eraseFields ws).lookup tf.name = some (erase (zeroVal c.env 63 tty))) ∧
            ((cfgOf d.cfg.fields tf.name).ignore = false →
              ∃ sty a y, FieldSrc c.env (.struct sfs) (.struct fs) [srcName (cfgOf d.cfg.fields tf.name) tf.name] sty a ∧
                (erase.eraseFields ws).lookup tf.name = some y ∧
                ImgOnto c.env (CtorSig { conv := c, methods := ms }) sty tty a (erase (zeroVal c.env 63 tty)) y) ∧
            ∃ f, ps[i]? = some f ∧
              FieldOutcome c.env (CtorSig { conv := c, methods := ms }) (.struct sfs) (.struct fs) tf tty
                (erase.eraseFields (zeroVal.zeroFields c.env 63 tfs.toList)) (erase.eraseFields ws) f := by
  have hne : (sfs.length == 0 && tfs.length == 0) = false := by
    simp only [structsOK, Bool.and_eq_true] at ha4
    cases tfs <;> simp_all [Fields.length]
  have hG := C05_fields_fragment_generate c d z fuel rounds sfs tfs hup hctor hsrc htgt hs ht hfuel hrounds hne hext hu hsk hz h1 h2
    h4 hsimple
  obtain ⟨plan, hplan, hms, hchk⟩ := hG.2.1 ms hgen
  have hchk := hchk ha1 ha2 ha3 ha4
  -- the plan is a struct node over the field plans
  unfold genFCfg at hplan
  have hne' : (!false && sfs.length == 0 && tfs.length == 0) = false := by simpa using hne
  simp only [hne', Bool.false_eq_true, if_false] at hplan
  cases hgf : genFieldsCfg z d.cfg.fields sfs tfs with
  | error e => rw [hgf] at hplan; cases hplan
  | ok ps =>
    simp only [hgf] at hplan
    split at hplan
    · cases hplan
      refine ⟨ps, rfl, ?_⟩
      intro efuel fs hwt cs n v' n' hev
      subst hms
      have hsu : under c.env (Ty.struct sfs) = .struct sfs := rfl
      have htu : under c.env (Ty.struct tfs) = .struct tfs := rfl
      obtain ⟨ws, hv, hall⟩ := C05_composite_ignored_unassigned
        { conv := c, methods := [{ declaredMethod d with dirty := false, body := some (.convert (.structc (FieldPlans.ofList ps) false)) }] }
        hchk efuel 0 _ (FieldPlans.ofList ps) false rfl rfl sfs tfs
        (by simp [declaredMethod, hsrc, under]) (by simp [declaredMethod, htgt, under]) fs
        (by simpa [declaredMethod, hsrc] using hwt) cs n v' n' hev
      refine ⟨ws, hv, fun i tf tty hi => ?_⟩
      obtain ⟨f, hf, hskip, hout⟩ := hall i tf tty hi
      rw [toList_ofList] at hf
      refine ⟨fun hig => ?_, fun hig => ?_, f, hf, by simpa [declaredMethod, hsrc] using hout⟩
      · have := genFieldsCfg_skip_at z d.cfg.fields sfs tfs ps hgf i tf tty hi hig
        rw [hf] at this
        exact hskip tf.name (by simpa using this)
      · obtain ⟨sty, cv, _, _, hmp⟩ := genFieldsCfg_mapped_at z d.cfg.fields sfs tfs ps hgf i tf tty hi hig
        obtain ⟨ws', sty', a, hv'', hfs, _, _, himg, _⟩ := C05_composite_paths
          { conv := c, methods := [{ declaredMethod d with dirty := false, body := some (.convert (.structc (FieldPlans.ofList ps) false)) }] }
          hchk efuel 0 _ (FieldPlans.ofList ps) false rfl rfl sfs tfs
          (by simp [declaredMethod, hsrc, under]) (by simp [declaredMethod, htgt, under]) fs
          (by simpa [declaredMethod, hsrc] using hwt) cs n v' n' hev i tf tty hi _ _ _ _ _ _ _
          (by rw [toList_ofList]; exact hmp)
        have hws : ws' = ws := by rw [hv] at hv''; cases hv''; rfl
        subst hws
        obtain ⟨y, hy, him⟩ := himg (.inl rfl)
        exact ⟨sty', a, y, by simpa [declaredMethod, hsrc] using hfs, hy, him⟩
    · cases hplan

/-! non-vacuity: `Convert(struct{Name string; Age int; Extra bool}) struct{Title string; Age int; Extra bool}` with
`goverter:map Name Title` and `goverter:ignore Extra`: generated, with exactly the expected plan; with a setting for a field the
target does not have it is rejected with `unknownField`; the ignore-only variant satisfies every hypothesis of the end-to-end
theorem -/

def fld (n : String) : FieldInfo := { name := n.toList, exported := true, embedded := false, pkg := [] }
def cSrc : Fields := .cons (fld "Name") (.basic .string) (.cons (fld "Age") (.basic .int) (.cons (fld "Extra") (.basic .bool) .nil))
def cTgt : Fields := .cons (fld "Title") (.basic .string) (.cons (fld "Age") (.basic .int) (.cons (fld "Extra") (.basic .bool) .nil))
def cConverter : Converter := { env := [], common := {}, outputPkg := [], customs := [], extend := [], orc := {} }
def cDecl (src tgt : Fields) (fields : List (S × FieldCfg)) : Declared :=
  { name := "Convert".toList, source := .struct src, target := .struct tgt,
    args := [{ name := "source".toList, use := .source, ty := .struct src }], contexts := [], returnError := false,
    updateTarget := false,
    cfg := { common := {}, fields := fields, rawFieldSettings := ["map Name Title".toList, "ignore Extra".toList] } }
def cCfg : List (S × FieldCfg) := [("Title".toList, { source := "Name".toList }), ("Extra".toList, { ignore := true })]

open Gv.Spec in
example : generate cConverter [cDecl cSrc cTgt cCfg] =
    .ok [{ declaredMethod (cDecl cSrc cTgt cCfg) with dirty := false, body := some (.convert (.structc
      (.cons (.mapped "Title".toList ["Name".toList] [false] false false .ident .none)
        (.cons (.mapped "Age".toList ["Age".toList] [false] false false .ident .none)
          (.cons (.skip "Extra".toList) .nil))) false)) }] := by
  rw [generate_single_cfg cConverter (cDecl cSrc cTgt cCfg) false 200 64 cSrc cTgt rfl rfl rfl rfl (by decide) (by decide) (by decide)
    (by decide) rfl rfl rfl rfl rfl rfl rfl (by decide)]
  have hg : genFCfg false cCfg false cSrc cTgt = .ok (.structc
      (.cons (.mapped "Title".toList ["Name".toList] [false] false false .ident .none)
        (.cons (.mapped "Age".toList ["Age".toList] [false] false false .ident .none)
          (.cons (.skip "Extra".toList) .nil))) false) := by
    simp [genFCfg, genFieldsCfg, cCfg, cSrc, cTgt, cfgOf, srcName, fieldTy, fld, Fields.length, genF_basic, cfgKnown, isPtrTy,
      FieldPlans.ofList, List.lookup]
  show (match genFCfg false cCfg false cSrc cTgt with | .ok plan => _ | .error e => _) = _
  rw [hg]

open Gv.Spec in
/-- a setting that names no target field makes generation fail -/
example : generate cConverter [cDecl cSrc cTgt (cCfg ++ [("Nope".toList, { ignore := true })])] = .error .unknownField := by
  rw [generate_single_cfg cConverter _ false 200 64 cSrc cTgt rfl rfl rfl rfl (by decide) (by decide) (by decide)
    (by decide) rfl rfl rfl rfl rfl rfl rfl (by decide)]
  have hg : genFCfg false (cCfg ++ [("Nope".toList, { ignore := true })]) false cSrc cTgt = .error .unknownField := by
    simp [genFCfg, genFieldsCfg, cCfg, cSrc, cTgt, cfgOf, srcName, fieldTy, fld, Fields.length, genF_basic, cfgKnown, isPtrTy,
      List.lookup]
  show (match genFCfg false (cCfg ++ [("Nope".toList, { ignore := true })]) false cSrc cTgt with | .ok plan => _ | .error e => _) = _
  rw [hg]

open Gv.Spec in
/-- the ignore-only configuration `ignore Extra` on `struct{Age; Extra} → struct{Age; Extra}` meets every hypothesis of
`C05_fields_end_to_end` and is generated -/
example :
    let src : Fields := .cons (fld "Age") (.basic .int) (.cons (fld "Extra") (.basic .bool) .nil)
    let d := cDecl src src [("Extra".toList, { ignore := true })]
    simpleCfg d.cfg.fields = true ∧ aliasFreeFields src = true ∧ arrayElemFreeFields src = true ∧
      structsOK (.struct src) = true ∧ inFSFields src = true ∧ ∃ ms, generate cConverter [d] = .ok ms := by
  intro src d
  refine ⟨by decide, by decide, by decide, by decide, by decide, ?_⟩
  have h := C05_fields_fragment_generate cConverter d false 200 64 src src rfl rfl rfl rfl (by decide) (by decide) (by decide) (by decide)
    (by decide) rfl rfl rfl rfl rfl rfl rfl (by decide)
  apply h.1.mpr
  exact ⟨.mapped (sty := .basic .int) (by decide) (by simp [fieldTy, srcName, cfgOf, fld, src, d, cDecl, List.lookup]) (.basic rfl)
    (.ignored (by simp [cfgOf, d, cDecl, fld, List.lookup]) .nil), by decide⟩

open Gv.Spec in
/-- the configuration `map Name Title` + `ignore Extra` meets every hypothesis of `C05_fields_end_to_end` -/
example : simpleCfg (cDecl cSrc cTgt cCfg).cfg.fields = true ∧ aliasFreeFields cSrc = true ∧ aliasFreeFields cTgt = true ∧
    arrayElemFreeFields cSrc = true ∧ structsOK (.struct cTgt) = true ∧ inFSFields cSrc = true ∧ inFSFields cTgt = true := by
  decide

end Gv.Props.C05
