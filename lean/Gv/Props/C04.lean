/-
C04 – conversions deep-copy by default and never modify or race on the source.

Model: Gv.Gen (which rule produces which plan node) + Gv.Eval (locations of the result).  Sharing with the
source can only come from the `ident` node (the source expression passed on as it is); containers are always
re-made and pointers re-addressed from fresh locations.  Tied to the code by the C04 campaign (address
labelling on sharing-rich inputs, source snapshot before/after, -race with 8 goroutines in the thorough tier).
-/
import Gv.Model.Gen
import Gv.Model.Eval
import Gv.Proofs.GenLemmas
import Gv.Props.C02
import Gv.Proofs.Fresh
import Gv.Proofs.FreshS

namespace Gv.Props.C04
open Gv Gv.Gen Gv.Eval

/-- no package-level state is emitted: only Id (raw user code), Comment, Type, Func and Add (funcs) reach the file -/
theorem tie_no_package_state : Facts.appendGeneratedFileCalls = ["Id", "Comment", "Type", "Func", "Add"] := by decide

/-! ### evaluation: fresh locations, and `ident` as the only way to share -/

/-- the plan IR has exactly one node that hands the source's own cells to the result -/
theorem C04_ident_shares (p : Program) (fr : Frame) (fuel : Nat) (src old : Val) (n : Nat) :
    evalConv p (fuel+1) fr .ident src old n = .ok (src, n) := C02.C02_ident p fr fuel src old n

/-- a converted pointer never points to a cell of the source: its location is allocated by this call -/
theorem C04_ptr_fresh (p : Program) (fr : Frame) (fuel : Nat) (te : Ty) (inner : Conv) (l : Loc) (x old v : Val) (n n' : Nat)
    (h : evalConv p fuel { fr with parent := some (.ptr l x) } inner x (zeroVal p.conv.env 64 te) n = .ok (v, n')) :
    ∃ k, evalConv p (fuel+1) fr (.ptrPtr te inner) (.ptr l x) old n = .ok (.ptr (.fresh k) v, k + 1) ∧ ∀ m, Loc.fresh k ≠ Loc.src m :=
  ⟨n', C02.C02_ptr_nonnil p fr fuel te inner l x old v n n' h, fun m => by simp⟩

theorem C04_value_ptr_fresh (p : Program) (fr : Frame) (fuel : Nat) (te : Ty) (inner : Conv) (src old v : Val) (n n' : Nat)
    (h : evalConv p fuel { fr with parent := none } inner src (zeroVal p.conv.env 64 te) n = .ok (v, n')) :
    ∃ k, evalConv p (fuel+1) fr (.tgtPtr te inner) src old n = .ok (.ptr (.fresh k) v, k + 1) ∧ ∀ m, Loc.fresh k ≠ Loc.src m :=
  ⟨n', C02.C02_value_to_ptr_nonnil p fr fuel te inner src old v n n' h, fun m => by simp⟩

/-! ### generation: without skipCopySameType containers and pointers are re-made; with it, only identical types are shared -/

section
variable (c : Converter) (fuel : Nat) (cx : Ctx) (pp : Bool) (path : List PathElem) (st st' : GState) (r : Conv)

macro "open_rules" h:ident : tactic => `(tactic|
  simp [isStruct, isPtr, isBasic, isList, isMap, under, isEnumPair, enumMembers, bind, StateT.bind, Except.bind,
    pure, Except.pure, StateT.pure, get, getThe, MonadStateOf.get, StateT.get, *] at $h:ident)

/-- slice → slice is always a re-made slice (nil guard + make + element loop), never the source slice -/
theorem C04_slice_remade (se te : Ty)
    (hu : cx.cfg.common.useUnderlying = false) (hs : cx.cfg.common.skipCopySameType = false)
    (h : noLookup c (fuel+1) cx .build pp (.slice se) (.slice te) path st = .ok (r, st')) :
    ∃ elem, r = .list te true true elem := by
  unfold noLookup at h
  open_rules h
  split at h
  · cases h
  · rename_i x _
    obtain ⟨elem, s1⟩ := x
    simp at h
    exact ⟨elem, h.1.symm⟩

/-- with skipCopySameType identical types are passed on as they are … -/
theorem C04_skipcopy_shares_identical (e : Ty) (he : (Ty.slice e == Ty.slice e) = true)
    (hu : cx.cfg.common.useUnderlying = false) (hs : cx.cfg.common.skipCopySameType = true) :
    noLookup c (fuel+1) cx .build pp (.slice e) (.slice e) path st = .ok (.ident, st) := by
  unfold noLookup
  simp [isStruct, isPtr, isBasic, isList, isMap, under, isEnumPair, enumMembers, bind, StateT.bind, Except.bind,
    pure, Except.pure, StateT.pure, get, getThe, MonadStateOf.get, StateT.get, hu, hs, he]

/-- … and different types are still re-made -/
theorem C04_skipcopy_different_types_remade (se te : Ty) (hne : (Ty.slice se == Ty.slice te) = false)
    (hu : cx.cfg.common.useUnderlying = false)
    (h : noLookup c (fuel+1) cx .build pp (.slice se) (.slice te) path st = .ok (r, st')) :
    ∃ elem, r = .list te true true elem := by
  unfold noLookup at h
  open_rules h
  split at h
  · cases h
  · rename_i x _
    obtain ⟨elem, s1⟩ := x
    simp at h
    exact ⟨elem, h.1.symm⟩

end

/-! ### The composite theorem: the result of a checked structural program is made of cells allocated during the call

For every program whose plans pass `PlanCheck.checkProg` (default settings, no custom function, no skipCopySameType: the
driver evaluates the check on every generated plan of the campaign), every method, every well-typed source value of any
size, depth and internal sharing, and any fuel: each reference cell (pointer target, slice backing array, map) of the result
was allocated during the call, and no cell occurs twice in the result. Hence nothing mutable is reachable from both the
source and the result. -/

open Gv.Typing Gv.Sound in
theorem C04_composite (p : Program) (hchk : PlanCheck.checkProg p = true)
    (fuel m : Nat) (s t : Ty) (v : Val) (n : Nat) (v' : Val) (n' : Nat)
    (hsig : sigOf p m = some (s, t)) (hwt : WT p.conv.env v s)
    (hev : callMethod p fuel m v [] n = .ok (v', n')) :
    AllocL n n' (allLocs v') :=
  callMethod_fresh p (checkProg_sound p hchk) fuel m s t v n v' n' hsig hwt hev

open Gv.Typing Gv.Sound in
/-- no cell of the caller's input (locations `src k`) is part of the result -/
theorem C04_no_source_cell (p : Program) (hchk : PlanCheck.checkProg p = true)
    (fuel m : Nat) (s t : Ty) (v : Val) (n : Nat) (v' : Val) (n' : Nat)
    (hsig : sigOf p m = some (s, t)) (hwt : WT p.conv.env v s)
    (hev : callMethod p fuel m v [] n = .ok (v', n')) (k : Nat) : Loc.src k ∉ allLocs v' := by
  intro hmem
  obtain ⟨_, h2, _⟩ := C04_composite p hchk fuel m s t v n v' n' hsig hwt hev
  obtain ⟨j, hj, _, _⟩ := h2 _ hmem
  cases hj

open Gv.Typing Gv.Sound in
/-- source and result share no cell, whatever the source is made of, as long as its cells are the caller's -/
theorem C04_disjoint (p : Program) (hchk : PlanCheck.checkProg p = true)
    (fuel m : Nat) (s t : Ty) (v : Val) (n : Nat) (v' : Val) (n' : Nat)
    (hsig : sigOf p m = some (s, t)) (hwt : WT p.conv.env v s)
    (hsrc : ∀ l, l ∈ allLocs v → ∃ k, l = .src k)
    (hev : callMethod p fuel m v [] n = .ok (v', n')) : ∀ l, l ∈ allLocs v' → l ∉ allLocs v := by
  intro l hl hl'
  obtain ⟨k, rfl⟩ := hsrc l hl'
  exact C04_no_source_cell p hchk fuel m s t v n v' n' hsig hwt hev k hl

open Gv.Typing Gv.Sound in
/-- the result is a tree: no cell is reachable along two paths (so mutating one part never changes another) -/
theorem C04_result_unshared (p : Program) (hchk : PlanCheck.checkProg p = true)
    (fuel m : Nat) (s t : Ty) (v : Val) (n : Nat) (v' : Val) (n' : Nat)
    (hsig : sigOf p m = some (s, t)) (hwt : WT p.conv.env v s)
    (hev : callMethod p fuel m v [] n = .ok (v', n')) : (allLocs v').Nodup :=
  (C04_composite p hchk fuel m s t v n v' n' hsig hwt hev).2.2

/-- non-vacuity: for the example program of C02 the result's cells are the two allocated ones -/
example : Gv.Sound.allLocs Gv.Props.C02.exResult = [.fresh 0, .fresh 1] := by
  simp [Gv.Sound.allLocs, Gv.Sound.allLocs.locsFields, Gv.Sound.allLocs.locsList, Gv.Props.C02.exResult]

/-! ### The composite theorem with skipCopySameType: sharing occurs only at positions with identical types

With skipCopySameType the generator emits `.ident` (the source expression itself) at every position whose source and target
types are identical – slices, maps, pointers, structs, named types, not only basic types.  `PlanCheckS.checkProgS` is the
checker of the structural fragment extended by exactly these nodes (`.ident` at `s == t`).  For every program it accepts,
every method, every well-typed source value made of cells that exist before the call (the caller's cells `src k`, or cells
`fresh k` allocated earlier, `k < n`), and any fuel: each reference cell of the result is EITHER allocated during the call
(counter interval `[n, n')`) OR a cell of the source that lies in the sub-value which an `.ident` node at a position with
identical source and target types received (`Sound.SharedCall` / `Sound.SharedAt`: the walk along the plan over the source
value down to that node); and no cell allocated during the call occurs twice in the result. -/

open Gv.Typing Gv.Sound in
theorem C04_skipcopy_composite (p : Program) (hchk : PlanCheckS.checkProgS p = true)
    (fuel m : Nat) (s t : Ty) (v : Val) (n : Nat) (v' : Val) (n' : Nat)
    (hsig : sigOf p m = some (s, t)) (hwt : WT p.conv.env v s)
    (hsrc : ∀ l, l ∈ allLocs v → ∀ k, l = .fresh k → k < n)
    (hev : callMethod p fuel m v [] n = .ok (v', n')) :
    n ≤ n' ∧
    (∀ l, l ∈ allLocs v' → (∃ k, l = .fresh k ∧ n ≤ k ∧ k < n') ∨ (l ∈ allLocs v ∧ SharedCall p m v l)) ∧
    ((allLocs v').filter (isNew n)).Nodup :=
  callMethod_freshS p (checkProgS_sound p hchk) fuel m s t v n v' n' hsig hwt (oldL_of_lt hsrc) hev

open Gv.Typing Gv.Sound in
/-- a cell that is both in the result and in the source got there through a sharing position: an `.ident` node at identical
source and target types whose input (a sub-value of the source) contains the cell -/
theorem C04_skipcopy_sharing_only_identical (p : Program) (hchk : PlanCheckS.checkProgS p = true)
    (fuel m : Nat) (s t : Ty) (v : Val) (n : Nat) (v' : Val) (n' : Nat)
    (hsig : sigOf p m = some (s, t)) (hwt : WT p.conv.env v s)
    (hsrc : ∀ l, l ∈ allLocs v → ∀ k, l = .fresh k → k < n)
    (hev : callMethod p fuel m v [] n = .ok (v', n'))
    (l : Loc) (hres : l ∈ allLocs v') (hin : l ∈ allLocs v) : SharedCall p m v l := by
  obtain ⟨_, h2, _⟩ := C04_skipcopy_composite p hchk fuel m s t v n v' n' hsig hwt hsrc hev
  rcases h2 l hres with ⟨k, rfl, hk, _⟩ | ⟨_, hsh⟩
  · have := hsrc _ hin k rfl
    omega
  · exact hsh

open Gv.Typing Gv.Sound in
/-- the cells the walk to a sharing position finds are cells of the source, and the node it ends in is `.ident` at
identical types (the only constructor of `SharedAt` that does not descend) -/
theorem C04_shared_cell_is_source_cell (p : Program) (m : Nat) (v : Val) (l : Loc) (h : SharedCall p m v l) : l ∈ allLocs v := by
  obtain ⟨gm, c, _, _, h⟩ := h
  exact h.mem_src

open Gv.Typing Gv.Sound in
theorem C04_shared_at_ident_identical (p : Program) (s t : Ty) (v : Val) (l : Loc) (h : SharedAt p .ident s t v l) :
    s = t ∧ l ∈ allLocs v := by
  cases h with
  | ident hl => exact ⟨rfl, hl⟩

open Gv.Typing Gv.Sound in
/-- without a sharing position (`progHasShare p = false`: no `.ident` at identical non-basic types in any method body) the
extended checker is the old one and the old statement holds: every cell of the result is allocated during the call, once -/
theorem C04_no_skipcopy_no_sharing (p : Program) (hchk : PlanCheckS.checkProgS p = true)
    (hno : PlanCheckS.progHasShare p = false)
    (fuel m : Nat) (s t : Ty) (v : Val) (n : Nat) (v' : Val) (n' : Nat)
    (hsig : sigOf p m = some (s, t)) (hwt : WT p.conv.env v s)
    (hev : callMethod p fuel m v [] n = .ok (v', n')) :
    AllocL n n' (allLocs v') :=
  C04_composite p ((checkProg_iff_checkProgS_noShare p).2 ⟨hchk, hno⟩) fuel m s t v n v' n' hsig hwt hev

/-- the old fragment is the extended one without sharing positions -/
theorem C04_checkProg_iff (p : Program) :
    PlanCheck.checkProg p = true ↔ (PlanCheckS.checkProgS p = true ∧ PlanCheckS.progHasShare p = false) :=
  Gv.Sound.checkProg_iff_checkProgS_noShare p

open Gv.Typing Gv.Sound in
/-- the same from the composite: if no cell of the source is at a sharing position, nothing is shared -/
theorem C04_skipcopy_no_shared_cell (p : Program) (hchk : PlanCheckS.checkProgS p = true)
    (fuel m : Nat) (s t : Ty) (v : Val) (n : Nat) (v' : Val) (n' : Nat)
    (hsig : sigOf p m = some (s, t)) (hwt : WT p.conv.env v s)
    (hsrc : ∀ l, l ∈ allLocs v → ∀ k, l = .fresh k → k < n)
    (hno : ∀ l, l ∈ allLocs v → ¬ SharedCall p m v l)
    (hev : callMethod p fuel m v [] n = .ok (v', n')) :
    AllocL n n' (allLocs v') :=
  allocS_noShare (callMethod_freshS p (checkProgS_sound p hchk) fuel m s t v n v' n' hsig hwt (oldL_of_lt hsrc) hev) hno

open Gv.Typing Gv.Sound in
/-- a cell of a well-typed source at a sharing position (in particular: a cell that is both in the result and in the source)
exists only in a program whose plans contain a sharing position in the sense of the checker (`.ident` at identical
non-basic types) -/
theorem C04_skipcopy_shared_cell_has_position (p : Program) (hchk : PlanCheckS.checkProgS p = true)
    (m : Nat) (s t : Ty) (v : Val) (hsig : sigOf p m = some (s, t)) (hwt : WT p.conv.env v s)
    (l : Loc) (h : SharedCall p m v l) : PlanCheckS.progHasShare p = true :=
  sharedCall_progHasShare (checkProgS_sound p hchk) hsig hwt h

/-! non-vacuity: a struct with two `[]int` fields, `A` passed on as it is (`.ident` at identical types: skipCopySameType),
`B` converted by a list node -/

def exSFields : Fields :=
  .cons { name := "A".toList, exported := true, embedded := false, pkg := [] } (.slice (.basic .int))
    (.cons { name := "B".toList, exported := true, embedded := false, pkg := [] } (.slice (.basic .int)) .nil)

def exSPlan : Conv :=
  .structc (.cons (.mapped "A".toList ["A".toList] [false] false false .ident .none)
    (.cons (.mapped "B".toList ["B".toList] [false] false false (.list (.basic .int) true true .ident) .none) .nil)) false

def exSMethod : GenMethod :=
  { name := "Convert".toList, source := .struct exSFields, target := .struct exSFields, args := [], contexts := [],
    returnError := false, updateTarget := false, explicit := true, dirty := false, originPath := [], originName := [],
    cfg := { common := {} }, body := some (.convert exSPlan) }

def exSProgram : Program :=
  { conv := { env := [], common := {}, outputPkg := [], customs := [], extend := [], orc := {} }, methods := [exSMethod] }

/-- accepted by the extended checker, with a sharing position, and not by the old checker -/
example : PlanCheckS.checkProgS exSProgram = true := by decide
example : PlanCheckS.progHasShare exSProgram = true := by decide
example : PlanCheck.checkProg exSProgram = false := by decide

def exSValue : Val :=
  .struct [("A".toList, .slice (.src 1) [.basic "1".toList, .basic "2".toList]),
           ("B".toList, .slice (.src 2) [.basic "3".toList])]

def exSResult : Val :=
  .struct [("A".toList, .slice (.src 1) [.basic "1".toList, .basic "2".toList]),
           ("B".toList, .slice (.fresh 0) [.basic "3".toList])]

/-- the conversion succeeds: `A`'s slice is the source's (location `src 1`), `B`'s is re-made (location `fresh 0`) -/
example : Eval.callMethod exSProgram 10 0 exSValue [] 0 = .ok (exSResult, 1) := by
  unfold Eval.callMethod
  simp [exSProgram, exSMethod, exSPlan, exSValue, exSResult, exSFields, evalConv, evalFields, evalElems, walk, fieldOf, setField,
    normStruct, zeroVal, zeroVal.zeroFields, under, Fields.toList, Val.isAbsent, bind, StateT.bind, pure, StateT.pure, freshLoc,
    List.lookup]

example : Gv.Sound.allLocs exSValue = [.src 1, .src 2] := by
  simp [Gv.Sound.allLocs, Gv.Sound.allLocs.locsFields, Gv.Sound.allLocs.locsList, exSValue]

example : Gv.Sound.allLocs exSResult = [.src 1, .fresh 0] := by
  simp [Gv.Sound.allLocs, Gv.Sound.allLocs.locsFields, Gv.Sound.allLocs.locsList, exSResult]

/-- the cells of the source exist before the call (hypothesis `hsrc` of the composite) -/
example : ∀ l, l ∈ Gv.Sound.allLocs exSValue → ∀ k, l = .fresh k → k < 0 := by
  intro l hl k hk
  subst hk
  simp [Gv.Sound.allLocs, Gv.Sound.allLocs.locsFields, Gv.Sound.allLocs.locsList, exSValue] at hl

open Gv.Typing in
/-- `exSValue` is a well-typed value of the source type -/
example : WT [] exSValue (.struct exSFields) := by
  refine .struct (tfs := exSFields) rfl ?_
  intro name x f ty hl hf
  by_cases hA : name = "A".toList
  · subst hA
    simp [List.lookup] at hl
    simp [exSFields, Fields.toList] at hf
    obtain ⟨_, rfl⟩ := hf; subst hl
    refine .slice (e := .basic .int) rfl ?_
    intro v hv
    simp at hv
    rcases hv with rfl | rfl <;> exact .basic (k := .int) rfl
  · by_cases hB : name = "B".toList
    · subst hB
      simp [List.lookup] at hl
      simp [exSFields, Fields.toList, List.find?] at hf
      obtain ⟨_, rfl⟩ := hf; subst hl
      refine .slice (e := .basic .int) rfl ?_
      intro v hv
      simp at hv
      subst hv
      exact .basic (k := .int) rfl
    · exfalso
      have h1 : (name == ['A']) = false := by simpa using hA
      have h2 : (name == ['B']) = false := by simpa using hB
      simp [List.lookup] at hl
      simp [h1, h2] at hl

open Gv.Sound in
/-- the shared cell `src 1` is at a sharing position: field `A`, `.ident` at `[]int → []int` -/
example : SharedCall exSProgram 0 exSValue (.src 1) := by
  refine ⟨exSMethod, exSPlan, rfl, rfl, ?_⟩
  refine .structc (sfs := exSFields) (tfs := exSFields) rfl rfl ?_
  simp only [exSFields, Fields.toList]
  refine SharedAtFields.here (tf := { name := "A".toList, exported := true, embedded := false, pkg := [] }) (sf := { name := "A".toList, exported := true, embedded := false, pkg := [] })
    (sty := .slice (.basic .int)) (x := .slice (.src 1) [.basic "1".toList, .basic "2".toList]) rfl ?_ ?_ ?_
  · rfl
  · rfl
  · exact .ident (by simp [allLocs, allLocs.locsList])

open Gv.Sound in
/-- … while `B`'s source cell `src 2` is at no sharing position (the list node re-makes the slice) -/
example : ¬ SharedCall exSProgram 0 exSValue (.src 2) := by
  rintro ⟨gm, c, hm, hb, h⟩
  have hgm : gm = exSMethod := by simpa [exSProgram] using hm.symm
  subst hgm
  have hc : c = exSPlan := by simpa [exSMethod] using hb.symm
  subst hc
  unfold exSPlan exSValue at h
  cases h with
  | @structc _ _ sfs tfs _ _ _ _ h1 h2 hf =>
    have e1 : sfs = exSFields := by simpa [exSMethod, exSProgram, under] using h1.symm
    have e2 : tfs = exSFields := by simpa [exSMethod, exSProgram, under] using h2.symm
    subst e1; subst e2
    generalize hsl : exSFields.toList = sl at hf
    cases hf with
    | here htn _ hx h =>
      rw [← htn] at hx
      simp [List.lookup] at hx
      subst hx
      cases h with
      | ident hl => simp [allLocs, allLocs.locsList] at hl
    | there hf =>
      cases hf with
      | here htn _ hx h =>
        rw [← htn] at hx
        simp [List.lookup] at hx
        subst hx
        cases h with
        | slice _ _ hx h =>
          simp at hx
          subst hx
          cases h with
          | ident hl => simp [allLocs] at hl
      | there hf => cases hf

/-! non-vacuity with a method call: field `A` is converted by a call of method 1, whose body is `.ident` at `[]int → []int` -/

def exCFields : Fields :=
  .cons { name := "A".toList, exported := true, embedded := false, pkg := [] } (.slice (.basic .int)) .nil

def exCPlan : Conv :=
  .structc (.cons (.mapped "A".toList ["A".toList] [false] false false
    (.call (.method 1) [.source] false { mode := .none, path := [] }) .none) .nil) false

def exCProgram : Program :=
  { conv := { env := [], common := {}, outputPkg := [], customs := [], extend := [], orc := {} },
    methods := [
      { name := "Convert".toList, source := .struct exCFields, target := .struct exCFields, args := [], contexts := [],
        returnError := false, updateTarget := false, explicit := true, dirty := false, originPath := [], originName := [],
        cfg := { common := {} }, body := some (.convert exCPlan) },
      { name := "ints".toList, source := .slice (.basic .int), target := .slice (.basic .int), args := [], contexts := [],
        returnError := false, updateTarget := false, explicit := false, dirty := false, originPath := [], originName := [],
        cfg := { common := {} }, body := some (.convert .ident) }] }

example : PlanCheckS.checkProgS exCProgram = true := by decide
example : PlanCheckS.progHasShare exCProgram = true := by decide

def exCValue : Val := .struct [("A".toList, .slice (.src 1) [.basic "1".toList])]

/-- the slice of the result is the source's: shared through the called method -/
example : Eval.callMethod exCProgram 10 0 exCValue [] 0 = .ok (exCValue, 0) := by
  unfold Eval.callMethod
  simp [exCProgram, exCPlan, exCValue, exCFields, Eval.callMethod, evalConv, evalFields, walk, fieldOf, setField,
    normStruct, zeroVal, zeroVal.zeroFields, under, Fields.toList, Val.isAbsent, bind, StateT.bind, pure, StateT.pure,
    List.lookup, List.filterMapM, List.filterMapM.loop, argOf]

open Gv.Sound in
example : SharedCall exCProgram 0 exCValue (.src 1) := by
  refine ⟨_, exCPlan, rfl, rfl, ?_⟩
  refine .structc (sfs := exCFields) (tfs := exCFields) rfl rfl ?_
  simp only [exCFields, Fields.toList]
  refine SharedAtFields.here (tf := { name := "A".toList, exported := true, embedded := false, pkg := [] })
    (sf := { name := "A".toList, exported := true, embedded := false, pkg := [] })
    (sty := .slice (.basic .int)) (x := .slice (.src 1) [.basic "1".toList]) rfl ?_ ?_ ?_
  · rfl
  · rfl
  · exact .call (c := .ident) (m := 1) rfl rfl rfl rfl (.ident (by simp [allLocs, allLocs.locsList]))

/-! ### end to end on the unnamed (struct) fragment: the generated method deep-copies, for all values -/

open Gv.Typing Gv.Sound Gv.Spec in
/-- **C04 end to end on FS.**  For a converter with one declared method on the fragment FS (hypotheses of
`C02_end_to_end_unnamed_struct_fragment`): if `generate` succeeds, every reference cell of whatever the generated method returns
was allocated during the call, no cell occurs twice, and no cell of the caller's input is part of the result – without the
run-time plan check (`checkProg` of the generated table is `Gv.Gen.generate_sound_struct_fragment`). -/
theorem C04_end_to_end_unnamed_struct_fragment (c : Converter) (d : Declared) (z : Bool) (fuel rounds : Nat)
    (hup : d.updateTarget = false) (hraw : d.cfg.rawFieldSettings = []) (hctor : d.cfg.constructor = none)
    (hs : inFS d.source = true) (ht : inFS d.target = true)
    (hfuel : 2 * (tySize d.source + tySize d.target) < fuel) (hrounds : 2 ≤ rounds)
    (hext : c.extend = [])
    (hu : d.cfg.common.useUnderlying = false) (hsk : d.cfg.common.skipCopySameType = false)
    (hz : d.cfg.common.useZeroValue = z)
    (h1 : d.cfg.common.matchIgnoreCase = false) (h2 : d.cfg.common.ignoreMissing = false)
    (h3 : d.cfg.fields = []) (h4 : d.cfg.autoMap = [])
    (ha1 : aliasFree d.source = true) (ha2 : aliasFree d.target = true) (ha3 : arrayElemFree false d.source = true)
    (ha4 : structsOK d.target = true)
    (ms : List GenMethod) (hgen : generate c [d] fuel rounds = .ok ms)
    (efuel : Nat) (v : Val) (n : Nat) (v' : Val) (n' : Nat) (hwt : WT c.env v d.source)
    (hev : callMethod { conv := c, methods := ms } efuel 0 v [] n = .ok (v', n')) :
    AllocL n n' (allLocs v') ∧ ∀ k, Loc.src k ∉ allLocs v' := by
  obtain ⟨hchk, hsig, _⟩ := generate_sound_struct_fragment c d z fuel rounds hup hraw hctor hs ht hfuel hrounds hext hu hsk hz
    h1 h2 h3 h4 ha1 ha2 ha3 ha4 ms hgen
  exact ⟨C04_composite { conv := c, methods := ms } hchk efuel 0 d.source d.target v n v' n' hsig hwt hev,
    C04_no_source_cell { conv := c, methods := ms } hchk efuel 0 d.source d.target v n v' n' hsig hwt hev⟩

end Gv.Props.C04
