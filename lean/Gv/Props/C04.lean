/-
C04 – conversions deep-copy by default and never modify or race on the source.

Model: Gv.Gen (which rule produces which plan node) + Gv.Eval (locations of the result).  Sharing with the
source can only come from the `ident` node (the source expression passed on as it is); containers are always
re-made and pointers re-addressed from fresh locations.  Tied to the code by the C04 campaign (address
labelling on sharing-rich inputs, source snapshot before/after, -race with 8 goroutines in the thorough tier).
-/
import Gv.Model.Gen
import Gv.Model.Eval
import Gv.Proofs.GenLemmas
import Gv.Props.C02
import Gv.Proofs.Fresh

namespace Gv.Props.C04
open Gv Gv.Gen Gv.Eval

/-- no package-level state is emitted: only Id (raw user code), Comment, Type, Func and Add (funcs) reach the file -/
theorem tie_no_package_state : Facts.appendGeneratedFileCalls = ["Id", "Comment", "Type", "Func", "Add"] := by decide

/-! ### evaluation: fresh locations, and `ident` as the only way to share -/

/-- the plan IR has exactly one node that hands the source's own cells to the result -/
theorem C04_ident_shares (p : Program) (fr : Frame) (fuel : Nat) (src old : Val) (n : Nat) :
    evalConv p (fuel+1) fr .ident src old n = .ok (src, n) := C02.C02_ident p fr fuel src old n

/-- a converted pointer never points to a cell of the source: its location is allocated by this call -/
theorem C04_ptr_fresh (p : Program) (fr : Frame) (fuel : Nat) (te : Ty) (inner : Conv) (l : Loc) (x old v : Val) (n n' : Nat)
    (h : evalConv p fuel { fr with parent := some (.ptr l x) } inner x (zeroVal p.conv.env 64 te) n = .ok (v, n')) :
    ∃ k, evalConv p (fuel+1) fr (.ptrPtr te inner) (.ptr l x) old n = .ok (.ptr (.fresh k) v, k + 1) ∧ ∀ m, Loc.fresh k ≠ Loc.src m :=
  ⟨n', C02.C02_ptr_nonnil p fr fuel te inner l x old v n n' h, fun m => by simp⟩

theorem C04_value_ptr_fresh (p : Program) (fr : Frame) (fuel : Nat) (te : Ty) (inner : Conv) (src old v : Val) (n n' : Nat)
    (h : evalConv p fuel { fr with parent := none } inner src (zeroVal p.conv.env 64 te) n = .ok (v, n')) :
    ∃ k, evalConv p (fuel+1) fr (.tgtPtr te inner) src old n = .ok (.ptr (.fresh k) v, k + 1) ∧ ∀ m, Loc.fresh k ≠ Loc.src m :=
  ⟨n', C02.C02_value_to_ptr_nonnil p fr fuel te inner src old v n n' h, fun m => by simp⟩

/-! ### generation: without skipCopySameType containers and pointers are re-made; with it, only identical types are shared -/

section
variable (c : Converter) (fuel : Nat) (cx : Ctx) (pp : Bool) (path : List PathElem) (st st' : GState) (r : Conv)

macro "open_rules" h:ident : tactic => `(tactic|
  simp [isStruct, isPtr, isBasic, isList, isMap, under, isEnumPair, enumMembers, bind, StateT.bind, Except.bind,
    pure, Except.pure, StateT.pure, get, getThe, MonadStateOf.get, StateT.get, *] at $h:ident)

/-- slice → slice is always a re-made slice (nil guard + make + element loop), never the source slice -/
theorem C04_slice_remade (se te : Ty)
    (hu : cx.cfg.common.useUnderlying = false) (hs : cx.cfg.common.skipCopySameType = false)
    (h : noLookup c (fuel+1) cx .build pp (.slice se) (.slice te) path st = .ok (r, st')) :
    ∃ elem, r = .list te true true elem := by
  unfold noLookup at h
  open_rules h
  split at h
  · cases h
  · rename_i x _
    obtain ⟨elem, s1⟩ := x
    simp at h
    exact ⟨elem, h.1.symm⟩

/-- with skipCopySameType identical types are passed on as they are … -/
theorem C04_skipcopy_shares_identical (e : Ty) (he : (Ty.slice e == Ty.slice e) = true)
    (hu : cx.cfg.common.useUnderlying = false) (hs : cx.cfg.common.skipCopySameType = true) :
    noLookup c (fuel+1) cx .build pp (.slice e) (.slice e) path st = .ok (.ident, st) := by
  unfold noLookup
  simp [isStruct, isPtr, isBasic, isList, isMap, under, isEnumPair, enumMembers, bind, StateT.bind, Except.bind,
    pure, Except.pure, StateT.pure, get, getThe, MonadStateOf.get, StateT.get, hu, hs, he]

/-- … and different types are still re-made -/
theorem C04_skipcopy_different_types_remade (se te : Ty) (hne : (Ty.slice se == Ty.slice te) = false)
    (hu : cx.cfg.common.useUnderlying = false)
    (h : noLookup c (fuel+1) cx .build pp (.slice se) (.slice te) path st = .ok (r, st')) :
    ∃ elem, r = .list te true true elem := by
  unfold noLookup at h
  open_rules h
  split at h
  · cases h
  · rename_i x _
    obtain ⟨elem, s1⟩ := x
    simp at h
    exact ⟨elem, h.1.symm⟩

end

/-! ### The composite theorem: the result of a checked structural program is made of cells allocated during the call

For every program whose plans pass `PlanCheck.checkProg` (default settings, no custom function, no skipCopySameType: the
driver evaluates the check on every generated plan of the campaign), every method, every well-typed source value of any
size, depth and internal sharing, and any fuel: each reference cell (pointer target, slice backing array, map) of the result
was allocated during the call, and no cell occurs twice in the result. Hence nothing mutable is reachable from both the
source and the result. -/

open Gv.Typing Gv.Sound in
theorem C04_composite (p : Program) (hchk : PlanCheck.checkProg p = true)
    (fuel m : Nat) (s t : Ty) (v : Val) (n : Nat) (v' : Val) (n' : Nat)
    (hsig : sigOf p m = some (s, t)) (hwt : WT p.conv.env v s)
    (hev : callMethod p fuel m v [] n = .ok (v', n')) :
    AllocL n n' (allLocs v') :=
  callMethod_fresh p (checkProg_sound p hchk) fuel m s t v n v' n' hsig hwt hev

open Gv.Typing Gv.Sound in
/-- no cell of the caller's input (locations `src k`) is part of the result -/
theorem C04_no_source_cell (p : Program) (hchk : PlanCheck.checkProg p = true)
    (fuel m : Nat) (s t : Ty) (v : Val) (n : Nat) (v' : Val) (n' : Nat)
    (hsig : sigOf p m = some (s, t)) (hwt : WT p.conv.env v s)
    (hev : callMethod p fuel m v [] n = .ok (v', n')) (k : Nat) : Loc.src k ∉ allLocs v' := by
  intro hmem
  obtain ⟨_, h2, _⟩ := C04_composite p hchk fuel m s t v n v' n' hsig hwt hev
  obtain ⟨j, hj, _, _⟩ := h2 _ hmem
  cases hj

open Gv.Typing Gv.Sound in
/-- source and result share no cell, whatever the source is made of, as long as its cells are the caller's -/
theorem C04_disjoint (p : Program) (hchk : PlanCheck.checkProg p = true)
    (fuel m : Nat) (s t : Ty) (v : Val) (n : Nat) (v' : Val) (n' : Nat)
    (hsig : sigOf p m = some (s, t)) (hwt : WT p.conv.env v s)
    (hsrc : ∀ l, l ∈ allLocs v → ∃ k, l = .src k)
    (hev : callMethod p fuel m v [] n = .ok (v', n')) : ∀ l, l ∈ allLocs v' → l ∉ allLocs v := by
  intro l hl hl'
  obtain ⟨k, rfl⟩ := hsrc l hl'
  exact C04_no_source_cell p hchk fuel m s t v n v' n' hsig hwt hev k hl

open Gv.Typing Gv.Sound in
/-- the result is a tree: no cell is reachable along two paths (so mutating one part never changes another) -/
theorem C04_result_unshared (p : Program) (hchk : PlanCheck.checkProg p = true)
    (fuel m : Nat) (s t : Ty) (v : Val) (n : Nat) (v' : Val) (n' : Nat)
    (hsig : sigOf p m = some (s, t)) (hwt : WT p.conv.env v s)
    (hev : callMethod p fuel m v [] n = .ok (v', n')) : (allLocs v').Nodup :=
  (C04_composite p hchk fuel m s t v n v' n' hsig hwt hev).2.2

/-- non-vacuity: for the example program of C02 the result's cells are the two allocated ones -/
example : Gv.Sound.allLocs Gv.Props.C02.exResult = [.fresh 0, .fresh 1] := by
  simp [Gv.Sound.allLocs, Gv.Sound.allLocs.locsFields, Gv.Sound.allLocs.locsList, Gv.Props.C02.exResult]

end Gv.Props.C04
