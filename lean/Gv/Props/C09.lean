/-
C09 – output is deterministic and independent of environment and previous runs.

Go randomises map iteration per process.  Every `range` over a map in non-test code is listed by the
fact extractor together with a syntactic summary of its loop body; the list must equal the reviewed
table below (a new or changed loop breaks `tie_sites`).  Each class of use is shown to be independent
of the iteration order (the order is an arbitrary permutation).  The C09 campaign runs the binary
repeatedly, with permuted/duplicated patterns, -cwd, relocated and over previous output, on inputs
with several simultaneous faults.
-/
import Gv.Model.Facts
import Gv.Proofs.PermLemmas
import Gv.Props.C16
import Gv.Proofs.PathLemmas

namespace Gv.Props.C09
open Gv.Perm

/-- how a loop over a map uses its entries -/
inductive Use
  | sortedAfter      -- collected, then sorted before any use
  | setInsert        -- only inserts into a map/set (distinct keys)
  | quantifier       -- `if … { return false }` : a universal check
  | sortedByCaller   -- collected unsorted; every caller sorts or only tests existence
  | perEntryIO       -- one independent file per entry
  | trustedLoad      -- order of patterns handed to go/packages (result used as a map by package path)
  | commutingUpdates -- every entry triggers an update of the state; updates for different entries commute (flags, one fixed value added once)
  deriving Repr, DecidableEq

/-- the reviewed sites: (site|body summary, class) -/
def reviewed : List (String × Use) := [
  ("builder.MethodContext.DefinedEnumFields#1:ctx.Conf.EnumMapping.Map|insert", .setInsert),
  ("builder.MethodContext.DefinedFields#1:ctx.Conf.Fields|insert", .setInsert),
  ("builder.executeTransformers#1:m|insert", .setInsert),
  ("builder.sortedKeys#1:m|append:keys,sorted", .sortedAfter),
  ("cli.Run#1:opts.EnumTransformers|insert", .setInsert),
  ("config.getPackages#1:c.Methods|call:registerMethodLines", .setInsert),
  ("config.getPackages#2:lookup|append:pkgs", .trustedLoad),
  ("config.parseMethods#1:rawConverter.Methods|append:names,sorted", .sortedAfter),
  ("enum.transformRegex#1:ctx.Source.Members|insert", .setInsert),
  ("generator.fileManager.renderFiles#1:m.Files|append:names,sorted", .sortedAfter),   -- D38: was a direct range with an early return
  ("generator.generator.addContext#1:g.callers[check.Definition]|cond-call:g.addContext+setflag:Dirty=true", .commutingUpdates),
  ("generator.generator.markCallersDirty#1:g.callers[def]|setflag:Dirty=true", .commutingUpdates),
  ("generator.validateMethods#1:lookup.Exact|append:genMethods,sorted", .sortedAfter),
  ("goverter.writeFiles#1:files|append:paths,sorted", .sortedAfter),   -- D38: was a direct range with an early return
  ("method.AvailableContextDebug#1:required|append:lines,sorted+insert", .sortedAfter),
  ("method.Index.GetAll#1:l.Exact|append:items", .sortedByCaller),
  ("method.satisfiesContext#1:required|return-false", .quantifier),
  ("xtype.Enum.SortedMembers#1:e.Members|append:m,sorted", .sortedAfter),
  ("xtype.UsageChecker.Unused#1:u|append:keys,sorted", .sortedAfter),
  ("xtype.UsageFromMap#1:value|insert", .setInsert)]

/-- **tie**: the map-range loops of the code are exactly the reviewed ones, with unchanged bodies -/
theorem tie_sites : Facts.mapRangeSites = reviewed.map (·.1) := by decide

variable {α : Type}

/-- a linear order given as a Boolean comparison (Go's string order is one) -/
structure LinOrd (le : α → α → Bool) : Prop where
  total : ∀ a b, le a b || le b a
  trans : ∀ a b c, le a b = true → le b c = true → le a c = true
  antisymm : ∀ a b, le a b = true → le b a = true → a = b

/-- **sortedAfter / sortedByCaller**: what is computed from the sorted list (the reported key, the
emission order of methods, the order variables are parsed in) does not depend on the iteration order -/
theorem C09_sorted_sites (le : α → α → Bool) (o : LinOrd le) (σ σ' : List α) (h : σ.Perm σ') :
    σ.mergeSort le = σ'.mergeSort le :=
  mergeSort_perm_eq le o.total o.trans o.antisymm σ σ' h

/-- in particular the single diagnostic chosen among several candidates (unknown fields, unknown enum
keys, faulty variables, methods with misplaced field settings) is the same in every run -/
theorem C09_reported_candidate (le : α → α → Bool) (o : LinOrd le) (σ σ' : List α) (h : σ.Perm σ') :
    (σ.mergeSort le).head? = (σ'.mergeSort le).head? := by
  rw [C09_sorted_sites le o σ σ' h]

/-- the behaviour BEFORE the fix: committing to the first entry in iteration order is order dependent -/
theorem C09_first_in_iteration_order_is_not_stable :
    ∃ σ σ' : List Nat, σ.Perm σ' ∧ σ.head? ≠ σ'.head? :=
  ⟨[1, 2], [2, 1], List.Perm.swap 2 1 [], by decide⟩

/-- **setInsert**: membership in the built set, and every lookup in the built map (distinct keys),
are independent of the insertion order -/
theorem C09_insert_sites_set [BEq α] [LawfulBEq α] (σ σ' : List α) (h : σ.Perm σ') (x : α) :
    σ.contains x = σ'.contains x := contains_perm σ σ' h x

theorem C09_insert_sites_map {β} [BEq α] [LawfulBEq α] (σ σ' : List (α × β)) (h : σ.Perm σ')
    (nodup : (σ.map (·.1)).Nodup) (k : α) : σ.lookup k = σ'.lookup k := lookup_perm σ σ' h nodup k

/-- **quantifier** (`satisfiesContext`) -/
theorem C09_quantifier_site (p : α → Bool) (σ σ' : List α) (h : σ.Perm σ') : σ.all p = σ'.all p :=
  all_perm p σ σ' h

/-- **commutingUpdates** (`markCallersDirty`, `addContext`): each visited caller is flagged for a rebuild, resp. gets ONE fixed
context argument added unless it has it already; such updates commute, so folding them over the callers in any iteration order
gives the same state -/
theorem C09_commuting_updates {σ : Type} (f : σ → α → σ) (comm : ∀ s a b, f (f s a) b = f (f s b) a)
    (l l' : List α) (h : l.Perm l') (s : σ) : l.foldl f s = l'.foldl f s := by
  induction h generalizing s with
  | nil => rfl
  | cons x _ ih => exact ih (f s x)
  | swap x y l => simp only [List.foldl_cons]; rw [comm]
  | trans _ _ ih1 ih2 => exact (ih1 s).trans (ih2 s)

/-- setting a flag on the visited entry is such an update (the model of `x.Dirty = true` on a table of flags) -/
theorem C09_setflag_commutes (s : List Bool) (a b : Nat) :
    (s.set a true).set b true = (s.set b true).set a true := by
  by_cases h : a = b
  · subst h; rfl
  · exact List.set_comm true true h

/-- **C09_patterns_perm_dup**: go/packages returns every matched root package once, so permuting or
duplicating the patterns permutes the root list; ParseDocs visits the roots sorted by ID -/
theorem C09_patterns_perm_dup (le : α → α → Bool) (o : LinOrd le) (roots roots' : List α) (h : roots.Perm roots') :
    roots.mergeSort le = roots'.mergeSort le := mergeSort_perm_eq le o.total o.trans o.antisymm roots roots' h

/-- **C09_history_independent**: prior outputs are excluded by the load tags (C16), so they cannot
influence the run -/
theorem C09_history_independent {R} (gen : List Constraint.SrcFile → R) (tags : List Str.S)
    (tree prior : List Constraint.SrcFile)
    (h : ∀ f ∈ prior, ∃ c, f.constraint = some c ∧ Constraint.eval tags c = false) :
    gen (Constraint.loadable tags (tree ++ prior)) = gen (Constraint.loadable tags tree) :=
  Gv.Props.C16.C16_regenerate gen tags tree prior h

/-- non-vacuity: the natural numbers with ≤ are such an order, and sorting removes the order dependence -/
example : LinOrd (fun a b : Nat => decide (a ≤ b)) :=
  ⟨fun a b => by simp; omega, fun a b c h1 h2 => by simp at *; omega, fun a b h1 h2 => by simp at *; omega⟩

/-! ### relocation of the module (paths move with the module)

`Path.NormalAbs r` : `r` is "/" followed by components that are non-empty, not ".", not ".." and '/'-free, separated by single
slashes (what `filepath.Abs`/`os.Getwd` return, other than "/").  `Path.NoEscape q` : resolving `q` component by component never
climbs above the directory it starts in.  `Path.relTail q` depends on `q` only. -/

/-- **C09_relocation_join**: joining a relative path onto the module root gives the root followed by a tail that does not depend
on the root; so moving the module from `r` to `r'` replaces the prefix `r` by `r'` and changes nothing else -/
theorem C09_relocation_join (r r' q : Str.S) (hr : Path.NormalAbs r) (hr' : Path.NormalAbs r') (hq : Path.NoEscape q) :
    Path.join2 r q = r ++ Path.relTail q ∧ Path.join2 r' q = r' ++ Path.relTail q :=
  Path.join2_relocate r r' q hr hr' hq

/-- the tail is "/" ++ `clean q`, or empty when `q` cleans to "." -/
theorem C09_relocation_join_clean (r q : Str.S) (hr : Path.NormalAbs r) (hq : Path.NoEscape q) (hrel : Path.isAbs q = false) :
    Path.join2 r q = if Path.clean q = ['.'] then r else r ++ '/' :: Path.clean q :=
  Path.join2_root_clean r q hr hq hrel

/-- `filepath.Abs` of a relative path under a relocated working directory -/
theorem C09_relocation_abs (wd wd' q : Str.S) (hr : Path.NormalAbs wd) (hr' : Path.NormalAbs wd') (hq : Path.NoEscape q)
    (hrel : Path.isAbs q = false) :
    Path.abs wd q = wd ++ Path.relTail q ∧ Path.abs wd' q = wd' ++ Path.relTail q := by
  simp only [Path.abs, hrel, Bool.false_eq_true, if_false]
  exact Path.join2_relocate wd wd' q hr hr' hq

/-- **C09_relocation_output_path**: the output path of a converter declared in `<root>/relDecl` with a relative `output:file f`
is the root followed by a tail that is a function of `relDecl` and `f` only -/
theorem C09_relocation_output_path (r r' relDecl f : Str.S) (hr : Path.NormalAbs r) (hr' : Path.NormalAbs r')
    (hf : Path.isAbs f = false) (hne : Path.NoEscape (Path.lastSlashPrefix relDecl ++ f)) :
    Layout.outputPath (r ++ '/' :: relDecl) f = r ++ Path.relTail (Path.lastSlashPrefix relDecl ++ f) ∧
    Layout.outputPath (r' ++ '/' :: relDecl) f = r' ++ Path.relTail (Path.lastSlashPrefix relDecl ++ f) :=
  ⟨Path.outputPath_root r relDecl f hr hf hne, Path.outputPath_root r' relDecl f hr' hf hne⟩

/-- the package of a relative output file does not depend on where the declaring file is -/
theorem C09_relocation_package (declFile declFile' pkg f : Str.S) (hf : Path.isAbs f = false) :
    Layout.resolvePackage declFile pkg f = Layout.resolvePackage declFile' pkg f := by
  simp [Layout.resolvePackage, hf]

/-- non-vacuity -/
example : Path.NormalAbs "/home/a/mod".toList ∧ Path.NormalAbs "/tmp/x/y".toList ∧
    Path.NoEscape "pkg/../gen/./out.go".toList ∧ Path.isAbs "pkg/../gen/./out.go".toList = false ∧
    Path.relTail "pkg/../gen/./out.go".toList = "/gen/out.go".toList ∧
    Path.join2 "/home/a/mod".toList "pkg/../gen/./out.go".toList = "/home/a/mod/gen/out.go".toList ∧
    Path.join2 "/tmp/x/y".toList "pkg/../gen/./out.go".toList = "/tmp/x/y/gen/out.go".toList := by decide

/-- non-vacuity: `output:file ../gen/out.go` next to `pkg/sub/input.go` (the file setting alone escapes its start, the combined
relative path does not) -/
example : Path.NoEscape (Path.lastSlashPrefix "pkg/sub/input.go".toList ++ "../gen/out.go".toList) ∧
    ¬ Path.NoEscape "../gen/out.go".toList ∧
    Path.relTail (Path.lastSlashPrefix "pkg/sub/input.go".toList ++ "../gen/out.go".toList) = "/pkg/gen/out.go".toList ∧
    Layout.outputPath "/home/a/mod/pkg/sub/input.go".toList "../gen/out.go".toList = "/home/a/mod/pkg/gen/out.go".toList ∧
    Layout.outputPath "/tmp/x/y/pkg/sub/input.go".toList "../gen/out.go".toList = "/tmp/x/y/pkg/gen/out.go".toList := by decide

/-- the hypothesis is needed: a path that climbs above the root sees the root's own components -/
example : Path.join2 "/home/a/mod".toList "../../x".toList = "/home/x".toList ∧
    Path.join2 "/tmp/x/y".toList "../../x".toList = "/tmp/x".toList := by decide

end Gv.Props.C09
