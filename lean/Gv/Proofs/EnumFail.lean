/-
The failure direction of the enum builder model (Gv.Gen.enumAction / enumCases / enumPlan): defining equations of the
monadic functions as plain `match`es on `Except`, what `ReturnError` does to the state, first-failure decomposition of the
member loop, the invariants of a successful loop (distinct case values, agreement of equal-valued members, consumed keys).
Used by the C08 failure theorems.
-/
import Gv.Proofs.EnumLemmas
set_option linter.unusedSimpArgs false

namespace Gv.EnumFail
open Gv Gv.Str Gv.Gen Gv.EnumLemmas

theorem M_bind_eq {α β} (x : M α) (f : α → M β) (st : GState) :
    (x >>= f) st = match x st with | .ok (a, s) => f a s | .error e => .error e := by
  show (StateT.bind x f) st = _
  unfold StateT.bind
  cases x st with
  | ok v => rfl
  | error e => rfl

theorem M_pure_eq {α} (a : α) (st : GState) : (pure a : M α) st = .ok (a, st) := rfl
theorem M_fail_eq {α} (d : Diag) (st : GState) : (fail d : M α) st = .error d := rfl

theorem enumPlan_eq (c : Converter) (cx : Ctx) (s t : Ty) (path : List PathElem) (st : GState) :
    enumPlan c cx s t path st =
      match enumMembers c cx.cfg.common s with
      | none => .error (.unsupported "enum source")
      | some sm =>
      match enumMembers c cx.cfg.common t with
      | none => .error (.unsupported "enum target")
      | some tm =>
      match enumTransformers c sm tm cx.cfg.transformers [] with
      | .error e => .error e
      | .ok tmap =>
      match enumCases cx path tm tmap sm { remaining := if cx.fieldsTarget == t then cx.cfg.enumMap.map (·.1) else [] } st with
      | .error e => .error e
      | .ok (acc, s2) =>
      if cx.cfg.common.enumUnknown.isEmpty then .error .enumUnknownMissing
      else match enumAction cx path tm cx.cfg.common.enumUnknown s2 with
      | .error e => .error e
      | .ok (dflt, s3) =>
      if acc.remaining.isEmpty then .ok (.enumc acc.cases dflt, s3) else .error .enumKeyMissing := by
  unfold enumPlan
  cases enumMembers c cx.cfg.common s with
  | none => rfl
  | some sm =>
    cases enumMembers c cx.cfg.common t with
    | none => rfl
    | some tm =>
      simp only []
      rw [M_bind_eq]
      cases enumTransformers c sm tm cx.cfg.transformers [] with
      | error e => rfl
      | ok tmap =>
        simp only [M_pure_eq]
        rw [M_bind_eq]
        cases enumCases cx path tm tmap sm { remaining := if cx.fieldsTarget == t then cx.cfg.enumMap.map (·.1) else [] } st with
        | error e => rfl
        | ok v =>
          obtain ⟨acc, s2⟩ := v
          simp only []
          split
          · rfl
          · rw [M_bind_eq]
            cases enumAction cx path tm cx.cfg.common.enumUnknown s2 with
            | error e => rfl
            | ok v =>
              obtain ⟨dflt, s3⟩ := v
              simp only []
              cases acc.remaining.isEmpty <;> rfl

theorem enumAction_eq (cx : Ctx) (path : List PathElem) (tm : List ConstDecl) (n : S) (st : GState) :
    enumAction cx path tm n st =
      if Settings.isEnumAction n then
        if n == "@ignore".toList then .ok (.ignore, st)
        else if n == "@panic".toList then .ok (.panic, st)
        else if n == "@error".toList then
          match returnError cx st with
          | .error e => .error e
          | .ok (true, s1) => .ok (.error (wrapOf cx path), s1)
          | .ok (false, _) => .error .enumErrorNotAllowed
        else .error .enumInvalidTarget
      else match tm.find? (·.name == n) with
        | some td => .ok (.member n td.val, st)
        | none => .error .enumTargetMissing := by
  unfold enumAction
  split
  · split
    · rfl
    · split
      · rfl
      · split
        · rw [M_bind_eq]
          cases returnError cx st with
          | error e => rfl
          | ok v =>
            obtain ⟨b, s1⟩ := v
            cases b <;> rfl
        · rfl
  · cases List.find? (fun x => x.name == n) tm <;> rfl

theorem enumCases_nil_eq (cx : Ctx) (path : List PathElem) (tm : List ConstDecl) (tmap : List (S × S)) (acc : EnumAcc) (st : GState) :
    enumCases cx path tm tmap [] acc st = .ok (acc, st) := by
  unfold enumCases; rfl

theorem enumCases_cons_eq (cx : Ctx) (path : List PathElem) (tm : List ConstDecl) (tmap : List (S × S))
    (sd : ConstDecl) (rest : List ConstDecl) (acc : EnumAcc) (st : GState) :
    enumCases cx path tm tmap (sd :: rest) acc st =
      match enumAction cx path tm (chooseEnumTarget cx.cfg.enumMap tmap sd.name) st with
      | .error e => .error e
      | .ok (act, s1) =>
        match acc.seenVals.find? (fun p => p.1 == sd.val) with
        | some (_, prev) =>
          if enumMismatch tm (chooseEnumTarget cx.cfg.enumMap tmap sd.name) prev then .error .enumMismatch
          else enumCases cx path tm tmap rest { acc with remaining := acc.remaining.filter (· != sd.name) } s1
        | none =>
          enumCases cx path tm tmap rest
            { cases := acc.cases ++ [(sd.name, sd.val, act)],
              seenVals := acc.seenVals ++ [(sd.val, chooseEnumTarget cx.cfg.enumMap tmap sd.name)],
              remaining := acc.remaining.filter (· != sd.name) } s1 := by
  conv => lhs; unfold enumCases
  simp only []
  rw [M_bind_eq]
  cases enumAction cx path tm (chooseEnumTarget cx.cfg.enumMap tmap sd.name) st with
  | error e => rfl
  | ok v =>
    obtain ⟨act, s1⟩ := v
    simp only []
    cases hf : List.find? (fun (p : ConstVal × S) => p.1 == sd.val) acc.seenVals with
    | none => rfl
    | some vp =>
      obtain ⟨v, prev⟩ := vp
      simp only []
      split <;> rfl

theorem getMethod_eq (i : Nat) (st : GState) :
    getMethod i st = match st.methods[i]? with
      | some m => .ok (m, st)
      | none => .error (.unsupported "bad method index") := by
  unfold getMethod
  rw [M_bind_eq]
  show (match (Except.ok (st, st) : Except Diag (GState × GState)) with | .ok (a, s) => _ | .error e => Except.error e) = _
  simp only []
  cases st.methods[i]? <;> rfl

theorem returnError_eq (cx : Ctx) (st : GState) :
    returnError cx st =
      match st.methods[cx.self]? with
      | none => .error (.unsupported "bad method index")
      | some m => if m.returnError then .ok (true, st) else returnError.walk (cx.self :: m.originPath) st := by
  unfold returnError
  rw [M_bind_eq, getMethod_eq]
  cases st.methods[cx.self]? with
  | none => rfl
  | some m =>
    simp only []
    cases m.returnError <;> rfl

/-! ### `generator.ReturnError` -/

/-- what `ReturnError` does to one generated method that does not return an error yet -/
def flagRet (i : Nat) (st : GState) : GState :=
  let s1 : GState := { st with methods := st.methods.modify i (fun m => { m with returnError := true, dirty := true }) }
  { s1 with methods := markDirty s1.callers i s1.methods }

theorem walk_nil_eq (st : GState) : returnError.walk [] st = .ok (true, st) := by
  unfold returnError.walk; rfl

theorem walk_cons_eq (i : Nat) (rest : List Nat) (st : GState) :
    returnError.walk (i :: rest) st =
      match st.methods[i]? with
      | none => .error (.unsupported "bad method index")
      | some m =>
        if m.explicit && !m.returnError then .ok (false, st)
        else if !m.returnError then returnError.walk rest (flagRet i st)
        else returnError.walk rest st := by
  conv => lhs; unfold returnError.walk
  rw [M_bind_eq, getMethod_eq]
  cases st.methods[i]? with
  | none => rfl
  | some m =>
    simp only []
    split
    · rfl
    · split
      · rfl
      · rfl
/-- method `k` exists and returns an error -/
def RetErr (k : Nat) (st : GState) : Prop := ∃ m, st.methods[k]? = some m ∧ m.returnError = true

theorem markDirty_get (cs : List (Nat × Nat)) (i : Nat) :
    ∀ (ms : List GenMethod) (k : Nat) (m : GenMethod), ms[k]? = some m →
      ∃ m', (markDirty cs i ms)[k]? = some m' ∧ m'.returnError = m.returnError ∧ m'.explicit = m.explicit := by
  unfold markDirty
  induction cs with
  | nil => intro ms k m h; exact ⟨m, h, rfl, rfl⟩
  | cons p rest ih =>
    intro ms k m h
    simp only [List.foldl_cons]
    split
    · by_cases hk : p.2 = k
      · have : (ms.modify p.2 (fun m => { m with dirty := true }))[k]? = some { m with dirty := true } := by
          rw [List.getElem?_modify, h]; simp [hk]
        obtain ⟨m', h1, h2, h3⟩ := ih _ k _ this
        exact ⟨m', h1, h2, h3⟩
      · have : (ms.modify p.2 (fun m => { m with dirty := true }))[k]? = some m := by
          rw [List.getElem?_modify_ne _ _ hk, h]
        exact ih _ k _ this
    · exact ih ms k m h

theorem flagRet_keeps (i k : Nat) (st : GState) (h : RetErr k st) : RetErr k (flagRet i st) := by
  obtain ⟨m, hm, hr⟩ := h
  unfold flagRet
  simp only []
  have : ∃ m1, (st.methods.modify i (fun m => { m with returnError := true, dirty := true }))[k]? = some m1 ∧ m1.returnError = true := by
    rw [List.getElem?_modify, hm]
    by_cases hik : i = k
    · exact ⟨{ m with returnError := true, dirty := true }, by simp [hik], rfl⟩
    · exact ⟨m, by simp [hik], hr⟩
  obtain ⟨m1, h1, h1r⟩ := this
  obtain ⟨m', h2, h3, _⟩ := markDirty_get st.callers i _ k m1 h1
  exact ⟨m', h2, by rw [h3, h1r]⟩

theorem flagRet_sets (i : Nat) (st : GState) (m : GenMethod) (h : st.methods[i]? = some m) : RetErr i (flagRet i st) := by
  unfold flagRet
  simp only []
  have h1 : (st.methods.modify i (fun m => { m with returnError := true, dirty := true }))[i]? = some { m with returnError := true, dirty := true } := by
    rw [List.getElem?_modify_eq, h]; rfl
  obtain ⟨m', h2, h3, _⟩ := markDirty_get st.callers i _ i _ h1
  exact ⟨m', h2, by rw [h3]⟩

theorem walk_error (ids : List Nat) : ∀ (st : GState) (e : Diag), returnError.walk ids st = .error e → e = .unsupported "bad method index" := by
  induction ids with
  | nil => intro st e h; rw [walk_nil_eq] at h; cases h
  | cons i rest ih =>
    intro st e h
    rw [walk_cons_eq] at h
    split at h
    · cases h; rfl
    · split at h
      · cases h
      · split at h
        · exact ih _ _ h
        · exact ih _ _ h

theorem walk_keeps (ids : List Nat) : ∀ (st st' : GState) (b : Bool), returnError.walk ids st = .ok (b, st') → ∀ k, RetErr k st → RetErr k st' := by
  induction ids with
  | nil => intro st st' b h k hk; rw [walk_nil_eq] at h; cases h; exact hk
  | cons i rest ih =>
    intro st st' b h k hk
    rw [walk_cons_eq] at h
    split at h
    · cases h
    · split at h
      · cases h; exact hk
      · split at h
        · exact ih _ _ _ h k (flagRet_keeps i k st hk)
        · exact ih _ _ _ h k hk

theorem walk_head (i : Nat) (rest : List Nat) (st st' : GState) (h : returnError.walk (i :: rest) st = .ok (true, st')) : RetErr i st' := by
  rw [walk_cons_eq] at h
  split at h
  · cases h
  · rename_i m hm
    split at h
    · cases h
    · split at h
      · exact walk_keeps rest _ _ _ h i (flagRet_sets i st m hm)
      · rename_i hr
        exact walk_keeps rest _ _ _ h i ⟨m, hm, by simpa using hr⟩

/-- `ReturnError` fails only on a method index outside the table -/
theorem returnError_error (cx : Ctx) (st : GState) (e : Diag) (h : returnError cx st = .error e) : e = .unsupported "bad method index" := by
  rw [returnError_eq] at h
  split at h
  · cases h; rfl
  · split at h
    · cases h
    · exact walk_error _ _ _ h

/-- methods that return an error keep doing so -/
theorem returnError_keeps (cx : Ctx) (st st' : GState) (b : Bool) (h : returnError cx st = .ok (b, st')) (k : Nat) (hk : RetErr k st) : RetErr k st' := by
  rw [returnError_eq] at h
  split at h
  · cases h
  · split at h
    · cases h; exact hk
    · exact walk_keeps _ _ _ _ h k hk

/-- after a successful `ReturnError` the method itself returns an error -/
theorem returnError_true (cx : Ctx) (st st' : GState) (h : returnError cx st = .ok (true, st')) : RetErr cx.self st' := by
  rw [returnError_eq] at h
  split at h
  · cases h
  · rename_i m hm
    split at h
    · rename_i hr; cases h; exact ⟨m, hm, hr⟩
    · exact walk_head _ _ _ _ h

/-- … and a method that returns an error needs no change -/
theorem returnError_of_RetErr (cx : Ctx) (st : GState) (h : RetErr cx.self st) : returnError cx st = .ok (true, st) := by
  obtain ⟨m, hm, hr⟩ := h
  rw [returnError_eq, hm]
  simp [hr]

/-- an explicit method without an error result: `ReturnError` refuses, the state is unchanged -/
theorem returnError_explicit (cx : Ctx) (st : GState) (m : GenMethod) (hm : st.methods[cx.self]? = some m)
    (he : m.explicit = true) (hr : m.returnError = false) : returnError cx st = .ok (false, st) := by
  rw [returnError_eq, hm]
  simp only [hr]
  rw [walk_cons_eq, hm]
  simp [he, hr]

/-- a generated top-level method (empty origin path) without an error result is flagged to return an error -/
theorem returnError_generated (cx : Ctx) (st : GState) (m : GenMethod) (hm : st.methods[cx.self]? = some m)
    (he : m.explicit = false) (hr : m.returnError = false) (ho : m.originPath = []) :
    returnError cx st = .ok (true, flagRet cx.self st) := by
  rw [returnError_eq, hm]
  simp only [hr]
  rw [walk_cons_eq, hm, ho]
  simp [he, hr, walk_nil_eq]
/-! ### when one target name resolves -/

/-- `ReturnError` succeeds for the method in this state (it returns an error, or it and its origins can be made to) -/
def canReturnError (cx : Ctx) (st : GState) : Bool :=
  match returnError cx st with
  | .ok (true, _) => true
  | _ => false

/-- the name is `@ignore`, `@panic`, `@error` in a method that can return an error, or the name of a target member -/
def enumResolves (cx : Ctx) (st : GState) (tm : List ConstDecl) (n : S) : Bool :=
  if Settings.isEnumAction n then
    n == "@ignore".toList || n == "@panic".toList || (n == "@error".toList && canReturnError cx st)
  else tm.any (·.name == n)

/-- the states the loop can be in when it started in `st`: still `st`, or the method was made to return an error -/
def StInv (cx : Ctx) (st s : GState) : Prop := s = st ∨ (RetErr cx.self s ∧ canReturnError cx st = true)

theorem find_none_iff_any {α} (p : α → Bool) (l : List α) : l.find? p = none ↔ l.any p = false := by
  rw [List.find?_eq_none, List.any_eq_false]

theorem find_some_any {α} (p : α → Bool) (l : List α) (x : α) (h : l.find? p = some x) : l.any p = true := by
  cases ha : l.any p with
  | true => rfl
  | false => rw [(find_none_iff_any p l).2 ha] at h; cases h

theorem enumAction_ok_inv (cx : Ctx) (path : List PathElem) (tm : List ConstDecl) (n : S) (st s s' : GState) (a : EnumAction)
    (hs : StInv cx st s) (h : enumAction cx path tm n s = .ok (a, s')) :
    StInv cx st s' ∧ enumResolves cx st tm n = true := by
  rw [enumAction_eq] at h
  unfold enumResolves
  split at h
  · rename_i hact
    simp only [hact, if_true]
    split at h
    · rename_i h1; cases h; exact ⟨hs, by simp only [h1, Bool.or_true, Bool.true_or]⟩
    · split at h
      · rename_i h1; cases h; exact ⟨hs, by simp only [h1, Bool.or_true, Bool.true_or]⟩
      · split at h
        · rename_i h1
          rcases hs with rfl | ⟨hre, hcan⟩
          · cases hr : returnError cx s with
            | error e => rw [hr] at h; cases h
            | ok v =>
              obtain ⟨b, s1⟩ := v
              cases b with
              | false => rw [hr] at h; cases h
              | true =>
                rw [hr] at h; cases h
                have hcan : canReturnError cx s = true := by unfold canReturnError; rw [hr]
                exact ⟨.inr ⟨returnError_true cx s s' hr, hcan⟩, by simp only [h1, hcan, Bool.or_true, Bool.true_or, Bool.and_self]⟩
          · rw [returnError_of_RetErr cx s hre] at h
            cases h
            exact ⟨.inr ⟨hre, hcan⟩, by simp only [h1, hcan, Bool.or_true, Bool.true_or, Bool.and_self]⟩
        · cases h
  · rename_i hact
    simp only [hact]
    split at h
    · rename_i td htd
      cases h
      exact ⟨hs, by simpa using find_some_any _ _ _ htd⟩
    · cases h

theorem enumAction_ok_of (cx : Ctx) (path : List PathElem) (tm : List ConstDecl) (n : S) (st s : GState)
    (hs : StInv cx st s) (h : enumResolves cx st tm n = true) :
    ∃ a s', enumAction cx path tm n s = .ok (a, s') := by
  rw [enumAction_eq]
  unfold enumResolves at h
  split
  · rename_i hact
    simp only [hact, if_true] at h
    split
    · exact ⟨_, _, rfl⟩
    · split
      · exact ⟨_, _, rfl⟩
      · rename_i h1 h2
        simp only [h1, h2, Bool.false_or, Bool.and_eq_true] at h
        simp only [h.1, if_true]
        rcases hs with rfl | ⟨hre, _⟩
        · have hc := h.2
          unfold canReturnError at hc
          split at hc
          · rename_i s1 hr; rw [hr]; exact ⟨_, _, rfl⟩
          · cases hc
        · rw [returnError_of_RetErr cx s hre]; exact ⟨_, _, rfl⟩
  · rename_i hact
    simp only [hact] at h
    cases hf : List.find? (fun x => x.name == n) tm with
    | some td => exact ⟨_, _, rfl⟩
    | none => rw [(find_none_iff_any _ _).1 hf] at h; cases h

/-- only `@error` touches the state -/
theorem enumAction_state (cx : Ctx) (path : List PathElem) (tm : List ConstDecl) (n : S) (s s' : GState) (a : EnumAction)
    (h : enumAction cx path tm n s = .ok (a, s')) (hn : n ≠ "@error".toList) : s' = s := by
  rw [enumAction_eq] at h
  split at h
  · split at h
    · cases h; rfl
    · split at h
      · cases h; rfl
      · split at h
        · rename_i h1; exact absurd (by simpa using h1) hn
        · cases h
  · split at h
    · cases h; rfl
    · cases h
/-! ### the agreement relation of `enumMismatch` -/

theorem enumMismatch_self (tm : List ConstDecl) (a : S) : enumMismatch tm a a = false := by
  unfold enumMismatch; simp

theorem enumMismatch_symm (tm : List ConstDecl) (a b : S) : enumMismatch tm a b = enumMismatch tm b a := by
  unfold enumMismatch
  cases Settings.isEnumAction a <;> cases Settings.isEnumAction b <;> simp [bne_comm]

/-- two names that agree with a third one agree with each other -/
theorem enumMismatch_eucl (tm : List ConstDecl) (a b p : S) (ha : enumMismatch tm a p = false) (hb : enumMismatch tm b p = false) :
    enumMismatch tm a b = false := by
  unfold enumMismatch at *
  cases h1 : Settings.isEnumAction a <;> cases h2 : Settings.isEnumAction b <;> cases h3 : Settings.isEnumAction p <;>
    simp_all

/-! ### the member loop -/

theorem enumCases_append (cx : Ctx) (path : List PathElem) (tm : List ConstDecl) (tmap : List (S × S)) :
    ∀ (l1 l2 : List ConstDecl) (acc : EnumAcc) (st : GState),
      enumCases cx path tm tmap (l1 ++ l2) acc st =
        match enumCases cx path tm tmap l1 acc st with
        | .error e => .error e
        | .ok (a, s) => enumCases cx path tm tmap l2 a s := by
  intro l1
  induction l1 with
  | nil => intro l2 acc st; rw [enumCases_nil_eq]; rfl
  | cons sd rest ih =>
    intro l2 acc st
    rw [List.cons_append, enumCases_cons_eq, enumCases_cons_eq]
    cases enumAction cx path tm (chooseEnumTarget cx.cfg.enumMap tmap sd.name) st with
    | error e => rfl
    | ok v =>
      obtain ⟨act, s1⟩ := v
      simp only []
      cases List.find? (fun (p : ConstVal × S) => p.1 == sd.val) acc.seenVals with
      | none => simp only []; rw [ih]
      | some vp =>
        obtain ⟨v, prev⟩ := vp
        simp only []
        split
        · rfl
        · rw [ih]

/-- the first failure: a loop fails iff it went through a prefix and failed at the next member -/
theorem enumCases_error_iff (cx : Ctx) (path : List PathElem) (tm : List ConstDecl) (tmap : List (S × S)) (e : Diag) :
    ∀ (l : List ConstDecl) (acc : EnumAcc) (st : GState),
      enumCases cx path tm tmap l acc st = .error e ↔
        ∃ pre sd post acc1 s1, l = pre ++ sd :: post ∧ enumCases cx path tm tmap pre acc st = .ok (acc1, s1) ∧
          enumCases cx path tm tmap [sd] acc1 s1 = .error e := by
  intro l
  induction l with
  | nil =>
    intro acc st
    rw [enumCases_nil_eq]
    constructor
    · intro h; cases h
    · rintro ⟨pre, sd, post, _, _, h, _⟩
      cases pre <;> cases h
  | cons sd rest ih =>
    intro acc st
    have happ := enumCases_append cx path tm tmap [sd] rest acc st
    rw [List.singleton_append] at happ
    constructor
    · intro h
      rw [happ] at h
      cases h1 : enumCases cx path tm tmap [sd] acc st with
      | error e1 =>
        rw [h1] at h; cases h
        exact ⟨[], sd, rest, acc, st, rfl, enumCases_nil_eq .., h1⟩
      | ok v =>
        obtain ⟨a1, s1⟩ := v
        rw [h1] at h
        simp only [] at h
        obtain ⟨pre, sd', post, acc1, s2, hl, hpre, hsd⟩ := (ih a1 s1).1 h
        refine ⟨sd :: pre, sd', post, acc1, s2, by rw [hl]; rfl, ?_, hsd⟩
        have := enumCases_append cx path tm tmap [sd] pre acc st
        rw [List.singleton_append] at this
        rw [this, h1]; exact hpre
    · rintro ⟨pre, sd', post, acc1, s2, hl, hpre, hsd⟩
      cases pre with
      | nil =>
        cases hl
        rw [enumCases_nil_eq] at hpre; cases hpre
        rw [happ, hsd]
      | cons x pre' =>
        cases hl
        have := enumCases_append cx path tm tmap [sd] pre' acc st
        rw [List.singleton_append] at this
        rw [this] at hpre
        rw [happ]
        cases h1 : enumCases cx path tm tmap [sd] acc st with
        | error e1 => rw [h1] at hpre; cases hpre
        | ok v =>
          obtain ⟨a1, s1⟩ := v
          rw [h1] at hpre
          simp only [] at hpre ⊢
          exact (ih a1 s1).2 ⟨pre', sd', post, acc1, s2, rfl, hpre, hsd⟩

/-- success ⇒ every member resolved (state side) -/
theorem enumCases_ok_resolves (cx : Ctx) (path : List PathElem) (tm : List ConstDecl) (tmap : List (S × S)) (st : GState) :
    ∀ (l : List ConstDecl) (acc acc' : EnumAcc) (s s' : GState),
      enumCases cx path tm tmap l acc s = .ok (acc', s') → StInv cx st s →
      StInv cx st s' ∧ ∀ sd, sd ∈ l → enumResolves cx st tm (chooseEnumTarget cx.cfg.enumMap tmap sd.name) = true := by
  intro l
  induction l with
  | nil =>
    intro acc acc' s s' h hs
    rw [enumCases_nil_eq] at h; cases h
    exact ⟨hs, fun _ h => by cases h⟩
  | cons sd rest ih =>
    intro acc acc' s s' h hs
    rw [enumCases_cons_eq] at h
    cases ha : enumAction cx path tm (chooseEnumTarget cx.cfg.enumMap tmap sd.name) s with
    | error e => rw [ha] at h; cases h
    | ok v =>
      obtain ⟨act, s1⟩ := v
      rw [ha] at h
      simp only [] at h
      obtain ⟨hs1, hres⟩ := enumAction_ok_inv cx path tm _ st s s1 act hs ha
      have key : ∀ a0, enumCases cx path tm tmap rest a0 s1 = .ok (acc', s') →
          StInv cx st s' ∧ ∀ sd', sd' ∈ sd :: rest → enumResolves cx st tm (chooseEnumTarget cx.cfg.enumMap tmap sd'.name) = true := by
        intro a0 h0
        obtain ⟨h1, h2⟩ := ih a0 acc' s1 s' h0 hs1
        refine ⟨h1, ?_⟩
        intro sd' hm
        rcases List.mem_cons.1 hm with rfl | hm
        · exact hres
        · exact h2 sd' hm
      split at h
      · split at h
        · cases h
        · exact key _ h
      · exact key _ h
/-- the loop state is consistent: the remembered values are the values of the emitted cases, each once -/
structure AccInv (acc : EnumAcc) : Prop where
  sync : Sync acc
  nodup : (acc.cases.map (·.2.1)).Nodup

theorem AccInv_init (r : List S) : AccInv { remaining := r } := ⟨rfl, List.nodup_nil⟩

theorem keys_nodup_unique {α β} : ∀ (l : List (α × β)), (l.map (·.1)).Nodup → ∀ k a b, (k, a) ∈ l → (k, b) ∈ l → a = b := by
  intro l
  induction l with
  | nil => intro _ k a b h; cases h
  | cons x rest ih =>
    intro hn k a b ha hb
    rw [List.map_cons, List.nodup_cons] at hn
    rcases List.mem_cons.1 ha with rfl | ha' <;> rcases List.mem_cons.1 hb with hb' | hb'
    · cases hb'; rfl
    · exact absurd (List.mem_map.2 ⟨(k, b), hb', rfl⟩) hn.1
    · subst hb'; exact absurd (List.mem_map.2 ⟨(k, a), ha', rfl⟩) hn.1
    · exact ih hn.2 k a b ha' hb'

theorem filter_filter_any (r : List S) (sd : ConstDecl) (rest : List ConstDecl) :
    (r.filter (· != sd.name)).filter (fun k => !rest.any (·.name == k)) = r.filter (fun k => !(sd :: rest).any (·.name == k)) := by
  rw [List.filter_filter]
  congr 1
  funext k
  simp only [List.any_cons, Bool.not_or, bne, Bool.and_comm]
  congr 1
  cases h : (k == sd.name) with
  | true => have : (sd.name == k) = true := by simpa using (by simpa using h : k = sd.name).symm
            rw [this]
  | false =>
    cases h2 : (sd.name == k) with
    | false => rfl
    | true => have : k = sd.name := (by simpa using h2 : sd.name = k).symm
              simp [this] at h

/-- success ⇒ the value side: distinct case values, every member's value remembered with a name its own agrees with,
remembered names are chosen names of members, and the keys left are exactly those no member consumed -/
theorem enumCases_ok_vals (cx : Ctx) (path : List PathElem) (tm : List ConstDecl) (tmap : List (S × S)) :
    ∀ (l : List ConstDecl) (acc acc' : EnumAcc) (s s' : GState),
      enumCases cx path tm tmap l acc s = .ok (acc', s') → AccInv acc →
      AccInv acc' ∧ (∀ p, p ∈ acc.seenVals → p ∈ acc'.seenVals) ∧
      (∀ sd, sd ∈ l → ∃ prev, (sd.val, prev) ∈ acc'.seenVals ∧
          enumMismatch tm (chooseEnumTarget cx.cfg.enumMap tmap sd.name) prev = false) ∧
      (∀ p, p ∈ acc'.seenVals → p ∈ acc.seenVals ∨ ∃ sd, sd ∈ l ∧ p = (sd.val, chooseEnumTarget cx.cfg.enumMap tmap sd.name)) ∧
      acc'.remaining = acc.remaining.filter (fun k => !l.any (·.name == k)) := by
  intro l
  induction l with
  | nil =>
    intro acc acc' s s' h hi
    rw [enumCases_nil_eq] at h; cases h
    exact ⟨hi, fun _ h => h, fun _ h => (by cases h), fun _ h => .inl h, (List.filter_eq_self.2 (fun _ _ => by simp)).symm⟩
  | cons sd rest ih =>
    intro acc acc' s s' h hi
    rw [enumCases_cons_eq] at h
    cases ha : enumAction cx path tm (chooseEnumTarget cx.cfg.enumMap tmap sd.name) s with
    | error e => rw [ha] at h; cases h
    | ok v =>
      obtain ⟨act, s1⟩ := v
      rw [ha] at h
      simp only [] at h
      cases hf : List.find? (fun (p : ConstVal × S) => p.1 == sd.val) acc.seenVals with
      | some vp =>
        obtain ⟨v, prev⟩ := vp
        rw [hf] at h
        simp only [] at h
        split at h
        · cases h
        · rename_i hmm
          have hmm : enumMismatch tm (chooseEnumTarget cx.cfg.enumMap tmap sd.name) prev = false := by simpa using hmm
          obtain ⟨i1, i2, i3, i4, i5⟩ := ih _ acc' s1 s' h ⟨hi.sync, hi.nodup⟩
          have hv : v = sd.val := by simpa using List.find?_some hf
          have hmem : (v, prev) ∈ acc.seenVals := List.mem_of_find?_eq_some hf
          refine ⟨i1, i2, ?_, ?_, ?_⟩
          · intro sd' hm
            rcases List.mem_cons.1 hm with rfl | hm
            · exact ⟨prev, hv ▸ i2 _ hmem, hmm⟩
            · exact i3 sd' hm
          · intro p hp
            rcases i4 p hp with h0 | ⟨sd', hm, he⟩
            · exact .inl h0
            · exact .inr ⟨sd', List.mem_cons_of_mem _ hm, he⟩
          · rw [i5]; exact filter_filter_any _ _ _
      | none =>
        rw [hf] at h
        simp only [] at h
        have hnew : sd.val ∉ acc.seenVals.map (·.1) := by
          intro hin
          obtain ⟨p, hp, hpe⟩ := List.mem_map.1 hin
          have := (List.find?_eq_none.1 hf) p hp
          simp [hpe] at this
        have hi' : AccInv { cases := acc.cases ++ [(sd.name, sd.val, act)],
                            seenVals := acc.seenVals ++ [(sd.val, chooseEnumTarget cx.cfg.enumMap tmap sd.name)],
                            remaining := acc.remaining.filter (· != sd.name) } := by
          refine ⟨?_, ?_⟩
          · have := hi.sync
            simp only [Sync] at this ⊢
            simp [this]
          · simp only [List.map_append, List.map_cons, List.map_nil]
            rw [List.nodup_append]
            refine ⟨hi.nodup, by simp, ?_⟩
            intro a ha' b hb
            rw [List.mem_singleton] at hb
            rw [hb]
            intro hab
            rw [← hi.sync, hab] at ha'
            exact hnew ha'
        obtain ⟨i1, i2, i3, i4, i5⟩ := ih _ acc' s1 s' h hi'
        refine ⟨i1, fun p hp => i2 p (List.mem_append_left _ hp), ?_, ?_, ?_⟩
        · intro sd' hm
          rcases List.mem_cons.1 hm with rfl | hm
          · exact ⟨_, i2 _ (List.mem_append_right _ (List.mem_singleton.2 rfl)), enumMismatch_self _ _⟩
          · exact i3 sd' hm
        · intro p hp
          rcases i4 p hp with h0 | ⟨sd', hm, he⟩
          · rcases List.mem_append.1 h0 with h00 | h01
            · exact .inl h00
            · exact .inr ⟨sd, List.mem_cons_self, List.mem_singleton.1 h01⟩
          · exact .inr ⟨sd', List.mem_cons_of_mem _ hm, he⟩
        · rw [i5]; exact filter_filter_any _ _ _

/-- the other direction: if every member resolves and members with equal values agree (with each other and with what the
loop already remembers), the loop succeeds -/
theorem enumCases_ok_of (cx : Ctx) (path : List PathElem) (tm : List ConstDecl) (tmap : List (S × S)) (st : GState) :
    ∀ (l : List ConstDecl) (acc : EnumAcc) (s : GState), StInv cx st s →
      (∀ sd, sd ∈ l → enumResolves cx st tm (chooseEnumTarget cx.cfg.enumMap tmap sd.name) = true) →
      (∀ sd, sd ∈ l → ∀ p, p ∈ acc.seenVals → p.1 = sd.val →
          enumMismatch tm (chooseEnumTarget cx.cfg.enumMap tmap sd.name) p.2 = false) →
      (∀ a b, a ∈ l → b ∈ l → a.val = b.val →
          enumMismatch tm (chooseEnumTarget cx.cfg.enumMap tmap a.name) (chooseEnumTarget cx.cfg.enumMap tmap b.name) = false) →
      ∃ acc' s', enumCases cx path tm tmap l acc s = .ok (acc', s') := by
  intro l
  induction l with
  | nil => intro acc s _ _ _ _; exact ⟨acc, s, enumCases_nil_eq ..⟩
  | cons sd rest ih =>
    intro acc s hs hres hacc hpair
    obtain ⟨act, s1, ha⟩ := enumAction_ok_of cx path tm _ st s hs (hres sd List.mem_cons_self)
    obtain ⟨hs1, _⟩ := enumAction_ok_inv cx path tm _ st s s1 act hs ha
    rw [enumCases_cons_eq, ha]
    simp only []
    have hres' : ∀ sd', sd' ∈ rest → enumResolves cx st tm (chooseEnumTarget cx.cfg.enumMap tmap sd'.name) = true :=
      fun sd' hm => hres sd' (List.mem_cons_of_mem _ hm)
    have hpair' : ∀ a b, a ∈ rest → b ∈ rest → a.val = b.val →
          enumMismatch tm (chooseEnumTarget cx.cfg.enumMap tmap a.name) (chooseEnumTarget cx.cfg.enumMap tmap b.name) = false :=
      fun a b ha hb => hpair a b (List.mem_cons_of_mem _ ha) (List.mem_cons_of_mem _ hb)
    cases hf : List.find? (fun (p : ConstVal × S) => p.1 == sd.val) acc.seenVals with
    | some vp =>
      obtain ⟨v, prev⟩ := vp
      simp only []
      have hv : v = sd.val := by simpa using List.find?_some hf
      have hmem : (v, prev) ∈ acc.seenVals := List.mem_of_find?_eq_some hf
      rw [hacc sd List.mem_cons_self (v, prev) hmem hv]
      simp only [Bool.false_eq_true, if_false]
      exact ih _ s1 hs1 hres' (fun sd' hm p hp => hacc sd' (List.mem_cons_of_mem _ hm) p hp) hpair'
    | none =>
      simp only []
      refine ih _ s1 hs1 hres' ?_ hpair'
      intro sd' hm p hp hpv
      rcases List.mem_append.1 hp with hp | hp
      · exact hacc sd' (List.mem_cons_of_mem _ hm) p hp hpv
      · rw [List.mem_singleton.1 hp] at hpv ⊢
        exact hpair sd' sd (List.mem_cons_of_mem _ hm) List.mem_cons_self hpv.symm
/-- the success condition of the member loop, on the inputs only: every member's chosen name resolves, and members with
equal values agree (`enumMismatch`) -/
def LoopOK (cx : Ctx) (st : GState) (tm : List ConstDecl) (tmap : List (S × S)) (l : List ConstDecl) : Prop :=
  (∀ sd, sd ∈ l → enumResolves cx st tm (chooseEnumTarget cx.cfg.enumMap tmap sd.name) = true) ∧
  (∀ a b, a ∈ l → b ∈ l → a.val = b.val →
      enumMismatch tm (chooseEnumTarget cx.cfg.enumMap tmap a.name) (chooseEnumTarget cx.cfg.enumMap tmap b.name) = false)

theorem StInv_refl (cx : Ctx) (st : GState) : StInv cx st st := .inl rfl

theorem enumCases_ok_LoopOK (cx : Ctx) (path : List PathElem) (tm : List ConstDecl) (tmap : List (S × S)) (st : GState)
    (l : List ConstDecl) (r : List S) (acc' : EnumAcc) (s' : GState)
    (h : enumCases cx path tm tmap l { remaining := r } st = .ok (acc', s')) : LoopOK cx st tm tmap l := by
  obtain ⟨_, hres⟩ := enumCases_ok_resolves cx path tm tmap st l _ acc' st s' h (StInv_refl cx st)
  obtain ⟨i1, _, i3, _, _⟩ := enumCases_ok_vals cx path tm tmap l _ acc' st s' h (AccInv_init r)
  refine ⟨hres, ?_⟩
  intro a b ha hb hv
  obtain ⟨pa, hpa, hma⟩ := i3 a ha
  obtain ⟨pb, hpb, hmb⟩ := i3 b hb
  rw [hv] at hpa
  have hk : (acc'.seenVals.map (·.1)).Nodup := by rw [i1.sync]; exact i1.nodup
  have := keys_nodup_unique _ hk _ _ _ hpa hpb
  subst this
  exact enumMismatch_eucl tm _ _ _ hma hmb

/-- the loop succeeds iff every member resolves and equal-valued members agree -/
theorem enumCases_ok_iff (cx : Ctx) (path : List PathElem) (tm : List ConstDecl) (tmap : List (S × S)) (st : GState)
    (l : List ConstDecl) (r : List S) :
    (∃ acc' s', enumCases cx path tm tmap l { remaining := r } st = .ok (acc', s')) ↔ LoopOK cx st tm tmap l := by
  constructor
  · rintro ⟨acc', s', h⟩; exact enumCases_ok_LoopOK cx path tm tmap st l r acc' s' h
  · rintro ⟨h1, h2⟩
    exact enumCases_ok_of cx path tm tmap st l _ st (StInv_refl cx st) h1 (fun _ _ p hp => by cases hp) h2

theorem remaining_empty_iff (r : List S) (l : List ConstDecl) :
    (r.filter (fun k => !l.any (·.name == k))).isEmpty = true ↔ ∀ k, k ∈ r → ∃ sd, sd ∈ l ∧ sd.name = k := by
  rw [List.isEmpty_iff, List.filter_eq_nil_iff]
  constructor
  · intro h k hk
    have := h k hk
    have h2 : l.any (fun x => x.name == k) = true := by
      cases h3 : l.any (fun x => x.name == k) with
      | true => rfl
      | false => rw [h3] at this; exact absurd rfl this
    obtain ⟨sd, hsd, he⟩ := List.any_eq_true.1 h2
    exact ⟨sd, hsd, by simpa using he⟩
  · intro h k hk
    obtain ⟨sd, hsd, he⟩ := h k hk
    have h2 : l.any (fun x => x.name == k) = true := List.any_eq_true.2 ⟨sd, hsd, by simp [he]⟩
    rw [h2]; simp
/-! ### which diagnostic -/

/-- the diagnostic of one target name, on the inputs only (`none`: it resolves) -/
def enumActionDiag (cx : Ctx) (st : GState) (tm : List ConstDecl) (n : S) : Option Diag :=
  if Settings.isEnumAction n then
    if n == "@ignore".toList then none
    else if n == "@panic".toList then none
    else if n == "@error".toList then
      match returnError cx st with
      | .ok (true, _) => none
      | .ok (false, _) => some .enumErrorNotAllowed
      | .error e => some e
    else some .enumInvalidTarget
  else if tm.any (·.name == n) then none else some .enumTargetMissing

theorem enumActionDiag_none_iff (cx : Ctx) (st : GState) (tm : List ConstDecl) (n : S) :
    enumActionDiag cx st tm n = none ↔ enumResolves cx st tm n = true := by
  unfold enumActionDiag enumResolves canReturnError
  split
  · split
    · rename_i h; simp only [h, Bool.true_or]
    · split
      · rename_i h; simp only [h, Bool.true_or, Bool.or_true]
      · rename_i h1 h2
        have h1 := Bool.eq_false_iff.2 h1
        have h2 := Bool.eq_false_iff.2 h2
        split
        · rename_i h3
          simp only [h1, h2, h3, Bool.false_or, Bool.true_and]
          split
          · rename_i hr; rw [hr]; simp
          · rename_i hr; rw [hr]; simp
          · rename_i hr; rw [hr]; simp
        · rename_i h3
          have h3 := Bool.eq_false_iff.2 h3
          simp only [h1, h2, h3, Bool.false_or, Bool.false_and]
          simp
  · split <;> simp_all

/-- in every state the loop can reach, a name fails exactly with its diagnostic -/
theorem enumAction_error_iff (cx : Ctx) (path : List PathElem) (tm : List ConstDecl) (n : S) (st s : GState) (e : Diag)
    (hs : StInv cx st s) : enumAction cx path tm n s = .error e ↔ enumActionDiag cx st tm n = some e := by
  rw [enumAction_eq]
  unfold enumActionDiag
  split
  · split
    · simp
    · split
      · simp
      · split
        · rcases hs with rfl | ⟨hre, hcan⟩
          · cases returnError cx s with
            | error e1 => simp
            | ok v => obtain ⟨b, s1⟩ := v; cases b <;> simp
          · rw [returnError_of_RetErr cx s hre]
            unfold canReturnError at hcan
            split at hcan
            · rename_i hr; rw [hr]; simp
            · cases hcan
        · simp
  · cases hf : List.find? (fun x => x.name == n) tm with
    | some td => rw [find_some_any _ _ _ hf]; simp
    | none => rw [(find_none_iff_any _ _).1 hf]; simp

theorem enumActionDiag_kinds (cx : Ctx) (st : GState) (tm : List ConstDecl) (n : S) (e : Diag)
    (h : enumActionDiag cx st tm n = some e) :
    e = .enumInvalidTarget ∨ e = .enumTargetMissing ∨ e = .enumErrorNotAllowed ∨ e = .unsupported "bad method index" := by
  unfold enumActionDiag at h
  split at h
  · split at h
    · cases h
    · split at h
      · cases h
      · split at h
        · split at h
          · cases h
          · cases h; simp
          · rename_i e1 hr; cases h; exact .inr (.inr (.inr (returnError_error cx st e hr)))
        · cases h; simp
  · split at h
    · cases h
    · cases h; simp

theorem transformerPairs_error (c : Converter) (pat repl : S) (tm : List ConstDecl) :
    ∀ (sm : List ConstDecl) (e : Diag), transformerPairs c pat repl tm sm = .error e → e = .enumTransformerError := by
  intro sm
  induction sm with
  | nil => intro e h; unfold transformerPairs at h; cases h
  | cons sd rest ih =>
    intro e h
    unfold transformerPairs at h
    split at h
    · cases h; rfl
    · split at h
      · rename_i e1 h1; cases h; exact ih _ h1
      · cases h

theorem enumTransformers_error (c : Converter) (sm tm : List ConstDecl) :
    ∀ (l tmap : List (S × S)) (e : Diag), enumTransformers c sm tm l tmap = .error e →
      e = .unsupported "custom transformer" ∨ e = .enumTransformerError ∨ e = .enumTransformerEmpty := by
  intro l
  induction l with
  | nil => intro tmap e h; unfold enumTransformers at h; cases h
  | cons x rest ih =>
    intro tmap e h
    obtain ⟨name, cfgS⟩ := x
    unfold enumTransformers at h
    split at h
    · cases h; simp
    · split at h
      · split at h
        · rename_i e1 h1; cases h; exact .inr (.inl (transformerPairs_error _ _ _ _ _ _ h1))
        · split at h
          · cases h; simp
          · exact ih _ _ h
      · cases h; simp

/-- `enumPlan` once both member lists and the merged transformers are known -/
theorem enumPlan_eq' (c : Converter) (cx : Ctx) (s t : Ty) (path : List PathElem) (st : GState)
    (sm tm : List ConstDecl) (tmap : List (S × S))
    (hsm : enumMembers c cx.cfg.common s = some sm) (htm : enumMembers c cx.cfg.common t = some tm)
    (htr : enumTransformers c sm tm cx.cfg.transformers [] = .ok tmap) :
    enumPlan c cx s t path st =
      match enumCases cx path tm tmap sm { remaining := if cx.fieldsTarget == t then cx.cfg.enumMap.map (·.1) else [] } st with
      | .error e => .error e
      | .ok (acc, s2) =>
      if cx.cfg.common.enumUnknown.isEmpty then .error .enumUnknownMissing
      else match enumAction cx path tm cx.cfg.common.enumUnknown s2 with
      | .error e => .error e
      | .ok (dflt, s3) =>
      if acc.remaining.isEmpty then .ok (.enumc acc.cases dflt, s3) else .error .enumKeyMissing := by
  rw [enumPlan_eq, hsm, htm]
  simp only []
  rw [htr]
/-- what fails at the member after a prefix that went through: its name does not resolve (with that diagnostic), or it
disagrees with an earlier member of equal value -/
theorem enumCases_first_error (cx : Ctx) (path : List PathElem) (tm : List ConstDecl) (tmap : List (S × S)) (st : GState)
    (r : List S) (pre : List ConstDecl) (sd : ConstDecl) (e : Diag) (hpre : LoopOK cx st tm tmap pre) :
    enumCases cx path tm tmap (pre ++ [sd]) { remaining := r } st = .error e ↔
      enumActionDiag cx st tm (chooseEnumTarget cx.cfg.enumMap tmap sd.name) = some e ∨
      (enumResolves cx st tm (chooseEnumTarget cx.cfg.enumMap tmap sd.name) = true ∧ e = .enumMismatch ∧
        ∃ sd0, sd0 ∈ pre ∧ sd0.val = sd.val ∧
          enumMismatch tm (chooseEnumTarget cx.cfg.enumMap tmap sd.name) (chooseEnumTarget cx.cfg.enumMap tmap sd0.name) = true) := by
  obtain ⟨acc1, s1, hok⟩ := (enumCases_ok_iff cx path tm tmap st pre r).2 hpre
  obtain ⟨hs1, _⟩ := enumCases_ok_resolves cx path tm tmap st pre _ acc1 st s1 hok (StInv_refl cx st)
  obtain ⟨i1, _, i3, i4, _⟩ := enumCases_ok_vals cx path tm tmap pre _ acc1 st s1 hok (AccInv_init r)
  have hk : (acc1.seenVals.map (·.1)).Nodup := by rw [i1.sync]; exact i1.nodup
  rw [enumCases_append, hok]
  simp only []
  rw [enumCases_cons_eq]
  cases ha : enumAction cx path tm (chooseEnumTarget cx.cfg.enumMap tmap sd.name) s1 with
  | error e1 =>
    simp only []
    have hd := (enumAction_error_iff cx path tm _ st s1 e1 hs1).1 ha
    constructor
    · intro h; cases h; exact .inl hd
    · rintro (h | ⟨h, _⟩)
      · rw [hd] at h; cases h; rfl
      · rw [← enumActionDiag_none_iff, hd] at h; cases h
  | ok v =>
    obtain ⟨act, s2⟩ := v
    simp only []
    obtain ⟨_, hres⟩ := enumAction_ok_inv cx path tm _ st s1 s2 act hs1 ha
    have hnone := (enumActionDiag_none_iff cx st tm _).2 hres
    cases hf : List.find? (fun (p : ConstVal × S) => p.1 == sd.val) acc1.seenVals with
    | none =>
      simp only []
      rw [enumCases_nil_eq]
      constructor
      · intro h; cases h
      · rintro (h | ⟨_, _, sd0, hm0, hv0, _⟩)
        · rw [hnone] at h; cases h
        · obtain ⟨p0, hp0, _⟩ := i3 sd0 hm0
          have := (List.find?_eq_none.1 hf) _ hp0
          simp [hv0] at this
    | some vp =>
      obtain ⟨v, prev⟩ := vp
      simp only []
      have hv : v = sd.val := by simpa using List.find?_some hf
      have hmem : (v, prev) ∈ acc1.seenVals := List.mem_of_find?_eq_some hf
      subst hv
      constructor
      · intro h
        split at h
        · rename_i hmm
          cases h
          rcases i4 _ hmem with h0 | ⟨sd0, hm0, he0⟩
          · cases h0
          · obtain ⟨e1, e2⟩ := Prod.mk.inj he0
            exact .inr ⟨hres, rfl, sd0, hm0, e1.symm, by rw [← e2]; exact hmm⟩
        · rw [enumCases_nil_eq] at h; cases h
      · rintro (h | ⟨_, rfl, sd0, hm0, hv0, hmm⟩)
        · rw [hnone] at h; cases h
        · obtain ⟨p0, hp0, hag⟩ := i3 sd0 hm0
          rw [hv0] at hp0
          have := keys_nodup_unique _ hk _ _ _ hmem hp0
          subst this
          have : enumMismatch tm (chooseEnumTarget cx.cfg.enumMap tmap sd.name) prev = true := by
            cases hx : enumMismatch tm (chooseEnumTarget cx.cfg.enumMap tmap sd.name) prev with
            | true => rfl
            | false => rw [enumMismatch_eucl tm _ _ _ hx hag] at hmm; cases hmm
          rw [this]; rfl

/-- **first failure**: the loop fails with `e` iff some member, after a prefix that satisfies the success condition, does not
resolve (with that diagnostic) or disagrees with an earlier member of equal value -/
theorem enumCases_error_iff' (cx : Ctx) (path : List PathElem) (tm : List ConstDecl) (tmap : List (S × S)) (st : GState)
    (r : List S) (l : List ConstDecl) (e : Diag) :
    enumCases cx path tm tmap l { remaining := r } st = .error e ↔
      ∃ pre sd post, l = pre ++ sd :: post ∧ LoopOK cx st tm tmap pre ∧
        (enumActionDiag cx st tm (chooseEnumTarget cx.cfg.enumMap tmap sd.name) = some e ∨
         (enumResolves cx st tm (chooseEnumTarget cx.cfg.enumMap tmap sd.name) = true ∧ e = .enumMismatch ∧
           ∃ sd0, sd0 ∈ pre ∧ sd0.val = sd.val ∧
             enumMismatch tm (chooseEnumTarget cx.cfg.enumMap tmap sd.name) (chooseEnumTarget cx.cfg.enumMap tmap sd0.name) = true)) := by
  rw [enumCases_error_iff]
  constructor
  · rintro ⟨pre, sd, post, acc1, s1, hl, hpre, hsd⟩
    have hlo := enumCases_ok_LoopOK cx path tm tmap st pre r acc1 s1 hpre
    refine ⟨pre, sd, post, hl, hlo, ?_⟩
    apply (enumCases_first_error cx path tm tmap st r pre sd e hlo).1
    rw [enumCases_append, hpre]; exact hsd
  · rintro ⟨pre, sd, post, hl, hlo, hstep⟩
    obtain ⟨acc1, s1, hok⟩ := (enumCases_ok_iff cx path tm tmap st pre r).2 hlo
    refine ⟨pre, sd, post, acc1, s1, hl, hok, ?_⟩
    have := (enumCases_first_error cx path tm tmap st r pre sd e hlo).2 hstep
    rw [enumCases_append, hok] at this; exact this
end Gv.EnumFail
