/-
The generalised plan checker is COMPLETE for the typing judgement of the assignment-image soundness theorem: whatever
`HasTyU` / `ProgOKU` admits, `checkTyU` / `checkProgU` accepts.  With `PlanCheckUSound` the run-time checker is exactly the
judgement the composite theorems of C05 / C10 / C11 are proved from — it cannot silently reject a plan the proofs cover.
-/
import Gv.Proofs.PlanCheckUSound
import Gv.Proofs.FreshS

namespace Gv.Sound
open Gv Gv.Str Gv.Eval Gv.Typing Gv.PlanCheck

mutual
  theorem checkTyU_complete (p : Program) : ∀ (c : Conv) (s t : Ty), HasTyU p c s t → checkTyU p c s t = true
    | .ident, s, t, h => by
      cases h with
      | identBasic hs ht => unfold checkTyU; simp [hs, ht]
    | .cast inner, s, t, h => by
      cases h with
      | castBasic hs ht => unfold checkTyU; simp [hs, ht]
    | .call callee args retErr w, s, t, h => by
      cases h with
      | @callMethod _ _ m _ hsig =>
        unfold sigOf at hsig
        cases hm : p.methods[m]? with
        | none => simp [hm] at hsig
        | some gm =>
          simp [hm] at hsig
          unfold checkTyU
          simp [isSourceOnly, hm, hsig.1, hsig.2, Ty.beq_self]
    | .ptrPtr te inner, s, t, h => by
      cases h with
      | ptrPtr hs ht hin =>
        unfold checkTyU
        simp [hs, ht, Ty.beq_self, checkTyU_complete p inner _ _ hin]
    | .tgtPtr te inner, s, t, h => by
      cases h with
      | tgtPtr hs ht hin =>
        unfold checkTyU
        have ih := checkTyU_complete p inner _ _ hin
        cases hus : under p.conv.env s <;> first | exact absurd hus (hs _) | simp [ht, Ty.beq_self, ih]
    | .srcPtr t' inner, s, t, h => by
      cases h with
      | srcPtr hs ht hin =>
        unfold checkTyU
        have ih := checkTyU_complete p inner _ _ hin
        cases hut : under p.conv.env t' <;> first | exact absurd hut (ht _) | simp [hs, Ty.beq_self, ih]
    | .list te hasMake hasGuard elem, s, t, h => by
      cases h with
      | slice hs ht hel =>
        unfold checkTyU
        simp [hs, ht, Ty.beq_self, checkTyU_complete p elem _ _ hel]
      | array hs ht hel =>
        unfold checkTyU
        simp [hs, ht, Ty.beq_self, checkTyU_complete p elem _ _ hel]
    | .mapc tk tv key val, s, t, h => by
      cases h with
      | mapc hs ht hk hv =>
        unfold checkTyU
        simp [hs, ht, Ty.beq_self, checkTyU_complete p key _ _ hk, checkTyU_complete p val _ _ hv]
    | .structc plans upd, s, t, h => by
      cases h with
      | structc hs ht hnd hfs =>
        unfold checkTyU
        have hnd' : (PlanCheck.fieldNames _).Nodup := hnd
        simp [hs, ht, hnd', checkFieldsU_complete p plans _ _ hfs]
    | .underlying _ _ _, _, _, h => by cases h
    | .enumc _ _, _, _, h => by cases h
    | .withCtor _ _ _, _, _, h => by cases h
    | .ctorUpdate _ _ _ _ _, _, _, h => by cases h
  theorem checkFieldsU_complete (p : Program) : ∀ (plans : FieldPlans) (s : Ty) (tfs : List (FieldInfo × Ty)),
      HasFieldsU p plans s tfs → checkFieldsU p plans s tfs = true
    | .nil, s, tfs, h => by
      cases h with
      | nil => unfold checkFieldsU; rfl
    | .cons (.skip target) rest, s, tfs, h => by
      cases h with
      | skip hrest =>
        unfold checkFieldsU checkFieldU
        simp [checkFieldsU_complete p rest _ _ hrest]
    | .cons (.mapped target path derefs guarded lp cv z) rest, s, tfs, h => by
      cases h with
      | cons hwalk hlp hcv hrest =>
        unfold checkFieldsU checkFieldU
        simp [hwalk, ← hlp, checkTyU_complete p cv _ _ hcv, checkFieldsU_complete p rest _ _ hrest]
    | .cons (.viaMethod target path derefs guarded call rp cv z) rest, s, tfs, h => by
      cases h with
      | viaMethod hwalk hnf hmr hrp hargs hsh hcv hrest =>
        unfold checkFieldsU checkFieldU
        simp [hwalk, hnf, hmr, ← hrp, hargs, hsh, checkTyU_complete p cv _ _ hcv, checkFieldsU_complete p rest _ _ hrest]
end

theorem checkCtor_complete (p : Program) (ctor : Conv) (tp : Bool) (t : Ty) (h : HasCtor p ctor tp t) :
    checkCtor p ctor tp t = true := by
  obtain ⟨i, args, retErr, w, d, rfl, hd, hc, hshape⟩ := h
  unfold checkCtor
  cases tp with
  | true =>
    simp only [if_true] at hshape
    obtain ⟨te, hte, hdt, hnp⟩ := hshape
    subst hdt
    simp [hd, hc, hte, hnp, Ty.beq_self]
  | false =>
    simp only [Bool.false_eq_true, if_false] at hshape
    simp [hd, hc, hshape, Ty.beq_self]

theorem checkConvertU_complete (p : Program) (c : Conv) (s t : Ty) (h : ConvertOKU p c s t) : checkConvertU p c s t = true := by
  cases h with
  | plain hty =>
    unfold checkConvertU
    split
    · cases hty
    · cases hty
    · exact checkTyU_complete p c s t hty
  | withCtor hc hnc hty =>
    unfold checkConvertU
    simp only [Bool.and_eq_true]
    refine ⟨⟨checkCtor_complete p _ _ _ hc, ?_⟩, checkTyU_complete p _ _ _ hty⟩
    first
      | trivial
      | (split
         · exact absurd rfl (hnc _ _ _ _)
         · rfl)
  | updPtrPtr hc hs ht hin =>
    unfold checkConvertU
    simp [checkCtor_complete p _ _ _ hc, hs, ht, checkTyU_complete p _ _ _ hin]
  | updSrcPtr hc hs ht hin =>
    unfold checkConvertU
    simp only [Bool.and_eq_true, if_true, Bool.false_eq_true, if_false, hs]
    refine ⟨checkCtor_complete p _ _ _ hc, ?_⟩
    first
      | exact checkTyU_complete p _ _ _ hin
      | (split
         · exact absurd (by assumption : under p.conv.env t = .ptr _) (ht _)
         · exact checkTyU_complete p _ _ _ hin)
  | updTgtPtr hc hs ht hin =>
    unfold checkConvertU
    simp only [Bool.and_eq_true, if_true, Bool.false_eq_true, if_false]
    refine ⟨checkCtor_complete p _ _ _ hc, ?_⟩
    have ih := checkTyU_complete p _ _ _ hin
    cases hus : under p.conv.env s <;> first | exact absurd hus (hs _) | simp [ht, ih]

theorem checkBodyU_complete (p : Program) (gm : GenMethod) (h : BodyOKU p gm) : checkBodyU p gm = true := by
  unfold BodyOKU at h
  unfold checkBodyU
  cases hb : gm.body with
  | none => simp [hb] at h
  | some b =>
    cases b with
    | convert c =>
      simp only [hb] at h ⊢
      exact checkConvertU_complete p c _ _ h
    | delegate _ _ _ => simp [hb] at h
    | update sp c =>
      simp only [hb] at h ⊢
      obtain ⟨te, hte, hrest⟩ := h
      simp only [hte]
      cases sp with
      | false =>
        simp only [Bool.false_eq_true, if_false] at hrest ⊢
        exact checkTyU_complete p c _ _ hrest
      | true =>
        simp only [if_true] at hrest ⊢
        obtain ⟨se, hse, hty⟩ := hrest
        simp only [hse]
        exact checkTyU_complete p c _ _ hty

theorem checkProgU_complete (p : Program) (h : ProgOKU p) : checkProgU p = true := by
  unfold checkProgU
  rw [List.all_eq_true]
  intro gm hmem
  obtain ⟨m, hlt, hget⟩ := List.getElem_of_mem hmem
  exact checkBodyU_complete p gm (h m gm (by rw [List.getElem?_eq_getElem hlt, hget]))

end Gv.Sound
