/-
Errors are never fabricated and never lose their cause (C07): whatever error a plan returns, stripped of the location
wrappers, is the failure of a custom function (or of a source-struct method) or the `unexpected enum element` error
of an `@error` enum action — for ALL plans, values and fuel.
-/
import Gv.Proofs.EvalLemmas

namespace Gv.Sound
open Gv Gv.Str Gv.Eval

/-- strip the location wrappers (`error setting field …`, `error setting index …`, Wrap(…, path)) -/
def rootCause : ErrV → ErrV
  | .field _ e => rootCause e
  | .index _ e => rootCause e
  | .wrap _ e => rootCause e
  | e => e

/-- the error comes from a failing function or an unknown enum value -/
def Caused (e : ErrV) : Prop := (∃ fn, rootCause e = .boom fn) ∨ rootCause e = .enumUnknown

theorem rootCause_wrapErr (w : Wrap) (idx : List Nat) (keys : List Val) (e : ErrV) :
    rootCause (wrapErr w idx keys e) = rootCause e := by
  unfold wrapErr
  split
  · rfl
  · simp [rootCause]
  · split
    · simp [rootCause]
    · split <;> simp [rootCause]
    · rfl

theorem caused_wrapErr {w : Wrap} {idx : List Nat} {keys : List Val} {e : ErrV} (h : Caused e) :
    Caused (wrapErr w idx keys e) := by
  unfold Caused at *
  rw [rootCause_wrapErr]; exact h

theorem caused_boom (fn : S) : Caused (.boom fn) := .inl ⟨fn, rfl⟩
theorem caused_enum : Caused .enumUnknown := .inr rfl

theorem E_bind_err {α β} (x : E α) (f : α → E β) (n : Nat) (e : ErrV) :
    (x >>= f) n = .err e ↔ x n = .err e ∨ ∃ a n1, x n = .ok (a, n1) ∧ f a n1 = .err e := by
  show (StateT.bind x f) n = .err e ↔ _
  unfold StateT.bind
  cases hx : x n with
  | ok v =>
    obtain ⟨a, n1⟩ := v
    simp only [bind]
    constructor
    · intro h; exact .inr ⟨a, n1, rfl, h⟩
    · rintro (h | ⟨a', n1', h1, h2⟩)
      · cases h
      · cases h1; exact h2
  | err e' =>
    simp only [bind]
    constructor
    · intro h
      have he : e' = e := by injection h
      subst he; exact .inl rfl
    · rintro (h | ⟨a', n1', h1, _⟩)
      · have he : e' = e := by injection h
        subst he; rfl
      · cases h1
  | panic k => simp [bind]
  | stuck w => simp [bind]

theorem E_pure_err {α} (a : α) (n : Nat) (e : ErrV) : (pure a : E α) n = Outcome.err e ↔ False := by
  show (StateT.pure a : E α) n = Outcome.err e ↔ _
  unfold StateT.pure
  constructor
  · intro h; cases h
  · intro h; cases h

/-! ### the statements, by fuel -/

def RConv (p : Program) (fuel : Nat) : Prop :=
  ∀ (fr : Frame) (c : Conv) (v old : Val) (n : Nat) (e : ErrV), evalConv p fuel fr c v old n = .err e → Caused e
def RCall (p : Program) (fuel : Nat) : Prop :=
  ∀ (m : Nat) (v : Val) (cs : List Val) (n : Nat) (e : ErrV), callMethod p fuel m v cs n = .err e → Caused e
def RElems (p : Program) (fuel : Nat) : Prop :=
  ∀ (fr : Frame) (te : Ty) (elem : Conv) (vs : List Val) (i n : Nat) (e : ErrV), evalElems p fuel fr te elem vs i n = .err e → Caused e
def RElemsOld (p : Program) (fuel : Nat) : Prop :=
  ∀ (fr : Frame) (elem : Conv) (vs olds : List Val) (i n : Nat) (e : ErrV), evalElemsOld p fuel fr elem vs olds i n = .err e → Caused e
def REntries (p : Program) (fuel : Nat) : Prop :=
  ∀ (fr : Frame) (tk tv : Ty) (key val : Conv) (kvs : List (Val × Val)) (n : Nat) (e : ErrV),
    evalEntries p fuel fr tk tv key val kvs n = .err e → Caused e
def RFields (p : Program) (fuel : Nat) : Prop :=
  ∀ (fr : Frame) (plans : FieldPlans) (src old : Val) (n : Nat) (e : ErrV), evalFields p fuel fr plans src old n = .err e → Caused e

theorem rElems_step (p : Program) (fuel : Nat) (ihc : RConv p fuel) (ihe : RElems p fuel) : RElems p (fuel + 1) := by
  intro fr te elem vs i n e hev
  cases vs with
  | nil => unfold evalElems at hev; exact absurd hev (by simp [E_pure_err])
  | cons v vs =>
    unfold evalElems at hev
    rcases (E_bind_err _ _ _ _).1 hev with h | ⟨x, n1, _, h2⟩
    · exact ihc _ _ _ _ _ _ h
    · rcases (E_bind_err _ _ _ _).1 h2 with h | ⟨r, n2, _, h4⟩
      · exact ihe _ _ _ _ _ _ _ h
      · exact absurd h4 (by simp [E_pure_err])

theorem rElemsOld_step (p : Program) (fuel : Nat) (ihc : RConv p fuel) (ihe : RElemsOld p fuel) : RElemsOld p (fuel + 1) := by
  intro fr elem vs olds i n e hev
  cases vs with
  | nil => unfold evalElemsOld at hev; exact absurd hev (by simp [E_pure_err])
  | cons v vs =>
    unfold evalElemsOld at hev
    rcases (E_bind_err _ _ _ _).1 hev with h | ⟨x, n1, _, h2⟩
    · exact ihc _ _ _ _ _ _ h
    · rcases (E_bind_err _ _ _ _).1 h2 with h | ⟨r, n2, _, h4⟩
      · exact ihe _ _ _ _ _ _ _ h
      · exact absurd h4 (by simp [E_pure_err])

theorem rEntries_step (p : Program) (fuel : Nat) (ihc : RConv p fuel) (ihe : REntries p fuel) : REntries p (fuel + 1) := by
  intro fr tk tv key val kvs n e hev
  cases kvs with
  | nil => unfold evalEntries at hev; exact absurd hev (by simp [E_pure_err])
  | cons kv kvs =>
    obtain ⟨a, b⟩ := kv
    unfold evalEntries at hev
    rcases (E_bind_err _ _ _ _).1 hev with h | ⟨x, n1, _, h2⟩
    · exact ihc _ _ _ _ _ _ h
    · rcases (E_bind_err _ _ _ _).1 h2 with h | ⟨y, n2, _, h4⟩
      · exact ihc _ _ _ _ _ _ h
      · rcases (E_bind_err _ _ _ _).1 h4 with h | ⟨r, n3, _, h6⟩
        · exact ihe _ _ _ _ _ _ _ _ h
        · exact absurd h6 (by simp [E_pure_err])

theorem rCall_step (p : Program) (fuel : Nat) (ihc : RConv p fuel) : RCall p (fuel + 1) := by
  intro m v cs n e hev
  unfold callMethod at hev
  split at hev
  · cases hev
  · split at hev
    · cases hev
    · exact ihc _ _ _ _ _ _ hev
    · split at hev
      · cases hev
      · split at hev
        · cases hev; exact caused_boom _
        · cases hev
    · cases hev

theorem walk_not_err : ∀ (path : List S) (derefs : List Bool) (v : Val) (e : ErrV), walk path derefs v ≠ .err e := by
  intro path
  induction path with
  | nil => intro derefs v e h; unfold walk at h; cases h
  | cons p ps ih =>
    intro derefs v e h
    cases derefs with
    | nil => unfold walk at h; cases h
    | cons d ds =>
      unfold walk at h
      simp only [] at h
      repeat' split at h
      all_goals first
        | (cases h; done)
        | exact ih _ _ _ h
        | (rename_i heq; repeat' split at heq; all_goals first | (cases heq; done) | skip)

theorem rFields_step (p : Program) (fuel : Nat) (ihc : RConv p fuel) (ihf : RFields p fuel) : RFields p (fuel + 1) := by
  intro fr plans src old n e hev
  cases plans with
  | nil => unfold evalFields at hev; exact absurd hev (by simp [E_pure_err])
  | cons f rest =>
    cases f with
    | skip t => unfold evalFields at hev; exact ihf _ _ _ _ _ _ hev
    | mapped target path derefs guarded leafIsPtr cv zero =>
      unfold evalFields at hev
      simp only [] at hev
      repeat' split at hev
      all_goals first
        | (cases hev; done)
        | exact ihf _ _ _ _ _ _ hev
        | (injection hev with he; subst he; exact ihc _ _ _ _ _ _ (by assumption))
        | (injection hev with he; subst he; exact absurd (by assumption) (walk_not_err _ _ _ _))
    | viaMethod target path derefs guarded call resIsPtr cv zero =>
      unfold evalFields at hev
      simp only [] at hev
      repeat' split at hev
      all_goals first
        | (cases hev; done)
        | exact ihf _ _ _ _ _ _ hev
        | (injection hev with he; subst he; exact ihc _ _ _ _ _ _ (by assumption))
        | (injection hev with he; subst he; exact absurd (by assumption) (walk_not_err _ _ _ _))
        | (injection hev with he; subst he; rename_i heq; repeat' split at heq; all_goals first | (cases heq; done) | skip)

theorem pure_not_err {α} (a : α) (n : Nat) (e : ErrV) : (pure a : E α) n ≠ .err e := fun h => (E_pure_err a n e).1 h
theorem stuckE_not_err {α} (w : String) (n : Nat) (e : ErrV) : (stuckE w : E α) n ≠ .err e := by
  intro h; unfold stuckE at h; cases h

theorem argOf_not_err (fr : Frame) (src : Val) (a : CallArg) (n : Nat) (e : ErrV) : argOf fr src a n ≠ .err e := by
  intro h
  cases a with
  | self => exact pure_not_err _ _ _ h
  | ctx t =>
    unfold argOf at h
    simp only [] at h
    cases hl : lookupCtx fr t with
    | none => rw [hl] at h; exact stuckE_not_err _ _ _ h
    | some x => rw [hl] at h; exact pure_not_err _ _ _ h
  | ctxMissing t => exact stuckE_not_err (α := Option Val) "call built without its context argument" n e h
  | source => exact pure_not_err _ _ _ h
  | sourceParent =>
    unfold argOf at h
    simp only [] at h
    cases hl : fr.parent with
    | none => rw [hl] at h; exact stuckE_not_err _ _ _ h
    | some x => rw [hl] at h; exact pure_not_err _ _ _ h

theorem filterMapM_loop_not_err (fr : Frame) (src : Val) : ∀ (args : List CallArg) (acc : List Val) (n : Nat) (e : ErrV),
    List.filterMapM.loop (argOf fr src) args acc n ≠ .err e := by
  intro args
  induction args with
  | nil => intro acc n e h; unfold List.filterMapM.loop at h; exact absurd h (by simp [E_pure_err])
  | cons a as ih =>
    intro acc n e h
    unfold List.filterMapM.loop at h
    rcases (E_bind_err _ _ _ _).1 h with h1 | ⟨o, n1, _, h2⟩
    · exact argOf_not_err fr src a n e h1
    · cases o with
      | none => exact ih _ _ _ h2
      | some b => exact ih _ _ _ h2

theorem E_errE {α} (e0 : ErrV) (n : Nat) (e : ErrV) (h : (errE e0 : E α) n = .err e) : e = e0 := by
  unfold errE at h; injection h with h; exact h.symm

theorem applyEnumAction_err (fr : Frame) (old : Val) (act : EnumAction) (n : Nat) (e : ErrV)
    (h : applyEnumAction fr old act n = .err e) : Caused e := by
  cases act with
  | member name cv => exact absurd h (pure_not_err _ _ _)
  | ignore => exact absurd h (pure_not_err _ _ _)
  | panic => unfold applyEnumAction panicE at h; cases h
  | error w => unfold applyEnumAction at h; rw [E_errE _ _ _ h]; exact caused_wrapErr caused_enum

theorem rConv_step (p : Program) (fuel : Nat) (ihc : RConv p fuel) (ihm : RCall p fuel) (ihe : RElems p fuel)
    (iho : RElemsOld p fuel) (ihn : REntries p fuel) (ihf : RFields p fuel) : RConv p (fuel + 1) := by
  intro fr c v old n e hev
  cases c with
  | ident => unfold evalConv at hev; exact absurd hev (by simp [E_pure_err])
  | cast inner => unfold evalConv at hev; exact ihc _ _ _ _ _ _ hev
  | underlying a b inner => unfold evalConv at hev; exact ihc _ _ _ _ _ _ hev
  | call callee args retErr w =>
    unfold evalConv at hev
    simp only [] at hev
    rcases (E_bind_err _ _ _ _).1 hev with h | ⟨argVals, n1, _, h⟩
    · exact absurd h (filterMapM_loop_not_err fr v args [] n e)
    · cases callee with
      | structMethod name =>
        simp only [] at h
        split at h
        · rw [E_errE _ _ _ h]; exact caused_wrapErr (caused_boom _)
        · exact absurd h (by simp [E_pure_err])
      | custom i =>
        simp only [] at h
        cases hd : p.conv.customs[i]? with
        | none => rw [hd] at h; exact absurd h (stuckE_not_err _ _ _)
        | some d =>
          rw [hd] at h
          simp only [] at h
          split at h
          · rw [E_errE _ _ _ h]; exact caused_wrapErr (caused_boom _)
          · split at h
            · cases hp : isPtr p.conv.env d.target with
              | some te =>
                rw [hp] at h
                rcases (E_bind_err _ _ _ _).1 h with h1 | ⟨l, n2, _, h2⟩
                · unfold freshLoc at h1; cases h1
                · exact absurd h2 (pure_not_err _ _ _)
              | none => rw [hp] at h; exact absurd h (pure_not_err _ _ _)
            · exact absurd h (pure_not_err _ _ _)
      | method m =>
        simp only [] at h
        split at h
        · cases h
        · rename_i e1 heq
          split at h
          · injection h with h; subst h
            exact caused_wrapErr (ihm _ _ _ _ _ heq)
          · cases h
        · cases h
        · cases h
  | ptrPtr te inner =>
    unfold evalConv at hev
    simp only [] at hev
    split at hev
    · exact absurd hev (pure_not_err _ _ _)
    · rcases (E_bind_err _ _ _ _).1 hev with h | ⟨x, n1, _, h2⟩
      · exact ihc _ _ _ _ _ _ h
      · rcases (E_bind_err _ _ _ _).1 h2 with h | ⟨l, n2, _, h4⟩
        · unfold freshLoc at h; cases h
        · exact absurd h4 (pure_not_err _ _ _)
    · exact absurd hev (stuckE_not_err _ _ _)
  | srcPtr t inner =>
    unfold evalConv at hev
    simp only [] at hev
    split at hev
    · exact absurd hev (pure_not_err _ _ _)
    · exact ihc _ _ _ _ _ _ hev
    · exact absurd hev (stuckE_not_err _ _ _)
  | tgtPtr te inner =>
    unfold evalConv at hev
    simp only [] at hev
    rcases (E_bind_err _ _ _ _).1 hev with h | ⟨x, n1, _, h2⟩
    · exact ihc _ _ _ _ _ _ h
    · rcases (E_bind_err _ _ _ _).1 h2 with h | ⟨l, n2, _, h4⟩
      · unfold freshLoc at h; cases h
      · exact absurd h4 (pure_not_err _ _ _)
  | list te hasMake hasGuard elem =>
    unfold evalConv at hev
    simp only [] at hev
    -- the loop over the elements (with or without `make`)
    have hrun : ∀ (vs : List Val) (m : Nat),
        ((if hasMake = true then do
            let out ← evalElems p fuel fr te elem vs 0
            if vs.isEmpty = true then pure (Val.slice Loc.none [])
              else do
                let l ← freshLoc
                pure (Val.slice l out)
          else
            do
            let out ← evalElemsOld p fuel fr elem vs
              (List.map (fun i => (match old with | Val.slice _ xs => xs | _ => [])[i]?.getD Val.absent) (List.range vs.length)) 0
            if ((out.zip (List.map (fun i => (match old with | Val.slice _ xs => xs | _ => [])[i]?.getD Val.absent) (List.range vs.length))).any fun x =>
                  match x with
                  | (n, o) => o.isAbsent && !n.isAbsent) = true then
                panicE PanicKind.indexOutOfRange
              else
                match old with
                | Val.slice l xs => pure (Val.slice l (List.take xs.length out ++ List.drop vs.length xs))
                | o => pure o) : E Val) m = .err e → Caused e := by
      intro vs m h
      cases hasMake with
      | true =>
        simp only [if_true] at h
        rcases (E_bind_err _ _ _ _).1 h with h1 | ⟨out, n1, _, h2⟩
        · exact ihe _ _ _ _ _ _ _ h1
        · split at h2
          · exact absurd h2 (pure_not_err _ _ _)
          · rcases (E_bind_err _ _ _ _).1 h2 with h3 | ⟨l, n2, _, h4⟩
            · unfold freshLoc at h3; cases h3
            · exact absurd h4 (pure_not_err _ _ _)
      | false =>
        simp only [Bool.false_eq_true, if_false] at h
        rcases (E_bind_err _ _ _ _).1 h with h1 | ⟨out, n1, _, h2⟩
        · exact iho _ _ _ _ _ _ _ h1
        · generalize ((out.zip _).any _) = cnd at h2
          cases cnd with
          | true => simp only [if_true] at h2; unfold panicE at h2; cases h2
          | false =>
            simp only [Bool.false_eq_true, if_false] at h2
            cases old <;> exact absurd h2 (pure_not_err _ _ _)
    split at hev
    · split at hev
      · exact absurd hev (pure_not_err _ _ _)
      · exact hrun _ _ hev
    · exact hrun _ _ hev
    · exact hrun _ _ hev
    · exact absurd hev (stuckE_not_err _ _ _)
  | mapc tk tv key val =>
    unfold evalConv at hev
    simp only [] at hev
    split at hev
    · exact absurd hev (pure_not_err _ _ _)
    · rcases (E_bind_err _ _ _ _).1 hev with h | ⟨x, n1, _, h2⟩
      · exact ihn _ _ _ _ _ _ _ _ h
      · rcases (E_bind_err _ _ _ _).1 h2 with h | ⟨l, n2, _, h4⟩
        · unfold freshLoc at h; cases h
        · exact absurd h4 (pure_not_err _ _ _)
    · exact absurd hev (stuckE_not_err _ _ _)
  | structc fields upd => unfold evalConv at hev; exact ihf _ _ _ _ _ _ hev
  | enumc cases dflt =>
    unfold evalConv at hev
    simp only [] at hev
    exact applyEnumAction_err _ _ _ _ _ hev
  | withCtor ctor toPointer rest =>
    unfold evalConv at hev
    simp only [] at hev
    rcases (E_bind_err _ _ _ _).1 hev with h | ⟨cv, n1, _, h2⟩
    · exact ihc _ _ _ _ _ _ h
    · cases toPointer with
      | true =>
        simp only [if_true] at h2
        rcases (E_bind_err _ _ _ _).1 h2 with h | ⟨init, n2, _, h4⟩
        · rcases (E_bind_err _ _ _ _).1 h with h5 | ⟨l, n3, _, h6⟩
          · unfold freshLoc at h5; cases h5
          · exact absurd h6 (pure_not_err _ _ _)
        · exact ihc _ _ _ _ _ _ h4
      | false =>
        simp only [Bool.false_eq_true, if_false] at h2
        rcases (E_bind_err _ _ _ _).1 h2 with h | ⟨init, n2, _, h4⟩
        · exact absurd h (pure_not_err _ _ _)
        · exact ihc _ _ _ _ _ _ h4
  | ctorUpdate ctor toPointer srcIsPtr tgtIsPtr inner =>
    unfold evalConv at hev
    simp only [] at hev
    -- assigning through the constructed value
    have hgo : ∀ (init x : Val) (parent : Option Val) (m : Nat),
        ((if tgtIsPtr = true then
            match init with
            | Val.ptr l tv => do
              let nv ← evalConv p fuel { self := fr.self, ctx := fr.ctx, idx := fr.idx, keys := fr.keys, parent := parent } inner x tv
              pure (Val.ptr l nv)
            | Val.nil => panicE PanicKind.nilDeref
            | _ => stuckE "ctorUpdate: pointer expected"
          else evalConv p fuel { self := fr.self, ctx := fr.ctx, idx := fr.idx, keys := fr.keys, parent := parent } inner x init) : E Val) m = .err e →
        Caused e := by
      intro init x parent m h
      cases tgtIsPtr with
      | true =>
        simp only [if_true] at h
        split at h
        · rcases (E_bind_err _ _ _ _).1 h with h1 | ⟨nv, n2, _, h3⟩
          · exact ihc _ _ _ _ _ _ h1
          · exact absurd h3 (pure_not_err _ _ _)
        · unfold panicE at h; cases h
        · exact absurd h (stuckE_not_err _ _ _)
      | false => simp only [Bool.false_eq_true, if_false] at h; exact ihc _ _ _ _ _ _ h
    have htail : ∀ (init : Val) (m : Nat),
        ((if srcIsPtr = true then
            match (generalizing := false) v with
            | Val.nil => pure init
            | Val.ptr l x =>
              if tgtIsPtr = true then
                match init with
                | Val.ptr l tv => do
                  let nv ← evalConv p fuel { self := fr.self, ctx := fr.ctx, idx := fr.idx, keys := fr.keys, parent := some v } inner x tv
                  pure (Val.ptr l nv)
                | Val.nil => panicE PanicKind.nilDeref
                | _ => stuckE "ctorUpdate: pointer expected"
              else evalConv p fuel { self := fr.self, ctx := fr.ctx, idx := fr.idx, keys := fr.keys, parent := some v } inner x init
            | _ => stuckE "ctorUpdate: source pointer expected"
          else
            if tgtIsPtr = true then
              match init with
              | Val.ptr l tv => do
                let nv ← evalConv p fuel { self := fr.self, ctx := fr.ctx, idx := fr.idx, keys := fr.keys, parent := none } inner v tv
                pure (Val.ptr l nv)
              | Val.nil => panicE PanicKind.nilDeref
              | _ => stuckE "ctorUpdate: pointer expected"
            else evalConv p fuel { self := fr.self, ctx := fr.ctx, idx := fr.idx, keys := fr.keys, parent := none } inner v init) : E Val) m = .err e →
        Caused e := by
      intro init m h
      cases srcIsPtr with
      | true =>
        simp only [if_true] at h
        split at h
        · exact absurd h (pure_not_err _ _ _)
        · exact hgo _ _ _ _ h
        · exact absurd h (stuckE_not_err _ _ _)
      | false =>
        simp only [Bool.false_eq_true, if_false] at h
        exact hgo _ _ _ _ h
    rcases (E_bind_err _ _ _ _).1 hev with h | ⟨cv, n1, _, h2⟩
    · exact ihc _ _ _ _ _ _ h
    · cases toPointer with
      | true =>
        simp only [if_true] at h2
        rcases (E_bind_err _ _ _ _).1 h2 with h | ⟨init, n2, _, h4⟩
        · rcases (E_bind_err _ _ _ _).1 h with h5 | ⟨l, n3, _, h6⟩
          · unfold freshLoc at h5; cases h5
          · exact absurd h6 (pure_not_err _ _ _)
        · exact htail _ _ h4
      | false =>
        simp only [Bool.false_eq_true, if_false] at h2
        rcases (E_bind_err _ _ _ _).1 h2 with h | ⟨init, n2, _, h4⟩
        · exact absurd h (pure_not_err _ _ _)
        · exact htail _ _ h4

/-! ### all fuels -/

theorem rootCause_all (p : Program) :
    ∀ fuel, RConv p fuel ∧ RCall p fuel ∧ RElems p fuel ∧ RElemsOld p fuel ∧ REntries p fuel ∧ RFields p fuel := by
  intro fuel
  induction fuel with
  | zero =>
    refine ⟨?_, ?_, ?_, ?_, ?_, ?_⟩
    · intro fr c v old n e hev; unfold evalConv at hev; cases hev
    · intro m v cs n e hev; unfold callMethod at hev; cases hev
    · intro fr te elem vs i n e hev; unfold evalElems at hev; cases hev
    · intro fr elem vs olds i n e hev; unfold evalElemsOld at hev; cases hev
    · intro fr tk tv key val kvs n e hev; unfold evalEntries at hev; cases hev
    · intro fr plans src old n e hev; unfold evalFields at hev; cases hev
  | succ fuel ih =>
    obtain ⟨ihc, ihm, ihe, iho, ihn, ihf⟩ := ih
    exact ⟨rConv_step p fuel ihc ihm ihe iho ihn ihf, rCall_step p fuel ihc, rElems_step p fuel ihc ihe,
      rElemsOld_step p fuel ihc iho, rEntries_step p fuel ihc ihn, rFields_step p fuel ihc ihf⟩

/-- **Root cause** (C07): whatever error a conversion plan returns is, under its location wrappers, the failure of a
custom function / source-struct method or the unknown-enum error — for every plan, program, value and fuel. -/
theorem evalConv_root_cause (p : Program) (fuel : Nat) (fr : Frame) (c : Conv) (v old : Val) (n : Nat) (e : ErrV)
    (h : evalConv p fuel fr c v old n = .err e) : Caused e := (rootCause_all p fuel).1 fr c v old n e h

theorem callMethod_root_cause (p : Program) (fuel m : Nat) (v : Val) (cs : List Val) (n : Nat) (e : ErrV)
    (h : callMethod p fuel m v cs n = .err e) : Caused e := (rootCause_all p fuel).2.1 m v cs n e h

end Gv.Sound
