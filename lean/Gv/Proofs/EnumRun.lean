/-
Joining the enum builder model (Gv.Gen.enumPlan) with the switch semantics (Gv.Eval.evalConv on `.enumc`): what the
generated switch does on the runtime value of a declared source member and on every other value.  Used by C08_end_to_end.
-/
import Gv.Model.Eval
import Gv.Proofs.EnumFail

set_option linter.unusedSimpArgs false

namespace Gv.EnumRun
open Gv Gv.Str Gv.Gen Gv.Eval Gv.EnumLemmas Gv.EnumFail

/-- the action a target name denotes (state-free; `none`: the name denotes nothing): `@ignore`, `@panic`, `@error` wrapped as
configured, or the member of the target enum with that name -/
def enumActionOf (cx : Ctx) (path : List PathElem) (tm : List ConstDecl) (n : S) : Option EnumAction :=
  if Settings.isEnumAction n then
    if n == "@ignore".toList then some .ignore
    else if n == "@panic".toList then some .panic
    else if n == "@error".toList then some (.error (wrapOf cx path))
    else none
  else (tm.find? (·.name == n)).map (fun td => .member n td.val)

/-- what `enumAction` returns is the action the name denotes -/
theorem enumAction_ok_actionOf (cx : Ctx) (path : List PathElem) (tm : List ConstDecl) (n : S) (s s' : GState) (a : EnumAction)
    (h : enumAction cx path tm n s = .ok (a, s')) : enumActionOf cx path tm n = some a := by
  rw [enumAction_eq] at h
  unfold enumActionOf
  split at h
  · rename_i hact
    simp only [hact, if_true]
    split at h
    · rename_i h1; cases h; simp only [h1, if_true]
    · rename_i h1
      have h1 := Bool.eq_false_iff.2 h1
      split at h
      · rename_i h2; cases h; simp only [h1, h2, Bool.false_eq_true, if_false, if_true]
      · rename_i h2
        have h2 := Bool.eq_false_iff.2 h2
        split at h
        · rename_i h3
          simp only [h1, h2, h3, Bool.false_eq_true, if_false, if_true]
          cases hr : returnError cx s with
          | error e => rw [hr] at h; cases h
          | ok v =>
            obtain ⟨b, s1⟩ := v
            cases b with
            | false => rw [hr] at h; cases h
            | true => rw [hr] at h; cases h; rfl
        · cases h
  · rename_i hact
    simp only [hact]
    split at h
    · rename_i td htd; cases h; simp [htd]
    · cases h

/-- a resolving name denotes an action -/
theorem resolves_actionOf (cx : Ctx) (path : List PathElem) (st : GState) (tm : List ConstDecl) (n : S)
    (h : enumResolves cx st tm n = true) : ∃ a, enumActionOf cx path tm n = some a := by
  unfold enumResolves at h
  unfold enumActionOf
  split
  · rename_i hact
    simp only [hact, if_true] at h
    split
    · exact ⟨_, rfl⟩
    · split
      · exact ⟨_, rfl⟩
      · split
        · exact ⟨_, rfl⟩
        · rename_i h1 h2 h3
          have h1 := Bool.eq_false_iff.2 h1
          have h2 := Bool.eq_false_iff.2 h2
          have h3 := Bool.eq_false_iff.2 h3
          simp only [h1, h2, h3, Bool.or_self, Bool.false_and] at h
          cases h
  · rename_i hact
    simp only [hact] at h
    cases hf : List.find? (fun x => x.name == n) tm with
    | some td => exact ⟨_, rfl⟩
    | none => rw [(find_none_iff_any _ _).1 hf] at h; cases h

/-- names that agree (`enumMismatch = false`) denote actions that do the same at run time -/
theorem agree_run (cx : Ctx) (path : List PathElem) (tm : List ConstDecl) (a b : S) (x y : EnumAction)
    (hm : enumMismatch tm a b = false) (hx : enumActionOf cx path tm a = some x) (hy : enumActionOf cx path tm b = some y)
    (fr : Frame) (old : Val) : applyEnumAction fr old x = applyEnumAction fr old y := by
  unfold enumMismatch at hm
  by_cases hab : a = b
  · subst hab; rw [hx] at hy; cases hy; rfl
  · cases ha : Settings.isEnumAction a <;> cases hb : Settings.isEnumAction b
    · -- both are member names: equal target values
      simp only [ha, hb, Bool.not_false, Bool.and_self, if_true] at hm
      unfold enumActionOf at hx hy
      simp only [ha, hb, Bool.false_eq_true, if_false] at hx hy
      cases hfa : List.find? (fun x => x.name == a) tm with
      | none => rw [hfa] at hx; cases hx
      | some ta =>
        cases hfb : List.find? (fun x => x.name == b) tm with
        | none => rw [hfb] at hy; cases hy
        | some tb =>
          rw [hfa] at hx; rw [hfb] at hy
          cases hx; cases hy
          simp only [hfa, hfb, Option.map_some, bne_eq_false_iff_eq, Option.some.injEq] at hm
          simp only [applyEnumAction, hm]
    · simp [ha, hb] at hm; exact absurd hm hab
    · simp [ha, hb] at hm; exact absurd hm hab
    · simp [ha, hb] at hm; exact absurd hm hab

/-- the switch: the first case whose value prints like the source value, else the default -/
theorem evalConv_enumc (p : Program) (fuel : Nat) (fr : Frame) (cases : List (S × ConstVal × EnumAction)) (dflt : EnumAction)
    (src old : Val) (n : Nat) :
    evalConv p (fuel + 1) fr (.enumc cases dflt) src old n =
      applyEnumAction fr old
        (match src with
         | .basic r => ((cases.find? (fun (x : S × ConstVal × EnumAction) => constRepr x.2.1 == r)).map
              (fun (x : S × ConstVal × EnumAction) => x.2.2)).getD dflt
         | _ => dflt) n := by
  conv => lhs; unfold evalConv
  cases src <;> rfl

/-- what the four kinds of action do at run time -/
theorem applyEnumAction_cases (fr : Frame) (old : Val) (n : Nat) :
    (∀ name v, applyEnumAction fr old (.member name v) n = .ok (.basic (constRepr v), n)) ∧
    applyEnumAction fr old .ignore n = .ok (old, n) ∧
    applyEnumAction fr old .panic n = .panic .enumUnknown ∧
    (∀ w, applyEnumAction fr old (.error w) n = .err (wrapErr w fr.idx fr.keys .enumUnknown)) :=
  ⟨fun _ _ => rfl, rfl, rfl, fun _ => rfl⟩

/-- what a successful `enumPlan` went through, with the loop started in the given state -/
theorem enumPlan_ok_inv (c : Converter) (cx : Ctx) (s t : Ty) (path : List PathElem) (st st' : GState) (r : Conv)
    (h : enumPlan c cx s t path st = .ok (r, st')) :
    ∃ sm tm tmap acc s2 dflt,
      enumMembers c cx.cfg.common s = some sm ∧ enumMembers c cx.cfg.common t = some tm ∧
      enumTransformers c sm tm cx.cfg.transformers [] = .ok tmap ∧
      enumCases cx path tm tmap sm { remaining := if cx.fieldsTarget == t then cx.cfg.enumMap.map (·.1) else [] } st = .ok (acc, s2) ∧
      cx.cfg.common.enumUnknown.isEmpty = false ∧
      enumAction cx path tm cx.cfg.common.enumUnknown s2 = .ok (dflt, st') ∧ r = .enumc acc.cases dflt := by
  rw [enumPlan_eq] at h
  cases hsm : enumMembers c cx.cfg.common s with
  | none => rw [hsm] at h; cases h
  | some sm =>
    cases htm : enumMembers c cx.cfg.common t with
    | none => rw [hsm, htm] at h; cases h
    | some tm =>
      rw [hsm, htm] at h
      simp only [] at h
      cases htr : enumTransformers c sm tm cx.cfg.transformers [] with
      | error e => rw [htr] at h; cases h
      | ok tmap =>
        rw [htr] at h
        simp only [] at h
        cases hc : enumCases cx path tm tmap sm { remaining := if cx.fieldsTarget == t then cx.cfg.enumMap.map (·.1) else [] } st with
        | error e => rw [hc] at h; cases h
        | ok v =>
          obtain ⟨acc, s2⟩ := v
          rw [hc] at h
          simp only [] at h
          cases hu : cx.cfg.common.enumUnknown.isEmpty with
          | true => rw [hu] at h; cases h
          | false =>
            rw [hu] at h
            simp only [Bool.false_eq_true, if_false] at h
            cases hd : enumAction cx path tm cx.cfg.common.enumUnknown s2 with
            | error e => rw [hd] at h; cases h
            | ok v =>
              obtain ⟨dflt, s3⟩ := v
              rw [hd] at h
              simp only [] at h
              split at h
              · cases h
                exact ⟨sm, tm, tmap, acc, s2, dflt, rfl, rfl, htr, hc, rfl, hd, rfl⟩
              · cases h

/-- **the generated switch at run time**: on every value that is not the runtime value of a declared source member it does
what `enum:unknown` denotes; on the runtime value of a member (if distinct member values print differently) it does what
the name chosen for that member denotes -/
theorem enumPlan_run (c : Converter) (cx : Ctx) (s t : Ty) (path : List PathElem) (st st' : GState) (plan : Conv)
    (h : enumPlan c cx s t path st = .ok (plan, st')) :
    ∃ sm tm tmap dflt,
      enumMembers c cx.cfg.common s = some sm ∧ enumMembers c cx.cfg.common t = some tm ∧
      enumTransformers c sm tm cx.cfg.transformers [] = .ok tmap ∧
      enumActionOf cx path tm cx.cfg.common.enumUnknown = some dflt ∧
      (∀ (p : Program) (fuel : Nat) (fr : Frame) (v old : Val) (n : Nat),
        (∀ sd, sd ∈ sm → v ≠ .basic (constRepr sd.val)) →
        evalConv p (fuel + 1) fr plan v old n = applyEnumAction fr old dflt n) ∧
      ((∀ a b, a ∈ sm → b ∈ sm → constRepr a.val = constRepr b.val → a.val = b.val) →
        ∀ sd, sd ∈ sm → ∃ act, enumActionOf cx path tm (chooseEnumTarget cx.cfg.enumMap tmap sd.name) = some act ∧
          ∀ (p : Program) (fuel : Nat) (fr : Frame) (old : Val) (n : Nat),
            evalConv p (fuel + 1) fr plan (.basic (constRepr sd.val)) old n = applyEnumAction fr old act n) := by
  obtain ⟨sm, tm, tmap, acc, s2, dflt, hsm, htm, htr, hc, _, hd, rfl⟩ := enumPlan_ok_inv c cx s t path st st' plan h
  have hdflt := enumAction_ok_actionOf cx path tm _ s2 st' dflt hd
  obtain ⟨hres, hagree⟩ := enumCases_ok_LoopOK cx path tm tmap st sm _ acc s2 hc
  -- every case belongs to a member and carries the action of that member's chosen name
  have hcase : ∀ x, x ∈ acc.cases → ∃ sd0, sd0 ∈ sm ∧ x.2.1 = sd0.val ∧
      enumActionOf cx path tm (chooseEnumTarget cx.cfg.enumMap tmap sd0.name) = some x.2.2 := by
    intro x hx
    rcases enumCases_name_driven cx path tm tmap sm _ acc st s2 hc x hx with h0 | ⟨sd0, hm, _, hv, s1, s1', ha⟩
    · cases h0
    · exact ⟨sd0, hm, hv, enumAction_ok_actionOf cx path tm _ s1 s1' _ ha⟩
  obtain ⟨_, _, hcov⟩ := enumCases_cover cx path tm tmap sm _ acc st s2 hc (by simp [Sync])
  refine ⟨sm, tm, tmap, dflt, hsm, htm, htr, hdflt, ?_, ?_⟩
  · intro p fuel fr v old n hv
    rw [evalConv_enumc]
    cases v with
    | basic r =>
      have hnone : acc.cases.find? (fun (x : S × ConstVal × EnumAction) => constRepr x.2.1 == r) = none := by
        rw [List.find?_eq_none]
        intro x hx hxr
        obtain ⟨sd0, hm, hxv, _⟩ := hcase x hx
        have : constRepr x.2.1 = r := by simpa using hxr
        exact hv sd0 hm (by rw [← this, hxv])
      simp only [hnone, Option.map_none, Option.getD_none]
    | _ => rfl
  · intro hinj sd hsd
    obtain ⟨act, hact⟩ := resolves_actionOf cx path st tm _ (hres sd hsd)
    refine ⟨act, hact, ?_⟩
    intro p fuel fr old n
    rw [evalConv_enumc]
    simp only []
    obtain ⟨x0, hx0, hx0v⟩ := hcov sd hsd
    cases hf : acc.cases.find? (fun (x : S × ConstVal × EnumAction) => constRepr x.2.1 == constRepr sd.val) with
    | none =>
      have := (List.find?_eq_none.1 hf) x0 hx0
      simp [hx0v] at this
    | some x =>
      have hxm : x ∈ acc.cases := List.mem_of_find?_eq_some hf
      have hxr : constRepr x.2.1 = constRepr sd.val := by simpa using List.find?_some hf
      obtain ⟨sd0, hm0, hxv, hx⟩ := hcase x hxm
      have hval : sd0.val = sd.val := hinj sd0 sd hm0 hsd (by rw [← hxv]; exact hxr)
      have hag := hagree sd0 sd hm0 hsd hval
      simp only [Option.map_some, Option.getD_some]
      rw [agree_run cx path tm _ _ x.2.2 act hag hx hact fr old]

/-- the outcome `r` is what the target name `name` prescribes: `@ignore` keeps what the target held (the zero value for a
fresh target), `@panic` panics, `@error` returns the `unexpected enum element` error wrapped as configured at this position,
a member name yields the runtime value of that member of the target enum -/
def RunsAs (cx : Ctx) (path : List PathElem) (tm : List ConstDecl) (fr : Frame) (old : Val) (n : Nat) (name : S)
    (r : Outcome (Val × Nat)) : Prop :=
  (name = "@ignore".toList ∧ r = .ok (old, n)) ∨
  (name = "@panic".toList ∧ r = .panic .enumUnknown) ∨
  (name = "@error".toList ∧ r = .err (wrapErr (wrapOf cx path) fr.idx fr.keys .enumUnknown)) ∨
  (Settings.isEnumAction name = false ∧ ∃ td, tm.find? (·.name == name) = some td ∧ r = .ok (.basic (constRepr td.val), n))

theorem actionOf_runsAs (cx : Ctx) (path : List PathElem) (tm : List ConstDecl) (name : S) (act : EnumAction)
    (h : enumActionOf cx path tm name = some act) (fr : Frame) (old : Val) (n : Nat) :
    RunsAs cx path tm fr old n name (applyEnumAction fr old act n) := by
  unfold enumActionOf at h
  split at h
  · split at h
    · rename_i h1; cases h; exact .inl ⟨by simpa using h1, rfl⟩
    · split at h
      · rename_i h2; cases h; exact .inr (.inl ⟨by simpa using h2, rfl⟩)
      · split at h
        · rename_i h3; cases h; exact .inr (.inr (.inl ⟨by simpa using h3, rfl⟩))
        · cases h
  · rename_i hact
    cases hf : List.find? (fun x => x.name == name) tm with
    | none => rw [hf] at h; cases h
    | some td =>
      rw [hf] at h; cases h
      exact .inr (.inr (.inr ⟨by simpa using hact, td, hf, rfl⟩))

/-- string-valued members print differently when they differ -/
theorem reprInj_of_str (sm : List ConstDecl) (h : ∀ a, a ∈ sm → ∃ s, a.val = .str s) :
    ∀ a b, a ∈ sm → b ∈ sm → constRepr a.val = constRepr b.val → a.val = b.val := by
  intro a b ha hb hab
  obtain ⟨s1, h1⟩ := h a ha
  obtain ⟨s2, h2⟩ := h b hb
  rw [h1, h2] at hab ⊢
  simp only [constRepr] at hab
  rw [hab]

end Gv.EnumRun
