/-
The frame property of struct assignment (C10): evaluating a list of field plans changes only the fields the plans
assign; every other field of the previous value is kept.  For ALL plans (any conversion inside, custom functions,
zero guards, nil-guarded paths, source methods), all values and all fuel.
-/
import Gv.Proofs.EvalLemmas

namespace Gv.Sound
open Gv Gv.Str Gv.Eval

/-- the target fields a plan list may assign -/
def planTargets : FieldPlans → List S
  | .nil => []
  | .cons (.skip _) r => planTargets r
  | .cons (.mapped t _ _ _ _ _ _) r => t :: planTargets r
  | .cons (.viaMethod t _ _ _ _ _ _ _) r => t :: planTargets r

theorem lookup_map_replace_ne (fs : List (S × Val)) (name t : S) (x : Val) (h : name ≠ t) :
    (fs.map (fun (q : S × Val) => if q.1 == t then (q.1, x) else (q.1, q.2))).lookup name = fs.lookup name := by
  induction fs with
  | nil => rfl
  | cons a fs ih =>
    obtain ⟨an, av⟩ := a
    by_cases hat : an = t
    · subst hat
      have hne : (name == an) = false := by simpa using h
      have hb : (an == an) = true := by simp
      simp only [List.map_cons, hb, if_true, List.lookup, hne]
      exact ih
    · have hb : (an == t) = false := by simpa using hat
      simp only [List.map_cons, hb, Bool.false_eq_true, if_false, List.lookup]
      cases hn : (name == an) with
      | true => rfl
      | false => simpa using ih

theorem lookup_append_ne (fs : List (S × Val)) (name t : S) (x : Val) (h : name ≠ t) :
    (fs ++ [(t, x)]).lookup name = fs.lookup name := by
  have hne : (name == t) = false := by simpa using h
  induction fs with
  | nil => simp [List.lookup, hne]
  | cons a fs ih =>
    obtain ⟨an, av⟩ := a
    simp only [List.cons_append, List.lookup]
    cases (name == an) with
    | true => rfl
    | false => exact ih

theorem fieldOf_setField_ne (old : Val) (name t : S) (x : Val) (h : name ≠ t) :
    fieldOf (setField old t x) name = fieldOf old name := by
  have hne : (name == t) = false := by simpa using h
  cases old with
  | struct fs =>
    unfold setField
    show fieldOf (if (fs.any fun p => p.1 == t) = true then _ else _) name = _
    split
    · have hfun : (fun (x_1 : S × Val) => match x_1 with | (n, old) => if (n == t) = true then (n, x) else (n, old)) =
          (fun (q : S × Val) => if q.1 == t then (q.1, x) else (q.1, q.2)) := by
        funext q; obtain ⟨a, b⟩ := q; rfl
      simp only [fieldOf]
      rw [hfun]
      exact lookup_map_replace_ne fs name t x h
    · simp only [fieldOf]
      exact lookup_append_ne fs name t x h
  | basic r => simp [setField, fieldOf, List.lookup, hne]
  | nil => simp [setField, fieldOf, List.lookup, hne]
  | ptr l v => simp [setField, fieldOf, List.lookup, hne]
  | slice l vs => simp [setField, fieldOf, List.lookup, hne]
  | arr vs => simp [setField, fieldOf, List.lookup, hne]
  | map l kvs => simp [setField, fieldOf, List.lookup, hne]
  | tok f a => simp [setField, fieldOf, List.lookup, hne]
  | absent => simp [setField, fieldOf, List.lookup, hne]

/-- **Frame** (C10): whatever a list of field plans does, a field that no plan of the list targets keeps its value. -/
theorem evalFields_frame (p : Program) : ∀ (fuel : Nat) (fr : Frame) (plans : FieldPlans) (src old : Val) (n : Nat) (v' : Val) (n' : Nat),
    evalFields p fuel fr plans src old n = .ok (v', n') →
    ∀ name, name ∉ planTargets plans → fieldOf v' name = fieldOf old name := by
  intro fuel
  induction fuel with
  | zero => intro fr plans src old n v' n' hev; unfold evalFields at hev; cases hev
  | succ fuel ih =>
    intro fr plans src old n v' n' hev name hname
    cases plans with
    | nil =>
      unfold evalFields at hev
      have := (E_pure_ok _ _ _).1 hev
      cases this; rfl
    | cons f rest =>
      cases f with
      | skip t =>
        unfold evalFields at hev
        exact ih fr rest src old n v' n' hev name (by simpa [planTargets] using hname)
      | mapped target path derefs guarded leafIsPtr cv zero =>
        have hnt : name ≠ target ∧ name ∉ planTargets rest := by simpa [planTargets] using hname
        unfold evalFields at hev
        simp only [] at hev
        -- every branch ends in `evalFields … rest src old'` with old' = old or setField old target _
        have key : ∀ old' m, (fieldOf old' name = fieldOf old name) →
            evalFields p fuel fr rest src old' m = .ok (v', n') → fieldOf v' name = fieldOf old name := by
          intro old' m ho he
          rw [← ho]; exact ih fr rest src old' m v' n' he name hnt.2
        repeat' split at hev
        all_goals first
          | (cases hev; done)
          | exact key _ _ rfl hev
          | exact key _ _ (fieldOf_setField_ne old name target _ hnt.1) hev
      | viaMethod target path derefs guarded call resIsPtr cv zero =>
        have hnt : name ≠ target ∧ name ∉ planTargets rest := by simpa [planTargets] using hname
        unfold evalFields at hev
        simp only [] at hev
        have key : ∀ old' m, (fieldOf old' name = fieldOf old name) →
            evalFields p fuel fr rest src old' m = .ok (v', n') → fieldOf v' name = fieldOf old name := by
          intro old' m ho he
          rw [← ho]; exact ih fr rest src old' m v' n' he name hnt.2
        repeat' split at hev
        all_goals first
          | (cases hev; done)
          | exact key _ _ rfl hev
          | exact key _ _ (fieldOf_setField_ne old name target _ hnt.1) hev

theorem fieldOf_normStruct (old : Val) (name : S) : fieldOf (normStruct old) name = fieldOf old name := by
  cases old <;> simp [normStruct, fieldOf, List.lookup]

/-- the same for a whole struct conversion node (what the body of an update method is) -/
theorem structc_frame (p : Program) (fuel : Nat) (fr : Frame) (plans : FieldPlans) (upd : Bool) (src old : Val) (n : Nat)
    (v' : Val) (n' : Nat) (hev : evalConv p (fuel + 1) fr (.structc plans upd) src old n = .ok (v', n'))
    (name : S) (hname : name ∉ planTargets plans) : fieldOf v' name = fieldOf old name := by
  unfold evalConv at hev
  rw [evalFields_frame p fuel fr plans src (normStruct old) n v' n' hev name hname]
  exact fieldOf_normStruct old name

end Gv.Sound
