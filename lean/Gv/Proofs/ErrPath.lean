/-
The location reported with an error is the position of the failing call (C07, composition through nested methods).

For every program whose plans record the positions of their call sites (`PathCheck.pathsOK`, a decidable check that the
plans of `Gv.Gen` pass), every method, source value and fuel: an error returned by `callMethod` is

    build chain root

where `chain` has one entry (wrapping mode of the method, path inside the method's body) per method on the call chain,
outermost first, `root` is the failure of a custom function / source-struct method or the unknown-enum error, and the
paths are a WALK through the plans and the input value (`Leads`): field names are target fields of the struct node
passed, indices are positions of the slice / array being converted, keys are keys of the source map being converted,
and the callee of a nested method call starts at the value reached.  `build` applies, per method, what `generator.wrap`
does: `Wrap(err, path…)` for `wrapErrorsUsing`, the innermost field / index for `wrapErrors`, nothing otherwise.
-/
import Gv.Model.PathCheck
import Gv.Proofs.RootCause

namespace Gv.Sound
open Gv Gv.Str Gv.Eval Gv.PathCheck

/-! ### rendered path elements -/

/-- one element of a reported location: a target field, a list position, a source map key -/
inductive RElem
  | field (n : S)
  | index (i : Nat)
  | key (k : Val)
  deriving Repr, Inhabited

/-- the argument `generator.wrap` emits for it: `Field("n")`, `Index(i)`, `Key(k)` -/
def RElem.render : RElem → String × Val
  | .field n => ("Field", .basic n)
  | .index i => ("Index", .basic (toString i).toList)
  | .key k => ("Key", k)

/-- `renderErrPath` with structured elements -/
def renderR : List PathElem → List Nat → List Val → List RElem
  | [], _, _ => []
  | .field n :: r, idx, keys => .field n :: renderR r idx keys
  | .index :: r, i :: is, keys => .index i :: renderR r is keys
  | .index :: r, [], keys => renderR r [] keys
  | .key :: r, idx, k :: ks => .key k :: renderR r idx ks
  | .key :: r, idx, [] => renderR r idx []

theorem renderErrPath_go_eq (pa : List PathElem) : ∀ (idx : List Nat) (keys : List Val),
    renderErrPath.go pa idx keys = (renderR pa idx keys).map RElem.render := by
  induction pa with
  | nil => intro idx keys; simp [renderErrPath.go, renderR]
  | cons x r ih =>
    intro idx keys
    cases x with
    | field n => simp [renderErrPath.go, renderR, ih, RElem.render]
    | index =>
      cases idx with
      | nil => simp [renderErrPath.go, renderR, ih]
      | cons i is => simp [renderErrPath.go, renderR, ih, RElem.render]
    | key =>
      cases keys with
      | nil => simp [renderErrPath.go, renderR, ih]
      | cons k ks => simp [renderErrPath.go, renderR, ih, RElem.render]

theorem renderErrPath_eq (pa : List PathElem) (idx : List Nat) (keys : List Val) :
    renderErrPath pa idx keys = (renderR pa idx keys).map RElem.render := by
  unfold renderErrPath; exact renderErrPath_go_eq pa idx keys

/-- number of enclosing lists / maps of a position -/
def cntI : List PathElem → Nat
  | [] => 0
  | .index :: r => cntI r + 1
  | _ :: r => cntI r

def cntK : List PathElem → Nat
  | [] => 0
  | .key :: r => cntK r + 1
  | _ :: r => cntK r

theorem cntI_append (a b : List PathElem) : cntI (a ++ b) = cntI a + cntI b := by
  induction a with
  | nil => simp [cntI]
  | cons x r ih => cases x <;> simp [cntI, ih] <;> omega

theorem cntK_append (a b : List PathElem) : cntK (a ++ b) = cntK a + cntK b := by
  induction a with
  | nil => simp [cntK]
  | cons x r ih => cases x <;> simp [cntK, ih] <;> omega

theorem renderR_snoc_field (n : S) (pa : List PathElem) : ∀ (idx : List Nat) (keys : List Val),
    renderR (pa ++ [.field n]) idx keys = renderR pa idx keys ++ [.field n] := by
  induction pa with
  | nil => intro idx keys; simp [renderR]
  | cons x r ih =>
    intro idx keys
    cases x with
    | field m => simp [renderR, ih]
    | index => cases idx <;> simp [renderR, ih]
    | key => cases keys <;> simp [renderR, ih]

theorem renderR_snoc_index (i : Nat) (pa : List PathElem) : ∀ (idx : List Nat) (keys : List Val), cntI pa = idx.length →
    renderR (pa ++ [.index]) (idx ++ [i]) keys = renderR pa idx keys ++ [.index i] := by
  induction pa with
  | nil =>
    intro idx keys h
    cases idx with
    | nil => simp [renderR]
    | cons j js => simp [cntI] at h
  | cons x r ih =>
    intro idx keys h
    cases x with
    | field m => simp only [cntI] at h; simp [renderR, ih _ _ h]
    | index =>
      cases idx with
      | nil => simp [cntI] at h
      | cons j js =>
        simp only [cntI, List.length_cons, Nat.add_right_cancel_iff] at h
        simp [renderR, ih _ _ h]
    | key =>
      simp only [cntI] at h
      cases keys <;> simp [renderR, ih _ _ h]

theorem renderR_snoc_key (k : Val) (pa : List PathElem) : ∀ (idx : List Nat) (keys : List Val), cntK pa = keys.length →
    renderR (pa ++ [.key]) idx (keys ++ [k]) = renderR pa idx keys ++ [.key k] := by
  induction pa with
  | nil =>
    intro idx keys h
    cases keys with
    | nil => simp [renderR]
    | cons j js => simp [cntK] at h
  | cons x r ih =>
    intro idx keys h
    cases x with
    | field m => simp only [cntK] at h; simp [renderR, ih _ _ h]
    | key =>
      cases keys with
      | nil => simp [cntK] at h
      | cons j js =>
        simp only [cntK, List.length_cons, Nat.add_right_cancel_iff] at h
        simp [renderR, ih _ _ h]
    | index =>
      simp only [cntK] at h
      cases idx <;> simp [renderR, ih _ _ h]

/-- the frame fits the position: one loop index per enclosing list, one key per enclosing map -/
structure Cons (pa : List PathElem) (idx : List Nat) (keys : List Val) : Prop where
  i : cntI pa = idx.length
  k : cntK pa = keys.length

theorem Cons.nil : Cons [] [] [] := ⟨rfl, rfl⟩

theorem Cons.field {pa idx keys} (h : Cons pa idx keys) (n : S) : Cons (pa ++ [.field n]) idx keys :=
  ⟨by rw [cntI_append]; simp [cntI, h.i], by rw [cntK_append]; simp [cntK, h.k]⟩

theorem Cons.index {pa idx keys} (h : Cons pa idx keys) (j : Nat) : Cons (pa ++ [.index]) (idx ++ [j]) keys :=
  ⟨by rw [cntI_append]; simp [cntI, h.i], by rw [cntK_append]; simp [cntK, h.k]⟩

theorem Cons.key {pa idx keys} (h : Cons pa idx keys) (k : Val) : Cons (pa ++ [.key]) idx (keys ++ [k]) :=
  ⟨by rw [cntI_append]; simp [cntI, h.i], by rw [cntK_append]; simp [cntK, h.k]⟩

/-! ### what one method adds to an error -/

/-- what `generator.wrap` of a method in mode `md` adds for the (rendered) path `full` inside that method's body -/
def layerErr (md : WrapMode) (full : List RElem) (e : ErrV) : ErrV :=
  match md with
  | .none => e
  | .using _ => .wrap (full.map RElem.render) e
  | .wrapErrors =>
    match full.getLast? with
    | some (.field n) => .field n e
    | some (.index i) => .index i e
    | _ => e

theorem eq_nil_or_snoc {α} (l : List α) : l = [] ∨ ∃ l' x, l = l' ++ [x] := by
  rcases List.eq_nil_or_concat l with h | ⟨l', x, h⟩
  · exact .inl h
  · exact .inr ⟨l', x, by rw [h, List.concat_eq_append]⟩

theorem wrapErr_eq_layer (md : WrapMode) (pa : List PathElem) (idx : List Nat) (keys : List Val) (e : ErrV)
    (hc : Cons pa idx keys) :
    wrapErr { mode := md, path := pa } idx keys e = layerErr md (renderR pa idx keys) e := by
  cases md with
  | none => rfl
  | «using» pkg => simp [wrapErr, layerErr, renderErrPath_eq]
  | wrapErrors =>
    rcases eq_nil_or_snoc pa with rfl | ⟨pa', x, rfl⟩
    · simp [wrapErr, layerErr, renderR]
    · cases x with
      | field n => rw [renderR_snoc_field]; simp [wrapErr, layerErr]
      | index =>
        have hi := hc.i
        rw [cntI_append] at hi
        rcases eq_nil_or_snoc idx with rfl | ⟨idx', j, rfl⟩
        · simp [cntI] at hi
        · rw [renderR_snoc_index]
          · simp [wrapErr, layerErr]
          · simp [cntI] at hi; exact hi
      | key =>
        have hk := hc.k
        rw [cntK_append] at hk
        rcases eq_nil_or_snoc keys with rfl | ⟨keys', j, rfl⟩
        · simp [cntK] at hk
        · rw [renderR_snoc_key]
          · simp [wrapErr, layerErr]
          · simp [cntK] at hk; exact hk

/-- the error assembled from the call chain: one (mode, path inside the body) per method, outermost first -/
def build : List (WrapMode × List RElem) → ErrV → ErrV
  | [], r => r
  | (md, rp) :: tl, r => layerErr md rp (build tl r)

/-! ### walks through a plan and a value -/

/-- the value handed to the conversion of a mapped field: the leaf of the source path (nil when a guard fails),
behind a fresh pointer when a guarded non-pointer leaf is passed on as a pointer -/
def FieldArg (lf : Option Val) (x : Val) : Prop := x = lf.getD .nil ∨ ∃ l lv, lf = some lv ∧ x = .ptr l lv

/-- the receiver of a source-struct method: the value reached, dereferenced when it is a pointer -/
def Recv (rv recv : Val) : Prop := recv = rv ∨ ∃ l, rv = .ptr l recv

/-- the action an enum switch selects for a source value -/
def enumPick (cases : List (S × ConstVal × EnumAction)) (dflt : EnumAction) (v : Val) : EnumAction :=
  match v with
  | .basic r => ((cases.find? (fun (x : S × ConstVal × EnumAction) => constRepr x.2.1 == r)).map (fun (x : S × ConstVal × EnumAction) => x.2.2)).getD dflt
  | _ => dflt

/-- the first value argument of the call is the source (receiver arguments `c` carry no value) -/
def firstIsSource : List CallArg → Bool
  | .self :: r => firstIsSource r
  | .source :: _ => true
  | _ => false

theorem filterMapM_loop_prefix (fr : Frame) (v : Val) : ∀ (args : List CallArg) (acc : List Val) (n : Nat) (r : List Val) (n1 : Nat),
    List.filterMapM.loop (argOf fr v) args acc n = .ok (r, n1) → ∃ r', r = acc.reverse ++ r' := by
  intro args
  induction args with
  | nil =>
    intro acc n r n1 h
    unfold List.filterMapM.loop at h
    have := (E_pure_ok _ _ _).1 h.symm
    exact ⟨[], by simp at this; simp [this.1]⟩
  | cons a as ih =>
    intro acc n r n1 h
    unfold List.filterMapM.loop at h
    obtain ⟨o, n2, h1, h2⟩ := (E_bind_ok _ _ _ _).1 h
    cases o with
    | none => exact ih _ _ _ _ h2
    | some b =>
      obtain ⟨r', hr⟩ := ih _ _ _ _ h2
      exact ⟨b :: r', by simp [hr]⟩

theorem filterMapM_loop_first (fr : Frame) (v : Val) : ∀ (args : List CallArg) (acc : List Val) (n : Nat) (r : List Val) (n1 : Nat),
    List.filterMapM.loop (argOf fr v) args acc n = .ok (r, n1) → firstIsSource args = true →
    ∃ r', r = acc.reverse ++ v :: r' := by
  intro args
  induction args with
  | nil => intro acc n r n1 _ hf; simp [firstIsSource] at hf
  | cons a as ih =>
    intro acc n r n1 h hf
    unfold List.filterMapM.loop at h
    obtain ⟨o, n2, h1, h2⟩ := (E_bind_ok _ _ _ _).1 h
    cases a with
    | self =>
      have : o = none ∧ n2 = n := by
        have := (E_pure_ok (α := Option Val) none n (o, n2)).1 h1
        simpa using this
      obtain ⟨rfl, rfl⟩ := this
      exact ih _ _ _ _ h2 (by simpa [firstIsSource] using hf)
    | source =>
      have : o = some v ∧ n2 = n := by
        have := (E_pure_ok (α := Option Val) (some v) n (o, n2)).1 h1
        simpa using this
      obtain ⟨rfl, rfl⟩ := this
      obtain ⟨r', hr⟩ := filterMapM_loop_prefix fr v _ _ _ _ _ h2
      exact ⟨r', by simp [hr]⟩
    | ctx t => simp [firstIsSource] at hf
    | ctxMissing t => simp [firstIsSource] at hf
    | sourceParent => simp [firstIsSource] at hf
/-- `Leads p c v rp tl root`: starting at plan node `c` with source value `v`, the positions `rp` (inside the current
method) lead to a call site / `@error` action that fails; `tl` are the paths inside the methods called from there
(with their modes), `root` is the failure at the very end. -/
inductive Leads (p : Program) : Conv → Val → List RElem → List (WrapMode × List RElem) → ErrV → Prop
  | cast {inner v rp tl root} : Leads p inner v rp tl root → Leads p (.cast inner) v rp tl root
  | underlying {a b inner v rp tl root} : Leads p inner v rp tl root → Leads p (.underlying a b inner) v rp tl root
  /-- a method of the source value fails for this receiver -/
  | structMethod {name args w v} : p.sem.failsOn name v = true → Leads p (.call (.structMethod name) args true w) v [] [] (.boom name)
  /-- a custom function fails for its first argument `a`: the value reached, when the source comes first -/
  | custom {i d args w v a} : p.conv.customs[i]? = some d → p.sem.failsOn d.name a = true → (firstIsSource args = true → a = v) →
      Leads p (.call (.custom i) args true w) v [] [] (.boom d.name)
  /-- a generated / declared method is called with the value reached: its own walk follows -/
  | method {m gm c args w v rp tl root} : p.methods[m]? = some gm → gm.body = some (.convert c) → Leads p c v rp tl root →
      Leads p (.call (.method m) args true w) v [] ((methodMode gm, rp) :: tl) root
  /-- the callee only delegates to an extend function, which fails for the value reached (no location added) -/
  | delegate {m gm i dargs d args w v} : p.methods[m]? = some gm → gm.body = some (.delegate i dargs true) →
      p.conv.customs[i]? = some d → p.sem.failsOn d.name v = true →
      Leads p (.call (.method m) args true w) v [] [(.none, [])] (.boom d.name)
  | ptrPtr {te inner l x rp tl root} : Leads p inner x rp tl root → Leads p (.ptrPtr te inner) (.ptr l x) rp tl root
  | srcPtr {t inner l x rp tl root} : Leads p inner x rp tl root → Leads p (.srcPtr t inner) (.ptr l x) rp tl root
  | tgtPtr {te inner v rp tl root} : Leads p inner v rp tl root → Leads p (.tgtPtr te inner) v rp tl root
  /-- element `i` of the slice being converted -/
  | slice {te hm hg elem l vs i x rp tl root} : vs[i]? = some x → Leads p elem x rp tl root →
      Leads p (.list te hm hg elem) (.slice l vs) (.index i :: rp) tl root
  | arr {te hm hg elem vs i x rp tl root} : vs[i]? = some x → Leads p elem x rp tl root →
      Leads p (.list te hm hg elem) (.arr vs) (.index i :: rp) tl root
  /-- the key / the value of entry `k` of the source map -/
  | mapKey {tk tv key val l kvs k x rp tl root} : (k, x) ∈ kvs → Leads p key k rp tl root →
      Leads p (.mapc tk tv key val) (.map l kvs) (.key k :: rp) tl root
  | mapVal {tk tv key val l kvs k x rp tl root} : (k, x) ∈ kvs → Leads p val x rp tl root →
      Leads p (.mapc tk tv key val) (.map l kvs) (.key k :: rp) tl root
  /-- target field `target` of the struct node, fed from the source path of its plan -/
  | mapped {fields u src target path derefs g lp cv z lf x rp tl root} :
      FieldPlan.mapped target path derefs g lp cv z ∈ fields.toList → walk path derefs src = .ok lf → FieldArg lf x →
      Leads p cv x rp tl root → Leads p (.structc fields u) src (.field target :: rp) tl root
  /-- target field fed from a method of the source struct: the method call itself … -/
  | viaCall {fields u src target path derefs g call rip cv z rv recv rp tl root} :
      FieldPlan.viaMethod target path derefs g call rip cv z ∈ fields.toList →
      walk path (derefs.take path.length) src = .ok (some rv) → Recv rv recv →
      Leads p call recv rp tl root → Leads p (.structc fields u) src (.field target :: rp) tl root
  /-- … or the conversion of its result (a value that is not part of the input) -/
  | viaConv {fields u src target path derefs g call rip cv z x rp tl root} :
      FieldPlan.viaMethod target path derefs g call rip cv z ∈ fields.toList →
      Leads p cv x rp tl root → Leads p (.structc fields u) src (.field target :: rp) tl root
  /-- the `@error` action selected for this source value -/
  | enumErr {cases dflt v w} : enumPick cases dflt v = .error w → Leads p (.enumc cases dflt) v [] [] .enumUnknown
  | withCtorC {ctor tp rest v rp tl root} : Leads p ctor v rp tl root → Leads p (.withCtor ctor tp rest) v rp tl root
  | withCtorR {ctor tp rest v rp tl root} : Leads p rest v rp tl root → Leads p (.withCtor ctor tp rest) v rp tl root
  | ctorUpdC {ctor tp sp tgp inner v rp tl root} : Leads p ctor v rp tl root → Leads p (.ctorUpdate ctor tp sp tgp inner) v rp tl root
  | ctorUpdDeref {ctor tp tgp inner l x rp tl root} : Leads p inner x rp tl root →
      Leads p (.ctorUpdate ctor tp true tgp inner) (.ptr l x) rp tl root
  | ctorUpdI {ctor tp tgp inner v rp tl root} : Leads p inner v rp tl root → Leads p (.ctorUpdate ctor tp false tgp inner) v rp tl root

/-- `Fails p m v chain root`: calling method `m` on `v` fails along `chain` (one entry per method, `m` first) with `root` -/
inductive Fails (p : Program) : Nat → Val → List (WrapMode × List RElem) → ErrV → Prop
  | convert {m gm c v rp tl root} : p.methods[m]? = some gm → gm.body = some (.convert c) → Leads p c v rp tl root →
      Fails p m v ((methodMode gm, rp) :: tl) root
  | delegate {m gm i dargs d v} : p.methods[m]? = some gm → gm.body = some (.delegate i dargs true) →
      p.conv.customs[i]? = some d → p.sem.failsOn d.name v = true → Fails p m v [(.none, [])] (.boom d.name)

theorem Leads.ofFails {p : Program} {m : Nat} {v : Val} {chain root} (args : List CallArg) (w : Wrap) (h : Fails p m v chain root) :
    Leads p (.call (.method m) args true w) v [] chain root := by
  cases h with
  | convert h1 h2 h3 => exact .method h1 h2 h3
  | delegate h1 h2 h3 h4 => exact .delegate h1 h2 h3 h4

/-- the error of a node at (rendered) position `pre` of a method in mode `md` -/
def Res (p : Program) (md : WrapMode) (pre : List RElem) (c : Conv) (v : Val) (e : ErrV) : Prop :=
  ∃ rp tl root, Leads p c v rp tl root ∧ e = layerErr md (pre ++ rp) (build tl root)

theorem Res.map {p md pre c v e c' v'} (h : Res p md pre c v e)
    (f : ∀ rp tl root, Leads p c v rp tl root → Leads p c' v' rp tl root) : Res p md pre c' v' e := by
  obtain ⟨rp, tl, root, hl, he⟩ := h
  exact ⟨rp, tl, root, f _ _ _ hl, he⟩

theorem Res.shift {p md pre c v e c' v'} (x : RElem) (h : Res p md (pre ++ [x]) c v e)
    (f : ∀ rp tl root, Leads p c v rp tl root → Leads p c' v' (x :: rp) tl root) : Res p md pre c' v' e := by
  obtain ⟨rp, tl, root, hl, he⟩ := h
  refine ⟨x :: rp, tl, root, f _ _ _ hl, ?_⟩
  rw [he]; simp

/-- a failing call site / `@error` action at position `pa` -/
theorem Res.leaf {p : Program} {md : WrapMode} {pa : List PathElem} {idx : List Nat} {keys : List Val} {c : Conv} {v : Val}
    {w : Wrap} {tl root} (hw : okWrap md w pa = true) (hc : Cons pa idx keys) (hl : Leads p c v [] tl root) :
    Res p md (renderR pa idx keys) c v (wrapErr w idx keys (build tl root)) := by
  refine ⟨[], tl, root, hl, ?_⟩
  obtain ⟨wm, wp⟩ := w
  simp only [okWrap, Bool.and_eq_true, beq_iff_eq] at hw
  obtain ⟨rfl, rfl⟩ := hw
  rw [wrapErr_eq_layer _ _ _ _ _ hc]; simp

/-! ### the statements, by fuel -/

def PConv (p : Program) (fuel : Nat) : Prop :=
  ∀ (md : WrapMode) (fr : Frame) (c : Conv) (pa : List PathElem) (v old : Val) (n : Nat) (e : ErrV),
    okConv md c pa = true → Cons pa fr.idx fr.keys → evalConv p fuel fr c v old n = .err e →
    Res p md (renderR pa fr.idx fr.keys) c v e

def PCall (p : Program) (fuel : Nat) : Prop :=
  ∀ (m : Nat) (v : Val) (cs : List Val) (n : Nat) (e : ErrV), callMethod p fuel m v cs n = .err e →
    ∃ chain root, Fails p m v chain root ∧ e = build chain root

def PElems (p : Program) (fuel : Nat) : Prop :=
  ∀ (md : WrapMode) (fr : Frame) (te : Ty) (elem : Conv) (pa : List PathElem) (vs : List Val) (i n : Nat) (e : ErrV),
    okConv md elem (pa ++ [.index]) = true → Cons pa fr.idx fr.keys → evalElems p fuel fr te elem vs i n = .err e →
    ∃ j x, vs[j]? = some x ∧ Res p md (renderR pa fr.idx fr.keys ++ [.index (i + j)]) elem x e

def PElemsOld (p : Program) (fuel : Nat) : Prop :=
  ∀ (md : WrapMode) (fr : Frame) (elem : Conv) (pa : List PathElem) (vs olds : List Val) (i n : Nat) (e : ErrV),
    okConv md elem (pa ++ [.index]) = true → Cons pa fr.idx fr.keys → evalElemsOld p fuel fr elem vs olds i n = .err e →
    ∃ j x, vs[j]? = some x ∧ Res p md (renderR pa fr.idx fr.keys ++ [.index (i + j)]) elem x e

def PEntries (p : Program) (fuel : Nat) : Prop :=
  ∀ (md : WrapMode) (fr : Frame) (tk tv : Ty) (key val : Conv) (pa : List PathElem) (kvs : List (Val × Val)) (n : Nat) (e : ErrV),
    okConv md key (pa ++ [.key]) = true → okConv md val (pa ++ [.key]) = true → Cons pa fr.idx fr.keys →
    evalEntries p fuel fr tk tv key val kvs n = .err e →
    ∃ k x, (k, x) ∈ kvs ∧ (Res p md (renderR pa fr.idx fr.keys ++ [.key k]) key k e ∨ Res p md (renderR pa fr.idx fr.keys ++ [.key k]) val x e)

def PFields (p : Program) (fuel : Nat) : Prop :=
  ∀ (md : WrapMode) (fr : Frame) (plans : FieldPlans) (pa : List PathElem) (src old : Val) (n : Nat) (e : ErrV),
    okFields md plans pa = true → Cons pa fr.idx fr.keys → evalFields p fuel fr plans src old n = .err e →
    ∀ (fields : FieldPlans) (u : Bool), (∀ fp, fp ∈ plans.toList → fp ∈ fields.toList) →
      Res p md (renderR pa fr.idx fr.keys) (.structc fields u) src e

theorem pElems_step (p : Program) (fuel : Nat) (ihc : PConv p fuel) (ihe : PElems p fuel) : PElems p (fuel + 1) := by
  intro md fr te elem pa vs i n e hok hc hev
  cases vs with
  | nil => unfold evalElems at hev; exact absurd hev (by simp [E_pure_err])
  | cons v vs =>
    unfold evalElems at hev
    rcases (E_bind_err _ _ _ _).1 hev with h | ⟨x, n1, _, h2⟩
    · have hr := ihc md _ elem (pa ++ [.index]) _ _ _ _ hok (hc.index i) h
      dsimp only at hr
      rw [renderR_snoc_index _ _ _ _ hc.i] at hr
      exact ⟨0, v, rfl, hr⟩
    · rcases (E_bind_err _ _ _ _).1 h2 with h | ⟨r, n2, _, h4⟩
      · obtain ⟨j, x, hj, hr⟩ := ihe md _ _ _ pa _ _ _ _ hok hc h
        refine ⟨j + 1, x, by simpa using hj, ?_⟩
        have : i + 1 + j = i + (j + 1) := by omega
        rw [this] at hr; exact hr
      · exact absurd h4 (by simp [E_pure_err])

theorem pElemsOld_step (p : Program) (fuel : Nat) (ihc : PConv p fuel) (ihe : PElemsOld p fuel) : PElemsOld p (fuel + 1) := by
  intro md fr elem pa vs olds i n e hok hc hev
  cases vs with
  | nil => unfold evalElemsOld at hev; exact absurd hev (by simp [E_pure_err])
  | cons v vs =>
    unfold evalElemsOld at hev
    rcases (E_bind_err _ _ _ _).1 hev with h | ⟨x, n1, _, h2⟩
    · have hr := ihc md _ elem (pa ++ [.index]) _ _ _ _ hok (hc.index i) h
      dsimp only at hr
      rw [renderR_snoc_index _ _ _ _ hc.i] at hr
      exact ⟨0, v, rfl, hr⟩
    · rcases (E_bind_err _ _ _ _).1 h2 with h | ⟨r, n2, _, h4⟩
      · obtain ⟨j, x, hj, hr⟩ := ihe md _ _ pa _ _ _ _ _ hok hc h
        refine ⟨j + 1, x, by simpa using hj, ?_⟩
        have : i + 1 + j = i + (j + 1) := by omega
        rw [this] at hr; exact hr
      · exact absurd h4 (by simp [E_pure_err])

theorem pEntries_step (p : Program) (fuel : Nat) (ihc : PConv p fuel) (ihe : PEntries p fuel) : PEntries p (fuel + 1) := by
  intro md fr tk tv key val pa kvs n e hk hv hc hev
  cases kvs with
  | nil => unfold evalEntries at hev; exact absurd hev (by simp [E_pure_err])
  | cons kv kvs =>
    obtain ⟨a, b⟩ := kv
    unfold evalEntries at hev
    rcases (E_bind_err _ _ _ _).1 hev with h | ⟨x, n1, _, h2⟩
    · have hr := ihc md _ key (pa ++ [.key]) _ _ _ _ hk (hc.key a) h
      dsimp only at hr
      rw [renderR_snoc_key _ _ _ _ hc.k] at hr
      exact ⟨a, b, by simp, .inl hr⟩
    · rcases (E_bind_err _ _ _ _).1 h2 with h | ⟨y, n2, _, h4⟩
      · have hr := ihc md _ val (pa ++ [.key]) _ _ _ _ hv (hc.key a) h
        dsimp only at hr
        rw [renderR_snoc_key _ _ _ _ hc.k] at hr
        exact ⟨a, b, by simp, .inr hr⟩
      · rcases (E_bind_err _ _ _ _).1 h4 with h | ⟨r, n3, _, h6⟩
        · obtain ⟨k, x, hm, hr⟩ := ihe md _ _ _ _ _ pa _ _ _ hk hv hc h
          exact ⟨k, x, List.mem_cons_of_mem _ hm, hr⟩
        · exact absurd h6 (by simp [E_pure_err])

theorem okBody_of_mem {p : Program} (hp : pathsOK p = true) {m : Nat} {gm : GenMethod} (hm : p.methods[m]? = some gm) :
    okBody gm = true := by
  unfold pathsOK at hp
  rw [List.all_eq_true] at hp
  exact hp gm (List.mem_of_getElem? hm)

theorem pCall_step (p : Program) (hp : pathsOK p = true) (fuel : Nat) (ihc : PConv p fuel) : PCall p (fuel + 1) := by
  intro m v cs n e hev
  unfold callMethod at hev
  split at hev
  · cases hev
  · rename_i gm hm
    have hb := okBody_of_mem hp hm
    split at hev
    · cases hev
    · rename_i c hbody
      simp only [okBody, hbody] at hb
      obtain ⟨rp, tl, root, hl, he⟩ := ihc (methodMode gm) _ c [] _ _ _ _ hb Cons.nil hev
      refine ⟨(methodMode gm, rp) :: tl, root, .convert hm hbody hl, ?_⟩
      rw [he]; simp [renderR, build]
    · rename_i i args retErr hbody
      split at hev
      · cases hev
      · rename_i d hd
        split at hev
        · rename_i hcond
          simp only [Bool.and_eq_true] at hcond
          obtain ⟨hre, hf⟩ := hcond
          subst hre
          injection hev with hev; subst hev
          exact ⟨[(.none, [])], .boom d.name, .delegate hm hbody hd hf, by simp [build, layerErr]⟩
        · cases hev
    · cases hev

theorem recv_of {lf : Option Val} {b : Bool} {recv : Val}
    (h : (match lf with
      | none => Outcome.ok none
      | some rv =>
        if b = true then
          (match rv with
           | .nil => Outcome.ok none
           | .ptr _ x => Outcome.ok (some x)
           | _ => Outcome.stuck "viaMethod: pointer receiver expected")
        else Outcome.ok (some rv)) = Outcome.ok (some recv)) :
    ∃ rv, lf = some rv ∧ Recv rv recv := by
  cases lf with
  | none => cases h
  | some rv =>
    refine ⟨rv, rfl, ?_⟩
    cases b with
    | false => simp at h; exact .inl h.symm
    | true =>
      simp only [if_true] at h
      cases rv <;> simp at h
      rename_i l x
      exact .inr ⟨l, by rw [h]⟩

theorem recv_not_err {lf : Option Val} {b : Bool} {e : ErrV}
    (h : (match lf with
      | none => Outcome.ok none
      | some rv =>
        if b = true then
          (match rv with
           | .nil => Outcome.ok none
           | .ptr _ x => Outcome.ok (some x)
           | _ => Outcome.stuck "viaMethod: pointer receiver expected")
        else Outcome.ok (some rv)) = Outcome.err e) : False := by
  cases lf with
  | none => cases h
  | some rv =>
    cases b with
    | false => simp at h
    | true =>
      simp only [if_true] at h
      cases rv <;> simp at h

theorem PConv.use {p : Program} {fuel : Nat} (ihc : PConv p fuel) {md : WrapMode} {fr : Frame} {c : Conv} {v old : Val} {n : Nat} {e : ErrV}
    (h : evalConv p fuel fr c v old n = .err e) (pa : List PathElem) (hok : okConv md c pa = true) (hc : Cons pa fr.idx fr.keys) :
    Res p md (renderR pa fr.idx fr.keys) c v e := ihc md fr c pa v old n e hok hc h

/-- one field of a struct node: the error of the field's conversion, seen from the struct node -/
theorem Res.fieldStep {p : Program} {fuel : Nat} (ihc : PConv p fuel) {md : WrapMode} {fr : Frame} {c : Conv} {x old : Val} {n : Nat} {e : ErrV}
    (h : evalConv p fuel fr c x old n = .err e) {pa : List PathElem} {target : S} (hok : okConv md c (pa ++ [.field target]) = true)
    (hc : Cons pa fr.idx fr.keys) {fields : FieldPlans} {u : Bool} {src : Val}
    (f : ∀ rp tl root, Leads p c x rp tl root → Leads p (.structc fields u) src (.field target :: rp) tl root) :
    Res p md (renderR pa fr.idx fr.keys) (.structc fields u) src e := by
  have hr := PConv.use ihc h (pa ++ [.field target]) hok (hc.field target)
  rw [renderR_snoc_field] at hr
  exact Res.shift (.field target) hr f

theorem pFields_step (p : Program) (fuel : Nat) (ihc : PConv p fuel) (ihf : PFields p fuel) : PFields p (fuel + 1) := by
  intro md fr plans pa src old n e hok hc hev fields u hsub
  cases plans with
  | nil => unfold evalFields at hev; exact absurd hev (by simp [E_pure_err])
  | cons f rest =>
    have hsub' : ∀ fp, fp ∈ rest.toList → fp ∈ fields.toList := fun fp h => hsub fp (by simp [FieldPlans.toList, h])
    have hmem : f ∈ fields.toList := hsub f (by simp [FieldPlans.toList])
    unfold okFields at hok
    simp only [Bool.and_eq_true] at hok
    obtain ⟨hokf, hokr⟩ := hok
    cases f with
    | skip t => unfold evalFields at hev; exact ihf md _ _ pa _ _ _ _ hokr hc hev fields u hsub'
    | mapped target path derefs guarded leafIsPtr cv zero =>
      unfold okField at hokf
      unfold evalFields at hev
      simp only [] at hev
      split at hev
      · cases hev
      · injection hev with he; subst he; exact absurd (by assumption) (walk_not_err _ _ _ _)
      · cases hev
      · rename_i lf hw
        repeat' split at hev
        all_goals first
          | (cases hev; done)
          | exact ihf md _ _ pa _ _ _ _ hokr hc hev fields u hsub'
          | (injection hev with he
             subst he
             have heq := ‹evalConv p fuel _ cv _ _ _ = Outcome.err _›
             exact Res.fieldStep ihc heq hokf hc
               (fun _ _ _ hl => Leads.mapped hmem hw (by first | exact .inl rfl | exact .inr ⟨_, _, rfl, rfl⟩) hl))
    | viaMethod target path derefs guarded call resIsPtr cv zero =>
      unfold okField at hokf
      simp only [Bool.and_eq_true] at hokf
      obtain ⟨hokc, hokv⟩ := hokf
      unfold evalFields at hev
      simp only [] at hev
      split at hev
      · cases hev
      · injection hev with he; subst he; exact absurd (by assumption) (walk_not_err _ _ _ _)
      · cases hev
      · rename_i lf hw
        split at hev
        · cases hev
        · rename_i heq; exact (recv_not_err heq).elim
        · cases hev
        · -- a guard failed
          repeat' split at hev
          all_goals first
            | (cases hev; done)
            | exact ihf md _ _ pa _ _ _ _ hokr hc hev fields u hsub'
            | (injection hev with he
               subst he
               have heq := ‹evalConv p fuel _ cv _ _ _ = Outcome.err _›
               exact Res.fieldStep ihc heq hokv hc (fun _ _ _ hl => Leads.viaConv hmem hl))
        · rename_i recv heq
          obtain ⟨rv, rfl, hrecv⟩ := recv_of heq
          split at hev
          · injection hev with he
            subst he
            have heq := ‹evalConv p fuel _ call _ _ _ = Outcome.err _›
            exact Res.fieldStep ihc heq hokc hc (fun _ _ _ hl => Leads.viaCall hmem hw hrecv hl)
          · cases hev
          · cases hev
          · repeat' split at hev
            all_goals first
              | (cases hev; done)
              | exact ihf md _ _ pa _ _ _ _ hokr hc hev fields u hsub'
              | (injection hev with he
                 subst he
                 have heq := ‹evalConv p fuel _ cv _ _ _ = Outcome.err _›
                 exact Res.fieldStep ihc heq hokv hc (fun _ _ _ hl => Leads.viaConv hmem hl))

theorem okCases_mem {md : WrapMode} {pa : List PathElem} : ∀ {cases : List (S × ConstVal × EnumAction)},
    okCases md pa cases = true → ∀ x, x ∈ cases → okAct md x.2.2 pa = true := by
  intro cases
  induction cases with
  | nil => intro _ x hx; cases hx
  | cons y rest ih =>
    intro h x hx
    simp only [okCases, Bool.and_eq_true] at h
    rcases List.mem_cons.1 hx with rfl | hx
    · exact h.1
    · exact ih h.2 x hx

theorem okAct_enumPick {md : WrapMode} {pa : List PathElem} {cases : List (S × ConstVal × EnumAction)} {dflt : EnumAction}
    (hc : okCases md pa cases = true) (hd : okAct md dflt pa = true) (v : Val) : okAct md (enumPick cases dflt v) pa = true := by
  unfold enumPick
  split
  · rename_i r
    cases hf : cases.find? (fun (x : S × ConstVal × EnumAction) => constRepr x.2.1 == r) with
    | none => simpa using hd
    | some x => simpa using okCases_mem hc x (List.mem_of_find?_eq_some hf)
  · exact hd

theorem pConv_step (p : Program) (fuel : Nat) (ihc : PConv p fuel) (ihm : PCall p fuel) (ihe : PElems p fuel)
    (iho : PElemsOld p fuel) (ihn : PEntries p fuel) (ihf : PFields p fuel) : PConv p (fuel + 1) := by
  intro md fr c pa v old n e hok hc hev
  cases c with
  | ident => unfold evalConv at hev; exact absurd hev (by simp [E_pure_err])
  | cast inner =>
    unfold evalConv at hev; unfold okConv at hok
    exact (ihc.use hev pa hok hc).map (fun _ _ _ => .cast)
  | underlying a b inner =>
    unfold evalConv at hev; unfold okConv at hok
    exact (ihc.use hev pa hok hc).map (fun _ _ _ => .underlying)
  | call callee args retErr w =>
    unfold okConv at hok
    unfold evalConv at hev
    simp only [] at hev
    rcases (E_bind_err _ _ _ _).1 hev with h | ⟨argVals, n1, hargs, h⟩
    · exact absurd h (filterMapM_loop_not_err fr v args [] n e)
    · cases callee with
      | structMethod name =>
        simp only [] at h
        split at h
        · rename_i hcond
          simp only [Bool.and_eq_true] at hcond
          obtain ⟨rfl, hf⟩ := hcond
          rw [E_errE _ _ _ h]
          exact Res.leaf hok hc (.structMethod hf)
        · exact absurd h (by simp [E_pure_err])
      | custom i =>
        simp only [] at h
        cases hd : p.conv.customs[i]? with
        | none => rw [hd] at h; exact absurd h (stuckE_not_err _ _ _)
        | some d =>
          rw [hd] at h
          simp only [] at h
          split at h
          · rename_i hcond
            simp only [Bool.and_eq_true] at hcond
            obtain ⟨rfl, hf⟩ := hcond
            rw [E_errE _ _ _ h]
            refine Res.leaf hok hc (.custom hd hf ?_)
            intro hfs
            obtain ⟨r', hr⟩ := filterMapM_loop_first fr v args [] n argVals n1 hargs hfs
            simp [hr]
          · split at h
            · cases hp : isPtr p.conv.env d.target with
              | some te =>
                rw [hp] at h
                rcases (E_bind_err _ _ _ _).1 h with h1 | ⟨l, n2, _, h2⟩
                · unfold freshLoc at h1; cases h1
                · exact absurd h2 (pure_not_err _ _ _)
              | none => rw [hp] at h; exact absurd h (pure_not_err _ _ _)
            · exact absurd h (pure_not_err _ _ _)
      | method m =>
        simp only [] at h
        split at h
        · cases h
        · rename_i e1 heq
          split at h
          · rename_i hre
            subst hre
            injection h with h; subst h
            obtain ⟨chain, root, hfl, rfl⟩ := ihm _ _ _ _ _ heq
            exact Res.leaf hok hc (Leads.ofFails args w hfl)
          · cases h
        · cases h
        · cases h
  | ptrPtr te inner =>
    unfold okConv at hok
    unfold evalConv at hev
    simp only [] at hev
    split at hev
    · exact absurd hev (pure_not_err _ _ _)
    · rcases (E_bind_err _ _ _ _).1 hev with h | ⟨x, n1, _, h2⟩
      · exact (ihc.use h pa hok hc).map (fun _ _ _ => .ptrPtr)
      · rcases (E_bind_err _ _ _ _).1 h2 with h | ⟨l, n2, _, h4⟩
        · unfold freshLoc at h; cases h
        · exact absurd h4 (pure_not_err _ _ _)
    · exact absurd hev (stuckE_not_err _ _ _)
  | srcPtr t inner =>
    unfold okConv at hok
    unfold evalConv at hev
    simp only [] at hev
    split at hev
    · exact absurd hev (pure_not_err _ _ _)
    · exact (ihc.use hev pa hok hc).map (fun _ _ _ => .srcPtr)
    · exact absurd hev (stuckE_not_err _ _ _)
  | tgtPtr te inner =>
    unfold okConv at hok
    unfold evalConv at hev
    simp only [] at hev
    rcases (E_bind_err _ _ _ _).1 hev with h | ⟨x, n1, _, h2⟩
    · exact (ihc.use h pa hok hc).map (fun _ _ _ => .tgtPtr)
    · rcases (E_bind_err _ _ _ _).1 h2 with h | ⟨l, n2, _, h4⟩
      · unfold freshLoc at h; cases h
      · exact absurd h4 (pure_not_err _ _ _)
  | list te hasMake hasGuard elem =>
    unfold okConv at hok
    unfold evalConv at hev
    simp only [] at hev
    -- the loop over the elements (with or without `make`)
    have hrun : ∀ (vs : List Val) (m : Nat),
        ((if hasMake = true then do
            let out ← evalElems p fuel fr te elem vs 0
            if vs.isEmpty = true then pure (Val.slice Loc.none [])
              else do
                let l ← freshLoc
                pure (Val.slice l out)
          else
            do
            let out ← evalElemsOld p fuel fr elem vs
              (List.map (fun i => (match old with | Val.slice _ xs => xs | _ => [])[i]?.getD Val.absent) (List.range vs.length)) 0
            if ((out.zip (List.map (fun i => (match old with | Val.slice _ xs => xs | _ => [])[i]?.getD Val.absent) (List.range vs.length))).any fun x =>
                  match x with
                  | (n, o) => o.isAbsent && !n.isAbsent) = true then
                panicE PanicKind.indexOutOfRange
              else
                match old with
                | Val.slice l xs => pure (Val.slice l (List.take xs.length out ++ List.drop vs.length xs))
                | o => pure o) : E Val) m = .err e →
        ∃ j x, vs[j]? = some x ∧ Res p md (renderR pa fr.idx fr.keys ++ [.index j]) elem x e := by
      intro vs m h
      cases hasMake with
      | true =>
        simp only [if_true] at h
        rcases (E_bind_err _ _ _ _).1 h with h1 | ⟨out, n1, _, h2⟩
        · simpa using ihe md _ _ _ pa _ _ _ _ hok hc h1
        · split at h2
          · exact absurd h2 (pure_not_err _ _ _)
          · rcases (E_bind_err _ _ _ _).1 h2 with h3 | ⟨l, n2, _, h4⟩
            · unfold freshLoc at h3; cases h3
            · exact absurd h4 (pure_not_err _ _ _)
      | false =>
        simp only [Bool.false_eq_true, if_false] at h
        rcases (E_bind_err _ _ _ _).1 h with h1 | ⟨out, n1, _, h2⟩
        · simpa using iho md _ _ pa _ _ _ _ _ hok hc h1
        · generalize ((out.zip _).any _) = cnd at h2
          cases cnd with
          | true => simp only [if_true] at h2; unfold panicE at h2; cases h2
          | false =>
            simp only [Bool.false_eq_true, if_false] at h2
            cases old <;> exact absurd h2 (pure_not_err _ _ _)
    split at hev
    · split at hev
      · exact absurd hev (pure_not_err _ _ _)
      · obtain ⟨j, x, hj, _⟩ := hrun _ _ hev
        simp at hj
    · obtain ⟨j, x, hj, hr⟩ := hrun _ _ hev
      exact Res.shift (.index j) hr (fun _ _ _ hl => .slice hj hl)
    · obtain ⟨j, x, hj, hr⟩ := hrun _ _ hev
      exact Res.shift (.index j) hr (fun _ _ _ hl => .arr hj hl)
    · exact absurd hev (stuckE_not_err _ _ _)
  | mapc tk tv key val =>
    unfold okConv at hok
    simp only [Bool.and_eq_true] at hok
    unfold evalConv at hev
    simp only [] at hev
    split at hev
    · exact absurd hev (pure_not_err _ _ _)
    · rcases (E_bind_err _ _ _ _).1 hev with h | ⟨x, n1, _, h2⟩
      · obtain ⟨k, x, hm, hr⟩ := ihn md _ _ _ _ _ pa _ _ _ hok.1 hok.2 hc h
        rcases hr with hr | hr
        · exact Res.shift (.key k) hr (fun _ _ _ hl => .mapKey hm hl)
        · exact Res.shift (.key k) hr (fun _ _ _ hl => .mapVal hm hl)
      · rcases (E_bind_err _ _ _ _).1 h2 with h | ⟨l, n2, _, h4⟩
        · unfold freshLoc at h; cases h
        · exact absurd h4 (pure_not_err _ _ _)
    · exact absurd hev (stuckE_not_err _ _ _)
  | structc fields upd =>
    unfold okConv at hok
    unfold evalConv at hev
    exact ihf md _ _ pa _ _ _ _ hok hc hev fields upd (fun _ h => h)
  | enumc cases dflt =>
    unfold okConv at hok
    simp only [Bool.and_eq_true] at hok
    unfold evalConv at hev
    simp only [] at hev
    change applyEnumAction fr old (enumPick cases dflt v) n = .err e at hev
    have hact := okAct_enumPick hok.1 hok.2 v
    cases hpick : enumPick cases dflt v with
    | member name cv => rw [hpick] at hev; exact absurd hev (pure_not_err _ _ _)
    | ignore => rw [hpick] at hev; exact absurd hev (pure_not_err _ _ _)
    | panic => rw [hpick] at hev; unfold applyEnumAction panicE at hev; cases hev
    | error w =>
      rw [hpick] at hev hact
      unfold applyEnumAction at hev
      rw [E_errE _ _ _ hev]
      exact Res.leaf hact hc (.enumErr hpick)
  | withCtor ctor toPointer rest =>
    unfold okConv at hok
    simp only [Bool.and_eq_true] at hok
    unfold evalConv at hev
    simp only [] at hev
    rcases (E_bind_err _ _ _ _).1 hev with h | ⟨cv, n1, _, h2⟩
    · exact (ihc.use h pa hok.1 hc).map (fun _ _ _ => .withCtorC)
    · cases toPointer with
      | true =>
        simp only [if_true] at h2
        rcases (E_bind_err _ _ _ _).1 h2 with h | ⟨init, n2, _, h4⟩
        · rcases (E_bind_err _ _ _ _).1 h with h5 | ⟨l, n3, _, h6⟩
          · unfold freshLoc at h5; cases h5
          · exact absurd h6 (pure_not_err _ _ _)
        · exact (ihc.use h4 pa hok.2 hc).map (fun _ _ _ => .withCtorR)
      | false =>
        simp only [Bool.false_eq_true, if_false] at h2
        rcases (E_bind_err _ _ _ _).1 h2 with h | ⟨init, n2, _, h4⟩
        · exact absurd h (pure_not_err _ _ _)
        · exact (ihc.use h4 pa hok.2 hc).map (fun _ _ _ => .withCtorR)
  | ctorUpdate ctor toPointer srcIsPtr tgtIsPtr inner =>
    unfold okConv at hok
    simp only [Bool.and_eq_true] at hok
    unfold evalConv at hev
    simp only [] at hev
    -- assigning through the constructed value
    have hgo : ∀ (init x : Val) (parent : Option Val) (m : Nat),
        ((if tgtIsPtr = true then
            match init with
            | Val.ptr l tv => do
              let nv ← evalConv p fuel { self := fr.self, ctx := fr.ctx, idx := fr.idx, keys := fr.keys, parent := parent } inner x tv
              pure (Val.ptr l nv)
            | Val.nil => panicE PanicKind.nilDeref
            | _ => stuckE "ctorUpdate: pointer expected"
          else evalConv p fuel { self := fr.self, ctx := fr.ctx, idx := fr.idx, keys := fr.keys, parent := parent } inner x init) : E Val) m = .err e →
        Res p md (renderR pa fr.idx fr.keys) inner x e := by
      intro init x parent m h
      cases tgtIsPtr with
      | true =>
        simp only [if_true] at h
        split at h
        · rcases (E_bind_err _ _ _ _).1 h with h1 | ⟨nv, n2, _, h3⟩
          · exact ihc.use h1 pa hok.2 hc
          · exact absurd h3 (pure_not_err _ _ _)
        · unfold panicE at h; cases h
        · exact absurd h (stuckE_not_err _ _ _)
      | false => simp only [Bool.false_eq_true, if_false] at h; exact ihc.use h pa hok.2 hc
    have htail : ∀ (init : Val) (m : Nat),
        ((if srcIsPtr = true then
            match (generalizing := false) v with
            | Val.nil => pure init
            | Val.ptr l x =>
              if tgtIsPtr = true then
                match init with
                | Val.ptr l tv => do
                  let nv ← evalConv p fuel { self := fr.self, ctx := fr.ctx, idx := fr.idx, keys := fr.keys, parent := some v } inner x tv
                  pure (Val.ptr l nv)
                | Val.nil => panicE PanicKind.nilDeref
                | _ => stuckE "ctorUpdate: pointer expected"
              else evalConv p fuel { self := fr.self, ctx := fr.ctx, idx := fr.idx, keys := fr.keys, parent := some v } inner x init
            | _ => stuckE "ctorUpdate: source pointer expected"
          else
            if tgtIsPtr = true then
              match init with
              | Val.ptr l tv => do
                let nv ← evalConv p fuel { self := fr.self, ctx := fr.ctx, idx := fr.idx, keys := fr.keys, parent := none } inner v tv
                pure (Val.ptr l nv)
              | Val.nil => panicE PanicKind.nilDeref
              | _ => stuckE "ctorUpdate: pointer expected"
            else evalConv p fuel { self := fr.self, ctx := fr.ctx, idx := fr.idx, keys := fr.keys, parent := none } inner v init) : E Val) m = .err e →
        Res p md (renderR pa fr.idx fr.keys) (.ctorUpdate ctor toPointer srcIsPtr tgtIsPtr inner) v e := by
      intro init m h
      cases srcIsPtr with
      | true =>
        simp only [if_true] at h
        split at h
        · exact absurd h (pure_not_err _ _ _)
        · exact (hgo _ _ _ _ h).map (fun _ _ _ => .ctorUpdDeref)
        · exact absurd h (stuckE_not_err _ _ _)
      | false =>
        simp only [Bool.false_eq_true, if_false] at h
        exact (hgo _ _ _ _ h).map (fun _ _ _ => .ctorUpdI)
    rcases (E_bind_err _ _ _ _).1 hev with h | ⟨cv, n1, _, h2⟩
    · exact (ihc.use h pa hok.1 hc).map (fun _ _ _ => .ctorUpdC)
    · cases toPointer with
      | true =>
        simp only [if_true] at h2
        rcases (E_bind_err _ _ _ _).1 h2 with h | ⟨init, n2, _, h4⟩
        · rcases (E_bind_err _ _ _ _).1 h with h5 | ⟨l, n3, _, h6⟩
          · unfold freshLoc at h5; cases h5
          · exact absurd h6 (pure_not_err _ _ _)
        · exact htail _ _ h4
      | false =>
        simp only [Bool.false_eq_true, if_false] at h2
        rcases (E_bind_err _ _ _ _).1 h2 with h | ⟨init, n2, _, h4⟩
        · exact absurd h (pure_not_err _ _ _)
        · exact htail _ _ h4


/-! ### all fuels -/

theorem position_all (p : Program) (hp : pathsOK p = true) :
    ∀ fuel, PConv p fuel ∧ PCall p fuel ∧ PElems p fuel ∧ PElemsOld p fuel ∧ PEntries p fuel ∧ PFields p fuel := by
  intro fuel
  induction fuel with
  | zero =>
    refine ⟨?_, ?_, ?_, ?_, ?_, ?_⟩
    · intro md fr c pa v old n e _ _ hev; unfold evalConv at hev; cases hev
    · intro m v cs n e hev; unfold callMethod at hev; cases hev
    · intro md fr te elem pa vs i n e _ _ hev; unfold evalElems at hev; cases hev
    · intro md fr elem pa vs olds i n e _ _ hev; unfold evalElemsOld at hev; cases hev
    · intro md fr tk tv key val pa kvs n e _ _ _ hev; unfold evalEntries at hev; cases hev
    · intro md fr plans pa src old n e _ _ hev; unfold evalFields at hev; cases hev
  | succ fuel ih =>
    obtain ⟨ihc, ihm, ihe, iho, ihn, ihf⟩ := ih
    exact ⟨pConv_step p fuel ihc ihm ihe iho ihn ihf, pCall_step p hp fuel ihc, pElems_step p fuel ihc ihe,
      pElemsOld_step p fuel ihc iho, pEntries_step p fuel ihc ihn, pFields_step p fuel ihc ihf⟩

/-- **Position** (C07): an error returned by a method is assembled, method by method along the call chain, from the
positions of a walk through the plans and the input value that ends at the failing call. -/
theorem callMethod_position (p : Program) (hp : pathsOK p = true) (fuel m : Nat) (v : Val) (cs : List Val) (n : Nat) (e : ErrV)
    (h : callMethod p fuel m v cs n = .err e) : ∃ chain root, Fails p m v chain root ∧ e = build chain root :=
  (position_all p hp fuel).2.1 m v cs n e h

/-- the same for a plan node at position `pa` of a method body in mode `md`, inside any consistent frame -/
theorem evalConv_position (p : Program) (hp : pathsOK p = true) (fuel : Nat) (md : WrapMode) (fr : Frame) (c : Conv)
    (pa : List PathElem) (v old : Val) (n : Nat) (e : ErrV) (hok : okConv md c pa = true) (hc : Cons pa fr.idx fr.keys)
    (h : evalConv p fuel fr c v old n = .err e) :
    ∃ rp tl root, Leads p c v rp tl root ∧ e = layerErr md (renderR pa fr.idx fr.keys ++ rp) (build tl root) :=
  (position_all p hp fuel).1 md fr c pa v old n e hok hc h

/-! ### what the walk guarantees -/

theorem Leads.root_cause {p : Program} {c : Conv} {v : Val} {rp tl root} (h : Leads p c v rp tl root) :
    (∃ fn, root = .boom fn) ∨ root = .enumUnknown := by
  induction h with
  | structMethod _ => exact .inl ⟨_, rfl⟩
  | custom _ _ _ => exact .inl ⟨_, rfl⟩
  | delegate _ _ _ _ => exact .inl ⟨_, rfl⟩
  | enumErr _ => exact .inr rfl
  | _ => assumption

/-- every entry of the chain below a node is a method of the program with its mode (or a delegating method, which adds nothing) -/
theorem Leads.chain_modes {p : Program} {c : Conv} {v : Val} {rp tl root} (h : Leads p c v rp tl root) :
    ∀ x ∈ tl, (∃ gm, gm ∈ p.methods ∧ x.1 = methodMode gm) ∨ x = (.none, []) := by
  induction h with
  | structMethod _ => intro x hx; cases hx
  | custom _ _ _ => intro x hx; cases hx
  | delegate _ _ _ _ => intro x hx; simp at hx; exact .inr hx
  | enumErr _ => intro x hx; cases hx
  | method hm _ _ ih =>
    intro x hx
    rcases List.mem_cons.1 hx with rfl | hx
    · exact .inl ⟨_, List.mem_of_getElem? hm, rfl⟩
    · exact ih x hx
  | _ => assumption

theorem Fails.root_cause {p : Program} {m : Nat} {v : Val} {chain root} (h : Fails p m v chain root) :
    (∃ fn, root = .boom fn) ∨ root = .enumUnknown := by
  cases h with
  | convert _ _ hl => exact hl.root_cause
  | delegate _ _ _ _ => exact .inl ⟨_, rfl⟩

theorem Fails.chain_modes {p : Program} {m : Nat} {v : Val} {chain root} (h : Fails p m v chain root) :
    ∀ x ∈ chain, (∃ gm, gm ∈ p.methods ∧ x.1 = methodMode gm) ∨ x = (.none, []) := by
  cases h with
  | convert hm _ hl =>
    intro x hx
    rcases List.mem_cons.1 hx with rfl | hx
    · exact .inl ⟨_, List.mem_of_getElem? hm, rfl⟩
    · exact hl.chain_modes x hx
  | delegate _ _ _ _ => intro x hx; simp at hx; exact .inr hx

/-- a walk through a list node starts with a position of the slice being converted -/
theorem Leads.index_lt {p : Program} {te : Ty} {hm hg : Bool} {elem : Conv} {l : Loc} {vs : List Val} {rp tl root}
    (h : Leads p (.list te hm hg elem) (.slice l vs) rp tl root) :
    ∃ i x rp', rp = .index i :: rp' ∧ vs[i]? = some x ∧ i < vs.length ∧ Leads p elem x rp' tl root := by
  cases h with
  | slice hi hl =>
    rename_i i x rp'
    exact ⟨i, x, rp', rfl, hi, (List.getElem?_eq_some_iff.1 hi).1, hl⟩

/-- a walk through a map node starts with a key of the source map -/
theorem Leads.key_mem {p : Program} {tk tv : Ty} {key val : Conv} {l : Loc} {kvs : List (Val × Val)} {rp tl root}
    (h : Leads p (.mapc tk tv key val) (.map l kvs) rp tl root) :
    ∃ k x rp', rp = .key k :: rp' ∧ (k, x) ∈ kvs ∧ (Leads p key k rp' tl root ∨ Leads p val x rp' tl root) := by
  cases h with
  | mapKey hm hl => exact ⟨_, _, _, rfl, hm, .inl hl⟩
  | mapVal hm hl => exact ⟨_, _, _, rfl, hm, .inr hl⟩

def FieldPlan.target : FieldPlan → S
  | .skip t => t
  | .mapped t _ _ _ _ _ _ => t
  | .viaMethod t _ _ _ _ _ _ _ => t

/-- a walk through a struct node starts with the target field of one of its field plans -/
theorem Leads.field_target {p : Program} {fields : FieldPlans} {u : Bool} {src : Val} {rp tl root}
    (h : Leads p (.structc fields u) src rp tl root) :
    ∃ fp rp', fp ∈ fields.toList ∧ rp = .field (FieldPlan.target fp) :: rp' := by
  cases h with
  | mapped hm _ _ _ => exact ⟨_, _, hm, rfl⟩
  | viaCall hm _ _ _ => exact ⟨_, _, hm, rfl⟩
  | viaConv hm _ => exact ⟨_, _, hm, rfl⟩

/-! ### the reported location -/

/-- the location a recording Wrap package sees: the arguments of all `Wrap` calls, outermost first -/
def fullPath : ErrV → List (String × Val)
  | .wrap els e => els ++ fullPath e
  | .field _ e => fullPath e
  | .index _ e => fullPath e
  | _ => []

/-- the `error setting field … / index …` layers, outermost first -/
def errLayers : ErrV → List RElem
  | .field n e => .field n :: errLayers e
  | .index i e => .index i :: errLayers e
  | .wrap _ e => errLayers e
  | _ => []

/-- the whole position: the paths of all methods on the chain, outermost first -/
def chainPath (chain : List (WrapMode × List RElem)) : List RElem := chain.flatMap (·.2)

def isUsing : WrapMode → Bool
  | .using _ => true
  | _ => false

/-- what a `wrapErrors` method adds for its path: the innermost element if it is a field or an index -/
def lastFI (rp : List RElem) : Option RElem :=
  match rp.getLast? with
  | some (.field n) => some (.field n)
  | some (.index i) => some (.index i)
  | _ => none

theorem fullPath_build (chain : List (WrapMode × List RElem)) (root : ErrV) (hroot : fullPath root = [])
    (h : ∀ x ∈ chain, isUsing x.1 = true ∨ x = (.none, [])) :
    fullPath (build chain root) = (chainPath chain).map RElem.render := by
  induction chain with
  | nil => simp [build, chainPath, hroot]
  | cons x tl ih =>
    obtain ⟨md, rp⟩ := x
    have ih' := ih (fun y hy => h y (List.mem_cons_of_mem _ hy))
    rcases h (md, rp) (List.mem_cons_self) with hu | hn
    · cases md with
      | «using» pkg => simp [build, layerErr, fullPath, ih', chainPath]
      | none => simp [isUsing] at hu
      | wrapErrors => simp [isUsing] at hu
    · injection hn with h1 h2; subst h1; subst h2
      simp [build, layerErr, ih', chainPath]

theorem errLayers_layer_wrapErrors (rp : List RElem) (e : ErrV) :
    errLayers (layerErr .wrapErrors rp e) = (lastFI rp).toList ++ errLayers e := by
  unfold layerErr lastFI
  cases h : rp.getLast? with
  | none => simp
  | some y => cases y <;> simp [errLayers]

theorem errLayers_build (chain : List (WrapMode × List RElem)) (root : ErrV) (hroot : errLayers root = [])
    (h : ∀ x ∈ chain, x.1 = .wrapErrors ∨ x = (.none, [])) :
    errLayers (build chain root) = chain.filterMap (fun x => lastFI x.2) := by
  induction chain with
  | nil => simp [build, hroot]
  | cons x tl ih =>
    obtain ⟨md, rp⟩ := x
    have ih' := ih (fun y hy => h y (List.mem_cons_of_mem _ hy))
    rcases h (md, rp) (List.mem_cons_self) with hu | hn
    · simp only at hu; subst hu
      rw [build, errLayers_layer_wrapErrors, ih', List.filterMap_cons]
      cases lastFI rp <;> simp
    · injection hn with h1 h2; subst h1; subst h2
      rw [build, List.filterMap_cons]
      simp [layerErr, ih', lastFI]

/-- all methods wrap with a Wrap package / with `wrapErrors` -/
def allUsing (p : Program) : Bool := p.methods.all (fun gm => isUsing (methodMode gm))
def allWrapErrors (p : Program) : Bool := p.methods.all (fun gm => methodMode gm == .wrapErrors)

/-- **wrapErrorsUsing** (C07): the concatenation of all Wrap paths, outermost first, is the position of the failing call -/
theorem callMethod_using_location (p : Program) (hp : pathsOK p = true) (hu : allUsing p = true) (fuel m : Nat) (v : Val)
    (cs : List Val) (n : Nat) (e : ErrV) (h : callMethod p fuel m v cs n = .err e) :
    ∃ chain root, Fails p m v chain root ∧ fullPath e = (chainPath chain).map RElem.render := by
  obtain ⟨chain, root, hf, rfl⟩ := callMethod_position p hp fuel m v cs n e h
  refine ⟨chain, root, hf, fullPath_build chain root ?_ ?_⟩
  · rcases hf.root_cause with ⟨fn, rfl⟩ | rfl <;> rfl
  · intro x hx
    rcases hf.chain_modes x hx with ⟨gm, hgm, hx⟩ | hx
    · left; rw [hx]
      unfold allUsing at hu; rw [List.all_eq_true] at hu
      exact hu gm hgm
    · exact .inr hx

/-- **wrapErrors** (C07): every method on the call chain adds exactly the innermost element of its path to the failing
call when that is a field or an index, and nothing otherwise (empty path, map key) -/
theorem callMethod_wrapErrors_layers (p : Program) (hp : pathsOK p = true) (hu : allWrapErrors p = true) (fuel m : Nat) (v : Val)
    (cs : List Val) (n : Nat) (e : ErrV) (h : callMethod p fuel m v cs n = .err e) :
    ∃ chain root, Fails p m v chain root ∧ errLayers e = chain.filterMap (fun x => lastFI x.2) := by
  obtain ⟨chain, root, hf, rfl⟩ := callMethod_position p hp fuel m v cs n e h
  refine ⟨chain, root, hf, errLayers_build chain root ?_ ?_⟩
  · rcases hf.root_cause with ⟨fn, rfl⟩ | rfl <;> rfl
  · intro x hx
    rcases hf.chain_modes x hx with ⟨gm, hgm, hx⟩ | hx
    · left; rw [hx]
      unfold allWrapErrors at hu; rw [List.all_eq_true] at hu
      simpa using hu gm hgm
    · exact .inr hx

/-- a nested method call: the caller wraps the callee's error once more with the path of the call site -/
theorem call_method_err (p : Program) (fuel : Nat) (fr : Frame) (m : Nat) (args : List CallArg) (retErr : Bool) (w : Wrap)
    (v old : Val) (n : Nat) (e : ErrV)
    (h : evalConv p (fuel + 1) fr (.call (.method m) args retErr w) v old n = .err e) :
    retErr = true ∧ ∃ cs n1 e', callMethod p fuel m v cs n1 = .err e' ∧ e = wrapErr w fr.idx fr.keys e' := by
  unfold evalConv at h
  simp only [] at h
  rcases (E_bind_err _ _ _ _).1 h with h | ⟨argVals, n1, _, h⟩
  · exact absurd h (filterMapM_loop_not_err fr v args [] n e)
  · split at h
    · cases h
    · rename_i e1 heq
      split at h
      · rename_i hre
        injection h with h
        exact ⟨hre, _, _, e1, heq, h.symm⟩
      · cases h
    · cases h
    · cases h

/-- the source argument of an explicit method among its arguments in declared order -/
def srcOf (gm : GenMethod) (argVals : List Val) : Val :=
  (((gm.args.zip argVals).find? (fun (a, _) => a.use == .source)).map (·.2)).getD .nil

/-- **Position**, for explicit methods run on their arguments (update methods included): the error of an update method is
assembled from a walk through its body in the same way -/
theorem runMethod_position (p : Program) (hp : pathsOK p = true) (m : Nat) (argVals : List Val) (fuel : Nat) (e : ErrV)
    (h : runMethod p m argVals fuel = .err e) :
    ∃ gm, p.methods[m]? = some gm ∧
      ((∃ chain root, Fails p m (srcOf gm argVals) chain root ∧ e = build chain root) ∨
       (∃ sp c rp tl root, gm.body = some (.update sp c) ∧ Leads p c (updSource sp (srcOf gm argVals)) rp tl root ∧
          e = build ((methodMode gm, rp) :: tl) root)) := by
  unfold runMethod at h
  split at h
  · cases h
  · rename_i gm hm
    refine ⟨gm, hm, ?_⟩
    have hb := okBody_of_mem hp hm
    simp only [] at h
    split at h
    · rename_i sp c hbody
      simp only [okBody, hbody] at hb
      right
      refine ⟨sp, c, ?_⟩
      repeat' split at h
      all_goals first
        | (cases h; done)
        | (injection h with he
           subst he
           have heq := ‹evalConv p fuel _ c _ _ _ = Outcome.err _›
           obtain ⟨rp, tl, root, hl, he⟩ := evalConv_position p hp fuel (methodMode gm) _ c [] _ _ _ _ hb Cons.nil heq
           exact ⟨rp, tl, root, hbody, hl, by rw [he]; simp [renderR, build]⟩)
    · left
      repeat' split at h
      all_goals first
        | (cases h; done)
        | (injection h with he
           subst he
           have heq := ‹callMethod p fuel m _ _ _ = Outcome.err _›
           exact callMethod_position p hp fuel m _ _ _ _ heq)
/-- what `Gen.wrapOf` records at a call site: the mode of the method's configuration and the path it is given -/
theorem wrapOf_mode_path (cx : Gen.Ctx) (path : List PathElem) :
    (Gen.wrapOf cx path).mode = modeOf cx.cfg.common ∧ (Gen.wrapOf cx path).path = path := by
  unfold Gen.wrapOf modeOf
  split
  · exact ⟨rfl, rfl⟩
  · split <;> exact ⟨rfl, rfl⟩

/-- unfolding of a list node with `make` on a slice (for evaluating concrete examples) -/
theorem evalConv_list_make (p : Program) (fuel : Nat) (fr : Frame) (te : Ty) (hg : Bool) (elem : Conv) (l : Loc) (vs : List Val) (old : Val) :
    evalConv p (fuel+1) fr (.list te true hg elem) (.slice l vs) old =
      (do let out ← evalElems p fuel fr te elem vs 0
          if vs.isEmpty then pure (.slice .none []) else do
            let l ← freshLoc
            pure (.slice l out)) := by
  unfold evalConv
  rfl

end Gv.Sound
