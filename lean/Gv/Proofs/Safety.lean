/-
Safety and totality of checked structural plans (C02, last sentence): on a completely well-typed value the plan semantics
never panics, never returns an error and is never stuck for a reason other than the fuel; under a descending-calls
condition every value has a fuel bound from which the evaluation succeeds.
-/
import Gv.Proofs.Typing
import Gv.Proofs.EvalLemmas
import Gv.Proofs.StructuralSound

namespace Gv.Safety
open Gv Gv.Str Gv.Eval Gv.Typing

/-! ### sequencing of outcomes -/

/-- `Outcome`'s bind, by name -/
def chain {α β} (r : Outcome α) (f : α → Outcome β) : Outcome β :=
  match r with
  | .ok a => f a
  | .err e => .err e
  | .panic k => .panic k
  | .stuck w => .stuck w

theorem E_bind_eq {α β} (x : E α) (f : α → E β) (n : Nat) :
    (x >>= f) n = chain (x n) (fun r => f r.1 r.2) := by
  show (StateT.bind x f) n = _
  unfold StateT.bind chain
  cases x n <;> rfl

theorem E_pure_eq {α} (a : α) (n : Nat) : (pure a : E α) n = .ok (a, n) := rfl

/-! ### defining equations of the evaluators on the nodes of the checked fragment -/

variable (p : Program)

theorem evalConv_zero (fr : Frame) (c : Conv) (v old : Val) (n : Nat) : evalConv p 0 fr c v old n = .stuck "fuel" := by
  unfold evalConv; rfl

theorem callMethod_zero (m : Nat) (v : Val) (cs : List Val) (n : Nat) : callMethod p 0 m v cs n = .stuck "fuel" := by
  unfold callMethod; rfl

theorem evalConv_ident (fuel : Nat) (fr : Frame) (v old : Val) (n : Nat) :
    evalConv p (fuel+1) fr .ident v old n = .ok (v, n) := by
  unfold evalConv; rfl

theorem evalConv_cast (fuel : Nat) (fr : Frame) (i : Conv) (v old : Val) (n : Nat) :
    evalConv p (fuel+1) fr (.cast i) v old n = evalConv p fuel fr i v old n := by
  conv => lhs; unfold evalConv

theorem evalConv_call (fuel : Nat) (fr : Frame) (m : Nat) (w : Wrap) (v old : Val) (n : Nat) :
    evalConv p (fuel+1) fr (.call (.method m) [.source] false w) v old n =
      match callMethod p fuel m v [] n with
      | .ok r => .ok r
      | .err _ => .stuck "error from a callee that returns none"
      | .panic k => .panic k
      | .stuck s => .stuck s := by
  conv => lhs; unfold evalConv
  simp only [List.filterMapM, List.filterMapM.loop, argOf]
  rw [E_bind_eq]
  rfl

theorem evalConv_ptrPtr_nil (fuel : Nat) (fr : Frame) (te : Ty) (i : Conv) (old : Val) (n : Nat) :
    evalConv p (fuel+1) fr (.ptrPtr te i) .nil old n = .ok (old, n) := by
  unfold evalConv; rfl

theorem evalConv_ptrPtr_ptr (fuel : Nat) (fr : Frame) (te : Ty) (i : Conv) (l : Loc) (x old : Val) (n : Nat) :
    evalConv p (fuel+1) fr (.ptrPtr te i) (.ptr l x) old n =
      chain (evalConv p fuel { fr with parent := some (.ptr l x) } i x (zeroVal p.conv.env 64 te) n)
        (fun r => .ok (.ptr (.fresh r.2) r.1, r.2 + 1)) := by
  conv => lhs; unfold evalConv
  simp only []
  rw [E_bind_eq]
  rfl

theorem evalConv_srcPtr_nil (fuel : Nat) (fr : Frame) (t : Ty) (i : Conv) (old : Val) (n : Nat) :
    evalConv p (fuel+1) fr (.srcPtr t i) .nil old n = .ok (old, n) := by
  unfold evalConv; rfl

theorem evalConv_srcPtr_ptr (fuel : Nat) (fr : Frame) (t : Ty) (i : Conv) (l : Loc) (x old : Val) (n : Nat) :
    evalConv p (fuel+1) fr (.srcPtr t i) (.ptr l x) old n =
      evalConv p fuel { fr with parent := some (.ptr l x) } i x (zeroVal p.conv.env 64 t) n := by
  conv => lhs; unfold evalConv

theorem evalConv_tgtPtr (fuel : Nat) (fr : Frame) (te : Ty) (i : Conv) (v old : Val) (n : Nat) :
    evalConv p (fuel+1) fr (.tgtPtr te i) v old n =
      chain (evalConv p fuel { fr with parent := none } i v (zeroVal p.conv.env 64 te) n)
        (fun r => .ok (.ptr (.fresh r.2) r.1, r.2 + 1)) := by
  conv => lhs; unfold evalConv
  simp only []
  rw [E_bind_eq]
  rfl

/-- what a list node with `make` does with the elements -/
def listRun (fuel : Nat) (fr : Frame) (te : Ty) (elem : Conv) (vs : List Val) (n : Nat) : Outcome (Val × Nat) :=
  chain (evalElems p fuel fr te elem vs 0 n)
    (fun r => if vs.isEmpty then .ok (.slice .none [], r.2) else .ok (.slice (.fresh r.2) r.1, r.2 + 1))

theorem evalConv_list_nil_guard (fuel : Nat) (fr : Frame) (te : Ty) (elem : Conv) (old : Val) (n : Nat) :
    evalConv p (fuel+1) fr (.list te true true elem) .nil old n = .ok (old, n) := by
  unfold evalConv; rfl

theorem evalConv_list_slice (fuel : Nat) (fr : Frame) (te : Ty) (g : Bool) (elem : Conv) (l : Loc) (vs : List Val) (old : Val) (n : Nat) :
    evalConv p (fuel+1) fr (.list te true g elem) (.slice l vs) old n = listRun p fuel fr te elem vs n := by
  conv => lhs; unfold evalConv
  simp only [if_true]
  rw [E_bind_eq]
  unfold listRun
  congr 1
  funext r
  cases vs.isEmpty <;> rfl

theorem evalConv_list_arr (fuel : Nat) (fr : Frame) (te : Ty) (g : Bool) (elem : Conv) (vs : List Val) (old : Val) (n : Nat) :
    evalConv p (fuel+1) fr (.list te true g elem) (.arr vs) old n = listRun p fuel fr te elem vs n := by
  conv => lhs; unfold evalConv
  simp only [if_true]
  rw [E_bind_eq]
  unfold listRun
  congr 1
  funext r
  cases vs.isEmpty <;> rfl

theorem evalConv_map_nil (fuel : Nat) (fr : Frame) (tk tv : Ty) (key val : Conv) (old : Val) (n : Nat) :
    evalConv p (fuel+1) fr (.mapc tk tv key val) .nil old n = .ok (old, n) := by
  unfold evalConv; rfl

theorem evalConv_map_map (fuel : Nat) (fr : Frame) (tk tv : Ty) (key val : Conv) (l : Loc) (kvs : List (Val × Val)) (old : Val) (n : Nat) :
    evalConv p (fuel+1) fr (.mapc tk tv key val) (.map l kvs) old n =
      chain (evalEntries p fuel fr tk tv key val kvs n) (fun r => .ok (.map (.fresh r.2) r.1, r.2 + 1)) := by
  conv => lhs; unfold evalConv
  simp only []
  rw [E_bind_eq]
  rfl

theorem evalConv_struct (fuel : Nat) (fr : Frame) (plans : FieldPlans) (upd : Bool) (v old : Val) (n : Nat) :
    evalConv p (fuel+1) fr (.structc plans upd) v old n = evalFields p fuel fr plans v (normStruct old) n := by
  conv => lhs; unfold evalConv

theorem evalElems_zero (fr : Frame) (te : Ty) (elem : Conv) (vs : List Val) (i n : Nat) :
    evalElems p 0 fr te elem vs i n = .stuck "fuel" := by
  unfold evalElems; rfl

theorem evalElems_nil (fuel : Nat) (fr : Frame) (te : Ty) (elem : Conv) (i n : Nat) :
    evalElems p (fuel+1) fr te elem [] i n = .ok ([], n) := by
  unfold evalElems; rfl

theorem evalElems_cons (fuel : Nat) (fr : Frame) (te : Ty) (elem : Conv) (v : Val) (vs : List Val) (i n : Nat) :
    evalElems p (fuel+1) fr te elem (v :: vs) i n =
      chain (evalConv p fuel { fr with idx := fr.idx ++ [i], parent := none } elem v (zeroVal p.conv.env 64 te) n)
        (fun r => chain (evalElems p fuel fr te elem vs (i + 1) r.2) (fun q => .ok (r.1 :: q.1, q.2))) := by
  conv => lhs; unfold evalElems
  rw [E_bind_eq]
  rfl

theorem evalEntries_zero (fr : Frame) (tk tv : Ty) (key val : Conv) (kvs : List (Val × Val)) (n : Nat) :
    evalEntries p 0 fr tk tv key val kvs n = .stuck "fuel" := by
  unfold evalEntries; rfl

theorem evalEntries_nil (fuel : Nat) (fr : Frame) (tk tv : Ty) (key val : Conv) (n : Nat) :
    evalEntries p (fuel+1) fr tk tv key val [] n = .ok ([], n) := by
  unfold evalEntries; rfl

theorem evalEntries_cons (fuel : Nat) (fr : Frame) (tk tv : Ty) (key val : Conv) (k v : Val) (rest : List (Val × Val)) (n : Nat) :
    evalEntries p (fuel+1) fr tk tv key val ((k, v) :: rest) n =
      chain (evalConv p fuel { fr with keys := fr.keys ++ [k], parent := none } key k (zeroVal p.conv.env 64 tk) n)
        (fun r1 => chain (evalConv p fuel { fr with keys := fr.keys ++ [k], parent := none } val v (zeroVal p.conv.env 64 tv) r1.2)
          (fun r2 => chain (evalEntries p fuel fr tk tv key val rest r2.2) (fun q => .ok ((r1.1, r2.1) :: q.1, q.2)))) := by
  conv => lhs; unfold evalEntries
  rw [E_bind_eq]
  rfl

theorem evalFields_zero (fr : Frame) (plans : FieldPlans) (v old : Val) (n : Nat) :
    evalFields p 0 fr plans v old n = .stuck "fuel" := by
  unfold evalFields; rfl

theorem evalFields_nil (fuel : Nat) (fr : Frame) (v old : Val) (n : Nat) :
    evalFields p (fuel+1) fr .nil v old n = .ok (old, n) := by
  unfold evalFields; rfl

/-- one checked field plan: the same-named source field is read, converted, and stored -/
theorem evalFields_cons (fuel : Nat) (fr : Frame) (name : S) (b : Bool) (cv : Conv) (rest : FieldPlans)
    (fs : List (S × Val)) (x old : Val) (n : Nat) (hx : fs.lookup name = some x) :
    evalFields p (fuel+1) fr (.cons (.mapped name [name] [false] false b cv .none) rest) (.struct fs) old n =
      chain (evalConv p fuel { fr with parent := none } cv x (if old.isAbsent then Val.absent else (fieldOf old name).getD .nil) n)
        (fun r => if old.isAbsent && r.1.isAbsent then evalFields p fuel fr rest (.struct fs) old r.2
                  else evalFields p fuel fr rest (.struct fs) (setField old name r.1) r.2) := by
  conv => lhs; unfold evalFields
  have hwalk : walk [name] [false] (.struct fs) = .ok (some x) := by
    unfold walk
    simp only [fieldOf, Bool.false_eq_true, if_false, hx]
    simp [walk]
  have hz : (ZeroCheck.none == ZeroCheck.check) = false := by decide
  simp only [hwalk, hz, Bool.false_and, Bool.not_false, if_true, Bool.false_eq_true, if_false, Option.getD_some,
    List.isEmpty_cons]
  unfold chain
  cases evalConv p fuel { fr with parent := none } cv x (if old.isAbsent then Val.absent else (fieldOf old name).getD .nil) n with
  | ok r => obtain ⟨nv, n1⟩ := r; rfl
  | err e => rfl
  | panic k => rfl
  | stuck w => rfl

theorem evalFields_cons_missing (fuel : Nat) (fr : Frame) (name : S) (b : Bool) (cv : Conv) (rest : FieldPlans)
    (fs : List (S × Val)) (old : Val) (n : Nat) (hx : fs.lookup name = none) :
    evalFields p (fuel+1) fr (.cons (.mapped name [name] [false] false b cv .none) rest) (.struct fs) old n =
      .stuck "walk: no such field" := by
  conv => lhs; unfold evalFields
  have hwalk : walk [name] [false] (.struct fs) = .stuck "walk: no such field" := by
    unfold walk
    simp only [fieldOf, Bool.false_eq_true, if_false, hx]
  simp only [hwalk]

theorem callMethod_convert (fuel m : Nat) (gm : GenMethod) (c : Conv) (v : Val) (cs : List Val) (n : Nat)
    (hm : p.methods[m]? = some gm) (hb : gm.body = some (.convert c)) :
    callMethod p (fuel+1) m v cs n =
      evalConv p fuel { self := m, ctx := ((gm.args.filter (fun a => a.use == .context)).map (·.ty)).zip cs, idx := [], keys := [], parent := none }
        c v (zeroVal p.conv.env 64 gm.target) n := by
  conv => lhs; unfold callMethod
  simp only [hm, hb]


/-! ### completely well-typed values

`Typing.WT` lets a struct value lack declared fields (it only types the fields that are there); reading a missing field is
`stuck "walk: no such field"`.  `WTC` adds that every declared field is present, at every depth. -/

inductive WTC (env : TEnv) : Val → Ty → Prop
  | basic {r t k} : under env t = .basic k → WTC env (.basic r) t
  | nilPtr {t e} : under env t = .ptr e → WTC env .nil t
  | nilSlice {t e} : under env t = .slice e → WTC env .nil t
  | nilMap {t k v} : under env t = .map k v → WTC env .nil t
  | ptr {l x t e} : under env t = .ptr e → WTC env x e → WTC env (.ptr l x) t
  | slice {l vs t e} : under env t = .slice e → (∀ v, v ∈ vs → WTC env v e) → WTC env (.slice l vs) t
  | arr {vs t n e} : under env t = .array n e → (∀ v, v ∈ vs → WTC env v e) → WTC env (.arr vs) t
  | map {l kvs t k v} : under env t = .map k v → (∀ a b, (a, b) ∈ kvs → WTC env a k) → (∀ a b, (a, b) ∈ kvs → WTC env b v) →
      WTC env (.map l kvs) t
  | struct {fs t tfs} : under env t = .struct tfs →
      (∀ f ty, (f, ty) ∈ tfs.toList → (fs.lookup f.name).isSome = true) →
      (∀ name x f ty, fs.lookup name = some x →
        tfs.toList.find? (fun (y : FieldInfo × Ty) => y.1.name == name) = some (f, ty) → WTC env x ty) →
      WTC env (.struct fs) t

theorem WTC.toWT {env : TEnv} {v : Val} {t : Ty} (h : WTC env v t) : WT env v t := by
  induction h with
  | basic h => exact .basic h
  | nilPtr h => exact .nilPtr h
  | nilSlice h => exact .nilSlice h
  | nilMap h => exact .nilMap h
  | ptr h _ ih => exact .ptr h ih
  | slice h _ ih => exact .slice h ih
  | arr h _ ih => exact .arr h ih
  | map h _ _ ih1 ih2 => exact .map h ih1 ih2
  | struct h _ _ ih => exact .struct h ih

theorem wtc_ptr_inv {env : TEnv} {v : Val} {s se : Ty} (hwt : WTC env v s) (hs : under env s = .ptr se) :
    v = .nil ∨ ∃ l x, v = .ptr l x ∧ WTC env x se := by
  cases hwt with
  | basic h => rw [hs] at h; cases h
  | nilPtr _ => exact .inl rfl
  | nilSlice _ => exact .inl rfl
  | nilMap _ => exact .inl rfl
  | ptr h hx => rw [hs] at h; cases h; exact .inr ⟨_, _, rfl, hx⟩
  | slice h _ => rw [hs] at h; cases h
  | arr h _ => rw [hs] at h; cases h
  | map h _ _ => rw [hs] at h; cases h
  | struct h _ _ => rw [hs] at h; cases h

theorem wtc_slice_inv {env : TEnv} {v : Val} {s se : Ty} (hwt : WTC env v s) (hs : under env s = .slice se) :
    v = .nil ∨ ∃ l vs, v = .slice l vs ∧ ∀ x, x ∈ vs → WTC env x se := by
  cases hwt with
  | basic h => rw [hs] at h; cases h
  | nilPtr _ => exact .inl rfl
  | nilSlice _ => exact .inl rfl
  | nilMap _ => exact .inl rfl
  | ptr h _ => rw [hs] at h; cases h
  | slice h hx => rw [hs] at h; cases h; exact .inr ⟨_, _, rfl, hx⟩
  | arr h _ => rw [hs] at h; cases h
  | map h _ _ => rw [hs] at h; cases h
  | struct h _ _ => rw [hs] at h; cases h

theorem wtc_array_inv {env : TEnv} {v : Val} {s se : Ty} {k : Nat} (hwt : WTC env v s) (hs : under env s = .array k se) :
    ∃ vs, v = .arr vs ∧ ∀ x, x ∈ vs → WTC env x se := by
  cases hwt with
  | basic h => rw [hs] at h; cases h
  | nilPtr h => rw [hs] at h; cases h
  | nilSlice h => rw [hs] at h; cases h
  | nilMap h => rw [hs] at h; cases h
  | ptr h _ => rw [hs] at h; cases h
  | slice h _ => rw [hs] at h; cases h
  | arr h hx => rw [hs] at h; cases h; exact ⟨_, rfl, hx⟩
  | map h _ _ => rw [hs] at h; cases h
  | struct h _ _ => rw [hs] at h; cases h

theorem wtc_map_inv {env : TEnv} {v : Val} {s sk sv : Ty} (hwt : WTC env v s) (hs : under env s = .map sk sv) :
    v = .nil ∨ ∃ l kvs, v = .map l kvs ∧ (∀ a b, (a, b) ∈ kvs → WTC env a sk) ∧ (∀ a b, (a, b) ∈ kvs → WTC env b sv) := by
  cases hwt with
  | basic h => rw [hs] at h; cases h
  | nilPtr _ => exact .inl rfl
  | nilSlice _ => exact .inl rfl
  | nilMap _ => exact .inl rfl
  | ptr h _ => rw [hs] at h; cases h
  | slice h _ => rw [hs] at h; cases h
  | arr h _ => rw [hs] at h; cases h
  | map h hk hv => rw [hs] at h; cases h; exact .inr ⟨_, _, rfl, hk, hv⟩
  | struct h _ _ => rw [hs] at h; cases h

theorem wtc_struct_inv {env : TEnv} {v : Val} {s : Ty} {sfs : Fields} (hwt : WTC env v s) (hs : under env s = .struct sfs) :
    ∃ fs, v = .struct fs ∧ (∀ f ty, (f, ty) ∈ sfs.toList → (fs.lookup f.name).isSome = true) ∧
      ∀ name x f ty, fs.lookup name = some x →
        sfs.toList.find? (fun (y : FieldInfo × Ty) => y.1.name == name) = some (f, ty) → WTC env x ty := by
  cases hwt with
  | basic h => rw [hs] at h; cases h
  | nilPtr h => rw [hs] at h; cases h
  | nilSlice h => rw [hs] at h; cases h
  | nilMap h => rw [hs] at h; cases h
  | ptr h _ => rw [hs] at h; cases h
  | slice h _ => rw [hs] at h; cases h
  | arr h _ => rw [hs] at h; cases h
  | map h _ _ => rw [hs] at h; cases h
  | struct h hp hf => rw [hs] at h; cases h; exact ⟨_, rfl, hp, hf⟩

/-- the source field a checked field plan reads is there -/
theorem field_present {env : TEnv} {sfs : List (FieldInfo × Ty)} {fs : List (S × Val)} {name : S} {sf : FieldInfo} {sty : Ty}
    (hp : ∀ f ty, (f, ty) ∈ sfs → (fs.lookup f.name).isSome = true)
    (hf : ∀ nm x f ty, fs.lookup nm = some x → sfs.find? (fun (y : FieldInfo × Ty) => y.1.name == nm) = some (f, ty) → WTC env x ty)
    (hfind : sfs.find? (fun (y : FieldInfo × Ty) => y.1.name == name) = some (sf, sty)) :
    ∃ x, fs.lookup name = some x ∧ WTC env x sty := by
  have hmem := List.mem_of_find?_eq_some hfind
  have hn : sf.name = name := by simpa using List.find?_some hfind
  have := hp sf sty hmem
  rw [hn] at this
  cases hl : fs.lookup name with
  | none => rw [hl] at this; cases this
  | some x => exact ⟨x, rfl, hf name x sf sty hl hfind⟩

/-! ### safety: `ok`, or out of fuel -/

/-- the outcome is a result, or the evaluation ran out of fuel (the only `stuck` reason of the six evaluators for that) -/
def Safe {α} (r : Outcome α) : Prop := (∃ a, r = .ok a) ∨ r = .stuck "fuel"

theorem safe_ok {α} (a : α) : Safe (Outcome.ok a) := .inl ⟨a, rfl⟩
theorem safe_fuel {α} : Safe (Outcome.stuck "fuel" : Outcome α) := .inr rfl

theorem safe_chain {α β} (r : Outcome α) (f : α → Outcome β) (h1 : Safe r) (h2 : ∀ a, r = .ok a → Safe (f a)) :
    Safe (chain r f) := by
  rcases h1 with ⟨a, rfl⟩ | rfl
  · exact h2 a rfl
  · exact .inr rfl

def SfConv (p : Program) (fuel : Nat) : Prop :=
  ∀ (fr : Frame) (c : Conv) (s t : Ty) (v old : Val) (n : Nat),
    HasTy p c s t → WTC p.conv.env v s → Safe (evalConv p fuel fr c v old n)

def SfCall (p : Program) (fuel : Nat) : Prop :=
  ∀ (m : Nat) (s t : Ty) (v : Val) (cs : List Val) (n : Nat),
    sigOf p m = some (s, t) → WTC p.conv.env v s → Safe (callMethod p fuel m v cs n)

def SfElems (p : Program) (fuel : Nat) : Prop :=
  ∀ (fr : Frame) (elem : Conv) (se te : Ty) (vs : List Val) (i n : Nat),
    HasTy p elem se te → (∀ v, v ∈ vs → WTC p.conv.env v se) → Safe (evalElems p fuel fr te elem vs i n)

def SfEntries (p : Program) (fuel : Nat) : Prop :=
  ∀ (fr : Frame) (key val : Conv) (sk sv tk tv : Ty) (kvs : List (Val × Val)) (n : Nat),
    HasTy p key sk tk → HasTy p val sv tv →
    (∀ a b, (a, b) ∈ kvs → WTC p.conv.env a sk) → (∀ a b, (a, b) ∈ kvs → WTC p.conv.env b sv) →
    Safe (evalEntries p fuel fr tk tv key val kvs n)

def SfFields (p : Program) (fuel : Nat) : Prop :=
  ∀ (fr : Frame) (plans : FieldPlans) (sfs tfs : List (FieldInfo × Ty)) (fs : List (S × Val)) (old : Val) (n : Nat),
    HasFields p plans sfs tfs →
    (∀ f ty, (f, ty) ∈ sfs → (fs.lookup f.name).isSome = true) →
    (∀ nm x f ty, fs.lookup nm = some x → sfs.find? (fun (y : FieldInfo × Ty) => y.1.name == nm) = some (f, ty) → WTC p.conv.env x ty) →
    Safe (evalFields p fuel fr plans (.struct fs) old n)

theorem sfCall_step (hp : ProgOK p) (fuel : Nat) (ih : SfConv p fuel) : SfCall p (fuel + 1) := by
  intro m s t v cs n hsig hwt
  unfold sigOf at hsig
  cases hm : p.methods[m]? with
  | none => simp [hm] at hsig
  | some gm =>
    simp [hm] at hsig
    obtain ⟨hs, ht⟩ := hsig
    obtain ⟨c, hb, hty⟩ := hp m gm hm
    rw [callMethod_convert p fuel m gm c v cs n hm hb]
    subst hs; subst ht
    exact ih _ c _ _ v _ n hty hwt

theorem sfElems_step (fuel : Nat) (ihc : SfConv p fuel) (ihe : SfElems p fuel) : SfElems p (fuel + 1) := by
  intro fr elem se te vs i n hty hwt
  cases vs with
  | nil => rw [evalElems_nil]; exact safe_ok _
  | cons v vs =>
    rw [evalElems_cons]
    apply safe_chain _ _ (ihc _ elem se te v _ n hty (hwt v List.mem_cons_self))
    intro r _
    apply safe_chain _ _ (ihe fr elem se te vs (i + 1) r.2 hty (fun w hw => hwt w (List.mem_cons_of_mem _ hw)))
    intro q _
    exact safe_ok _

theorem sfEntries_step (fuel : Nat) (ihc : SfConv p fuel) (ihe : SfEntries p fuel) : SfEntries p (fuel + 1) := by
  intro fr key val sk sv tk tv kvs n hk hv hwk hwv
  cases kvs with
  | nil => rw [evalEntries_nil]; exact safe_ok _
  | cons e kvs =>
    obtain ⟨a, b⟩ := e
    rw [evalEntries_cons]
    apply safe_chain _ _ (ihc _ key sk tk a _ n hk (hwk a b List.mem_cons_self))
    intro r1 _
    apply safe_chain _ _ (ihc _ val sv tv b _ r1.2 hv (hwv a b List.mem_cons_self))
    intro r2 _
    apply safe_chain _ _ (ihe fr key val sk sv tk tv kvs r2.2 hk hv
      (fun x y h => hwk x y (List.mem_cons_of_mem _ h)) (fun x y h => hwv x y (List.mem_cons_of_mem _ h)))
    intro q _
    exact safe_ok _

theorem sfFields_step (fuel : Nat) (ihc : SfConv p fuel) (ihf : SfFields p fuel) : SfFields p (fuel + 1) := by
  intro fr plans sfs tfs fs old n hty hpres hwt
  cases hty with
  | nil => rw [evalFields_nil]; exact safe_ok _
  | @cons _ tf tty sf sty cv plans' tfs' b hfind hcv hrestTy =>
    obtain ⟨x, hx, hxwt⟩ := field_present hpres hwt hfind
    rw [evalFields_cons p fuel fr tf.name b cv plans' fs x old n hx]
    apply safe_chain _ _ (ihc _ cv sty tty x _ n hcv hxwt)
    intro r _
    split
    · exact ihf fr plans' sfs tfs' fs old r.2 hrestTy hpres hwt
    · exact ihf fr plans' sfs tfs' fs _ r.2 hrestTy hpres hwt

theorem safe_listRun (fuel : Nat) (fr : Frame) (te : Ty) (elem : Conv) (vs : List Val) (n : Nat)
    (h : Safe (evalElems p fuel fr te elem vs 0 n)) : Safe (listRun p fuel fr te elem vs n) := by
  unfold listRun
  apply safe_chain _ _ h
  intro r _
  split <;> exact safe_ok _

theorem sfConv_step (fuel : Nat) (ihc : SfConv p fuel) (ihm : SfCall p fuel) (ihe : SfElems p fuel)
    (ihn : SfEntries p fuel) (ihf : SfFields p fuel) : SfConv p (fuel + 1) := by
  intro fr c s t v old n hty hwt
  cases hty with
  | identBasic hs ht => rw [evalConv_ident]; exact safe_ok _
  | castBasic hs ht => rw [evalConv_cast]; exact ihc _ .ident s t v old n (.identBasic hs ht) hwt
  | @callMethod _ _ m w hsig =>
    rw [evalConv_call]
    rcases ihm m s t v [] n hsig hwt with ⟨a, h⟩ | h
    · rw [h]; exact safe_ok _
    · rw [h]; exact safe_fuel
  | @ptrPtr _ _ se te inner hs ht hin =>
    rcases wtc_ptr_inv hwt hs with rfl | ⟨l, x, rfl, hx⟩
    · rw [evalConv_ptrPtr_nil]; exact safe_ok _
    · rw [evalConv_ptrPtr_ptr]
      exact safe_chain _ _ (ihc _ inner se te x _ n hin hx) (fun _ _ => safe_ok _)
  | @tgtPtr _ _ te inner hs ht hin =>
    rw [evalConv_tgtPtr]
    exact safe_chain _ _ (ihc _ inner s te v _ n hin hwt) (fun _ _ => safe_ok _)
  | @srcPtr _ _ se inner hs ht hin =>
    rcases wtc_ptr_inv hwt hs with rfl | ⟨l, x, rfl, hx⟩
    · rw [evalConv_srcPtr_nil]; exact safe_ok _
    · rw [evalConv_srcPtr_ptr]; exact ihc _ inner se t x _ n hin hx
  | @slice _ _ se te elem hs ht hel =>
    rcases wtc_slice_inv hwt hs with rfl | ⟨l, vs, rfl, hvs⟩
    · rw [evalConv_list_nil_guard]; exact safe_ok _
    · rw [evalConv_list_slice]; exact safe_listRun p fuel fr te elem vs n (ihe fr elem se te vs 0 n hel hvs)
  | @array _ _ k se te elem hs ht hel =>
    obtain ⟨vs, rfl, hvs⟩ := wtc_array_inv hwt hs
    rw [evalConv_list_arr]; exact safe_listRun p fuel fr te elem vs n (ihe fr elem se te vs 0 n hel hvs)
  | @mapc _ _ sk sv tk tv key val hs ht hk hv =>
    rcases wtc_map_inv hwt hs with rfl | ⟨l, kvs, rfl, hwk, hwv⟩
    · rw [evalConv_map_nil]; exact safe_ok _
    · rw [evalConv_map_map]
      exact safe_chain _ _ (ihn fr key val sk sv tk tv kvs n hk hv hwk hwv) (fun _ _ => safe_ok _)
  | @structc _ _ sfs tfs plans upd hs ht hnd hfs =>
    obtain ⟨fs, rfl, hpres, hfwt⟩ := wtc_struct_inv hwt hs
    rw [evalConv_struct]
    exact ihf fr plans sfs.toList tfs.toList fs _ n hfs hpres hfwt

theorem safe_all (hp : ProgOK p) :
    ∀ fuel, SfConv p fuel ∧ SfCall p fuel ∧ SfElems p fuel ∧ SfEntries p fuel ∧ SfFields p fuel := by
  intro fuel
  induction fuel with
  | zero =>
    refine ⟨?_, ?_, ?_, ?_, ?_⟩
    · intro fr c s t v old n _ _; rw [evalConv_zero]; exact safe_fuel
    · intro m s t v cs n _ _; rw [callMethod_zero]; exact safe_fuel
    · intro fr elem se te vs i n _ _; rw [evalElems_zero]; exact safe_fuel
    · intro fr key val sk sv tk tv kvs n _ _ _ _; rw [evalEntries_zero]; exact safe_fuel
    · intro fr plans sfs tfs fs old n _ _ _; rw [evalFields_zero]; exact safe_fuel
  | succ fuel ih =>
    obtain ⟨ihc, ihm, ihe, ihn, ihf⟩ := ih
    exact ⟨sfConv_step p fuel ihc ihm ihe ihn ihf, sfCall_step p hp fuel ihc, sfElems_step p fuel ihc ihe,
      sfEntries_step p fuel ihc ihn, sfFields_step p fuel ihc ihf⟩

/-! ### totality: a fuel bound for every value -/

def Good {α} (r : Outcome α) : Prop := ∃ a, r = .ok a

theorem good_ok {α} (a : α) : Good (Outcome.ok a) := ⟨a, rfl⟩

theorem good_chain {α β} (r : Outcome α) (f : α → Outcome β) (h1 : Good r) (h2 : ∀ a, r = .ok a → Good (f a)) :
    Good (chain r f) := by
  obtain ⟨a, rfl⟩ := h1
  exact h2 a rfl

/-- from some fuel on the node succeeds on this value, whatever the frame, the previous target value and the counter -/
def Term (c : Conv) (v : Val) : Prop :=
  ∃ N, ∀ fuel, N ≤ fuel → ∀ (fr : Frame) (old : Val) (n : Nat), Good (evalConv p fuel fr c v old n)

/-- every call of a generated/declared method that the node makes on the SAME value (i.e. not below a pointer
dereference, a list/map element or a struct field, where the value gets smaller) goes to a method of rank `< r` -/
def descB (rank : Nat → Nat) (r : Nat) : Conv → Bool
  | .call (.method m) _ _ _ => decide (rank m < r)
  | .cast i => descB rank r i
  | .underlying _ _ i => descB rank r i
  | .tgtPtr _ i => descB rank r i
  | _ => true

/-- the call structure is acyclic on equal values: the body of method `m` only makes such calls to methods of smaller rank -/
def callsDescend (p : Program) (rank : Nat → Nat) : Bool :=
  (List.range p.methods.length).all (fun m =>
    match p.methods[m]? with
    | some gm => (match gm.body with | some (.convert c) => descB rank (rank m) c | _ => true)
    | none => true)

theorem callsDescend_body {rank : Nat → Nat} (h : callsDescend p rank = true) {m : Nat} {gm : GenMethod} {c : Conv}
    (hm : p.methods[m]? = some gm) (hb : gm.body = some (.convert c)) : descB rank (rank m) c = true := by
  unfold callsDescend at h
  rw [List.all_eq_true] at h
  have hlt : m < p.methods.length := (List.getElem?_eq_some_iff.1 hm).1
  have := h m (List.mem_range.2 hlt)
  simpa [hm, hb] using this

theorem desc_exists (rank : Nat → Nat) : ∀ c : Conv, ∃ r, descB rank r c = true
  | .call (.method m) _ _ _ => ⟨rank m + 1, by simp [descB]⟩
  | .call (.custom _) _ _ _ => ⟨0, by simp [descB]⟩
  | .call (.structMethod _) _ _ _ => ⟨0, by simp [descB]⟩
  | .cast i => by obtain ⟨r, h⟩ := desc_exists rank i; exact ⟨r, by simpa [descB] using h⟩
  | .underlying _ _ i => by obtain ⟨r, h⟩ := desc_exists rank i; exact ⟨r, by simpa [descB] using h⟩
  | .tgtPtr _ i => by obtain ⟨r, h⟩ := desc_exists rank i; exact ⟨r, by simpa [descB] using h⟩
  | .ident => ⟨0, by simp [descB]⟩
  | .ptrPtr _ _ => ⟨0, by simp [descB]⟩
  | .srcPtr _ _ => ⟨0, by simp [descB]⟩
  | .list _ _ _ _ => ⟨0, by simp [descB]⟩
  | .mapc _ _ _ _ => ⟨0, by simp [descB]⟩
  | .structc _ _ => ⟨0, by simp [descB]⟩
  | .enumc _ _ => ⟨0, by simp [descB]⟩
  | .withCtor _ _ _ => ⟨0, by simp [descB]⟩
  | .ctorUpdate _ _ _ _ _ => ⟨0, by simp [descB]⟩

theorem succ_of_le {N fuel : Nat} (h : N + 1 ≤ fuel) : ∃ f, fuel = f + 1 ∧ N ≤ f := ⟨fuel - 1, by omega, by omega⟩

theorem term_elems (te : Ty) (elem : Conv) : ∀ vs : List Val, (∀ x, x ∈ vs → Term p elem x) →
    ∃ N, ∀ fuel, N ≤ fuel → ∀ (fr : Frame) (i n : Nat), Good (evalElems p fuel fr te elem vs i n) := by
  intro vs
  induction vs with
  | nil =>
    intro _
    refine ⟨1, ?_⟩
    intro fuel hf fr i n
    obtain ⟨f, rfl, _⟩ := succ_of_le (N := 0) hf
    rw [evalElems_nil]; exact good_ok _
  | cons v vs ih =>
    intro h
    obtain ⟨N1, h1⟩ := h v List.mem_cons_self
    obtain ⟨N2, h2⟩ := ih (fun x hx => h x (List.mem_cons_of_mem _ hx))
    refine ⟨max N1 N2 + 1, ?_⟩
    intro fuel hf fr i n
    obtain ⟨f, rfl, hf'⟩ := succ_of_le hf
    rw [evalElems_cons]
    apply good_chain _ _ (h1 f (by omega) _ _ _)
    intro r _
    apply good_chain _ _ (h2 f (by omega) _ _ _)
    intro q _
    exact good_ok _

theorem term_entries (tk tv : Ty) (key val : Conv) : ∀ kvs : List (Val × Val),
    (∀ a b, (a, b) ∈ kvs → Term p key a) → (∀ a b, (a, b) ∈ kvs → Term p val b) →
    ∃ N, ∀ fuel, N ≤ fuel → ∀ (fr : Frame) (n : Nat), Good (evalEntries p fuel fr tk tv key val kvs n) := by
  intro kvs
  induction kvs with
  | nil =>
    intro _ _
    refine ⟨1, ?_⟩
    intro fuel hf fr n
    obtain ⟨f, rfl, _⟩ := succ_of_le (N := 0) hf
    rw [evalEntries_nil]; exact good_ok _
  | cons e kvs ih =>
    obtain ⟨a, b⟩ := e
    intro hk hv
    obtain ⟨N1, h1⟩ := hk a b List.mem_cons_self
    obtain ⟨N2, h2⟩ := hv a b List.mem_cons_self
    obtain ⟨N3, h3⟩ := ih (fun x y h => hk x y (List.mem_cons_of_mem _ h)) (fun x y h => hv x y (List.mem_cons_of_mem _ h))
    refine ⟨max N1 (max N2 N3) + 1, ?_⟩
    intro fuel hf fr n
    obtain ⟨f, rfl, hf'⟩ := succ_of_le hf
    rw [evalEntries_cons]
    apply good_chain _ _ (h1 f (by omega) _ _ _)
    intro r1 _
    apply good_chain _ _ (h2 f (by omega) _ _ _)
    intro r2 _
    apply good_chain _ _ (h3 f (by omega) _ _)
    intro q _
    exact good_ok _

theorem term_fields (fs : List (S × Val))
    (H : ∀ cv sty tty x nm, fs.lookup nm = some x → HasTy p cv sty tty → WTC p.conv.env x sty → Term p cv x) :
    ∀ (plans : FieldPlans) (sfs tfs : List (FieldInfo × Ty)), HasFields p plans sfs tfs →
    (∀ f ty, (f, ty) ∈ sfs → (fs.lookup f.name).isSome = true) →
    (∀ nm x f ty, fs.lookup nm = some x → sfs.find? (fun (y : FieldInfo × Ty) => y.1.name == nm) = some (f, ty) → WTC p.conv.env x ty) →
    ∃ N, ∀ fuel, N ≤ fuel → ∀ (fr : Frame) (old : Val) (n : Nat), Good (evalFields p fuel fr plans (.struct fs) old n)
  | .nil, sfs, tfs, _, _, _ => by
    refine ⟨1, ?_⟩
    intro fuel hf fr old n
    obtain ⟨f, rfl, _⟩ := succ_of_le (N := 0) hf
    rw [evalFields_nil]; exact good_ok _
  | .cons fp rest, sfs, tfs, hty, hpres, hwt => by
    cases hty with
    | @cons _ tf tty sf sty cv _ tfs' b hfind hcv hrestTy =>
      obtain ⟨x, hx, hxwt⟩ := field_present hpres hwt hfind
      obtain ⟨N1, h1⟩ := H cv sty tty x tf.name hx hcv hxwt
      obtain ⟨N2, h2⟩ := term_fields fs H rest sfs tfs' hrestTy hpres hwt
      refine ⟨max N1 N2 + 1, ?_⟩
      intro fuel hf fr old n
      obtain ⟨f, rfl, hf'⟩ := succ_of_le hf
      rw [evalFields_cons p f fr tf.name b cv rest fs x old n hx]
      apply good_chain _ _ (h1 f (by omega) _ _ _)
      intro r _
      split
      · exact h2 f (by omega) _ _ _
      · exact h2 f (by omega) _ _ _

/-! sub-values are smaller -/

theorem size_ptr (l : Loc) (x : Val) : sizeOf x < sizeOf (Val.ptr l x) := by
  simp only [Val.ptr.sizeOf_spec]; omega

theorem size_slice (l : Loc) (vs : List Val) (x : Val) (h : x ∈ vs) : sizeOf x < sizeOf (Val.slice l vs) := by
  have := List.sizeOf_lt_of_mem h
  simp only [Val.slice.sizeOf_spec]; omega

theorem size_arr (vs : List Val) (x : Val) (h : x ∈ vs) : sizeOf x < sizeOf (Val.arr vs) := by
  have := List.sizeOf_lt_of_mem h
  simp only [Val.arr.sizeOf_spec]; omega

theorem size_map (l : Loc) (kvs : List (Val × Val)) (a b : Val) (h : (a, b) ∈ kvs) :
    sizeOf a < sizeOf (Val.map l kvs) ∧ sizeOf b < sizeOf (Val.map l kvs) := by
  have := List.sizeOf_lt_of_mem h
  simp only [Val.map.sizeOf_spec, Prod.mk.sizeOf_spec] at this ⊢; omega

theorem mem_of_lookup {α β} [BEq α] [LawfulBEq α] : ∀ (l : List (α × β)) (k : α) (x : β), l.lookup k = some x → (k, x) ∈ l := by
  intro l
  induction l with
  | nil => intro k x h; cases h
  | cons a l ih =>
    intro k x h
    obtain ⟨ak, av⟩ := a
    simp only [List.lookup] at h
    split at h
    · rename_i heq
      cases h
      have : k = ak := by simpa using heq
      subst this
      exact List.mem_cons_self
    · exact List.mem_cons_of_mem _ (ih k x h)

theorem size_field (fs : List (S × Val)) (nm : S) (x : Val) (h : fs.lookup nm = some x) : sizeOf x < sizeOf (Val.struct fs) := by
  have := List.sizeOf_lt_of_mem (mem_of_lookup fs nm x h)
  simp only [Val.struct.sizeOf_spec, Prod.mk.sizeOf_spec] at this ⊢; omega

/-- one value, one rank: every node whose same-value calls go to smaller ranks terminates, given that everything
terminates on smaller values (`Hsmall`) and on this value for smaller ranks (`IHr`) -/
theorem term_node_aux (hp : ProgOK p) (rank : Nat → Nat) (hdesc : callsDescend p rank = true) (v : Val)
    (Hsmall : ∀ c s t x, sizeOf x < sizeOf v → HasTy p c s t → WTC p.conv.env x s → Term p c x)
    (r : Nat)
    (IHr : ∀ r', r' < r → ∀ c s t, descB rank r' c = true → HasTy p c s t → WTC p.conv.env v s → Term p c v) :
    ∀ (c : Conv) (s t : Ty), descB rank r c = true → HasTy p c s t → WTC p.conv.env v s → Term p c v
  | .ident, s, t, _, hty, hwt => by
    refine ⟨1, ?_⟩
    intro fuel hf fr old n
    obtain ⟨f, rfl, _⟩ := succ_of_le (N := 0) hf
    rw [evalConv_ident]; exact good_ok _
  | .cast i, s, t, _, hty, hwt => by
    cases hty with
    | castBasic hs ht =>
      refine ⟨2, ?_⟩
      intro fuel hf fr old n
      obtain ⟨f, rfl, hf1⟩ := succ_of_le (N := 1) hf
      obtain ⟨f', rfl, _⟩ := succ_of_le (N := 0) hf1
      rw [evalConv_cast, evalConv_ident]; exact good_ok _
  | .call callee args re w, s, t, hd, hty, hwt => by
    cases hty with
    | @callMethod _ _ m _ hsig =>
      have hlt : rank m < r := by simpa [descB] using hd
      unfold sigOf at hsig
      cases hm : p.methods[m]? with
      | none => simp [hm] at hsig
      | some gm =>
        simp [hm] at hsig
        obtain ⟨hs, ht⟩ := hsig
        obtain ⟨c, hb, hcty⟩ := hp m gm hm
        subst hs; subst ht
        obtain ⟨N, hN⟩ := IHr (rank m) hlt c _ _ (callsDescend_body p hdesc hm hb) hcty hwt
        refine ⟨N + 2, ?_⟩
        intro fuel hf fr old n
        obtain ⟨f, rfl, hf1⟩ := succ_of_le (N := N + 1) hf
        obtain ⟨f', rfl, hf2⟩ := succ_of_le hf1
        rw [evalConv_call, callMethod_convert p f' m gm c v [] n hm hb]
        obtain ⟨a, ha⟩ := hN f' hf2 _ _ n
        rw [ha]; exact good_ok _
  | .tgtPtr te i, s, t, hd, hty, hwt => by
    cases hty with
    | tgtPtr hs ht hin =>
      obtain ⟨N, hN⟩ := term_node_aux hp rank hdesc v Hsmall r IHr i s te (by simpa [descB] using hd) hin hwt
      refine ⟨N + 1, ?_⟩
      intro fuel hf fr old n
      obtain ⟨f, rfl, hf'⟩ := succ_of_le hf
      rw [evalConv_tgtPtr]
      exact good_chain _ _ (hN f hf' _ _ _) (fun _ _ => good_ok _)
  | .ptrPtr te i, s, t, _, hty, hwt => by
    cases hty with
    | @ptrPtr _ _ se _ _ hs ht hin =>
      rcases wtc_ptr_inv hwt hs with rfl | ⟨l, x, rfl, hx⟩
      · refine ⟨1, ?_⟩
        intro fuel hf fr old n
        obtain ⟨f, rfl, _⟩ := succ_of_le (N := 0) hf
        rw [evalConv_ptrPtr_nil]; exact good_ok _
      · obtain ⟨N, hN⟩ := Hsmall i se te x (size_ptr l x) hin hx
        refine ⟨N + 1, ?_⟩
        intro fuel hf fr old n
        obtain ⟨f, rfl, hf'⟩ := succ_of_le hf
        rw [evalConv_ptrPtr_ptr]
        exact good_chain _ _ (hN f hf' _ _ _) (fun _ _ => good_ok _)
  | .srcPtr t' i, s, t, _, hty, hwt => by
    cases hty with
    | @srcPtr _ _ se _ hs ht hin =>
      rcases wtc_ptr_inv hwt hs with rfl | ⟨l, x, rfl, hx⟩
      · refine ⟨1, ?_⟩
        intro fuel hf fr old n
        obtain ⟨f, rfl, _⟩ := succ_of_le (N := 0) hf
        rw [evalConv_srcPtr_nil]; exact good_ok _
      · obtain ⟨N, hN⟩ := Hsmall i _ _ x (size_ptr l x) hin hx
        refine ⟨N + 1, ?_⟩
        intro fuel hf fr old n
        obtain ⟨f, rfl, hf'⟩ := succ_of_le hf
        rw [evalConv_srcPtr_ptr]
        exact hN f hf' _ _ _
  | .list te hm hg elem, s, t, _, hty, hwt => by
    have hrun : ∀ vs : List Val, (∀ x, x ∈ vs → Term p elem x) →
        ∃ N, ∀ fuel, N ≤ fuel → ∀ (fr : Frame) (n : Nat), Good (listRun p fuel fr te elem vs n) := by
      intro vs h
      obtain ⟨N, hN⟩ := term_elems p te elem vs h
      refine ⟨N, ?_⟩
      intro fuel hf fr n
      unfold listRun
      apply good_chain _ _ (hN fuel hf _ _ _)
      intro q _
      split <;> exact good_ok _
    cases hty with
    | @slice _ _ se _ _ hs ht hel =>
      rcases wtc_slice_inv hwt hs with rfl | ⟨l, vs, rfl, hvs⟩
      · refine ⟨1, ?_⟩
        intro fuel hf fr old n
        obtain ⟨f, rfl, _⟩ := succ_of_le (N := 0) hf
        rw [evalConv_list_nil_guard]; exact good_ok _
      · obtain ⟨N, hN⟩ := hrun vs (fun x hx => Hsmall elem se te x (size_slice l vs x hx) hel (hvs x hx))
        refine ⟨N + 1, ?_⟩
        intro fuel hf fr old n
        obtain ⟨f, rfl, hf'⟩ := succ_of_le hf
        rw [evalConv_list_slice]; exact hN f hf' _ _
    | @array _ _ k se _ _ hs ht hel =>
      obtain ⟨vs, rfl, hvs⟩ := wtc_array_inv hwt hs
      obtain ⟨N, hN⟩ := hrun vs (fun x hx => Hsmall elem se te x (size_arr vs x hx) hel (hvs x hx))
      refine ⟨N + 1, ?_⟩
      intro fuel hf fr old n
      obtain ⟨f, rfl, hf'⟩ := succ_of_le hf
      rw [evalConv_list_arr]; exact hN f hf' _ _
  | .mapc tk tv key val, s, t, _, hty, hwt => by
    cases hty with
    | @mapc _ _ sk sv _ _ _ _ hs ht hk hv =>
      rcases wtc_map_inv hwt hs with rfl | ⟨l, kvs, rfl, hwk, hwv⟩
      · refine ⟨1, ?_⟩
        intro fuel hf fr old n
        obtain ⟨f, rfl, _⟩ := succ_of_le (N := 0) hf
        rw [evalConv_map_nil]; exact good_ok _
      · obtain ⟨N, hN⟩ := term_entries p tk tv key val kvs
          (fun a b h => Hsmall key sk tk a (size_map l kvs a b h).1 hk (hwk a b h))
          (fun a b h => Hsmall val sv tv b (size_map l kvs a b h).2 hv (hwv a b h))
        refine ⟨N + 1, ?_⟩
        intro fuel hf fr old n
        obtain ⟨f, rfl, hf'⟩ := succ_of_le hf
        rw [evalConv_map_map]
        exact good_chain _ _ (hN f hf' _ _) (fun _ _ => good_ok _)
  | .structc plans upd, s, t, _, hty, hwt => by
    cases hty with
    | @structc _ _ sfs tfs _ _ hs ht hnd hfs =>
      obtain ⟨fs, rfl, hpres, hfwt⟩ := wtc_struct_inv hwt hs
      obtain ⟨N, hN⟩ := term_fields p fs
        (fun cv sty tty x nm hl h1 h2 => Hsmall cv sty tty x (size_field fs nm x hl) h1 h2)
        plans sfs.toList tfs.toList hfs hpres hfwt
      refine ⟨N + 1, ?_⟩
      intro fuel hf fr old n
      obtain ⟨f, rfl, hf'⟩ := succ_of_le hf
      rw [evalConv_struct]; exact hN f hf' _ _ _
  | .underlying _ _ _, _, _, _, hty, _ => by cases hty
  | .enumc _ _, _, _, _, hty, _ => by cases hty
  | .withCtor _ _ _, _, _, _, hty, _ => by cases hty
  | .ctorUpdate _ _ _ _ _, _, _, _, hty, _ => by cases hty

theorem term_node (hp : ProgOK p) (rank : Nat → Nat) (hdesc : callsDescend p rank = true) (v : Val)
    (Hsmall : ∀ c s t x, sizeOf x < sizeOf v → HasTy p c s t → WTC p.conv.env x s → Term p c x) :
    ∀ (r : Nat) (c : Conv) (s t : Ty), descB rank r c = true → HasTy p c s t → WTC p.conv.env v s → Term p c v
  | r, c, s, t, hd, hty, hwt =>
    term_node_aux p hp rank hdesc v Hsmall r (fun r' _ c' s' t' => term_node hp rank hdesc v Hsmall r' c' s' t') c s t hd hty hwt
termination_by r => r

/-- **totality of nodes**: every checked node terminates on every completely well-typed value -/
theorem term_any (hp : ProgOK p) (rank : Nat → Nat) (hdesc : callsDescend p rank = true) :
    ∀ (v : Val) (c : Conv) (s t : Ty), HasTy p c s t → WTC p.conv.env v s → Term p c v
  | v, c, s, t, hty, hwt => by
    obtain ⟨r, hr⟩ := desc_exists rank c
    exact term_node p hp rank hdesc v (fun c' s' t' x _ h1 h2 => term_any hp rank hdesc x c' s' t' h1 h2) r c s t hr hty hwt
termination_by v => sizeOf v

/-- … and so does every method -/
theorem term_call (hp : ProgOK p) (rank : Nat → Nat) (hdesc : callsDescend p rank = true)
    (m : Nat) (s t : Ty) (v : Val) (hsig : sigOf p m = some (s, t)) (hwt : WTC p.conv.env v s) :
    ∃ N, ∀ fuel, N ≤ fuel → ∀ (cs : List Val) (n : Nat), Good (callMethod p fuel m v cs n) := by
  unfold sigOf at hsig
  cases hm : p.methods[m]? with
  | none => simp [hm] at hsig
  | some gm =>
    simp [hm] at hsig
    obtain ⟨hs, ht⟩ := hsig
    obtain ⟨c, hb, hcty⟩ := hp m gm hm
    subst hs; subst ht
    obtain ⟨N, hN⟩ := term_any p hp rank hdesc v c _ _ hcty hwt
    refine ⟨N + 1, ?_⟩
    intro fuel hf cs n
    obtain ⟨f, rfl, hf'⟩ := succ_of_le hf
    rw [callMethod_convert p f m gm c v cs n hm hb]
    exact hN f hf' _ _ _

/-! ### fuel monotonicity: a result does not change with more fuel -/

theorem chain_ok_inv {α β} (r : Outcome α) (f : α → Outcome β) (b : β) (h : chain r f = .ok b) :
    ∃ a, r = .ok a ∧ f a = .ok b := by
  cases r with
  | ok a => exact ⟨a, rfl, h⟩
  | err e => cases h
  | panic k => cases h
  | stuck w => cases h

def MnConv (p : Program) (fuel : Nat) : Prop :=
  ∀ (fr : Frame) (c : Conv) (s t : Ty) (v old : Val) (n : Nat) (r : Val × Nat),
    HasTy p c s t → WTC p.conv.env v s → evalConv p fuel fr c v old n = .ok r → evalConv p (fuel + 1) fr c v old n = .ok r

def MnCall (p : Program) (fuel : Nat) : Prop :=
  ∀ (m : Nat) (s t : Ty) (v : Val) (cs : List Val) (n : Nat) (r : Val × Nat),
    sigOf p m = some (s, t) → WTC p.conv.env v s → callMethod p fuel m v cs n = .ok r → callMethod p (fuel + 1) m v cs n = .ok r

def MnElems (p : Program) (fuel : Nat) : Prop :=
  ∀ (fr : Frame) (elem : Conv) (se te : Ty) (vs : List Val) (i n : Nat) (r : List Val × Nat),
    HasTy p elem se te → (∀ v, v ∈ vs → WTC p.conv.env v se) →
    evalElems p fuel fr te elem vs i n = .ok r → evalElems p (fuel + 1) fr te elem vs i n = .ok r

def MnEntries (p : Program) (fuel : Nat) : Prop :=
  ∀ (fr : Frame) (key val : Conv) (sk sv tk tv : Ty) (kvs : List (Val × Val)) (n : Nat) (r : List (Val × Val) × Nat),
    HasTy p key sk tk → HasTy p val sv tv →
    (∀ a b, (a, b) ∈ kvs → WTC p.conv.env a sk) → (∀ a b, (a, b) ∈ kvs → WTC p.conv.env b sv) →
    evalEntries p fuel fr tk tv key val kvs n = .ok r → evalEntries p (fuel + 1) fr tk tv key val kvs n = .ok r

def MnFields (p : Program) (fuel : Nat) : Prop :=
  ∀ (fr : Frame) (plans : FieldPlans) (sfs tfs : List (FieldInfo × Ty)) (fs : List (S × Val)) (old : Val) (n : Nat) (r : Val × Nat),
    HasFields p plans sfs tfs →
    (∀ f ty, (f, ty) ∈ sfs → (fs.lookup f.name).isSome = true) →
    (∀ nm x f ty, fs.lookup nm = some x → sfs.find? (fun (y : FieldInfo × Ty) => y.1.name == nm) = some (f, ty) → WTC p.conv.env x ty) →
    evalFields p fuel fr plans (.struct fs) old n = .ok r → evalFields p (fuel + 1) fr plans (.struct fs) old n = .ok r

theorem mnCall_step (hp : ProgOK p) (fuel : Nat) (ih : MnConv p fuel) : MnCall p (fuel + 1) := by
  intro m s t v cs n r hsig hwt h
  unfold sigOf at hsig
  cases hm : p.methods[m]? with
  | none => simp [hm] at hsig
  | some gm =>
    simp [hm] at hsig
    obtain ⟨hs, ht⟩ := hsig
    obtain ⟨c, hb, hty⟩ := hp m gm hm
    rw [callMethod_convert p _ m gm c v cs n hm hb] at h ⊢
    subst hs; subst ht
    exact ih _ c _ _ v _ n r hty hwt h

theorem mnElems_step (fuel : Nat) (ihc : MnConv p fuel) (ihe : MnElems p fuel) : MnElems p (fuel + 1) := by
  intro fr elem se te vs i n r hty hwt h
  cases vs with
  | nil => rw [evalElems_nil] at h ⊢; exact h
  | cons v vs =>
    rw [evalElems_cons] at h ⊢
    obtain ⟨a, h1, h2⟩ := chain_ok_inv _ _ _ h
    obtain ⟨q, h3, h4⟩ := chain_ok_inv _ _ _ h2
    rw [ihc _ elem se te v _ n a hty (hwt v List.mem_cons_self) h1]
    simp only [chain]
    rw [ihe fr elem se te vs (i + 1) a.2 q hty (fun w hw => hwt w (List.mem_cons_of_mem _ hw)) h3]
    exact h4

theorem mnEntries_step (fuel : Nat) (ihc : MnConv p fuel) (ihe : MnEntries p fuel) : MnEntries p (fuel + 1) := by
  intro fr key val sk sv tk tv kvs n r hk hv hwk hwv h
  cases kvs with
  | nil => rw [evalEntries_nil] at h ⊢; exact h
  | cons e kvs =>
    obtain ⟨a, b⟩ := e
    rw [evalEntries_cons] at h ⊢
    obtain ⟨r1, h1, h2⟩ := chain_ok_inv _ _ _ h
    obtain ⟨r2, h3, h4⟩ := chain_ok_inv _ _ _ h2
    obtain ⟨q, h5, h6⟩ := chain_ok_inv _ _ _ h4
    rw [ihc _ key sk tk a _ n r1 hk (hwk a b List.mem_cons_self) h1]
    simp only [chain]
    rw [ihc _ val sv tv b _ r1.2 r2 hv (hwv a b List.mem_cons_self) h3]
    simp only []
    rw [ihe fr key val sk sv tk tv kvs r2.2 q hk hv
      (fun x y h => hwk x y (List.mem_cons_of_mem _ h)) (fun x y h => hwv x y (List.mem_cons_of_mem _ h)) h5]
    exact h6

theorem mnFields_step (fuel : Nat) (ihc : MnConv p fuel) (ihf : MnFields p fuel) : MnFields p (fuel + 1) := by
  intro fr plans sfs tfs fs old n r hty hpres hwt h
  cases hty with
  | nil => rw [evalFields_nil] at h ⊢; exact h
  | @cons _ tf tty sf sty cv plans' tfs' b hfind hcv hrestTy =>
    obtain ⟨x, hx, hxwt⟩ := field_present hpres hwt hfind
    rw [evalFields_cons p _ fr tf.name b cv plans' fs x old n hx] at h ⊢
    obtain ⟨a, h1, h2⟩ := chain_ok_inv _ _ _ h
    rw [ihc _ cv sty tty x _ n a hcv hxwt h1]
    simp only [chain]
    split at h2
    · rename_i hc; rw [if_pos hc]; exact ihf fr plans' sfs tfs' fs old a.2 r hrestTy hpres hwt h2
    · rename_i hc; rw [if_neg hc]; exact ihf fr plans' sfs tfs' fs _ a.2 r hrestTy hpres hwt h2

theorem mnConv_step (fuel : Nat) (ihc : MnConv p fuel) (ihm : MnCall p fuel) (ihe : MnElems p fuel)
    (ihn : MnEntries p fuel) (ihf : MnFields p fuel) : MnConv p (fuel + 1) := by
  intro fr c s t v old n r hty hwt h
  have hlist : ∀ (te : Ty) (elem : Conv) (se : Ty) (vs : List Val), HasTy p elem se te → (∀ x, x ∈ vs → WTC p.conv.env x se) →
      listRun p fuel fr te elem vs n = .ok r → listRun p (fuel + 1) fr te elem vs n = .ok r := by
    intro te elem se vs hel hvs h
    unfold listRun at h ⊢
    obtain ⟨a, h1, h2⟩ := chain_ok_inv _ _ _ h
    rw [ihe fr elem se te vs 0 n a hel hvs h1]
    exact h2
  cases hty with
  | identBasic hs ht => rw [evalConv_ident] at h ⊢; exact h
  | castBasic hs ht =>
    rw [evalConv_cast] at h ⊢
    exact ihc _ .ident s t v old n r (.identBasic hs ht) hwt h
  | @callMethod _ _ m w hsig =>
    rw [evalConv_call] at h ⊢
    cases hc : callMethod p fuel m v [] n with
    | ok a =>
      rw [hc] at h
      rw [ihm m s t v [] n a hsig hwt hc]
      exact h
    | err e => rw [hc] at h; cases h
    | panic k => rw [hc] at h; cases h
    | stuck w => rw [hc] at h; cases h
  | @ptrPtr _ _ se te inner hs ht hin =>
    rcases wtc_ptr_inv hwt hs with rfl | ⟨l, x, rfl, hx⟩
    · rw [evalConv_ptrPtr_nil] at h ⊢; exact h
    · rw [evalConv_ptrPtr_ptr] at h ⊢
      obtain ⟨a, h1, h2⟩ := chain_ok_inv _ _ _ h
      rw [ihc _ inner se te x _ n a hin hx h1]
      exact h2
  | @tgtPtr _ _ te inner hs ht hin =>
    rw [evalConv_tgtPtr] at h ⊢
    obtain ⟨a, h1, h2⟩ := chain_ok_inv _ _ _ h
    rw [ihc _ inner s te v _ n a hin hwt h1]
    exact h2
  | @srcPtr _ _ se inner hs ht hin =>
    rcases wtc_ptr_inv hwt hs with rfl | ⟨l, x, rfl, hx⟩
    · rw [evalConv_srcPtr_nil] at h ⊢; exact h
    · rw [evalConv_srcPtr_ptr] at h ⊢
      exact ihc _ inner se t x _ n r hin hx h
  | @slice _ _ se te elem hs ht hel =>
    rcases wtc_slice_inv hwt hs with rfl | ⟨l, vs, rfl, hvs⟩
    · rw [evalConv_list_nil_guard] at h ⊢; exact h
    · rw [evalConv_list_slice] at h ⊢; exact hlist te elem se vs hel hvs h
  | @array _ _ k se te elem hs ht hel =>
    obtain ⟨vs, rfl, hvs⟩ := wtc_array_inv hwt hs
    rw [evalConv_list_arr] at h ⊢; exact hlist te elem se vs hel hvs h
  | @mapc _ _ sk sv tk tv key val hs ht hk hv =>
    rcases wtc_map_inv hwt hs with rfl | ⟨l, kvs, rfl, hwk, hwv⟩
    · rw [evalConv_map_nil] at h ⊢; exact h
    · rw [evalConv_map_map] at h ⊢
      obtain ⟨a, h1, h2⟩ := chain_ok_inv _ _ _ h
      rw [ihn fr key val sk sv tk tv kvs n a hk hv hwk hwv h1]
      exact h2
  | @structc _ _ sfs tfs plans upd hs ht hnd hfs =>
    obtain ⟨fs, rfl, hpres, hfwt⟩ := wtc_struct_inv hwt hs
    rw [evalConv_struct] at h ⊢
    exact ihf fr plans sfs.toList tfs.toList fs _ n r hfs hpres hfwt h

theorem mono_all (hp : ProgOK p) :
    ∀ fuel, MnConv p fuel ∧ MnCall p fuel ∧ MnElems p fuel ∧ MnEntries p fuel ∧ MnFields p fuel := by
  intro fuel
  induction fuel with
  | zero =>
    refine ⟨?_, ?_, ?_, ?_, ?_⟩
    · intro fr c s t v old n r _ _ h; rw [evalConv_zero] at h; cases h
    · intro m s t v cs n r _ _ h; rw [callMethod_zero] at h; cases h
    · intro fr elem se te vs i n r _ _ h; rw [evalElems_zero] at h; cases h
    · intro fr key val sk sv tk tv kvs n r _ _ _ _ h; rw [evalEntries_zero] at h; cases h
    · intro fr plans sfs tfs fs old n r _ _ _ h; rw [evalFields_zero] at h; cases h
  | succ fuel ih =>
    obtain ⟨ihc, ihm, ihe, ihn, ihf⟩ := ih
    exact ⟨mnConv_step p fuel ihc ihm ihe ihn ihf, mnCall_step p hp fuel ihc, mnElems_step p fuel ihc ihe,
      mnEntries_step p fuel ihc ihn, mnFields_step p fuel ihc ihf⟩

theorem callMethod_mono (hp : ProgOK p) (m : Nat) (s t : Ty) (v : Val) (cs : List Val) (n : Nat) (r : Val × Nat)
    (hsig : sigOf p m = some (s, t)) (hwt : WTC p.conv.env v s) (fuel : Nat) (h : callMethod p fuel m v cs n = .ok r) :
    ∀ fuel', fuel ≤ fuel' → callMethod p fuel' m v cs n = .ok r := by
  intro fuel' hle
  induction fuel' with
  | zero => have : fuel = 0 := by omega
            subst this; exact h
  | succ k ih =>
    by_cases hk : fuel ≤ k
    · exact (mono_all p hp k).2.1 m s t v cs n r hsig hwt (ih hk)
    · have : fuel = k + 1 := by omega
      subst this; exact h

theorem evalConv_mono (hp : ProgOK p) (fr : Frame) (c : Conv) (s t : Ty) (v old : Val) (n : Nat) (r : Val × Nat)
    (hty : HasTy p c s t) (hwt : WTC p.conv.env v s) (fuel : Nat) (h : evalConv p fuel fr c v old n = .ok r) :
    ∀ fuel', fuel ≤ fuel' → evalConv p fuel' fr c v old n = .ok r := by
  intro fuel' hle
  induction fuel' with
  | zero => have : fuel = 0 := by omega
            subst this; exact h
  | succ k ih =>
    by_cases hk : fuel ≤ k
    · exact (mono_all p hp k).1 fr c s t v old n r hty hwt (ih hk)
    · have : fuel = k + 1 := by omega
      subst this; exact h

end Gv.Safety
