/-
Lemmas about the `path/filepath` model (`Gv.Path`): `clean` on normal paths, joining a relative path
that does not climb above its start onto a normal absolute root, relocation equivariance.
-/
import Gv.Model.Path
import Gv.Model.Layout
import Gv.Proofs.StrLemmas

namespace Gv.Path
open Gv.Str

/-! ### `splitOn` / `join` -/

theorem splitOn_ne_nil (c : Char) (s : S) : splitOn c s ≠ [] := by
  induction s with
  | nil => simp [splitOn]
  | cons x xs ih =>
    simp only [splitOn]
    split
    · simp
    · split <;> simp

theorem splitOn_append_sep (c : Char) (a b : S) :
    splitOn c (a ++ c :: b) = splitOn c a ++ splitOn c b := by
  induction a with
  | nil => simp [splitOn]
  | cons x xs ih =>
    by_cases hx : (x == c) = true
    · simp only [List.cons_append, splitOn, hx, if_true, ih]
    · simp only [List.cons_append, splitOn, hx, ih]
      cases h : splitOn c xs with
      | nil => exact absurd h (splitOn_ne_nil c xs)
      | cons p ps => simp

theorem splitOn_of_not_mem (c : Char) (a : S) (h : c ∉ a) : splitOn c a = [a] := by
  induction a with
  | nil => rfl
  | cons x xs ih =>
    have hx : (x == c) = false := by
      simp only [List.mem_cons, not_or] at h
      simpa using fun e => h.1 e.symm
    have := ih (fun hm => h (List.mem_cons_of_mem _ hm))
    simp [splitOn, hx, this]

theorem splitOn_no_sep (c : Char) (s : S) : ∀ x ∈ splitOn c s, c ∉ x := by
  induction s with
  | nil => simp [splitOn]
  | cons y ys ih =>
    by_cases hy : (y == c) = true
    · simp only [splitOn, hy, if_true]
      intro x hx
      rcases List.mem_cons.mp hx with rfl | hx
      · simp
      · exact ih x hx
    · simp only [splitOn, hy]
      cases h : splitOn c ys with
      | nil => exact absurd h (splitOn_ne_nil c ys)
      | cons p ps =>
        rw [h] at ih
        intro x hx
        rcases List.mem_cons.mp hx with rfl | hx
        · have hp := ih p (by simp)
          intro hm
          rcases List.mem_cons.mp hm with e | hm
          · exact hy (by simp [e])
          · exact hp hm
        · exact ih x (by simp [hx])

theorem join_splitOn (c : Char) (s : S) : join [c] (splitOn c s) = s := by
  induction s with
  | nil => rfl
  | cons x xs ih =>
    by_cases hx : (x == c) = true
    · have : x = c := by simpa using hx
      subst this
      simp only [splitOn, BEq.rfl, if_true]
      cases h : splitOn x xs with
      | nil => exact absurd h (splitOn_ne_nil x xs)
      | cons p ps => rw [h] at ih; simp [join, ih]
    · simp only [splitOn, hx]
      cases h : splitOn c xs with
      | nil => exact absurd h (splitOn_ne_nil c xs)
      | cons p ps =>
        rw [h] at ih
        cases ps with
        | nil => simp [join] at ih ⊢; exact ih
        | cons q qs => simp [join] at ih ⊢; exact ih

theorem join_append (sep : S) : ∀ (as bs : List S), as ≠ [] → bs ≠ [] →
    join sep (as ++ bs) = join sep as ++ sep ++ join sep bs
  | [], _, h, _ => absurd rfl h
  | [a], b :: bs, _, _ => by simp [join]
  | a :: a' :: as, bs, _, hb => by
    have := join_append sep (a' :: as) bs (by simp) hb
    simp only [List.cons_append] at this
    simp [join, this]

theorem splitOn_join (c : Char) : ∀ (cs : List S), (∀ x ∈ cs, c ∉ x) → cs ≠ [] →
    splitOn c (join [c] cs) = cs
  | [], _, h => absurd rfl h
  | [x], hx, _ => by simpa [join] using splitOn_of_not_mem c x (hx x (by simp))
  | x :: y :: rest, hx, _ => by
    have ih := splitOn_join c (y :: rest) (fun z hz => hx z (by simp [hz])) (by simp)
    have : join [c] (x :: y :: rest) = x ++ c :: join [c] (y :: rest) := by simp [join]
    rw [this, splitOn_append_sep, ih, splitOn_of_not_mem c x (hx x (by simp))]
    rfl

/-! ### normal components, paths that do not escape -/

/-- a path component that `clean` keeps as it is -/
def NormalC (c : S) : Prop := c ≠ [] ∧ c ≠ ['.'] ∧ c ≠ ['.', '.'] ∧ '/' ∉ c

instance (c : S) : Decidable (NormalC c) := by unfold NormalC; infer_instance

/-- every component is non-empty, not ".", not "..", and contains no '/' -/
def Normal (cs : List S) : Prop := ∀ c ∈ cs, NormalC c

instance (cs : List S) : Decidable (Normal cs) := by unfold Normal; infer_instance

/-- the components never pop below depth 0, started at depth `d` -/
def noEscapeComps : Nat → List S → Bool
  | _, [] => true
  | d, c :: cs =>
    if c.isEmpty || c == ['.'] then noEscapeComps d cs
    else if c == ['.', '.'] then
      match d with
      | 0 => false
      | d + 1 => noEscapeComps d cs
    else noEscapeComps (d + 1) cs

/-- the path never climbs above the directory it starts in -/
def NoEscape (q : S) : Prop := noEscapeComps 0 (splitOn '/' q) = true

instance (q : S) : Decidable (NoEscape q) := by unfold NoEscape; infer_instance

/-- an absolute path in normal form other than "/" : "/" followed by normal components separated by single '/' -/
def NormalAbs (r : S) : Prop := isAbs r = true ∧ Normal (splitOn '/' r.tail)

instance (r : S) : Decidable (NormalAbs r) := by unfold NormalAbs; infer_instance

/-- what `join2 root q` appends to a normal absolute root: nothing, or "/" and the cleaned `q` -/
def relTail (q : S) : S :=
  match cleanComps false [] (splitOn '/' q) with
  | [] => []
  | k :: ks => '/' :: join ['/'] (k :: ks)

theorem NormalAbs.eq {r : S} (h : NormalAbs r) : r = '/' :: join ['/'] (splitOn '/' r.tail) := by
  obtain ⟨ha, _⟩ := h
  cases r with
  | nil => simp [isAbs] at ha
  | cons x xs =>
    have : x = '/' := by simpa [isAbs] using ha
    subst this
    simp [join_splitOn]

theorem NormalAbs.splitOn {r : S} (h : NormalAbs r) : splitOn '/' r = [] :: splitOn '/' r.tail := by
  obtain ⟨ha, _⟩ := h
  cases r with
  | nil => simp [isAbs] at ha
  | cons x xs =>
    have : x = '/' := by simpa [isAbs] using ha
    subst this
    simp [Str.splitOn]

/-! ### `cleanComps` -/

theorem cleanComps_append (r : Bool) (a b : List S) : ∀ st,
    cleanComps r st (a ++ b) = cleanComps r (cleanComps r st a).reverse b := by
  induction a with
  | nil => intro st; simp [cleanComps]
  | cons c cs ih =>
    intro st
    simp only [List.cons_append, cleanComps]
    split
    · exact ih _
    · split
      · split
        · split <;> exact ih _
        · split <;> exact ih _
      · exact ih _

theorem cleanComps_skip_empty (r : Bool) (a b : List S) : ∀ st,
    cleanComps r st (a ++ [] :: b) = cleanComps r st (a ++ b) := by
  intro st
  rw [cleanComps_append, cleanComps_append r a b]
  simp [cleanComps]

theorem noEscapeComps_skip_empty (a b : List S) : ∀ d,
    noEscapeComps d (a ++ [] :: b) = noEscapeComps d (a ++ b) := by
  induction a with
  | nil => intro d; simp [noEscapeComps]
  | cons c cs ih =>
    intro d
    simp only [List.cons_append, noEscapeComps]
    split
    · exact ih _
    · split
      · split
        · rfl
        · exact ih _
      · exact ih _

theorem cleanComps_of_normal (r : Bool) (cs : List S) (h : Normal cs) : ∀ st,
    cleanComps r st cs = st.reverse ++ cs := by
  induction cs with
  | nil => intro st; simp [cleanComps]
  | cons c cs ih =>
    intro st
    obtain ⟨h1, h2, h3, _⟩ := h c (by simp)
    have e1 : c.isEmpty = false := by cases c <;> simp_all
    have e2 : (c == ['.']) = false := by simpa using h2
    have e3 : (c == ['.', '.']) = false := by simpa using h3
    simp only [cleanComps, e1, e2, e3, Bool.or_self, Bool.false_eq_true, if_false]
    rw [ih (fun x hx => h x (by simp [hx]))]
    simp

/-- **the stack below a relative part that does not escape is untouched** (and then `rooted` is irrelevant) -/
theorem cleanComps_prefix (r r' : Bool) (base : List S) : ∀ (cs st' : List S),
    (∀ x ∈ st', x ≠ ['.', '.']) → noEscapeComps st'.length cs = true →
    cleanComps r (st' ++ base) cs = base.reverse ++ cleanComps r' st' cs := by
  intro cs
  induction cs with
  | nil => intro st' _ _; simp [cleanComps]
  | cons c cs ih =>
    intro st' hst hne
    simp only [noEscapeComps] at hne
    simp only [cleanComps]
    split
    · rename_i hc
      simp only [hc, if_true] at hne
      exact ih st' hst hne
    · rename_i hc
      simp only [hc, Bool.false_eq_true, if_false] at hne
      split
      · rename_i hdd
        simp only [hdd, if_true] at hne
        cases st' with
        | nil => simp at hne
        | cons top rest =>
          have htop : (top == ['.', '.']) = false := by simpa using hst top (by simp)
          simp only [List.cons_append, htop, Bool.false_eq_true, if_false]
          simp only [List.length_cons] at hne
          exact ih rest (fun x hx => hst x (by simp [hx])) hne
      · rename_i hdd
        simp only [hdd, Bool.false_eq_true, if_false] at hne
        have := ih (c :: st') (by
          intro x hx
          rcases List.mem_cons.mp hx with rfl | hx
          · simpa using hdd
          · exact hst x hx) (by simpa using hne)
        simpa using this

/-- components pushed by `cleanComps` are never empty and never "." -/
theorem cleanComps_mem_ne (r : Bool) : ∀ (cs st : List S),
    (∀ x ∈ st, x ≠ [] ∧ x ≠ ['.']) → ∀ x ∈ cleanComps r st cs, x ≠ [] ∧ x ≠ ['.'] := by
  intro cs
  induction cs with
  | nil => intro st h x hx; simp [cleanComps] at hx; exact h x hx
  | cons c cs ih =>
    intro st h
    simp only [cleanComps]
    split
    · exact ih st h
    · rename_i hc
      have hc' : c ≠ [] ∧ c ≠ ['.'] := by
        simp only [Bool.or_eq_true, not_or] at hc
        refine ⟨?_, by simpa using hc.2⟩
        intro e; subst e; simp at hc
      have hpush : ∀ x ∈ c :: st, x ≠ [] ∧ x ≠ ['.'] := by
        intro x hx
        rcases List.mem_cons.mp hx with rfl | hx
        · exact hc'
        · exact h x hx
      split
      · split
        · split
          · exact ih _ hpush
          · exact ih _ (fun x hx => h x (by simp [hx]))
        · split
          · exact ih _ h
          · exact ih _ (by simpa using hc')
      · exact ih _ hpush

/-- rooted cleaning of '/'-free components on a normal stack yields normal components -/
theorem cleanComps_rooted_normal : ∀ (cs st : List S),
    (∀ x ∈ cs, '/' ∉ x) → Normal st → Normal (cleanComps true st cs) := by
  intro cs
  induction cs with
  | nil => intro st _ h x hx; simp [cleanComps] at hx; exact h x hx
  | cons c cs ih =>
    intro st hs h
    have hs' : ∀ x ∈ cs, '/' ∉ x := fun x hx => hs x (by simp [hx])
    simp only [cleanComps]
    split
    · exact ih st hs' h
    · rename_i hc
      split
      · split
        · rename_i top rest
          have : (top == ['.', '.']) = false := by simpa using (h top (by simp)).2.2.1
          simp only [this, Bool.false_eq_true, if_false]
          exact ih _ hs' (fun x hx => h x (by simp [hx]))
        · simp only [if_true]
          exact ih _ hs' h
      · rename_i hdd
        apply ih _ hs'
        intro x hx
        rcases List.mem_cons.mp hx with rfl | hx
        · simp only [Bool.or_eq_true, not_or] at hc
          refine ⟨?_, by simpa using hc.2, by simpa using hdd, hs x (by simp)⟩
          intro e; subst e; simp at hc
        · exact h x hx

/-! ### `clean` on absolute paths -/

theorem clean_abs (p : S) (h : isAbs p = true) :
    clean p = '/' :: join ['/'] (cleanComps true [] (splitOn '/' p)) := by
  simp [clean, h]

theorem isAbs_cons_slash (p : S) : isAbs ('/' :: p) = true := by simp [isAbs]

/-- `clean` is the identity on "/" ++ normal components joined by "/" -/
theorem clean_normal_abs (cs : List S) (h : Normal cs) :
    clean ('/' :: join ['/'] cs) = '/' :: join ['/'] cs := by
  rw [clean_abs _ (isAbs_cons_slash _)]
  cases cs with
  | nil => simp [join, splitOn, cleanComps]
  | cons c cs =>
    have hs : splitOn '/' (join ['/'] (c :: cs)) = c :: cs :=
      splitOn_join '/' (c :: cs) (fun x hx => (h x hx).2.2.2) (by simp)
    have : splitOn '/' ('/' :: join ['/'] (c :: cs)) = [] :: (c :: cs) := by
      simp only [splitOn, BEq.rfl, if_true, hs]
    rw [this]
    have e : cleanComps true [] ([] :: c :: cs) = cleanComps true [] (c :: cs) := by
      simp [cleanComps]
    rw [e, cleanComps_of_normal true (c :: cs) h]
    simp

theorem clean_normalAbs (r : S) (h : NormalAbs r) : clean r = r := by
  have := clean_normal_abs _ h.2
  rw [← h.eq] at this
  exact this

/-- the cleaned form of an absolute path is "/" ++ normal components -/
theorem clean_abs_normal (p : S) :
    Normal (cleanComps true [] (splitOn '/' p)) :=
  cleanComps_rooted_normal _ [] (splitOn_no_sep '/' p) (by intro x hx; simp at hx)

/-- `clean` is idempotent on absolute paths -/
theorem clean_idem_abs (p : S) (h : isAbs p = true) : clean (clean p) = clean p := by
  rw [clean_abs p h]
  exact clean_normal_abs _ (clean_abs_normal p)

/-- Join semantics: cleaning the (absolute) left part first changes nothing -/
theorem clean_clean_append_abs (a f : S) (h : isAbs a = true) :
    clean (clean a ++ '/' :: f) = clean (a ++ '/' :: f) := by
  have hA := clean_abs_normal a
  have h2 : isAbs (a ++ '/' :: f) = true := by
    cases a with
    | nil => simp [isAbs] at h
    | cons x xs => simpa [isAbs] using h
  rw [clean_abs a h, clean_abs _ h2, List.cons_append, clean_abs _ (isAbs_cons_slash _)]
  congr 2
  rw [splitOn_append_sep, cleanComps_append]
  generalize cleanComps true [] (splitOn '/' a) = A at hA
  have : cleanComps true [] (splitOn '/' ('/' :: (join ['/'] A ++ '/' :: f))) =
      cleanComps true [] (splitOn '/' (join ['/'] A ++ '/' :: f)) := by
    simp [splitOn, cleanComps]
  rw [this, splitOn_append_sep, cleanComps_append]
  congr 2
  cases A with
  | nil => simp [join, splitOn, cleanComps]
  | cons c cs =>
    rw [splitOn_join '/' (c :: cs) (fun x hx => (hA x hx).2.2.2) (by simp),
      cleanComps_of_normal true _ hA]
    simp

/-! ### joining onto a normal absolute root -/

/-- **main lemma**: a path below a normal absolute root cleans to the root followed by a tail that depends on the relative part only -/
theorem clean_root_append (r x : S) (hr : NormalAbs r) (hx : NoEscape x) :
    clean (r ++ '/' :: x) = r ++ relTail x := by
  have h2 : isAbs (r ++ '/' :: x) = true := by
    have := hr.1
    cases r with
    | nil => simp [isAbs] at this
    | cons y ys => simpa [isAbs] using this
  rw [clean_abs _ h2, splitOn_append_sep, hr.splitOn]
  have e : cleanComps true [] (([] :: splitOn '/' r.tail) ++ splitOn '/' x) =
      cleanComps true [] (splitOn '/' r.tail ++ splitOn '/' x) := by
    simp [cleanComps]
  rw [e, cleanComps_append, cleanComps_of_normal true _ hr.2]
  have := cleanComps_prefix true false (splitOn '/' r.tail).reverse (splitOn '/' x) []
    (by simp) hx
  simp only [List.nil_append, List.reverse_nil, List.reverse_reverse] at this ⊢
  rw [this]
  unfold relTail
  cases hK : cleanComps false [] (splitOn '/' x) with
  | nil => simpa using hr.eq.symm
  | cons k ks =>
    rw [join_append _ _ _ (splitOn_ne_nil _ _) (by simp)]
    conv => rhs; rw [hr.eq]
    simp

theorem join2_root (r q : S) (hr : NormalAbs r) (hq : NoEscape q) : join2 r q = r ++ relTail q := by
  have hrne : r ≠ [] := by
    intro e; have := hr.1; simp [e, isAbs] at this
  have hre : r.isEmpty = false := by cases r <;> simp_all
  cases q with
  | nil =>
    simp only [join2, joinPaths, List.filter, hre, List.isEmpty_nil, Bool.not_false, Bool.not_true, join]
    rw [clean_normalAbs r hr]
    simp [relTail, splitOn, cleanComps]
  | cons c q =>
    simp only [join2, joinPaths, List.filter, hre, List.isEmpty_cons, Bool.not_false, join]
    have := clean_root_append r (c :: q) hr hq
    simpa using this

/-- the tail in terms of `clean` (for a relative `q`) -/
theorem relTail_eq_clean (q : S) (hq : isAbs q = false) :
    relTail q = if clean q = ['.'] then [] else '/' :: clean q := by
  have hmem := cleanComps_mem_ne false (splitOn '/' q) [] (by simp)
  simp only [relTail, clean, hq, Bool.false_eq_true, if_false]
  cases hK : cleanComps false [] (splitOn '/' q) with
  | nil => simp [join]
  | cons k ks =>
    rw [hK] at hmem
    obtain ⟨k1, k2⟩ := hmem k (by simp)
    have hne : (join ['/'] (k :: ks)).isEmpty = false := by
      cases ks with
      | nil => cases k <;> simp_all [join]
      | cons k' ks => cases k <;> simp_all [join]
    have hnd : join ['/'] (k :: ks) ≠ ['.'] := by
      cases ks with
      | nil => simpa [join] using k2
      | cons k' ks =>
        intro e
        have := congrArg List.length e
        simp [join] at this
        cases k with
        | nil => exact k1 rfl
        | cons a as => simp at this; omega
    simp [hne, hnd]

theorem join2_root_clean (r q : S) (hr : NormalAbs r) (hq : NoEscape q) (hrel : isAbs q = false) :
    join2 r q = if clean q = ['.'] then r else r ++ '/' :: clean q := by
  rw [join2_root r q hr hq, relTail_eq_clean q hrel]
  split <;> simp

/-! ### `dir` and the output path of a converter -/

theorem lastSlashPrefix_root (r d : S) :
    lastSlashPrefix (r ++ '/' :: d) = r ++ '/' :: lastSlashPrefix d := by
  unfold lastSlashPrefix
  have hrev : (r ++ '/' :: d).reverse = d.reverse ++ '/' :: r.reverse := by simp
  rw [hrev]
  by_cases hd : '/' ∈ d
  · rw [dropWhile_append_of_exists _ _ ⟨'/', by simpa using hd, by simp⟩]
    simp
  · have hall : ∀ c ∈ d.reverse, (c != '/') = true := by
      intro c hc
      have hc' : c ∈ d := by simpa using hc
      simp only [bne_iff_ne, ne_eq]
      intro e; subst e; exact hd hc'
    rw [dropWhile_append_of_all _ _ hall, dropWhile_eq_nil_of_all _ hall]
    simp

theorem lastSlashPrefix_cases (p : S) :
    lastSlashPrefix p = [] ∨ ∃ x, lastSlashPrefix p = x ++ ['/'] := by
  unfold lastSlashPrefix
  cases h : p.reverse.dropWhile (· != '/') with
  | nil => left; rfl
  | cons c cs =>
    right
    have := head?_dropWhile_not (· != '/') p.reverse c (by rw [h]; rfl)
    have hc : c = '/' := by simpa using this
    exact ⟨cs.reverse, by simp [hc]⟩

/-- the directory prefix `l` of a path (empty or ending in '/') followed by "/" ++ f has the components of `l ++ f`, up to an empty one -/
theorem splitOn_dirPrefix (l f : S) (hl : l = [] ∨ ∃ x, l = x ++ ['/']) :
    ∃ a b, splitOn '/' (l ++ '/' :: f) = a ++ [] :: b ∧ splitOn '/' (l ++ f) = a ++ b := by
  rcases hl with rfl | ⟨x, rfl⟩
  · exact ⟨[], splitOn '/' f, by simp [splitOn], by simp⟩
  · refine ⟨splitOn '/' x, splitOn '/' f, ?_, ?_⟩
    · have : x ++ ['/'] ++ '/' :: f = x ++ '/' :: ('/' :: f) := by simp
      rw [this, splitOn_append_sep]
      simp [splitOn]
    · have : x ++ ['/'] ++ f = x ++ '/' :: f := by simp
      rw [this, splitOn_append_sep]

theorem relTail_dirPrefix (l f : S) (hl : l = [] ∨ ∃ x, l = x ++ ['/']) :
    relTail (l ++ '/' :: f) = relTail (l ++ f) := by
  obtain ⟨a, b, h1, h2⟩ := splitOn_dirPrefix l f hl
  unfold relTail
  rw [h1, h2, cleanComps_skip_empty]

theorem noEscape_dirPrefix (l f : S) (hl : l = [] ∨ ∃ x, l = x ++ ['/']) :
    NoEscape (l ++ '/' :: f) ↔ NoEscape (l ++ f) := by
  obtain ⟨a, b, h1, h2⟩ := splitOn_dirPrefix l f hl
  unfold NoEscape
  rw [h1, h2, noEscapeComps_skip_empty]

theorem isAbs_root_append (r x : S) (hr : NormalAbs r) : isAbs (r ++ x) = true := by
  have := hr.1
  cases r with
  | nil => simp [isAbs] at this
  | cons y ys => simpa [isAbs] using this

/-- **output path below the module root**: for a converter declared in `r/relDecl` with a relative `output:file f`
the output path is `r` followed by a tail that is a function of `relDecl` and `f` only -/
theorem outputPath_root (r relDecl f : S) (hr : NormalAbs r) (hf : isAbs f = false)
    (hne : NoEscape (lastSlashPrefix relDecl ++ f)) :
    Gv.Layout.outputPath (r ++ '/' :: relDecl) f = r ++ relTail (lastSlashPrefix relDecl ++ f) := by
  have hl := lastSlashPrefix_cases relDecl
  simp only [Gv.Layout.outputPath, hf, Bool.false_eq_true, if_false, dir]
  rw [lastSlashPrefix_root]
  generalize lastSlashPrefix relDecl = l at hl hne ⊢
  have habs : isAbs (r ++ '/' :: l) = true := isAbs_root_append r _ hr
  have hcne : clean (r ++ '/' :: l) ≠ [] := by
    rw [clean_abs _ habs]; simp
  have hce : (clean (r ++ '/' :: l)).isEmpty = false := by
    cases h : clean (r ++ '/' :: l) <;> simp_all
  cases f with
  | nil =>
    simp only [join2, joinPaths, List.filter, hce, List.isEmpty_nil, Bool.not_false, Bool.not_true, join]
    rw [clean_idem_abs _ habs]
    simpa using clean_root_append r l hr (by simpa using hne)
  | cons c f =>
    simp only [join2, joinPaths, List.filter, hce, List.isEmpty_cons, Bool.not_false, join]
    have e : clean (r ++ '/' :: l) ++ ['/'] ++ c :: f = clean (r ++ '/' :: l) ++ '/' :: (c :: f) := by simp
    rw [e, clean_clean_append_abs _ _ habs]
    have e2 : r ++ '/' :: l ++ '/' :: c :: f = r ++ '/' :: (l ++ '/' :: c :: f) := by simp
    rw [e2, clean_root_append r _ hr ((noEscape_dirPrefix l (c :: f) hl).mpr hne), relTail_dirPrefix l (c :: f) hl]

/-- relocation: `join2` of a non-escaping path onto two normal absolute roots differs by the root prefix only -/
theorem join2_relocate (r r' q : S) (hr : NormalAbs r) (hr' : NormalAbs r') (hq : NoEscape q) :
    join2 r q = r ++ relTail q ∧ join2 r' q = r' ++ relTail q :=
  ⟨join2_root r q hr hq, join2_root r' q hr' hq⟩

/-- cleaning '/'-free components that do not escape, on a normal stack, yields normal components (no ".." is left) -/
theorem cleanComps_noEscape_normal (r : Bool) : ∀ (cs st : List S),
    (∀ x ∈ cs, '/' ∉ x) → Normal st → noEscapeComps st.length cs = true → Normal (cleanComps r st cs) := by
  intro cs
  induction cs with
  | nil => intro st _ h _ x hx; simp [cleanComps] at hx; exact h x hx
  | cons c cs ih =>
    intro st hs h hne
    have hs' : ∀ x ∈ cs, '/' ∉ x := fun x hx => hs x (by simp [hx])
    simp only [noEscapeComps] at hne
    simp only [cleanComps]
    split
    · rename_i hc
      simp only [hc, if_true] at hne
      exact ih st hs' h hne
    · rename_i hc
      simp only [hc, Bool.false_eq_true, if_false] at hne
      split
      · rename_i hdd
        simp only [hdd, if_true] at hne
        cases st with
        | nil => simp at hne
        | cons top rest =>
          have : (top == ['.', '.']) = false := by simpa using (h top (by simp)).2.2.1
          simp only [this, Bool.false_eq_true, if_false]
          simp only [List.length_cons] at hne
          exact ih _ hs' (fun x hx => h x (by simp [hx])) hne
      · rename_i hdd
        simp only [hdd, Bool.false_eq_true, if_false] at hne
        apply ih _ hs' _ (by simpa using hne)
        intro x hx
        rcases List.mem_cons.mp hx with rfl | hx
        · simp only [Bool.or_eq_true, not_or] at hc
          refine ⟨?_, by simpa using hc.2, by simpa using hdd, hs x (by simp)⟩
          intro e; subst e; simp at hc
        · exact h x hx

/-- the tail is empty or "/" ++ normal components: the joined path stays below the root, no ".." is left -/
theorem relTail_normal (x : S) (hx : NoEscape x) :
    ∃ K, Normal K ∧ relTail x = if K = [] then [] else '/' :: join ['/'] K := by
  refine ⟨cleanComps false [] (splitOn '/' x),
    cleanComps_noEscape_normal false _ [] (splitOn_no_sep '/' x) (by intro y hy; simp at hy) hx, ?_⟩
  unfold relTail
  cases cleanComps false [] (splitOn '/' x) <;> simp

/-- a normal absolute root followed by such a tail is again a normal absolute path -/
theorem normalAbs_append_relTail (r x : S) (hr : NormalAbs r) (hx : NoEscape x) : NormalAbs (r ++ relTail x) := by
  obtain ⟨K, hK, e⟩ := relTail_normal x hx
  rw [e]
  by_cases hk : K = []
  · simpa [hk] using hr
  · simp only [hk, if_false]
    refine ⟨isAbs_root_append r _ hr, ?_⟩
    have hrne : r ≠ [] := by intro e; have := hr.1; simp [e, isAbs] at this
    have : (r ++ '/' :: join ['/'] K).tail = r.tail ++ '/' :: join ['/'] K := by
      cases r with
      | nil => exact absurd rfl hrne
      | cons y ys => simp
    rw [this, splitOn_append_sep, splitOn_join '/' K (fun y hy => (hK y hy).2.2.2) hk]
    intro c hc
    rcases List.mem_append.mp hc with hc | hc
    · exact hr.2 c hc
    · exact hK c hc

/-! ### `clean` is idempotent -/

/-- shape of the stack of an unrooted `cleanComps` (top first): normal components above a block of ".." -/
def okStack : List S → Prop
  | [] => True
  | top :: rest => (top = ['.', '.'] ∧ ∀ x ∈ rest, x = ['.', '.']) ∨ (NormalC top ∧ okStack rest)

theorem okStack_of_ups : ∀ (st : List S), (∀ x ∈ st, x = ['.', '.']) → okStack st
  | [], _ => trivial
  | t :: rest, h => Or.inl ⟨h t (by simp), fun x hx => h x (by simp [hx])⟩

theorem okStack_tail {t : S} {rest : List S} (h : okStack (t :: rest)) : okStack rest := by
  rcases h with ⟨_, h⟩ | ⟨_, h⟩
  · exact okStack_of_ups rest h
  · exact h

theorem okStack_mem : ∀ (st : List S), okStack st → ∀ x ∈ st, x ≠ [] ∧ '/' ∉ x
  | [], _, x, hx => by simp at hx
  | t :: rest, h, x, hx => by
    rcases List.mem_cons.mp hx with rfl | hx
    · rcases h with ⟨e, _⟩ | ⟨hn, _⟩
      · subst e; decide
      · exact ⟨hn.1, hn.2.2.2⟩
    · exact okStack_mem rest (okStack_tail h) x hx

theorem okStack_cleanComps : ∀ (cs st : List S), (∀ x ∈ cs, '/' ∉ x) → okStack st →
    okStack (cleanComps false st cs).reverse := by
  intro cs
  induction cs with
  | nil => intro st _ h; simpa [cleanComps] using h
  | cons c cs ih =>
    intro st hs h
    have hs' : ∀ x ∈ cs, '/' ∉ x := fun x hx => hs x (by simp [hx])
    simp only [cleanComps]
    split
    · exact ih st hs' h
    · rename_i hc
      split
      · rename_i hdd
        have hcd : c = ['.', '.'] := by simpa using hdd
        split
        · rename_i top rest
          split
          · rename_i htop
            have ht : top = ['.', '.'] := by simpa using htop
            apply ih _ hs'
            rcases h with ⟨_, hall⟩ | ⟨hn, _⟩
            · left
              refine ⟨hcd, ?_⟩
              intro x hx
              rcases List.mem_cons.mp hx with rfl | hx
              · exact ht
              · exact hall x hx
            · exact absurd ht hn.2.2.1
          · exact ih _ hs' (okStack_tail h)
        · simp only [Bool.false_eq_true, if_false]
          exact ih _ hs' (Or.inl ⟨hcd, by simp⟩)
      · rename_i hdd
        apply ih _ hs'
        right
        refine ⟨?_, h⟩
        simp only [Bool.or_eq_true, not_or] at hc
        refine ⟨?_, by simpa using hc.2, by simpa using hdd, hs c (by simp)⟩
        intro e; subst e; simp at hc

theorem cleanComps_okStack_fix : ∀ (st : List S), okStack st → cleanComps false [] st.reverse = st.reverse
  | [], _ => by simp [cleanComps]
  | t :: rest, h => by
    have ih := cleanComps_okStack_fix rest (okStack_tail h)
    rw [List.reverse_cons, cleanComps_append, ih, List.reverse_reverse]
    rcases h with ⟨e, hall⟩ | ⟨hn, _⟩
    · subst e
      cases rest with
      | nil => simp [cleanComps]
      | cons t' rest' =>
        have : t' = ['.', '.'] := hall t' (by simp)
        subst this
        simp [cleanComps]
    · have := cleanComps_of_normal false [t] (by intro x hx; simp at hx; subst hx; exact hn) rest
      simpa using this

theorem join_ne_nil_of_head (k : S) (ks : List S) (hk : k ≠ []) : join ['/'] (k :: ks) ≠ [] := by
  cases ks with
  | nil => simpa [join] using hk
  | cons k' ks => cases k <;> simp_all [join]

theorem join_head? (k : S) (ks : List S) (hk : k ≠ []) : (join ['/'] (k :: ks)).head? = k.head? := by
  cases k with
  | nil => exact absurd rfl hk
  | cons a as => cases ks <;> simp [join]

/-- **`Clean(Clean(p)) = Clean(p)`** (a documented law of Go's `path.Clean`) -/
theorem clean_idem (p : S) : clean (clean p) = clean p := by
  cases hp : isAbs p with
  | true => exact clean_idem_abs p hp
  | false =>
    have hok := okStack_cleanComps (splitOn '/' p) [] (splitOn_no_sep '/' p) trivial
    have hfix := cleanComps_okStack_fix _ hok
    have hmem := okStack_mem _ hok
    rw [List.reverse_reverse] at hfix
    have hcl : clean p = if (join ['/'] (cleanComps false [] (splitOn '/' p))).isEmpty then ['.']
        else join ['/'] (cleanComps false [] (splitOn '/' p)) := by
      simp [clean, hp]
    generalize cleanComps false [] (splitOn '/' p) = K at hfix hmem hcl
    cases K with
    | nil =>
      have : clean p = ['.'] := by simpa [join] using hcl
      rw [this]; decide
    | cons k ks =>
      have hk := hmem k (by simp)
      have hne := join_ne_nil_of_head k ks hk.1
      have he : (join ['/'] (k :: ks)).isEmpty = false := by
        cases h : join ['/'] (k :: ks) <;> simp_all
      rw [he] at hcl
      simp only [Bool.false_eq_true, if_false] at hcl
      rw [hcl]
      have hab : isAbs (join ['/'] (k :: ks)) = false := by
        unfold isAbs
        rw [join_head? k ks hk.1]
        cases k with
        | nil => exact absurd rfl hk.1
        | cons a as =>
          have : a ≠ '/' := fun e => hk.2 (by simp [e])
          simpa using this
      have hsp : splitOn '/' (join ['/'] (k :: ks)) = k :: ks :=
        splitOn_join '/' (k :: ks) (fun x hx => (hmem x (List.mem_reverse.mpr hx)).2) (by simp)
      simp only [clean, hab, hsp, hfix, he, Bool.false_eq_true, if_false]

theorem clean_ne_nil (p : S) : clean p ≠ [] := by
  unfold clean
  simp only
  split
  · simp
  · split
    · simp
    · rename_i h; intro e; simp [e] at h

/-- a relative output file is resolved to a path in canonical form (a fixed point of `clean`), whatever the declaring file is -/
theorem outputPath_clean (declFile f : S) (hf : isAbs f = false) :
    clean (Gv.Layout.outputPath declFile f) = Gv.Layout.outputPath declFile f := by
  simp only [Gv.Layout.outputPath, hf, Bool.false_eq_true, if_false, join2, joinPaths]
  have hd : (dir declFile).isEmpty = false := by
    have := clean_ne_nil (lastSlashPrefix declFile)
    unfold dir
    cases h : clean (lastSlashPrefix declFile) <;> simp_all
  cases f with
  | nil => simp only [List.filter, hd, List.isEmpty_nil, Bool.not_false, Bool.not_true]; exact clean_idem _
  | cons c f => simp only [List.filter, hd, List.isEmpty_cons, Bool.not_false]; exact clean_idem _

end Gv.Path
