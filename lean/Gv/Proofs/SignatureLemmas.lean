import Gv.Model.Signature
import Gv.Proofs.SettingsLemmas

namespace Gv.Signature
open Gv.Str

@[simp] theorem beq_source_source : (Role.source == Role.source) = true := rfl
@[simp] theorem beq_multi_source : (Role.multiSource == Role.source) = false := rfl
@[simp] theorem beq_iface_source : (Role.iface == Role.source) = false := rfl
@[simp] theorem beq_context_source : (Role.context == Role.source) = false := rfl
@[simp] theorem beq_target_source : (Role.target == Role.source) = false := rfl

/-- SPEC: the role of every parameter, in declared order; `seen` = a source parameter occurred earlier -/
def specRoles (o : Opts) : Bool → List Param → List Role
  | _, [] => []
  | seen, p :: ps =>
    let r := roleOf o seen p
    r :: specRoles o (seen || r == .source) ps

theorem roleOf_source_seen (o : Opts) (seen : Bool) (p : Param) (h : roleOf o seen p = .source) : seen = false := by
  unfold roleOf at h
  split at h
  · cases h
  · split at h
    · cases h
    · split at h
      · cases h
      · split at h
        · rename_i hs; simpa using hs
        · cases h

theorem roleOf_multi_seen (o : Opts) (seen : Bool) (p : Param) (h : roleOf o seen p = .multiSource) : seen = true := by
  unfold roleOf at h
  split at h
  · cases h
  · split at h
    · cases h
    · split at h
      · cases h
      · split at h
        · cases h
        · rename_i hs; simpa using hs

/-- the loop of `Parse` computes exactly the specified roles, keeps the order, and tracks the source -/
theorem classify_spec (o : Opts) (rs : List Result) (ps : List Param) : ∀ (d d' : Def),
    classify o rs d ps = .ok d' →
    d'.roles = d.roles ++ specRoles o d.source.isSome ps ∧
    (d'.source.isSome = (d.source.isSome || (specRoles o d.source.isSome ps).contains .source)) ∧
    (d'.multiSources.length = d.multiSources.length + (specRoles o d.source.isSome ps).count .multiSource) := by
  induction ps with
  | nil => intro d d' h; cases h; simp [specRoles]
  | cons p ps ih =>
    intro d d' h
    unfold classify at h
    cases hr : roleOf o d.source.isSome p <;> simp only [hr] at h
    case source =>
      obtain ⟨a, b, c⟩ := ih _ _ h
      simp only [specRoles, hr, beq_source_source, Bool.or_true]
      simp only [Option.isSome_some] at a b c
      refine ⟨by rw [a]; simp, by rw [b]; simp, by rw [c]; simp [List.count_cons]⟩
    case multiSource =>
      obtain ⟨a, b, c⟩ := ih _ _ h
      simp only [specRoles, hr, beq_multi_source, Bool.or_false]
      refine ⟨by rw [a]; simp, by rw [b]; simp, ?_⟩
      rw [c]; simp [List.count_cons]; omega
    case iface =>
      obtain ⟨a, b, c⟩ := ih _ _ h
      simp only [specRoles, hr, beq_iface_source, Bool.or_false]
      refine ⟨by rw [a]; simp, by rw [b]; simp, by rw [c]; simp [List.count_cons]⟩
    case context =>
      obtain ⟨a, b, c⟩ := ih _ _ h
      simp only [specRoles, hr, beq_context_source, Bool.or_false]
      refine ⟨by rw [a]; simp, by rw [b]; simp, by rw [c]; simp [List.count_cons]⟩
    case target =>
      simp only [specRoles, hr, beq_target_source, Bool.or_false]
      split at h
      · obtain ⟨a, b, c⟩ := ih _ _ h
        refine ⟨by rw [a]; simp, by rw [b]; simp, by rw [c]; simp [List.count_cons]⟩
      · split at h
        · obtain ⟨a, b, c⟩ := ih _ _ h
          refine ⟨by rw [a]; simp, by rw [b]; simp, by rw [c]; simp [List.count_cons]⟩
        · cases h
      · cases h

theorem specRoles_seen_no_source (o : Opts) (ps : List Param) : (specRoles o true ps).contains .source = false := by
  induction ps with
  | nil => rfl
  | cons p ps ih =>
    simp only [specRoles, Bool.true_or]
    cases hr : roleOf o true p
    case source => exact absurd (roleOf_source_seen o true p hr) (by simp)
    all_goals simpa using ih

theorem role_cases (r : Role) : r = .source ∨ r = .multiSource ∨ r = .iface ∨ r = .context ∨ r = .target := by
  cases r <;> simp

/-- at most one parameter gets the role `source` -/
theorem specRoles_count_source (o : Opts) (ps : List Param) : ∀ seen : Bool,
    (specRoles o seen ps).count .source = if (specRoles o seen ps).contains .source then 1 else 0 := by
  induction ps with
  | nil => intro seen; simp [specRoles]
  | cons p ps ih =>
    intro seen
    simp only [specRoles]
    rcases role_cases (roleOf o seen p) with hr | hr | hr | hr | hr
    · have h0 := specRoles_seen_no_source o ps
      have h1 := ih true
      rw [h0] at h1
      simp only [hr, beq_source_source, Bool.or_true]
      simp at h1
      simp [List.count_cons, h1]
    all_goals
      simp only [hr]
      simpa [List.count_cons] using ih seen

theorem specRoles_seen_all_multi_or_other (o : Opts) (ps : List Param) :
    (specRoles o false ps).contains .source = false → (specRoles o false ps).count .multiSource = 0 := by
  induction ps with
  | nil => intro _; rfl
  | cons p ps ih =>
    simp only [specRoles, Bool.false_or]
    cases hr : roleOf o false p
    case source => simp
    case multiSource => exact absurd (roleOf_multi_seen o false p hr) (by simp)
    all_goals
      intro h
      have : (specRoles o false ps).contains .source = false := by simpa using h
      simpa [List.count_cons] using ih this

theorem specRoles_length (o : Opts) (ps : List Param) : ∀ seen, (specRoles o seen ps).length = ps.length := by
  induction ps with
  | nil => intro; rfl
  | cons p ps ih => intro seen; simp [specRoles, ih]

end Gv.Signature
