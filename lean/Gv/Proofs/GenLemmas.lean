import Gv.Model.Gen

namespace Gv.Gen

theorem M_bind_ok {α β} (x : M α) (f : α → M β) (st : GState) (r : β × GState) :
    (x >>= f) st = .ok r ↔ ∃ a st1, x st = .ok (a, st1) ∧ f a st1 = .ok r := by
  show (StateT.bind x f) st = .ok r ↔ _
  unfold StateT.bind
  cases hx : x st with
  | ok v =>
    obtain ⟨a, s1⟩ := v
    simp only [bind, Except.bind]
    constructor
    · intro h; exact ⟨a, s1, rfl, h⟩
    · rintro ⟨a', s1', h1, h2⟩; cases h1; exact h2
  | error e => simp [bind, Except.bind]

end Gv.Gen
